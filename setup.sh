#!/bin/sh
# Build the framework from files on disk only (offline): Lean theorems + driver, Go harness.
set -e
cd "$(dirname "$0")"
export GOFLAGS=-mod=mod GOPROXY=off
unset GOSUMDB GOTOOLCHAIN || true
mkdir -p build evidence replays harness/bin
if [ -x extract/run.sh ]; then ./extract/run.sh || true; fi
(cd lean && lake build Shisui Driver drv 2>&1 | tail -3)
cp /repo/go.sum harness/go.sum
(cd harness && go build -tags verif -o bin/harness . && GOEXPERIMENT=synctest go build -tags verif -o bin/harness-synctest . )
echo setup done
