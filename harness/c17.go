//go:build verif

package main

import (
	"bytes"
	"encoding/binary"
	"encoding/hex"
	"fmt"
	"math/rand"
	"os"
	"os/exec"
	"sort"
	"strconv"
	"strings"
	"sync"
	"sync/atomic"
	"time"

	"github.com/cockroachdb/pebble"
	"github.com/cockroachdb/pebble/vfs"
	"github.com/cockroachdb/pebble/vfs/errorfs"
	"github.com/ethereum/go-ethereum/p2p/enode"
	"github.com/zen-eth/shisui/storage"
	spebble "github.com/zen-eth/shisui/storage/pebble"
)

func init() { runners["crash"] = runCrash }

// tornFS sits under the fault injector: when armed, the next Write applies only a prefix of its bytes and then the power
// is off (the call never returns) - a torn write inside one file-system operation.
type tornFS struct {
	vfs.FS
	arm    atomic.Int32 // 0 = off; j+1 = tear the next write at position j of tornSteps
	steps  int
	frozen func()
}

func (t *tornFS) wrap(f vfs.File, err error) (vfs.File, error) {
	if err != nil {
		return nil, err
	}
	return &tornFile{File: f, fs: t}, nil
}
func (t *tornFS) Create(name string) (vfs.File, error) { return t.wrap(t.FS.Create(name)) }
func (t *tornFS) ReuseForWrite(o, n string) (vfs.File, error) {
	return t.wrap(t.FS.ReuseForWrite(o, n))
}
func (t *tornFS) OpenReadWrite(name string, opts ...vfs.OpenOption) (vfs.File, error) {
	return t.wrap(t.FS.OpenReadWrite(name, opts...))
}

type tornFile struct {
	vfs.File
	fs *tornFS
}

func (f *tornFile) Write(p []byte) (int, error) {
	if j := int(f.fs.arm.Load()); j > 0 {
		// where the tear falls: counted from the END of the write (a write often ends with one or two small records - a size
		// record, a batch of deletions - behind the tail of a large value), then the middle and the first byte
		n := 0
		if len(p) > 1 {
			back := []int{1, 8, 40, 100, 200, 400}
			switch {
			case j-1 < len(back):
				n = len(p) - back[j-1]
			case j-1 == len(back):
				n = len(p) / 2
			default:
				n = 1
			}
			n = max(1, min(len(p)-1, n))
		}
		_, _ = f.File.Write(p[:n])
		f.fs.frozen()
		select {}
	}
	return f.File.Write(p)
}

type crashPut struct {
	id   []byte
	n    int
	seed int
}

// runWorkload opens the store on fs and performs the puts; returns how many puts completed.
func runWorkload(fs vfs.FS, node enode.ID, capMB uint64, puts []crashPut, completed *atomic.Int32) {
	db, err := pebble.Open("db", &pebble.Options{FS: fs})
	if err != nil {
		return
	}
	st, err := spebble.NewStorage(storage.PortalStorageConfig{StorageCapacityMB: capMB, NodeId: node, NetworkName: "crash"}, db)
	if err != nil {
		return
	}
	for _, p := range puts {
		_ = st.Put(nil, p.id, genBytes(p.n, p.seed))
		completed.Add(1)
	}
}

type reopenObs struct {
	err       string
	n         int
	held      uint64
	persisted uint64
	hasSize   bool
	radius    string
	items     string // sorted "key/valdigest" list
	maxKept   string
}

// fingerprint of a file system image: names, sizes and content digests
func fsFingerprint(fs vfs.FS) string {
	names, _ := fs.List("db")
	sort.Strings(names)
	var sb strings.Builder
	for _, n := range names {
		f, err := fs.Open(fs.PathJoin("db", n))
		if err != nil {
			fmt.Fprintf(&sb, "%s:!;", n)
			continue
		}
		st, _ := f.Stat()
		buf := make([]byte, st.Size())
		_, _ = f.ReadAt(buf, 0)
		f.Close()
		fmt.Fprintf(&sb, "%s:%d:%x;", n, st.Size(), fnv(buf))
	}
	return sb.String()
}

// stableClone copies the frozen file system. Operations that were admitted before the cut may still be executing
// in other goroutines, and a copy taken while they run is not a state the disk ever was in: copy until two
// consecutive copies are identical.
func stableClone(src vfs.FS) (vfs.FS, error) {
	var prev string
	for i := 0; i < 200; i++ {
		dst := vfs.NewMem()
		if _, err := vfs.Clone(src, dst, "db", "db"); err != nil {
			return nil, err
		}
		fp := fsFingerprint(dst)
		if i > 0 && fp == prev {
			return dst, nil
		}
		prev = fp
		time.Sleep(3 * time.Millisecond)
	}
	return nil, fmt.Errorf("file system did not settle")
}

func reopenOn(src vfs.FS, node enode.ID, capMB uint64) reopenObs {
	dst, err := stableClone(src)
	if err != nil {
		return reopenObs{err: "clone:" + err.Error()}
	}
	var o reopenObs
	func() {
		defer func() {
			if r := recover(); r != nil {
				o.err = fmt.Sprint("panic:", r)
			}
		}()
		db, err := pebble.Open("db", &pebble.Options{FS: dst})
		if err != nil {
			o.err = "open:" + err.Error()
			return
		}
		// a store that is over its capacity prunes on open and hands the range to a detached compaction: such a database is
		// left open (closing it under that goroutine would take the process down); every other one is closed when it has been
		// looked at - there are more than a thousand of them, each with a memtable and a cache of its own
		overCap := false
		if v, closer, gerr := db.Get(storage.SizeKey); gerr == nil {
			overCap = len(v) == 8 && binary.BigEndian.Uint64(v) > capMB*1000_000
			closer.Close()
		}
		if !overCap {
			defer func() { _ = db.Close() }()
		}
		st, err := spebble.NewStorage(storage.PortalStorageConfig{StorageCapacityMB: capMB, NodeId: node, NetworkName: "crash"}, db)
		if err != nil {
			o.err = "newstorage:" + err.Error()
			return
		}
		it, _ := db.NewIter(nil)
		var items []string
		o.maxKept = "-"
		for it.First(); it.Valid(); it.Next() {
			if bytes.Equal(it.Key(), storage.SizeKey) {
				o.persisted = binary.BigEndian.Uint64(it.Value())
				o.hasSize = true
				continue
			}
			o.n++
			o.held += uint64(len(it.Key()) + len(it.Value()))
			items = append(items, fmt.Sprintf("%s/%d:%016x", hex.EncodeToString(it.Key()), len(it.Value()), fnv(it.Value())))
			o.maxKept = hex.EncodeToString(it.Key())
		}
		it.Close()
		sort.Strings(items)
		o.items = strings.Join(items, ",")
		if o.items == "" {
			o.items = "-"
		}
		o.radius = radiusHex(st)
		// a reopened store must keep working
		probe := make([]byte, 32)
		probe[0] = 0x01
		_, _ = st.Get(nil, probe)
	}()
	return o
}

func (o reopenObs) String() string {
	if o.err != "" {
		return "reopen=fail:" + strings.ReplaceAll(o.err, " ", "_")
	}
	return fmt.Sprintf("reopen=ok n=%d held=%d persisted=%d radius=%s maxkept=%s items=%s", o.n, o.held, o.persisted, o.radius, o.maxKept, o.items)
}

func runCrash(o *Out, r *rand.Rand, thorough bool, args []string) {
	nHist, maxCuts, tornSteps := 3, 60, 5
	if thorough {
		nHist, maxCuts, tornSteps = 12, 150, 6
	}
	// every history runs in a process of its own: the database of a simulated crash cannot be closed (a pending detached
	// compaction would take the process down) and stays referenced by pebble's background goroutines, several megabytes each,
	// more than a thousand of them in a run - the memory goes back with the process. `crash <h>` is the child for history h.
	only := -1
	if len(args) > 0 {
		only, _ = strconv.Atoi(args[0])
	} else {
		o.Flush()
		for h := 0; h < nHist; h++ {
			cmd := exec.Command(os.Args[0], "crash", strconv.Itoa(h))
			cmd.Env = os.Environ()
			cmd.Stderr = os.Stderr
			out, err := cmd.Output()
			for _, line := range strings.Split(string(out), "\n") {
				if line != "" && !strings.HasPrefix(line, "#") {
					fmt.Fprintln(o.w, line)
				}
			}
			o.Flush()
			if err != nil {
				fmt.Fprintf(os.Stderr, "crash history %d: %v\n", h, err)
				os.Exit(4)
			}
		}
		return
	}
	for h := 0; h < nHist; h++ {
		// an independent PRNG per history: the number of file-system operations (background compactions) may vary
		// from run to run and must not shift later histories
		r := rand.New(rand.NewSource(r.Int63()))
		if h != only {
			continue
		}
		var node enode.ID
		r.Read(node[:])
		capMB := uint64(1)
		if h == 1 {
			capMB = 8 // the second history has room for values of 2 MiB and more (pebble treats such batches specially)
		}
		nPuts := 12 + r.Intn(6)
		if h == 1 {
			nPuts = 7
		}
		var puts []crashPut
		for i := 0; i < nPuts; i++ {
			id := make([]byte, 32)
			r.Read(id)
			if i > 2 && r.Intn(6) == 0 {
				id = puts[r.Intn(len(puts))].id // overwrite with other bytes
			}
			n := 60000 + r.Intn(60000) // a prune after about ten puts
			if r.Intn(4) == 0 {
				n = r.Intn(3000)
			}
			if h == 0 {
				n = 90000 + r.Intn(20000) // the first history always prunes and passes the 95 % mark
			}
			if h == 1 {
				n = []int{2 << 20, 2<<20 - 1, 3 << 20, 500000, 2<<20 + 1, 900000, 100}[i%7]
			}
			puts = append(puts, crashPut{id, n, r.Intn(1000)})
		}
		o.Case(fmt.Sprintf("chist node=%s cap=%d", hex.EncodeToString(node[:]), capMB*1000_000), "ok")
		for _, p := range puts {
			o.Case(fmt.Sprintf("cput id=%s len=%d seed=%d", hex.EncodeToString(p.id), p.n, p.seed), "ok")
		}
		// count the mutating file-system operations of the uncut run
		var total atomic.Int32
		var opMu sync.Mutex
		logWrite := map[int]bool{} // which mutating operations are writes to a write-ahead log file
		{
			fs := errorfs.Wrap(vfs.NewStrictMem(), errorfs.InjectorFunc(func(op errorfs.Op, path string) error {
				if op.OpKind() == errorfs.OpKindWrite {
					k := int(total.Add(1))
					if op == errorfs.OpFileWrite && strings.HasSuffix(path, ".log") {
						opMu.Lock()
						logWrite[k] = true
						opMu.Unlock()
					}
				}
				return nil
			}))
			var c atomic.Int32
			runWorkload(fs, node, capMB, puts, &c)
			time.Sleep(50 * time.Millisecond) // the detached compaction of a prune
		}
		K := int(total.Load())
		cuts := make([]int, 0, K)
		for k := 1; k <= K; k++ {
			cuts = append(cuts, k)
		}
		if len(cuts) > maxCuts {
			// keep the last operations (prune, sync), every write to a write-ahead log (where batches become durable and
			// where a torn write matters) and a spread of the earlier ones
			keep := map[int]bool{}
			step := float64(len(cuts)-10) / float64(maxCuts-10)
			for i := 0; i < maxCuts-10 && h != 1; i++ { // the large-value history: log writes and the last operations only
				keep[cuts[int(float64(i)*step)]] = true
			}
			for _, k := range cuts[len(cuts)-10:] {
				keep[k] = true
			}
			opMu.Lock()
			for k := range logWrite {
				keep[k] = true
			}
			opMu.Unlock()
			var sel []int
			for _, k := range cuts {
				if keep[k] {
					sel = append(sel, k)
				}
			}
			cuts = sel
		}
		for _, k := range cuts {
			mem := vfs.NewStrictMem()
			var count atomic.Int32
			frozen := make(chan struct{})
			var once sync.Once
			fs := errorfs.Wrap(mem, errorfs.InjectorFunc(func(op errorfs.Op, _ string) error {
				if op.OpKind() == errorfs.OpKindWrite {
					if int(count.Add(1)) >= k {
						once.Do(func() { close(frozen) })
						select {} // the power is off: this call never happens
					}
				}
				return nil
			}))
			var completed atomic.Int32
			done := make(chan struct{})
			go func() { runWorkload(fs, node, capMB, puts, &completed); close(done) }()
			select {
			case <-frozen:
			case <-done:
			case <-time.After(20 * time.Second):
			}
			time.Sleep(2 * time.Millisecond)
			c := completed.Load()
			keep := reopenOn(mem, node, capMB)
			o.Case(fmt.Sprintf("crash cut=%d of=%d variant=keep completed=%d", k, K, c), keep.String())
			mem.ResetToSyncedState()
			drop := reopenOn(mem, node, capMB)
			o.Case(fmt.Sprintf("crash cut=%d of=%d variant=drop completed=%d", k, K, c), drop.String())
			// the same cut landing INSIDE the operation: only a prefix of the bytes of a log write reaches the file
			opMu.Lock()
			isLog := logWrite[k]
			opMu.Unlock()
			if !isLog {
				continue
			}
			for j := 0; j < tornSteps && (h != 1 || j < 2 || thorough); j++ {
				mem := vfs.NewStrictMem()
				frozen := make(chan struct{})
				var once sync.Once
				tf := &tornFS{FS: mem, steps: tornSteps, frozen: func() { once.Do(func() { close(frozen) }) }}
				var count atomic.Int32
				fs := errorfs.Wrap(tf, errorfs.InjectorFunc(func(op errorfs.Op, path string) error {
					if op.OpKind() == errorfs.OpKindWrite {
						n := int(count.Add(1))
						if n == k && op == errorfs.OpFileWrite && strings.HasSuffix(path, ".log") {
							tf.arm.Store(int32(j + 1)) // this very write is torn
						} else if n >= k {
							once.Do(func() { close(frozen) })
							select {}
						}
					}
					return nil
				}))
				var completed atomic.Int32
				done := make(chan struct{})
				go func() { runWorkload(fs, node, capMB, puts, &completed); close(done) }()
				select {
				case <-frozen:
				case <-done:
				case <-time.After(20 * time.Second):
				}
				time.Sleep(2 * time.Millisecond)
				torn := reopenOn(mem, node, capMB)
				o.Case(fmt.Sprintf("crash cut=%d of=%d variant=torn%d completed=%d", k, K, j, completed.Load()), torn.String())
			}
		}
	}
}
