//go:build verif

package main

import (
	"bytes"
	"encoding/binary"
	"encoding/hex"
	"fmt"
	"math/rand"
	"sort"
	"strings"
	"sync"
	"sync/atomic"
	"time"

	"github.com/cockroachdb/pebble"
	"github.com/cockroachdb/pebble/vfs"
	"github.com/cockroachdb/pebble/vfs/errorfs"
	"github.com/ethereum/go-ethereum/p2p/enode"
	"github.com/zen-eth/shisui/storage"
	spebble "github.com/zen-eth/shisui/storage/pebble"
)

func init() { runners["crash"] = runCrash }

type crashPut struct {
	id   []byte
	n    int
	seed int
}

// runWorkload opens the store on fs and performs the puts; returns how many puts completed.
func runWorkload(fs vfs.FS, node enode.ID, capMB uint64, puts []crashPut, completed *atomic.Int32) {
	db, err := pebble.Open("db", &pebble.Options{FS: fs})
	if err != nil {
		return
	}
	st, err := spebble.NewStorage(storage.PortalStorageConfig{StorageCapacityMB: capMB, NodeId: node, NetworkName: "crash"}, db)
	if err != nil {
		return
	}
	for _, p := range puts {
		_ = st.Put(nil, p.id, genBytes(p.n, p.seed))
		completed.Add(1)
	}
}

type reopenObs struct {
	err       string
	n         int
	held      uint64
	persisted uint64
	hasSize   bool
	radius    string
	items     string // sorted "key/valdigest" list
	maxKept   string
}

// fingerprint of a file system image: names, sizes and content digests
func fsFingerprint(fs vfs.FS) string {
	names, _ := fs.List("db")
	sort.Strings(names)
	var sb strings.Builder
	for _, n := range names {
		f, err := fs.Open(fs.PathJoin("db", n))
		if err != nil {
			fmt.Fprintf(&sb, "%s:!;", n)
			continue
		}
		st, _ := f.Stat()
		buf := make([]byte, st.Size())
		_, _ = f.ReadAt(buf, 0)
		f.Close()
		fmt.Fprintf(&sb, "%s:%d:%x;", n, st.Size(), fnv(buf))
	}
	return sb.String()
}

// stableClone copies the frozen file system. Operations that were admitted before the cut may still be executing
// in other goroutines, and a copy taken while they run is not a state the disk ever was in: copy until two
// consecutive copies are identical.
func stableClone(src vfs.FS) (vfs.FS, error) {
	var prev string
	for i := 0; i < 200; i++ {
		dst := vfs.NewMem()
		if _, err := vfs.Clone(src, dst, "db", "db"); err != nil {
			return nil, err
		}
		fp := fsFingerprint(dst)
		if i > 0 && fp == prev {
			return dst, nil
		}
		prev = fp
		time.Sleep(3 * time.Millisecond)
	}
	return nil, fmt.Errorf("file system did not settle")
}

func reopenOn(src vfs.FS, node enode.ID, capMB uint64) reopenObs {
	dst, err := stableClone(src)
	if err != nil {
		return reopenObs{err: "clone:" + err.Error()}
	}
	var o reopenObs
	func() {
		defer func() {
			if r := recover(); r != nil {
				o.err = fmt.Sprint("panic:", r)
			}
		}()
		db, err := pebble.Open("db", &pebble.Options{FS: dst})
		if err != nil {
			o.err = "open:" + err.Error()
			return
		}
		st, err := spebble.NewStorage(storage.PortalStorageConfig{StorageCapacityMB: capMB, NodeId: node, NetworkName: "crash"}, db)
		if err != nil {
			o.err = "newstorage:" + err.Error()
			return
		}
		it, _ := db.NewIter(nil)
		var items []string
		o.maxKept = "-"
		for it.First(); it.Valid(); it.Next() {
			if bytes.Equal(it.Key(), storage.SizeKey) {
				o.persisted = binary.BigEndian.Uint64(it.Value())
				o.hasSize = true
				continue
			}
			o.n++
			o.held += uint64(len(it.Key()) + len(it.Value()))
			items = append(items, fmt.Sprintf("%s/%d:%016x", hex.EncodeToString(it.Key()), len(it.Value()), fnv(it.Value())))
			o.maxKept = hex.EncodeToString(it.Key())
		}
		it.Close()
		sort.Strings(items)
		o.items = strings.Join(items, ",")
		if o.items == "" {
			o.items = "-"
		}
		o.radius = radiusHex(st)
		// a reopened store must keep working
		probe := make([]byte, 32)
		probe[0] = 0x01
		_, _ = st.Get(nil, probe)
	}()
	return o
}

func (o reopenObs) String() string {
	if o.err != "" {
		return "reopen=fail:" + strings.ReplaceAll(o.err, " ", "_")
	}
	return fmt.Sprintf("reopen=ok n=%d held=%d persisted=%d radius=%s maxkept=%s items=%s", o.n, o.held, o.persisted, o.radius, o.maxKept, o.items)
}

func runCrash(o *Out, r *rand.Rand, thorough bool, _ []string) {
	nHist, maxCuts := 3, 60
	if thorough {
		nHist, maxCuts = 25, 400
	}
	for h := 0; h < nHist; h++ {
		// an independent PRNG per history: the number of file-system operations (background compactions) may vary
		// from run to run and must not shift later histories
		r := rand.New(rand.NewSource(r.Int63()))
		var node enode.ID
		r.Read(node[:])
		capMB := uint64(1)
		nPuts := 12 + r.Intn(6)
		var puts []crashPut
		for i := 0; i < nPuts; i++ {
			id := make([]byte, 32)
			r.Read(id)
			if i > 2 && r.Intn(6) == 0 {
				id = puts[r.Intn(len(puts))].id // overwrite with other bytes
			}
			n := 60000 + r.Intn(60000) // a prune after about ten puts
			if r.Intn(4) == 0 {
				n = r.Intn(3000)
			}
			if h == 0 {
				n = 90000 + r.Intn(20000) // the first history always prunes and passes the 95 % mark
			}
			puts = append(puts, crashPut{id, n, r.Intn(1000)})
		}
		o.Case(fmt.Sprintf("chist node=%s cap=%d", hex.EncodeToString(node[:]), capMB*1000_000), "ok")
		for _, p := range puts {
			o.Case(fmt.Sprintf("cput id=%s len=%d seed=%d", hex.EncodeToString(p.id), p.n, p.seed), "ok")
		}
		// count the mutating file-system operations of the uncut run
		var total atomic.Int32
		{
			fs := errorfs.Wrap(vfs.NewStrictMem(), errorfs.InjectorFunc(func(op errorfs.Op, _ string) error {
				if op.OpKind() == errorfs.OpKindWrite {
					total.Add(1)
				}
				return nil
			}))
			var c atomic.Int32
			runWorkload(fs, node, capMB, puts, &c)
			time.Sleep(50 * time.Millisecond) // the detached compaction of a prune
		}
		K := int(total.Load())
		cuts := make([]int, 0, K)
		for k := 1; k <= K; k++ {
			cuts = append(cuts, k)
		}
		if len(cuts) > maxCuts {
			// keep the last operations (prune, sync) and a spread of the earlier ones
			var sel []int
			step := float64(len(cuts)-10) / float64(maxCuts-10)
			for i := 0; i < maxCuts-10; i++ {
				sel = append(sel, cuts[int(float64(i)*step)])
			}
			sel = append(sel, cuts[len(cuts)-10:]...)
			cuts = sel
		}
		for _, k := range cuts {
			mem := vfs.NewStrictMem()
			var count atomic.Int32
			frozen := make(chan struct{})
			var once sync.Once
			fs := errorfs.Wrap(mem, errorfs.InjectorFunc(func(op errorfs.Op, _ string) error {
				if op.OpKind() == errorfs.OpKindWrite {
					if int(count.Add(1)) >= k {
						once.Do(func() { close(frozen) })
						select {} // the power is off: this call never happens
					}
				}
				return nil
			}))
			var completed atomic.Int32
			done := make(chan struct{})
			go func() { runWorkload(fs, node, capMB, puts, &completed); close(done) }()
			select {
			case <-frozen:
			case <-done:
			case <-time.After(20 * time.Second):
			}
			time.Sleep(2 * time.Millisecond)
			c := completed.Load()
			keep := reopenOn(mem, node, capMB)
			o.Case(fmt.Sprintf("crash cut=%d of=%d variant=keep completed=%d", k, K, c), keep.String())
			mem.ResetToSyncedState()
			drop := reopenOn(mem, node, capMB)
			o.Case(fmt.Sprintf("crash cut=%d of=%d variant=drop completed=%d", k, K, c), drop.String())
		}
	}
}
