//go:build verif

package main

import (
	"crypto/sha256"
	"fmt"
	"math/rand"
	"net"
	"strings"
	"sync"
	"sync/atomic"
	"time"

	bitfield "github.com/OffchainLabs/go-bitfield"
	"github.com/ethereum/go-ethereum/p2p/enode"
	"github.com/holiman/uint256"
	"github.com/zen-eth/shisui/portalwire"
)

func init() { runners["permits"] = runPermits }

func freeSlots(n *realNode, inbound bool, limit int) int {
	return n.p.Utp.VerifTryAcquireAll(inbound, limit+5)
}

// waitFree polls until all slots are back (activity has ceased) or the deadline passes; returns what is obtainable.
func waitFree(n *realNode, inbound bool, limit int, d time.Duration) int {
	deadline := time.Now().Add(d)
	for {
		f := freeSlots(n, inbound, limit)
		if f == limit || time.Now().After(deadline) {
			return f
		}
		time.Sleep(5 * time.Millisecond)
	}
}

func acceptBytes(version uint8, verdicts []uint8, cid uint16) []byte {
	id := []byte{byte(cid >> 8), byte(cid)}
	var body []byte
	if version == 0 {
		bl := bitfield.NewBitlist(uint64(len(verdicts)))
		for i, v := range verdicts {
			if v == 0 {
				bl.SetBitAt(uint64(i), true)
			}
		}
		a := &portalwire.Accept{ConnectionId: id, ContentKeys: bl}
		body, _ = a.MarshalSSZ()
	} else {
		a := &portalwire.AcceptV1{ConnectionId: id, ContentKeys: verdicts}
		body, _ = a.MarshalSSZ()
	}
	return append([]byte{portalwire.ACCEPT}, body...)
}

func runPermits(o *Out, r *rand.Rand, thorough bool, _ []string) {
	// (1) the controller itself: random acquire / release / release-again sequences
	nSeq := 150
	if thorough {
		nSeq = 5000
	}
	for s := 0; s < nSeq; s++ {
		limit := r.Intn(6)
		c := portalwire.VerifNewUtpController(limit)
		var held []portalwire.Permit
		var ops, res []string
		for i := 0; i < 5+r.Intn(25); i++ {
			switch r.Intn(3) {
			case 0, 1:
				inbound := r.Intn(2) == 0
				var p portalwire.Permit
				var ok bool
				if inbound {
					p, ok = c.VerifGetInbound()
					ops = append(ops, "ai")
				} else {
					p, ok = c.VerifGetOutbound()
					ops = append(ops, "ao")
				}
				res = append(res, fmt.Sprint(b2i(ok)))
				held = append(held, p) // a refused permit is kept too: releasing it must be a no-op
			default:
				if len(held) == 0 {
					continue
				}
				k := r.Intn(len(held))
				held[k].Release() // possibly a repeated release
				ops = append(ops, fmt.Sprintf("r%d", k))
				res = append(res, "-")
			}
		}
		// what is obtainable afterwards
		fi, fo := 0, 0
		for {
			if _, ok := c.VerifGetInbound(); !ok {
				break
			}
			fi++
		}
		for {
			if _, ok := c.VerifGetOutbound(); !ok {
				break
			}
			fo++
		}
		o.Case(fmt.Sprintf("permitops limit=%d ops=%s", limit, strings.Join(append([]string{"-"}, ops...), ",")),
			fmt.Sprintf("res=%s free_in=%d free_out=%d", strings.Join(append([]string{"-"}, res...), ","), fi, fo))
	}

	mn := newMemNet()
	limit := 3
	// (1b) inbound offers that were accepted: the slot is held while the node waits for the announced connection and is
	// given back when the peer never opens it (15 s connect timeout - collected at the end of the run), when the node is
	// stopped while waiting, and for an offer that arrives after the stop
	allRadius := new(uint256.Int).SetAllOne()
	inboundOffer := func(n *realNode, version uint8, tag byte) string {
		asker := signRecPad(keyFromSeed(r), net.IP{34, 9, tag, byte(1 + r.Intn(200))}, 7200, 1, 0)
		n.p.VerifVersionsCacheSet(asker, version)
		var keys [][]byte
		for len(keys) < 2 {
			key := make([]byte, 14)
			r.Read(key)
			idh := sha256.Sum256(key)
			if portalwire.VerifInRange(n.p.Self().ID(), allRadius, idh[:]) {
				keys = append(keys, key)
			}
		}
		resp, err := n.p.VerifHandleOffer(asker, &net.UDPAddr{IP: asker.IP(), Port: 7200}, &portalwire.Offer{ContentKeys: keys})
		if err != nil {
			return "error"
		}
		return strings.Fields(decodeAccept(version, resp, 2))[1] // conn=0|1
	}
	silentNode := startNode(mn, r, nodeOpts{ip: net.IP{34, 5, 6, 1}, port: 9810, versions: []uint8{0, 1}, utpLimit: limit, noWorkers: true,
		store: &radiusStore{db: map[string][]byte{}, radius: allRadius}})
	silentAcc := inboundOffer(silentNode, 1, 1) + "," + inboundOffer(silentNode, 0, 2)
	silentT0 := time.Now()
	o.Case(fmt.Sprintf("inbound kind=pending limit=%d n=2", limit), fmt.Sprintf("%s free=%d", silentAcc, freeSlots(silentNode, true, limit)))
	{
		sn := startNode(mn, r, nodeOpts{ip: net.IP{34, 5, 6, 2}, port: 9811, versions: []uint8{0, 1}, utpLimit: limit, noWorkers: true,
			store: &radiusStore{db: map[string][]byte{}, radius: allRadius}})
		acc := inboundOffer(sn, 1, 3) + "," + inboundOffer(sn, 0, 4)
		sn.stop()
		free := waitFree(sn, true, limit, 2*time.Second)
		o.Case(fmt.Sprintf("inbound kind=stop_while_waiting limit=%d n=2", limit), fmt.Sprintf("%s free=%d", acc, free))
		// the talk handler stays registered: an offer after the stop still takes the accept path
		acc = inboundOffer(sn, 1, 5)
		free = waitFree(sn, true, limit, 2*time.Second)
		o.Case(fmt.Sprintf("inbound kind=offer_after_stop limit=%d n=1", limit), fmt.Sprintf("%s free=%d", acc, free))
	}

	// (2) outbound offers against scripted replies: every outcome must give the slot back
	a := startNode(mn, r, nodeOpts{ip: net.IP{34, 5, 5, 1}, port: 9800, versions: []uint8{0, 1}, utpLimit: limit, noWorkers: true})
	b := startNode(mn, r, nodeOpts{ip: net.IP{34, 6, 6, 1}, port: 9801, versions: []uint8{0, 1}, utpLimit: limit})
	a.p.AddEnr(b.p.Self())
	b.p.AddEnr(a.p.Self())
	_, _ = a.p.VerifPing(b.p.Self())
	mkReq := func(n int) *portalwire.OfferRequest {
		var es []*portalwire.ContentEntry
		for k := 0; k < n; k++ {
			key := make([]byte, 12)
			r.Read(key)
			es = append(es, &portalwire.ContentEntry{ContentKey: key, Content: genBytes(20, k)})
		}
		return &portalwire.OfferRequest{Kind: portalwire.TransientOfferRequestKind, Request: &portalwire.TransientOfferRequest{Contents: es}}
	}
	kinds := []string{"empty", "wrongcode", "undecodable", "wrongcount_declined", "wrongcount_accepting", "shortcount_accepting", "all_declined", "truncated", "accepted_in_progress"}
	reps := 2
	if thorough {
		reps = 20
	}
	if metricsOn && !thorough {
		reps = 1
	}
	for rep := 0; rep < reps; rep++ {
		for _, kind := range kinds {
			for _, version := range []uint8{0, 1} {
				target := signRecPad(keyFromSeed(r), net.IP{34, 7, byte(rep), byte(1 + r.Intn(200))}, 7000, 1, 0)
				a.p.VerifVersionsCacheSet(target, version)
				nKeys := 2 + r.Intn(3)
				req := mkReq(nKeys)
				var resp []byte
				switch kind {
				case "empty":
				case "wrongcode":
					resp = append([]byte{portalwire.PONG}, acceptBytes(version, make([]uint8, nKeys), 0)[1:]...)
				case "undecodable":
					resp = []byte{portalwire.ACCEPT, 1}
				case "wrongcount_declined":
					v := make([]uint8, nKeys+1)
					for i := range v {
						v[i] = 1
					}
					resp = acceptBytes(version, v, 0)
				case "wrongcount_accepting":
					v := make([]uint8, nKeys+2)
					for i := range v {
						v[i] = 1
					}
					v[r.Intn(len(v))] = 0
					resp = acceptBytes(version, v, 77)
				case "shortcount_accepting":
					v := make([]uint8, nKeys-1)
					v[0] = 0
					resp = acceptBytes(version, v, 78)
				case "all_declined":
					v := make([]uint8, nKeys)
					for i := range v {
						v[i] = uint8(1 + r.Intn(5))
					}
					resp = acceptBytes(version, v, 0)
				case "truncated":
					full := acceptBytes(version, make([]uint8, nKeys), 5)
					resp = full[:len(full)-1-r.Intn(2)]
				case "accepted_in_progress":
					// a well-formed ACCEPT accepting every key; the target never answers the uTP dial, so the transfer
					// is in progress (until the 15 s connect timeout) when the slots are counted
					resp = acceptBytes(version, make([]uint8, nKeys), 4242)
				}
				permit, ok := a.p.Utp.GetOutboundPermit()
				if !ok {
					o.Case(fmt.Sprintf("procoffer kind=%s v=%d limit=%d", kind, version, limit), "nopermit")
					continue
				}
				_, err := a.p.VerifProcessOffer(target, resp, req, permit)
				var free int
				if kind == "accepted_in_progress" {
					time.Sleep(30 * time.Millisecond)
					free = freeSlots(a, false, limit) // the slot must still be held by the transfer
				} else {
					free = waitFree(a, false, limit, 300*time.Millisecond)
				}
				o.Case(fmt.Sprintf("procoffer kind=%s v=%d limit=%d", kind, version, limit), fmt.Sprintf("%s free=%d", errStr(err), free))
				if free != limit { // do not let one leak hide the next
					a.stop()
					a = startNode(mn, r, nodeOpts{ip: net.IP{34, 5, 5, 1}, port: 9800, versions: []uint8{0, 1}, utpLimit: limit, noWorkers: true})
					a.p.AddEnr(b.p.Self())
				}
			}
		}
	}

	// (3) a silent peer: the TALKREQ times out, offer() returns an error, the slot must come back
	for i := 0; i < 2; i++ {
		silent := signRecPad(keyFromSeed(r), net.IP{34, 8, 8, byte(1 + i)}, 7100, 1, 0)
		permit, _ := a.p.Utp.GetOutboundPermit()
		_, err := a.p.VerifOffer(silent, mkReq(2), permit)
		free := waitFree(a, false, limit, 300*time.Millisecond)
		o.Case(fmt.Sprintf("offersilent limit=%d", limit), fmt.Sprintf("%s free=%d", errStr(err), free))
		if free != limit {
			a.stop()
			a = startNode(mn, r, nodeOpts{ip: net.IP{34, 5, 5, 1}, port: 9800, versions: []uint8{0, 1}, utpLimit: limit, noWorkers: true})
			a.p.AddEnr(b.p.Self())
		}
	}

	// (3a) offers that cannot be sent at all: more keys than an OFFER may carry, a key longer than a key may be - the slot
	// comes back although no peer was ever asked
	for _, kind := range []string{"too_many_keys", "key_too_long", "no_keys", "no_common_version", "empty_version_list", "malformed_version_entry"} {
		target := signRecPad(keyFromSeed(r), net.IP{34, 8, 10, byte(1 + len(kind))}, 7150, 1, 0)
		switch kind {
		case "no_common_version": // first contact with a peer that shares no version with us: nothing is in the version cache
			target = signRecPv(keyFromSeed(r), net.IP{34, 8, 10, 77}, 7150, 1, []uint8{3})
		case "empty_version_list":
			target = signRecPv(keyFromSeed(r), net.IP{34, 8, 10, 78}, 7150, 1, []uint8{})
		case "malformed_version_entry":
			target = peerNode(r, nil, badPv{1, 2})
		default:
			a.p.VerifVersionsCacheSet(target, 1)
		}
		var req *portalwire.OfferRequest
		switch kind {
		case "no_common_version", "empty_version_list", "malformed_version_entry":
			req = mkReq(2)
		case "too_many_keys":
			req = mkReq(65 + r.Intn(3))
		case "key_too_long":
			req = mkReq(2)
			req.Request.(*portalwire.TransientOfferRequest).Contents[1].ContentKey = make([]byte, 2049+r.Intn(10))
		default:
			req = mkReq(0)
		}
		permit, _ := a.p.Utp.GetOutboundPermit()
		_, err := a.p.VerifOffer(target, req, permit)
		free := waitFree(a, false, limit, 1500*time.Millisecond)
		o.Case(fmt.Sprintf("offerunsendable kind=%s limit=%d", kind, limit), fmt.Sprintf("%s free=%d", errStr(err), free))
		if free != limit {
			a.stop()
			a = startNode(mn, r, nodeOpts{ip: net.IP{34, 5, 5, 1}, port: 9800, versions: []uint8{0, 1}, utpLimit: limit, noWorkers: true})
			a.p.AddEnr(b.p.Self())
		}
	}

	// (3a) an accepted transfer whose dial nobody answers: the ACCEPT names a connection id - any 16-bit value, the ends of the
	// range included -; the sending goroutine gives up at the connect timeout (15 s; a Stop() in between does not shorten it) and
	// the slot is back. The four cases wait side by side.
	if !metricsOn {
		cids := []uint16{0, 1, 0xffff, uint16(2 + r.Intn(65000))}
		lines := make([][2]string, len(cids))
		var wg sync.WaitGroup
		for ci, cid := range cids {
			version := uint8(cid % 2)
			sn := startNode(mn, r, nodeOpts{ip: net.IP{34, 5, 8, byte(1 + ci)}, port: 9830 + ci, versions: []uint8{0, 1}, utpLimit: limit, noWorkers: true})
			target := signRecPad(keyFromSeed(r), net.IP{34, 8, 10, byte(1 + ci)}, 7301, 1, 0)
			sn.p.VerifVersionsCacheSet(target, version)
			req := mkReq(2)
			wg.Add(1)
			go func() {
				defer wg.Done()
				permit, _ := sn.p.Utp.GetOutboundPermit()
				_, err := sn.p.VerifProcessOffer(target, acceptBytes(version, make([]uint8, 2), cid), req, permit)
				free := waitFree(sn, false, limit, 28*time.Second)
				lines[ci] = [2]string{fmt.Sprintf("procoffer kind=accepted_dial_unanswered v=%d limit=%d cid=%d", version, limit, cid), fmt.Sprintf("%s free=%d", errStr(err), free)}
				sn.stop()
			}()
		}
		wg.Wait()
		for _, l := range lines {
			o.Case(l[0], l[1])
		}
	}

	// (3b) shutdown between the ACCEPT and the transfer: the reply of an offer that was sent before Stop() is processed
	// after it; the transfer goroutine finds its context cancelled - the slot must come back on that exit too
	for _, version := range []uint8{0, 1} {
		sn := startNode(mn, r, nodeOpts{ip: net.IP{34, 5, 7, byte(1 + version)}, port: 9820 + int(version), versions: []uint8{0, 1}, utpLimit: limit, noWorkers: true})
		target := signRecPad(keyFromSeed(r), net.IP{34, 8, 9, byte(1 + version)}, 7300, 1, 0)
		sn.p.VerifVersionsCacheSet(target, version)
		permit, _ := sn.p.Utp.GetOutboundPermit()
		sn.stop()
		_, err := sn.p.VerifProcessOffer(target, acceptBytes(version, make([]uint8, 2), 4343), mkReq(2), permit)
		free := waitFree(sn, false, limit, 2*time.Second)
		o.Case(fmt.Sprintf("procoffer kind=accepted_after_stop v=%d limit=%d", version, limit), fmt.Sprintf("%s free=%d", errStr(err), free))
	}

	// (4) gossip with a full offer queue: a slot is taken per target before the request is dropped
	{
		g := startNode(mn, r, nodeOpts{ip: net.IP{34, 5, 5, 2}, port: 9802, utpLimit: 8, noWorkers: true})
		known := fillTable(g, r, 40, false)
		_ = known
		key := []byte("gossip-full")
		idh := sha256.Sum256(key)
		closest := g.p.VerifFindNodesCloseToContent(idh[:], 32)
		max, _ := new(uint256.Int).SetAllOne().MarshalSSZ()
		for _, n2 := range closest {
			g.p.VerifRadiusCacheSet(n2.ID(), max)
		}
		for _, full := range []bool{false, true} {
			if full {
				g.p.VerifFillOfferQueue()
			}
			peers, err := g.p.GossipAndReturnPeers(nil, [][]byte{key}, [][]byte{{1, 2, 3}})
			queued := 0
			if !full {
				for _, q := range g.p.VerifDrainOfferQueue() {
					q.VerifPermit().Release() // what the offer workers do in the end
					queued++
				}
			}
			free := waitFree(g, false, 8, 300*time.Millisecond)
			o.Case(fmt.Sprintf("gossipq full=%d limit=8 targets=%d", b2i(full), len(peers)), fmt.Sprintf("%s queued=%d free=%d", errStr(err), queued, free))
		}
		g.stop()
	}

	// (4a) offers that wait in the queue while their target LEAVES the routing table (a failed revalidation, an operator's
	// delete): a node with its offer workers running gossips twelve items to silent peers - far more offers than workers get
	// through at once -, the peers are deleted from the table straight away; when the queue has drained and the timeouts have
	// passed every slot is free
	if !metricsOn {
		const burstLimit = 96
		g := startNode(mn, r, nodeOpts{ip: net.IP{34, 5, 5, 5}, port: 9805, utpLimit: burstLimit})
		known := fillTable(g, r, 40, false)
		max, _ := new(uint256.Int).SetAllOne().MarshalSSZ()
		for id := range known {
			g.p.VerifRadiusCacheSet(id, max)
		}
		sent := 0
		for i := 0; i < 12; i++ {
			if n, err := g.p.Gossip(nil, [][]byte{[]byte(fmt.Sprintf("burst-%d", i))}, [][]byte{{1, 2, 3}}); err == nil {
				sent += n
			}
		}
		for _, kn := range known {
			g.p.VerifTable().VerifDeleteNode(kn.node)
		}
		free := waitFree(g, false, burstLimit, 30*time.Second)
		o.Case(fmt.Sprintf("gossiprace limit=%d callers=1 calls=12 dropped_from_table=1", burstLimit), fmt.Sprintf("free=%d targets_ge1=%d", free, b2i(sent > 0)))
		g.stop()
	}

	// (4b) the same drop, reached the only way a running node reaches it: the queue fills up WHILE gossip calls are under way.
	// One goroutine keeps topping the queue up, one keeps emptying it (giving back the slots of what it takes out, as the offer
	// workers do), several call Gossip; the slot limit is above the queue's capacity so that slots never run out first. When all
	// have stopped and the queue is empty, every slot is free again.
	{
		const raceLimit = 3000
		g := startNode(mn, r, nodeOpts{ip: net.IP{34, 5, 5, 4}, port: 9804, utpLimit: raceLimit, noWorkers: true})
		fillTable(g, r, 40, false)
		key := []byte("gossip-race")
		idh := sha256.Sum256(key)
		max, _ := new(uint256.Int).SetAllOne().MarshalSSZ()
		for _, n2 := range g.p.VerifFindNodesCloseToContent(idh[:], 32) {
			g.p.VerifRadiusCacheSet(n2.ID(), max)
		}
		stop := make(chan struct{})
		var wg sync.WaitGroup
		spin := func(f func()) {
			wg.Add(1)
			go func() {
				defer wg.Done()
				for {
					select {
					case <-stop:
						return
					default:
						f()
					}
				}
			}()
		}
		spin(func() { g.p.VerifFillOfferQueue() })
		spin(func() {
			for _, q := range g.p.VerifDrainOfferQueue() {
				q.VerifPermit().Release()
			}
		})
		calls := 1500
		if thorough {
			calls = 20000
		}
		var dropped, sent int64
		var gw sync.WaitGroup
		for w := 0; w < 4; w++ {
			gw.Add(1)
			go func() {
				defer gw.Done()
				for c := 0; c < calls; c++ {
					before := g.p.VerifOfferQueueLen()
					peers, _ := g.p.GossipAndReturnPeers(nil, [][]byte{key}, [][]byte{{1, 2, 3}})
					_ = before
					atomic.AddInt64(&sent, int64(len(peers)))
				}
			}()
		}
		gw.Wait()
		close(stop)
		wg.Wait()
		for _, q := range g.p.VerifDrainOfferQueue() {
			q.VerifPermit().Release()
		}
		_ = dropped
		free := waitFree(g, false, raceLimit, 500*time.Millisecond)
		o.Case(fmt.Sprintf("gossiprace limit=%d callers=4 calls=%d", raceLimit, calls), fmt.Sprintf("free=%d targets_ge1=%d", free, b2i(sent > 0)))
		g.stop()
	}

	// (5) real transfers, more offers than slots, through the gossip path of a node with workers: afterwards every
	// outbound slot of the offerer and every inbound slot of the receiver must be obtainable again
	{
		c := startNode(mn, r, nodeOpts{ip: net.IP{34, 5, 5, 3}, port: 9803, versions: []uint8{0, 1}, utpLimit: limit})
		c.p.AddEnr(b.p.Self())
		_, _ = c.p.VerifPing(b.p.Self())
		max, _ := new(uint256.Int).SetAllOne().MarshalSSZ()
		c.p.VerifRadiusCacheSet(b.p.Self().ID(), max)
		rounds := 8
		if thorough {
			rounds = 60
		}
		sent := 0
		for i := 0; i < rounds; i++ {
			key := []byte(fmt.Sprintf("g-%d-%d", i, r.Intn(1000)))
			if n, err := c.p.Gossip(nil, [][]byte{key}, [][]byte{genBytes(100+r.Intn(3000), i)}); err == nil {
				sent += n
			}
			if r.Intn(2) == 0 {
				time.Sleep(20 * time.Millisecond)
			}
		}
		// a transfer that stalls (a loaded machine) is given up by the code at its own deadlines - 15 s to connect, 60 s to write,
		// 60 s to read; "once activity has ceased" is after those, so the wait is longer than the longest of them
		fo := waitFree(c, false, limit, 80*time.Second)
		fi := waitFree(b, true, limit, 80*time.Second)
		arrived := len(b.queue)
		o.Case(fmt.Sprintf("e2e limit=%d rounds=%d", limit, rounds), fmt.Sprintf("free_out=%d free_in=%d sent_ge1=%d arrived_ge1=%d", fo, fi, b2i(sent > 0), b2i(arrived > 0)))
		c.stop()
	}
	// (1b, continued) the peers of the two pending inbound offers never opened their connections: after the connect
	// timeout both slots must be back
	if d := 15500*time.Millisecond - time.Since(silentT0); d > 0 {
		time.Sleep(d)
	}
	o.Case(fmt.Sprintf("inbound kind=peer_silent limit=%d n=2", limit), fmt.Sprintf("%s free=%d", silentAcc, waitFree(silentNode, true, limit, 3*time.Second)))
	silentNode.stop()
	a.stop()
	b.stop()
	_ = enode.ID{}
}
