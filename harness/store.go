//go:build verif

package main

import (
	"bytes"
	"encoding/binary"
	"encoding/hex"
	"errors"
	"fmt"
	"math/rand"
	"runtime/debug"
	"sort"
	"strings"
	"sync"
	"sync/atomic"
	"time"

	"github.com/cockroachdb/pebble"
	"github.com/cockroachdb/pebble/vfs"
	"github.com/ethereum/go-ethereum/p2p/enode"
	"github.com/zen-eth/shisui/history"
	"github.com/zen-eth/shisui/storage"
	spebble "github.com/zen-eth/shisui/storage/pebble"
)

func init() { runners["store"] = runStore }

type storeObs struct {
	n         int
	held      uint64
	persisted uint64
	maxKept   string
	keys      map[string]bool
}

func observe(db *pebble.DB) storeObs {
	o := storeObs{maxKept: "-", keys: map[string]bool{}}
	it, err := db.NewIter(nil)
	if err != nil {
		panic(err)
	}
	defer it.Close()
	for it.First(); it.Valid(); it.Next() {
		if bytes.Equal(it.Key(), storage.SizeKey) {
			o.persisted = binary.BigEndian.Uint64(it.Value())
			continue
		}
		o.n++
		o.held += uint64(len(it.Key()) + len(it.Value()))
		o.maxKept = hex.EncodeToString(it.Key())
		o.keys[string(it.Key())] = true
	}
	return o
}

func radiusHex(s storage.ContentStorage) string {
	b := s.Radius().Bytes32() // big-endian image of the advertised number
	return hex.EncodeToString(b[:])
}

func (o storeObs) snap(s storage.ContentStorage) string {
	return fmt.Sprintf("n=%d held=%d persisted=%d radius=%s maxkept=%s", o.n, o.held, o.persisted, radiusHex(s), o.maxKept)
}

func xorKey(id, node []byte) []byte {
	pad := make([]byte, 32)
	copy(pad, id)
	out := make([]byte, 32)
	for i := range out {
		out[i] = pad[i] ^ node[i]
	}
	return out
}

type retained struct {
	got  []byte
	copy []byte
}

// sameBytes compares a slice handed out by Get with the copy taken when it was returned. Reading the slice
// can fault when its backing memory has been released (pebble manages block and memtable memory manually);
// a fault counts as "changed".
func sameBytes(rt retained) (same bool) {
	old := debug.SetPanicOnFault(true)
	defer debug.SetPanicOnFault(old)
	defer func() {
		if recover() != nil {
			same = false
		}
	}()
	return bytes.Equal(rt.got, rt.copy)
}

func runStore(o *Out, r *rand.Rand, thorough bool, args []string) {
	nHist, nPuts := 30, 110
	if thorough {
		nHist, nPuts = 300, 160
	}
	corpusReopenEmpty(o)
	if len(args) > 0 && args[0] == "corpus" {
		tinyHistory(o, r) // ends with a reopen: the usage figure a pass of more than a thousand deletions left on disk
		return
	}
	for h := 0; h < nHist; h++ {
		storeHistory(o, r, h, nPuts, thorough)
	}
	bigHistory(o, r)
	tinyHistory(o, r)
	twoStores(o, r)
	aliasHistory(o, r, thorough)
	concSchedules(o, r)
	concPruneSync(o, r)
}

// gateFS lets a run hold back the syncs of chosen files (the write-ahead log)
type gateFS struct {
	vfs.FS
	gate func(name string)
}

func (g gateFS) Create(name string) (vfs.File, error) {
	f, err := g.FS.Create(name)
	if err != nil {
		return nil, err
	}
	return gateFile{f, name, g.gate}, nil
}
func (g gateFS) ReuseForWrite(oldname, newname string) (vfs.File, error) {
	f, err := g.FS.ReuseForWrite(oldname, newname)
	if err != nil {
		return nil, err
	}
	return gateFile{f, newname, g.gate}, nil
}

type gateFile struct {
	vfs.File
	name string
	gate func(string)
}

func (f gateFile) Sync() error     { f.gate(f.name); return f.File.Sync() }
func (f gateFile) SyncData() error { f.gate(f.name); return f.File.SyncData() }
func (f gateFile) SyncTo(n int64) (bool, error) {
	f.gate(f.name)
	return f.File.SyncTo(n)
}

// concPruneSync: put A takes the store over capacity and prunes; its pruning batch is committed with Sync, and the write-ahead
// log's fsync is held back by the file system. While A waits there, put B of a near item runs to completion; then the fsync
// returns. The counter (in memory and persisted) must still cover what is held.
func concPruneSync(o *Out, r *rand.Rand) {
	// first, one goroutine only: what the database holds at the moment a put has committed its item and is about to commit its
	// pruning batch (the named yield point inside prune) - what a reader sees then, and what a crash that keeps written data
	// would leave: the usage figure on disk covers the bytes held at that moment too
	{
		db, err := pebble.Open("", &pebble.Options{FS: vfs.NewMem()})
		if err != nil {
			panic(err)
		}
		var node enode.ID
		r.Read(node[:])
		st, err := spebble.NewStorage(storage.PortalStorageConfig{StorageCapacityMB: 1, NodeId: node, NetworkName: "verif"}, db)
		if err != nil {
			panic(err)
		}
		var mids []storeObs
		spebble.VerifYield = func(point string) {
			if point == "prune.beforeSubtract" {
				mids = append(mids, observe(db))
			}
		}
		for i := 0; i < 400 && len(mids) < 3; i++ {
			id := make([]byte, 32)
			r.Read(id)
			_ = st.Put(nil, id, genBytes(5000+r.Intn(30000), i))
		}
		spebble.VerifYield = nil
		for k, m := range mids {
			o.Case(fmt.Sprintf("concprune rep=%d phase=mid", 100+k), fmt.Sprintf("inside-pruning-put persisted=%d held=%d cap=1000000", m.persisted, m.held))
		}
	}
	for rep := 0; rep < 2; rep++ {
		var armed atomic.Bool
		reached, release := make(chan struct{}), make(chan struct{})
		var once sync.Once
		fs := gateFS{FS: vfs.NewMem(), gate: func(name string) {
			if strings.HasSuffix(name, ".log") && armed.Load() {
				hit := false
				once.Do(func() { hit = true })
				if hit {
					close(reached)
					<-release
				}
			}
		}}
		db, err := pebble.Open("db", &pebble.Options{FS: fs})
		if err != nil {
			panic(err)
		}
		var node enode.ID
		r.Read(node[:])
		st, err := spebble.NewStorage(storage.PortalStorageConfig{StorageCapacityMB: 1, NodeId: node, NetworkName: "verif"}, db)
		if err != nil {
			panic(err)
		}
		for i := 0; i < 99; i++ {
			id := make([]byte, 32)
			r.Read(id)
			_ = st.Put(nil, id, genBytes(10000, i))
		}
		idA, idB := make([]byte, 32), append([]byte{}, node[:]...)
		r.Read(idA)
		copy(idA[:2], node[:2]) // near enough to stay within any radius the prune leaves
		idB[31] ^= byte(1 + rep)
		armed.Store(true)
		// if B comes to prune as well it is held before it reads the counter until A has returned (named yield point)
		var aBlocked atomic.Bool
		bAtYield, releaseB := make(chan struct{}), make(chan struct{})
		var onceB sync.Once
		spebble.VerifYield = func(point string) {
			if point == "prune.beforeSubtract" && aBlocked.Load() {
				hit := false
				onceB.Do(func() { hit = true })
				if hit {
					close(bAtYield)
					<-releaseB
				}
			}
		}
		doneA := make(chan struct{})
		go func() { _ = st.Put(nil, idA, genBytes(10000, 1000)); close(doneA) }()
		outcome := "ok"
		select {
		case <-reached:
			aBlocked.Store(true)
			// what a reader (or a crash that keeps what was written) sees at this very moment: A's item is committed, its pruning
			// batch is not yet - the usage figure on disk covers what is held now as well
			mid := observe(db)
			o.Case(fmt.Sprintf("concprune rep=%d phase=mid", rep), fmt.Sprintf("a-in-prune-sync persisted=%d held=%d cap=1000000", mid.persisted, mid.held))
			doneB := make(chan struct{})
			go func() { _ = st.Put(nil, idB, genBytes(10000, 1001)); close(doneB) }()
			select {
			case <-doneB:
				outcome = "b-completed-during-sync"
				armed.Store(false)
				close(release)
				<-doneA
			case <-bAtYield:
				outcome = "b-pruned-too"
				armed.Store(false)
				close(release)
				<-doneA
				close(releaseB)
				<-doneB
			case <-time.After(5 * time.Second):
				outcome = "b-waited-for-a"
				armed.Store(false)
				close(release)
				<-doneA
				<-doneB
			}
		case <-doneA:
			outcome = "no-sync-seen"
			armed.Store(false)
		case <-time.After(10 * time.Second):
			outcome = "a-stuck"
			armed.Store(false)
			close(release)
		}
		spebble.VerifYield = nil
		time.Sleep(20 * time.Millisecond)
		ob := observe(db)
		o.Case(fmt.Sprintf("concprune rep=%d", rep), fmt.Sprintf("%s persisted=%d held=%d cap=1000000", outcome, ob.persisted, ob.held))
	}
}

// bigHistory: a store of 330 MB (the client's default is 10 000 MB; every other history uses 1..5 MB) filled with items of 8.1 MB
// until it has pruned a few times: the 5 % rule is about the CONFIGURED capacity, whatever its size.
func bigHistory(o *Out, r *rand.Rand) {
	const capMB = 330
	var node enode.ID
	r.Read(node[:])
	db, err := pebble.Open("", &pebble.Options{FS: vfs.NewMem()})
	if err != nil {
		panic(err)
	}
	cfg := storage.PortalStorageConfig{StorageCapacityMB: capMB, NodeId: node, NetworkName: "verif"}
	st, err := spebble.NewStorage(cfg, db)
	if err != nil {
		panic(err)
	}
	o.Case(fmt.Sprintf("open cap=%d node=%s", capMB*1000_000, hex.EncodeToString(node[:])), "ok "+observe(db).snap(st))
	// 8.1 MB per item: two of them free 16.2 MB, less than the 16.5 MB that are 5 % of this capacity - a pass needs three
	val := make([]byte, 8100_000-32)
	for i := 0; i < 46; i++ {
		id := make([]byte, 32)
		r.Read(id)
		before := observe(db)
		err := st.Put(nil, id, val)
		after := observe(db)
		res := "ok"
		if errors.Is(err, storage.ErrInsufficientRadius) {
			res = "insufficient_radius"
		} else if err != nil {
			res = "err"
		}
		key := xorKey(id, node[:])
		dropped, minDropped := 0, "-"
		if res == "ok" {
			before.keys[string(key)] = true
			var dk []string
			for k := range before.keys {
				if !after.keys[k] {
					dk = append(dk, k)
				}
			}
			sort.Strings(dk)
			dropped = len(dk)
			if dropped > 0 {
				minDropped = hex.EncodeToString([]byte(dk[0]))
			}
		}
		// zeros=1: the value is all zero bytes (its digest is not compared; sizes are what this history is about)
		o.Case(fmt.Sprintf("put id=%s len=%d seed=0 small=1 zeros=1", hex.EncodeToString(id), len(val)),
			fmt.Sprintf("%s %s dropped=%d mindropped=%s", res, after.snap(st), dropped, minDropped))
	}
}

// tinyHistory: a store whose farthest items are tiny (0..8 bytes of value, 32..40 bytes each with the key), so that one
// pruning pass has to delete well over a thousand of them to free 5 % of the capacity; the near items are ordinary.
func tinyHistory(o *Out, r *rand.Rand) {
	const capMB = 1
	var node enode.ID
	r.Read(node[:])
	db, err := pebble.Open("", &pebble.Options{FS: vfs.NewMem()})
	if err != nil {
		panic(err)
	}
	cfg := storage.PortalStorageConfig{StorageCapacityMB: capMB, NodeId: node, NetworkName: "verif"}
	st, err := spebble.NewStorage(cfg, db)
	if err != nil {
		panic(err)
	}
	o.Case(fmt.Sprintf("open cap=%d node=%s", capMB*1000_000, hex.EncodeToString(node[:])), "ok "+observe(db).snap(st))
	put := func(id []byte, n, seed int, watch bool) {
		var before storeObs
		if watch {
			before = observe(db)
		}
		err := st.Put(nil, id, genBytes(n, seed))
		res := "ok"
		if errors.Is(err, storage.ErrInsufficientRadius) {
			res = "insufficient_radius"
		} else if err != nil {
			res = "err"
		}
		after := observe(db)
		dropped, minDropped := 0, "-"
		if res == "ok" && watch {
			before.keys[string(xorKey(id, node[:]))] = true
			var dk []string
			for k := range before.keys {
				if !after.keys[k] {
					dk = append(dk, k)
				}
			}
			sort.Strings(dk)
			dropped = len(dk)
			if dropped > 0 {
				minDropped = hex.EncodeToString([]byte(dk[0]))
			}
		}
		o.Case(fmt.Sprintf("put id=%s len=%d seed=%d small=1", hex.EncodeToString(id), n, seed),
			fmt.Sprintf("%s %s dropped=%d mindropped=%s", res, after.snap(st), dropped, minDropped))
	}
	// 2600 tiny items in the far half of the id space (about 95 kB in all): nothing is pruned yet
	for i := 0; i < 2600; i++ {
		id := make([]byte, 32)
		r.Read(id)
		id[0] = node[0] ^ (0x80 | id[0]&0x7f)
		put(id, r.Intn(9), r.Intn(1000), true)
	}
	// near items of up to 5 % of the capacity until the store has pruned three times
	for i := 0; i < 40; i++ {
		id := make([]byte, 32)
		r.Read(id)
		id[0] = node[0] ^ (id[0] & 0x3f)
		put(id, 20000+r.Intn(29000), r.Intn(1000), true)
	}
	// a restart: what the pruning passes left on disk is what the store starts from
	if st2, err := spebble.NewStorage(cfg, db); err != nil {
		o.Case("reopen", "err")
	} else {
		o.Case("reopen", "ok "+observe(db).snap(st2))
	}
}

// twoStores: two stores in one process (the portal node opens one per network). Store B receives a few small items;
// store A is then filled until it has pruned at least once. B's radius and content must be what they were.
func twoStores(o *Out, r *rand.Rand) {
	for rep := 0; rep < 3; rep++ {
		open := func() (storage.ContentStorage, *pebble.DB) {
			db, err := pebble.Open("", &pebble.Options{FS: vfs.NewMem()})
			if err != nil {
				panic(err)
			}
			var node enode.ID
			r.Read(node[:])
			st, err := spebble.NewStorage(storage.PortalStorageConfig{StorageCapacityMB: 1, NodeId: node, NetworkName: "verif"}, db)
			if err != nil {
				panic(err)
			}
			return st, db
		}
		a, _ := open()
		b, dbB := open()
		okB := 0
		for i := 0; i < 5; i++ {
			id := make([]byte, 32)
			r.Read(id)
			if b.Put(nil, id, genBytes(1000, i)) == nil {
				okB++
			}
		}
		before := observe(dbB).snap(b)
		prunedA := 0
		for i := 0; i < 40; i++ {
			id := make([]byte, 32)
			r.Read(id)
			_ = a.Put(nil, id, genBytes(45000, i))
			if radiusHex(a) != strings.Repeat("ff", 32) {
				prunedA = 1
			}
		}
		after := observe(dbB).snap(b)
		id := make([]byte, 32)
		r.Read(id)
		id[0] = 0 // whatever B's node id: a later put into B is judged by B's own radius
		late := "ok"
		if err := b.Put(nil, id, genBytes(100, 7)); err != nil {
			late = "refused"
		}
		fresh, _ := open()
		o.Case(fmt.Sprintf("twostore rep=%d putsB=%d prunedA=%d", rep, okB, prunedA),
			fmt.Sprintf("same=%d radiusB=%s lateput=%s fresh=%s", b2i(before == after), radiusHex(b), late, radiusHex(fresh)))
	}
}

// concSchedules forces the two interleavings of two puts that the step model of C05 distinguishes:
// put A stops between its counter Add and its commit (yield hook), put B runs to completion, A resumes.
func concSchedules(o *Out, r *rand.Rand) {
	for _, sched := range []string{"sequential", "overtake", "overtake"} {
		lenA, lenB := 500+r.Intn(1000), 3000+r.Intn(3000)
		db, err := pebble.Open("", &pebble.Options{FS: vfs.NewMem()})
		if err != nil {
			panic(err)
		}
		var node enode.ID
		r.Read(node[:])
		st, err := spebble.NewStorage(storage.PortalStorageConfig{StorageCapacityMB: 100, NodeId: node, NetworkName: "verif"}, db)
		if err != nil {
			panic(err)
		}
		idA, idB := make([]byte, 32), make([]byte, 32)
		r.Read(idA)
		r.Read(idB)
		if sched == "sequential" {
			_ = st.Put(nil, idA, genBytes(lenA, 1))
			_ = st.Put(nil, idB, genBytes(lenB, 2))
		} else {
			reached, release := make(chan struct{}), make(chan struct{})
			first := true
			spebble.VerifYield = func(point string) {
				if point == "put.afterAdd" && first {
					first = false
					close(reached)
					<-release
				}
			}
			done := make(chan struct{})
			go func() { _ = st.Put(nil, idA, genBytes(lenA, 1)); close(done) }()
			<-reached
			_ = st.Put(nil, idB, genBytes(lenB, 2))
			close(release)
			<-done
			spebble.VerifYield = nil
		}
		ob := observe(db)
		o.Case(fmt.Sprintf("conc schedule=%s lenA=%d lenB=%d", sched, lenA, lenB), fmt.Sprintf("persisted=%d held=%d", ob.persisted, ob.held))
	}
}

func storeHistory(o *Out, r *rand.Rand, h, nPuts int, thorough bool) {
	capMB := uint64(1 + r.Intn(2))
	if thorough && r.Intn(4) == 0 {
		capMB = uint64(3 + r.Intn(3))
	}
	capB := capMB * 1000_000
	var node enode.ID
	if h%5 != 0 {
		r.Read(node[:])
	}
	db, err := pebble.Open("", &pebble.Options{FS: vfs.NewMem()})
	if err != nil {
		panic(err)
	}
	cfg := storage.PortalStorageConfig{StorageCapacityMB: capMB, NodeId: node, NetworkName: "verif"}
	st, err := spebble.NewStorage(cfg, db)
	if err != nil {
		panic(err)
	}
	// every other history goes through the history network's hybrid store, which routes by the content key's type
	// byte: everything except the ephemeral offer type must reach the radius store unchanged
	hybrid := h%2 == 1
	wrap := func(inner storage.ContentStorage) storage.ContentStorage {
		if !hybrid {
			return inner
		}
		edb, err := pebble.Open("", &pebble.Options{FS: vfs.NewMem()})
		if err != nil {
			panic(err)
		}
		hs, err := history.NewHistoryStorage(inner, history.NewEphemeralStorage(cfg, edb))
		if err != nil {
			panic(err)
		}
		return hs
	}
	st = wrap(st)
	contentKey := func() []byte {
		if !hybrid {
			return nil
		}
		k := make([]byte, 1+r.Intn(33))
		r.Read(k)
		k[0] = []byte{0, 1, 2, 3, 4, 6, 7, 255}[r.Intn(8)] // every type byte except the ephemeral offer type (5)
		return k
	}
	o.Case(fmt.Sprintf("open cap=%d node=%s", capB, hex.EncodeToString(node[:])), "ok "+observe(db).snap(st))
	allSmall := h%3 != 2
	small := allSmall
	limit := int(capB/20) - 32
	var ids [][]byte
	var nearest []byte // the last id put right next to the node id
	var rets []retained
	for i := 0; i < nPuts; i++ {
		// content id
		var id []byte
		switch c := r.Intn(20); {
		case c < 2 && len(ids) > 0: // overwrite
			id = ids[r.Intn(len(ids))]
		case c < 4 && len(ids) > 0: // neighbour: differs in the first or last byte only, or in one bit
			id = append([]byte{}, ids[r.Intn(len(ids))]...)
			switch r.Intn(3) {
			case 0:
				id[0] ^= byte(1 + r.Intn(255))
			case 1:
				id[31] ^= byte(1 + r.Intn(255))
			default:
				id[r.Intn(32)] ^= 1 << uint(r.Intn(8))
			}
		case c == 4: // tiny distance in one byte order, huge in the other
			id = append([]byte{}, node[:]...)
			switch r.Intn(4) {
			case 0:
				id[31] ^= byte(1 + r.Intn(255))
			case 1:
				id[0] ^= byte(1 + r.Intn(255))
			case 2:
				id[31] ^= 1 // the nearest id there is: its storage key is 00..01, next to the reserved counter key 00..00
			default:
				id[0] ^= 1
			}
			nearest = id
		default:
			id = make([]byte, 32)
			r.Read(id)
			if hybrid && r.Intn(8) == 0 {
				id[0] = 0x05 // an id that begins with the type byte of the ephemeral offers: the hybrid store routes by the KEY
			}
		}
		if bytes.Equal(id, node[:]) {
			continue
		}
		// size
		var n int
		switch c := r.Intn(12); {
		case c == 0:
			n = 0
		case c == 1:
			n = limit
		case c == 2:
			n = limit - r.Intn(40)
		case c == 3 && !allSmall:
			n = limit + 1 + r.Intn(int(capB/10))
		case c == 4 && !allSmall && r.Intn(6) == 0:
			n = int(capB) + r.Intn(1000)
		case c < 8:
			n = r.Intn(2000)
		default:
			n = r.Intn(limit + 1)
		}
		if i == 0 && h%6 == 5 {
			// the very first item is larger than the whole capacity: the pruning pass of this put has to drop everything
			// the store holds ("or everything it holds") - the bytes freed equal the counter exactly
			n = int(capB) + r.Intn(1000)
		}
		if n > limit {
			small = false
		}
		seed := r.Intn(1000)
		before := observe(db)
		err := st.Put(contentKey(), id, genBytes(n, seed))
		after := observe(db)
		res := "ok"
		if errors.Is(err, storage.ErrInsufficientRadius) {
			res = "insufficient_radius"
		} else if err != nil {
			res = "err"
		}
		key := xorKey(id, node[:])
		dropped, minDropped := 0, "-"
		if res == "ok" {
			before.keys[string(key)] = true
			var dk []string
			for k := range before.keys {
				if !after.keys[k] {
					dk = append(dk, k)
				}
			}
			sort.Strings(dk)
			dropped = len(dk)
			if dropped > 0 {
				minDropped = hex.EncodeToString([]byte(dk[0]))
			}
			ids = append(ids, id)
		}
		sm := 0
		if small {
			sm = 1
		}
		o.Case(fmt.Sprintf("put id=%s len=%d seed=%d small=%d", hex.EncodeToString(id), n, seed, sm),
			fmt.Sprintf("%s %s dropped=%d mindropped=%s", res, after.snap(st), dropped, minDropped))
		// gets
		if r.Intn(3) == 0 && len(ids) > 0 {
			gid := ids[r.Intn(len(ids))]
			if nearest != nil && r.Intn(4) == 0 {
				gid = nearest
			}
			if r.Intn(40) == 0 {
				gid = append([]byte{}, node[:]...) // the node's own id: nothing was ever put under it
			}
			if r.Intn(6) == 0 {
				gid = append([]byte{}, gid...)
				gid[r.Intn(32)] ^= 1 << uint(r.Intn(8))
			}
			v, err := st.Get(contentKey(), gid)
			// is the item in the database (raw read under the xor key)?
			present := 0
			if bytes.Equal(gid, node[:]) {
				// the node's own id: its key is the key of the size record, which is no item (Get answered with that record
				// until fix 3b6a432)
			} else if _, closer, rerr := db.Get(xorKey(gid, node[:])); rerr == nil {
				present = 1
				closer.Close()
			}
			if err != nil {
				o.Case(fmt.Sprintf("get id=%s present=%d", hex.EncodeToString(gid), present), "notfound")
			} else {
				o.Case(fmt.Sprintf("get id=%s present=%d", hex.EncodeToString(gid), present), fmt.Sprintf("val=%d:%016x", len(v), fnv(v)))
				if len(rets) < 400 {
					rets = append(rets, retained{v, append([]byte{}, v...)})
				}
			}
		}
		if r.Intn(60) == 0 {
			st2, err := spebble.NewStorage(cfg, db)
			if err != nil {
				o.Case("reopen", "err")
			} else {
				st = wrap(st2)
				o.Case("reopen", "ok "+observe(db).snap(st))
			}
		}
		if r.Intn(50) == 0 {
			_ = db.Flush()
		}
	}
	changed := 0
	for _, rt := range rets {
		if !sameBytes(rt) {
			changed++
		}
	}
	o.Case(fmt.Sprintf("retained n=%d", len(rets)), fmt.Sprintf("changed=%d", changed))
}

// corpusReopenEmpty is a minimised past failure (found by the thorough tier): an over-capacity store whose prune on open
// removes every item. NewStorage then looked for the farthest key and found only the reserved counter key.
func corpusReopenEmpty(o *Out) {
	var node enode.ID
	db, err := pebble.Open("", &pebble.Options{FS: vfs.NewMem()})
	if err != nil {
		panic(err)
	}
	cfg := storage.PortalStorageConfig{StorageCapacityMB: 1, NodeId: node, NetworkName: "verif"}
	st, err := spebble.NewStorage(cfg, db)
	if err != nil {
		panic(err)
	}
	o.Case(fmt.Sprintf("open cap=%d node=%s", 1000_000, hex.EncodeToString(node[:])), "ok "+observe(db).snap(st))
	put := func(first byte, n int) {
		id := make([]byte, 32)
		id[0] = first
		before := observe(db)
		err := st.Put(nil, id, genBytes(n, int(first)))
		after := observe(db)
		res := "ok"
		if errors.Is(err, storage.ErrInsufficientRadius) {
			res = "insufficient_radius"
		} else if err != nil {
			res = "err"
		}
		dropped, minDropped := 0, "-"
		if res == "ok" {
			before.keys[string(id)] = true
			var dk []string
			for k := range before.keys {
				if !after.keys[k] {
					dk = append(dk, k)
				}
			}
			sort.Strings(dk)
			dropped = len(dk)
			if dropped > 0 {
				minDropped = hex.EncodeToString([]byte(dk[0]))
			}
		}
		o.Case(fmt.Sprintf("put id=%s len=%d seed=%d small=0", hex.EncodeToString(id), n, int(first)),
			fmt.Sprintf("%s %s dropped=%d mindropped=%s", res, after.snap(st), dropped, minDropped))
	}
	put(0xf0, 60000)   // far
	put(0xe0, 60000)   // far
	put(0x20, 0)       // tiny, in between
	put(0x10, 1000000) // near and larger than the capacity: the prune frees 5 % and stops, the store stays over capacity
	for i := 0; i < 2; i++ {
		st2, err := spebble.NewStorage(cfg, db)
		if err != nil {
			o.Case("reopen", "err")
			return
		}
		st = st2
		o.Case("reopen", "ok "+observe(db).snap(st))
	}
	put(0x01, 10)
	corpusHugeCapacity(o)
	corpusScripts(o)
}

// corpusScripts: hand-made histories over ids made of one repeated byte (their distance from the zero node id reads the same in
// both byte orders), each aimed at a coincidence random histories do not produce.
func corpusScripts(o *Out) {
	type step struct {
		b byte // id = 32 times this byte
		n int  // value length; -1 = reopen
	}
	scripts := [][]step{
		// a second pruning pass that has to drop EVERYTHING (small leftovers + a nearest item of 99 % of the capacity) after
		// a first one has shrunk the radius: the radius stays where it was, a put beyond it is still refused
		{{0xf0, 985000}, {0x50, 5000}, {0x60, 10000}, {0x10, 990000}, {0x70, 100}, {0x05, 100}, {0, -1}, {0x70, 100}},
		// the same id put again and again (the counter counts every put), then pruned, then flushed and reopened
		{{0xc0, 300000}, {0xc0, 300000}, {0xc0, 300000}, {0x40, 90000}, {0x30, 20000}, {0xc0, 5}, {0, -1}, {0x20, 40000}, {0, -1}},
		// refused puts in a row between accepted ones that land exactly at, one above and one below the capacity
		{{0xe0, 500000}, {0xd0, 499900}, {0x20, 4}, {0xee, 50}, {0xef, 60}, {0xed, 70}, {0x21, 400000}, {0x22, 99900}, {0x23, 0}, {0xec, 80}, {0x24, 1}, {0, -1}},
		// the counter stands at EXACTLY 95 % of the capacity at a reopen (the radius is the maximum: "more than 95 %"), then
		// one byte more and another reopen (now it is re-derived)
		{{0x11, 99968}, {0x22, 99968}, {0x33, 99968}, {0x44, 99968}, {0x55, 99968}, {0x66, 99968}, {0x77, 99968}, {0x88, 99968}, {0x99, 99968}, {0xaa, 49968},
			{0, -1}, {0xbb, 0}, {0, -1}, {0xcc, 1}, {0, -1}},
		// exactly at the capacity (no prune), then one byte over
		{{0x11, 499968}, {0x22, 499968}, {0, -1}, {0x33, 0}, {0, -1}},
	}
	for _, sc := range scripts {
		var node enode.ID
		db, err := pebble.Open("", &pebble.Options{FS: vfs.NewMem()})
		if err != nil {
			panic(err)
		}
		cfg := storage.PortalStorageConfig{StorageCapacityMB: 1, NodeId: node, NetworkName: "verif"}
		st, err := spebble.NewStorage(cfg, db)
		if err != nil {
			panic(err)
		}
		o.Case(fmt.Sprintf("open cap=%d node=%s", 1000_000, hex.EncodeToString(node[:])), "ok "+observe(db).snap(st))
		for k, s := range sc {
			if s.n < 0 {
				_ = db.Flush()
				st2, err := spebble.NewStorage(cfg, db)
				if err != nil {
					o.Case("reopen", "err")
					break
				}
				st = st2
				o.Case("reopen", "ok "+observe(db).snap(st))
				continue
			}
			id := bytes.Repeat([]byte{s.b}, 32)
			before := observe(db)
			err := st.Put(nil, id, genBytes(s.n, k))
			after := observe(db)
			res := "ok"
			if errors.Is(err, storage.ErrInsufficientRadius) {
				res = "insufficient_radius"
			} else if err != nil {
				res = "err"
			}
			dropped, minDropped := 0, "-"
			if res == "ok" {
				before.keys[string(id)] = true
				var dk []string
				for kk := range before.keys {
					if !after.keys[kk] {
						dk = append(dk, kk)
					}
				}
				sort.Strings(dk)
				dropped = len(dk)
				if dropped > 0 {
					minDropped = hex.EncodeToString([]byte(dk[0]))
				}
			}
			o.Case(fmt.Sprintf("put id=%s len=%d seed=%d small=0", hex.EncodeToString(id), s.n, k),
				fmt.Sprintf("%s %s dropped=%d mindropped=%s", res, after.snap(st), dropped, minDropped))
			// a get of what was just put (or refused)
			v, gerr := st.Get(nil, id)
			present := 0
			if _, closer, rerr := db.Get(id); rerr == nil {
				present = 1
				closer.Close()
			}
			if gerr != nil {
				o.Case(fmt.Sprintf("get id=%s present=%d", hex.EncodeToString(id), present), "notfound")
			} else {
				o.Case(fmt.Sprintf("get id=%s present=%d", hex.EncodeToString(id), present), fmt.Sprintf("val=%d:%016x", len(v), fnv(v)))
			}
		}
		// the store is left open: a pruning pass starts a detached compaction that must not find the database closed
	}
}

// aliasHistory looks at the lifetime of the slices handed out by Get: values are read back from flushed
// tables through a small block cache, kept, and compared again after the cache has been churned.
func aliasHistory(o *Out, r *rand.Rand, thorough bool) {
	cache := pebble.NewCache(1 << 20)
	defer cache.Unref()
	db, err := pebble.Open("", &pebble.Options{FS: vfs.NewMem(), Cache: cache})
	if err != nil {
		panic(err)
	}
	var node enode.ID
	r.Read(node[:])
	cfg := storage.PortalStorageConfig{StorageCapacityMB: 200, NodeId: node, NetworkName: "verif"}
	st, err := spebble.NewStorage(cfg, db)
	if err != nil {
		panic(err)
	}
	o.Case(fmt.Sprintf("open cap=%d node=%s", 200*1000_000, hex.EncodeToString(node[:])), "ok "+observe(db).snap(st))
	n := 150
	if thorough {
		n = 600
	}
	var ids [][]byte
	for i := 0; i < n; i++ {
		id := make([]byte, 32)
		r.Read(id)
		if err := st.Put(nil, id, genBytes(20000+r.Intn(2000), i)); err != nil {
			panic(err)
		}
		ids = append(ids, id)
	}
	_ = db.Flush()
	var rets []retained
	for _, id := range ids[:n/3] {
		v, err := st.Get(nil, id)
		if err == nil {
			rets = append(rets, retained{v, append([]byte{}, v...)})
		}
	}
	for round := 0; round < 3; round++ {
		for _, id := range ids[n/3:] {
			_, _ = st.Get(nil, id)
		}
	}
	changed := 0
	for _, rt := range rets {
		if !sameBytes(rt) {
			changed++
		}
	}
	o.Case(fmt.Sprintf("retained n=%d churn=1", len(rets)), fmt.Sprintf("changed=%d", changed))
}

// corpusHugeCapacity: capacities at the far end of what the configuration can express (the capacity in bytes still fits 64 bits,
// a multiple of it does not): 2 MB of items, a restart - a store that is all but empty starts with the maximum radius
func corpusHugeCapacity(o *Out) {
	// ceil(k * 2^64 / 95e6) for k = 1, 2, 47: the products capacity*95 and capacity*19 wrap to small numbers; and the largest MB
	for _, capMB := range []uint64{194176253409, 388352506817, 9126283910179, 18446744073709, 970881267037, 1 << 40} {
		var node enode.ID
		node[5] = 0x77
		db, err := pebble.Open("", &pebble.Options{FS: vfs.NewMem()})
		if err != nil {
			panic(err)
		}
		cfg := storage.PortalStorageConfig{StorageCapacityMB: capMB, NodeId: node, NetworkName: "verif"}
		st, err := spebble.NewStorage(cfg, db)
		if err != nil {
			o.Case(fmt.Sprintf("open cap=%d000000 node=%s", capMB, hex.EncodeToString(node[:])), "err")
			continue
		}
		o.Case(fmt.Sprintf("open cap=%d000000 node=%s", capMB, hex.EncodeToString(node[:])), "ok "+observe(db).snap(st))
		for i := 0; i < 20; i++ {
			id := make([]byte, 32)
			id[0], id[31] = byte(0x10+11*i), byte(i)
			err := st.Put(nil, id, genBytes(100000, i))
			res := "ok"
			if errors.Is(err, storage.ErrInsufficientRadius) {
				res = "insufficient_radius"
			} else if err != nil {
				res = "err"
			}
			o.Case(fmt.Sprintf("put id=%s len=%d seed=%d small=1", hex.EncodeToString(id), 100000, i),
				fmt.Sprintf("%s %s dropped=0 mindropped=-", res, observe(db).snap(st)))
		}
		if st2, err := spebble.NewStorage(cfg, db); err != nil {
			o.Case("reopen", "err")
		} else {
			o.Case("reopen", "ok "+observe(db).snap(st2))
		}
	}
}
