//go:build verif

package main

// C14: SSZ wire messages, ping-extension payloads and content containers.
//
// Every case calls the REAL MarshalSSZ / UnmarshalSSZ (Serialize / Deserialize) of the repository:
//   val   <Type> v=<fields>  | enc=err  or  enc=<bytes> dec=err  or  enc=<bytes> dec=<fields>
//   bytes <Type> k=<kind> b=<bytes> | dec=err  or  dec=<fields> re=err  or  dec=<fields> re=<bytes>
// for the 49 types that have a Lean codec (portalwire, ping_ext, types/history, history, beacon content keys, state),
// plus go-bitfield bit lists (`bits`), the pre-built error payload table (`errtab`) and, for the fork-tagged beacon
// containers whose inner codec (zrnt) is not modelled, Go-side round-trip facts (`gval`, `gbytes`, file c14g.go).
// Panics of the code under test are recovered and reported as the outcome `panic`.

import (
	"bytes"
	"encoding/binary"
	"encoding/hex"
	"fmt"
	"math/rand"
	"sort"
	"strconv"
	"strings"

	bitfield "github.com/OffchainLabs/go-bitfield"
	"github.com/protolambda/zrnt/eth2/beacon/common"
	"github.com/protolambda/ztyp/codec"
	"github.com/protolambda/ztyp/view"
	hist "github.com/zen-eth/shisui/history"
	"github.com/zen-eth/shisui/portalwire"
	pingext "github.com/zen-eth/shisui/portalwire/ping_ext"
	"github.com/zen-eth/shisui/state"
	tbeacon "github.com/zen-eth/shisui/types/beacon"
	thist "github.com/zen-eth/shisui/types/history"
)

func init() { runners["C14"] = runC14 }

type slotKind int

const (
	sFix slotKind = iota
	sUint
	sFvec
	sBytes
	sVec
	sDyn
	sBits
	sNib
)

// slot describes one field for the GENERATORS only (which lengths are in, at and beyond the limits);
// the limits the check relies on are the ones in lean/Shisui/Ssz/Schemas.lean.
type slot struct {
	k       slotKind
	n       int  // fix: bytes; uint: width; fvec: count; vec: item size
	size    int  // fvec: item size
	maxN    int  // bytes: max length; vec/dyn: max count; bits: max bits
	maxItem int  // dyn: max item length
	loose   bool // vec backed by [][]byte: items of another size can be expressed
	typed   bool // fix backed by a Go array: another length cannot be expressed
}

func fixS(n int) slot           { return slot{k: sFix, n: n} }
func fixArrS(n int) slot        { return slot{k: sFix, n: n, typed: true} }
func uintS(n int) slot          { return slot{k: sUint, n: n} }
func fvecS(c, s int) slot       { return slot{k: sFvec, n: c, size: s} }
func bytesS(max int) slot       { return slot{k: sBytes, maxN: max} }
func vecS(s, max int) slot      { return slot{k: sVec, n: s, maxN: max} }
func vecLooseS(s, max int) slot { return slot{k: sVec, n: s, maxN: max, loose: true} }
func dynS(maxN, maxItem int) slot {
	return slot{k: sDyn, maxN: maxN, maxItem: maxItem}
}
func bitsS(max int) slot { return slot{k: sBits, maxN: max} }
func nibS(max int) slot  { return slot{k: sNib, maxN: max} }

func (s slot) isVar() bool { return s.k >= sBytes }

// fval is one field value: a number, a byte string or a list of byte strings (as notation terms).
type fval struct {
	num   uint64
	b     Term
	items []Term
}

func litItems(xs [][]byte) []Term {
	out := make([]Term, len(xs))
	for i, x := range xs {
		out[i] = lit(append([]byte{}, x...))
	}
	return out
}

func (v fval) itemBytes() [][]byte {
	out := make([][]byte, len(v.items))
	for i, t := range v.items {
		out[i] = t.Bytes()
	}
	return out
}

type wtype struct {
	name                    string
	bare                    bool
	slots                   []slot
	enc                     func(v []fval) ([]byte, error)
	dec                     func(b []byte) ([]fval, error)
	lastRead                func() []fval // reads the most recently decoded object of this type AGAIN (it is kept alive on purpose)
	lastStr                 string        // what it read as right after decoding
	nRetain                 int
	nChanged                int
	lastEnc, lastEncCopy    []byte // the previous encoding, kept alive, and what it was
	nEncRetain, nEncChanged int
	weight                  float64 // scales the number of generated cases (heavy types get fewer)
	capLen                  int     // generator cap on item/byte lengths where the declared limit is huge
	capN                    int     // generator cap on counts where the declared limit is huge
}

// append-style encoder checks per type: how many were made, how many disagreed with MarshalSSZ
var appendChecks, appendDiffs = map[string]int{}, map[string]int{}

type sszObj interface {
	MarshalSSZ() ([]byte, error)
	UnmarshalSSZ([]byte) error
}

// mk wires one repository type: build fills a fresh object from field values, read extracts them.
func mk[T any, PT interface {
	*T
	sszObj
}](name string, slots []slot, build func(p PT, v []fval), read func(p PT) []fval) *wtype {
	return &wtype{name: name, slots: slots, weight: 1,
		enc: func(v []fval) ([]byte, error) {
			p := PT(new(T))
			build(p, v)
			b, err := p.MarshalSSZ()
			// the append-style encoder of the same object, writing behind bytes that are already in the buffer (a message code, a
			// header): what it appends is the encoding, and what was there stays
			if ap, ok := any(p).(interface {
				MarshalSSZTo([]byte) ([]byte, error)
			}); ok && err == nil {
				prefix := []byte{0xa1, 0xb2, 0xc3}
				b2, err2 := ap.MarshalSSZTo(append(make([]byte, 0, 16), prefix...))
				appendChecks[name]++
				if err2 != nil || len(b2) < 3 || !bytes.Equal(b2[:3], prefix) || !bytes.Equal(b2[3:], b) {
					appendDiffs[name]++
				}
			}
			return b, err
		},
		dec: func(b []byte) ([]fval, error) {
			p := PT(new(T))
			if err := p.UnmarshalSSZ(b); err != nil {
				return nil, err
			}
			retainHook = func() []fval { return read(p) }
			return read(p), nil
		}}
}

func c14SafeEnc(t *wtype, v []fval) (b []byte, err error, panicked bool) {
	defer func() {
		if r := recover(); r != nil {
			panicked = true
		}
	}()
	b, err = t.enc(v)
	// an encoding is a value too: the previous one must still be what it was
	if t.lastEnc != nil {
		t.nEncRetain++
		if !bytes.Equal(t.lastEnc, t.lastEncCopy) {
			t.nEncChanged++
		}
	}
	t.lastEnc, t.lastEncCopy = nil, nil
	if err == nil && len(b) > 0 {
		t.lastEnc, t.lastEncCopy = b, append([]byte{}, b...)
	}
	return
}

func safeDec(t *wtype, b []byte) (v []fval, err error, panicked bool) {
	defer func() {
		if r := recover(); r != nil {
			panicked = true
		}
	}()
	retainHook = nil
	in := append([]byte{}, b...)
	v, err = t.dec(in)
	// a decoded value is a value: the object decoded BEFORE this one (kept alive) must still read as it did, whatever was
	// decoded since
	if t.lastRead != nil {
		t.nRetain++
		if now := t.outStr(t.lastRead()); now != t.lastStr {
			t.nChanged++
		}
	}
	t.lastRead = nil
	if err == nil && retainHook != nil {
		t.lastRead, t.lastStr = retainHook, t.outStr(v)
	}
	return
}

// set by the decoders built with mk / mkz: re-reads the object they just decoded
var retainHook func() []fval

func fb(b []byte) fval           { return fval{b: lit(append([]byte{}, b...))} }
func fn(n uint64) fval           { return fval{num: n} }
func fi(xs [][]byte) fval        { return fval{items: litItems(xs)} }
func root32(v fval) (r [32]byte) { copy(r[:], v.b.Bytes()); return }

func c14Types() []*wtype {
	ts := []*wtype{
		mk("Ping", []slot{uintS(8), uintS(2), bytesS(1100)},
			func(p *portalwire.Ping, v []fval) {
				p.EnrSeq, p.PayloadType, p.Payload = v[0].num, uint16(v[1].num), v[2].b.Bytes()
			},
			func(p *portalwire.Ping) []fval {
				return []fval{fn(p.EnrSeq), fn(uint64(p.PayloadType)), fb(p.Payload)}
			}),
		mk("Pong", []slot{uintS(8), uintS(2), bytesS(1100)},
			func(p *portalwire.Pong, v []fval) {
				p.EnrSeq, p.PayloadType, p.Payload = v[0].num, uint16(v[1].num), v[2].b.Bytes()
			},
			func(p *portalwire.Pong) []fval {
				return []fval{fn(p.EnrSeq), fn(uint64(p.PayloadType)), fb(p.Payload)}
			}),
		mk("FindNodes", []slot{vecS(2, 256)},
			func(p *portalwire.FindNodes, v []fval) {
				p.Distances = make([][2]byte, len(v[0].items))
				for i, it := range v[0].items {
					copy(p.Distances[i][:], it.Bytes())
				}
			},
			func(p *portalwire.FindNodes) []fval {
				xs := make([][]byte, len(p.Distances))
				for i := range p.Distances {
					xs[i] = p.Distances[i][:]
				}
				return []fval{fi(xs)}
			}),
		mk("Nodes", []slot{uintS(1), dynS(32, 2048)},
			func(p *portalwire.Nodes, v []fval) { p.Total, p.Enrs = uint8(v[0].num), v[1].itemBytes() },
			func(p *portalwire.Nodes) []fval { return []fval{fn(uint64(p.Total)), fi(p.Enrs)} }),
		mk("FindContent", []slot{bytesS(2048)},
			func(p *portalwire.FindContent, v []fval) { p.ContentKey = v[0].b.Bytes() },
			func(p *portalwire.FindContent) []fval { return []fval{fb(p.ContentKey)} }),
		mk("Content", []slot{bytesS(2048)},
			func(p *portalwire.Content, v []fval) { p.Content = v[0].b.Bytes() },
			func(p *portalwire.Content) []fval { return []fval{fb(p.Content)} }),
		mk("ConnectionId", []slot{fixS(2)},
			func(p *portalwire.ConnectionId, v []fval) { p.Id = v[0].b.Bytes() },
			func(p *portalwire.ConnectionId) []fval { return []fval{fb(p.Id)} }),
		mk("Enrs", []slot{dynS(32, 2048)},
			func(p *portalwire.Enrs, v []fval) { p.Enrs = v[0].itemBytes() },
			func(p *portalwire.Enrs) []fval { return []fval{fi(p.Enrs)} }),
		mk("Offer", []slot{dynS(64, 2048)},
			func(p *portalwire.Offer, v []fval) { p.ContentKeys = v[0].itemBytes() },
			func(p *portalwire.Offer) []fval { return []fval{fi(p.ContentKeys)} }),
		mk("Accept", []slot{fixS(2), bitsS(64)},
			func(p *portalwire.Accept, v []fval) { p.ConnectionId, p.ContentKeys = v[0].b.Bytes(), v[1].b.Bytes() },
			func(p *portalwire.Accept) []fval { return []fval{fb(p.ConnectionId), fb(p.ContentKeys)} }),
		mk("AcceptV1", []slot{fixS(2), vecS(1, 64)},
			func(p *portalwire.AcceptV1, v []fval) {
				p.ConnectionId = v[0].b.Bytes()
				p.ContentKeys = make([]uint8, len(v[1].items))
				for i, it := range v[1].items {
					if b := it.Bytes(); len(b) > 0 {
						p.ContentKeys[i] = b[0]
					}
				}
			},
			func(p *portalwire.AcceptV1) []fval {
				xs := make([][]byte, len(p.ContentKeys))
				for i, c := range p.ContentKeys {
					xs[i] = []byte{c}
				}
				return []fval{fb(p.ConnectionId), fi(xs)}
			}),

		// ---- ping extensions (ztyp)
		mk("pe.ClientInfo", []slot{bytesS(200), fixArrS(32), vecS(2, 400)},
			func(p *pingext.ClientInfoAndCapabilitiesPayload, v []fval) {
				p.ClientInfo = v[0].b.Bytes()
				p.DataRadius = common.Root(root32(v[1]))
				p.Capabilities = capsOf(v[2])
			},
			func(p *pingext.ClientInfoAndCapabilitiesPayload) []fval {
				return []fval{fb(p.ClientInfo), fb(p.DataRadius[:]), capsVal(p.Capabilities)}
			}),
		mk("pe.BasicRadius", []slot{fixArrS(32)},
			func(p *pingext.BasicRadiusPayload, v []fval) { p.DataRadius = common.Root(root32(v[0])) },
			func(p *pingext.BasicRadiusPayload) []fval { return []fval{fb(p.DataRadius[:])} }),
		mk("pe.HistoryRadius", []slot{fixArrS(32), uintS(2)},
			func(p *pingext.HistoryRadiusPayload, v []fval) {
				p.DataRadius = common.Root(root32(v[0]))
				p.EphemeralHeaderCount = view.Uint16View(v[1].num)
			},
			func(p *pingext.HistoryRadiusPayload) []fval {
				return []fval{fb(p.DataRadius[:]), fn(uint64(p.EphemeralHeaderCount))}
			}),
		mk("pe.Error", []slot{uintS(2), bytesS(300)},
			func(p *pingext.ErrorPayload, v []fval) {
				p.ErrorCode, p.Message = view.Uint16View(v[0].num), v[1].b.Bytes()
			},
			func(p *pingext.ErrorPayload) []fval { return []fval{fn(uint64(p.ErrorCode)), fb(p.Message)} }),
		mk("pe.Capabilities", []slot{vecS(2, 400)},
			func(p *pingext.CapabilitiesPayload, v []fval) { *p = capsOf(v[0]) },
			func(p *pingext.CapabilitiesPayload) []fval { return []fval{capsVal(*p)} }),

		// ---- types/history
		mk("th.ProofHashesAccumulator", []slot{fvecS(15, 32)},
			func(p *thist.BlockProofHistoricalHashesAccumulator, v []fval) { p.Proof = v[0].itemBytes() },
			func(p *thist.BlockProofHistoricalHashesAccumulator) []fval { return []fval{fi(p.Proof)} }),
		mk("th.ProofHistoricalRoots", []slot{fvecS(14, 32), fixS(32), fvecS(11, 32), uintS(8)},
			func(p *thist.BlockProofHistoricalRoots, v []fval) {
				p.BeaconBlockProof, p.BeaconBlockRoot, p.ExecutionBlockProof, p.Slot = v[0].itemBytes(), v[1].b.Bytes(), v[2].itemBytes(), v[3].num
			},
			func(p *thist.BlockProofHistoricalRoots) []fval {
				return []fval{fi(p.BeaconBlockProof), fb(p.BeaconBlockRoot), fi(p.ExecutionBlockProof), fn(p.Slot)}
			}),
		mk("th.ProofSummariesCapella", []slot{fvecS(13, 32), fixS(32), fvecS(11, 32), uintS(8)},
			func(p *thist.BlockProofHistoricalSummariesCapella, v []fval) {
				p.BeaconBlockProof, p.BeaconBlockRoot, p.ExecutionBlockProof, p.Slot = v[0].itemBytes(), v[1].b.Bytes(), v[2].itemBytes(), v[3].num
			},
			func(p *thist.BlockProofHistoricalSummariesCapella) []fval {
				return []fval{fi(p.BeaconBlockProof), fb(p.BeaconBlockRoot), fi(p.ExecutionBlockProof), fn(p.Slot)}
			}),
		mk("th.ProofSummariesDeneb", []slot{fvecS(13, 32), fixS(32), fvecS(12, 32), uintS(8)},
			func(p *thist.BlockProofHistoricalSummariesDeneb, v []fval) {
				p.BeaconBlockProof, p.BeaconBlockRoot, p.ExecutionBlockProof, p.Slot = v[0].itemBytes(), v[1].b.Bytes(), v[2].itemBytes(), v[3].num
			},
			func(p *thist.BlockProofHistoricalSummariesDeneb) []fval {
				return []fval{fi(p.BeaconBlockProof), fb(p.BeaconBlockRoot), fi(p.ExecutionBlockProof), fn(p.Slot)}
			}),
		mk("th.BlockHeaderWithProof", []slot{bytesS(8192), bytesS(1024)},
			func(p *thist.BlockHeaderWithProof, v []fval) { p.Header, p.Proof = v[0].b.Bytes(), v[1].b.Bytes() },
			func(p *thist.BlockHeaderWithProof) []fval { return []fval{fb(p.Header), fb(p.Proof)} }),
		mk("th.FindContentEphemeralKey", []slot{fixS(32), uintS(1)},
			func(p *thist.FindContentEphemeralHeadersKey, v []fval) {
				p.BlockHash, p.AncestorCount = v[0].b.Bytes(), uint8(v[1].num)
			},
			func(p *thist.FindContentEphemeralHeadersKey) []fval {
				return []fval{fb(p.BlockHash), fn(uint64(p.AncestorCount))}
			}),
		mk("th.EphemeralHeaderPayload", []slot{dynS(256, 2048)},
			func(p *thist.EphemeralHeaderPayload, v []fval) { p.Payload = v[0].itemBytes() },
			func(p *thist.EphemeralHeaderPayload) []fval { return []fval{fi(p.Payload)} }),
		mk("th.OfferEphemeralKey", []slot{fixS(32)},
			func(p *thist.OfferEphemeralHeaderKey, v []fval) { p.BlockHash = v[0].b.Bytes() },
			func(p *thist.OfferEphemeralHeaderKey) []fval { return []fval{fb(p.BlockHash)} }),
		mk("th.OfferEphemeralHeader", []slot{bytesS(2048)},
			func(p *thist.OfferEphemeralHeader, v []fval) { p.Header = v[0].b.Bytes() },
			func(p *thist.OfferEphemeralHeader) []fval { return []fval{fb(p.Header)} }),

		// ---- history
		mk("h.HeaderRecord", []slot{fixS(32), fixS(32)},
			func(p *hist.HeaderRecord, v []fval) { p.BlockHash, p.TotalDifficulty = v[0].b.Bytes(), v[1].b.Bytes() },
			func(p *hist.HeaderRecord) []fval { return []fval{fb(p.BlockHash), fb(p.TotalDifficulty)} }),
		mk("h.EpochAccumulator", []slot{fvecS(8192, 64)},
			func(p *hist.EpochAccumulator, v []fval) { p.HeaderRecords = v[0].itemBytes() },
			func(p *hist.EpochAccumulator) []fval { return []fval{fi(p.HeaderRecords)} }),
		mk("h.BlockBodyLegacy", []slot{dynS(16384, 16777216), bytesS(131072)},
			func(p *hist.BlockBodyLegacy, v []fval) { p.Transactions, p.Uncles = v[0].itemBytes(), v[1].b.Bytes() },
			func(p *hist.BlockBodyLegacy) []fval { return []fval{fi(p.Transactions), fb(p.Uncles)} }),
		mk("h.BlockBodyShanghai", []slot{dynS(16384, 16777216), bytesS(131072), dynS(16, 192)},
			func(p *hist.PortalBlockBodyShanghai, v []fval) {
				p.Transactions, p.Uncles, p.Withdrawals = v[0].itemBytes(), v[1].b.Bytes(), v[2].itemBytes()
			},
			func(p *hist.PortalBlockBodyShanghai) []fval {
				return []fval{fi(p.Transactions), fb(p.Uncles), fi(p.Withdrawals)}
			}),
		mk("h.BlockHeaderWithProof", []slot{bytesS(8192), bytesS(1024)},
			func(p *hist.BlockHeaderWithProof, v []fval) { p.Header, p.Proof = v[0].b.Bytes(), v[1].b.Bytes() },
			func(p *hist.BlockHeaderWithProof) []fval { return []fval{fb(p.Header), fb(p.Proof)} }),
		mk("h.SSZProof", []slot{fixS(32), vecLooseS(32, 65536)},
			func(p *hist.SSZProof, v []fval) { p.Leaf, p.Witnesses = v[0].b.Bytes(), v[1].itemBytes() },
			func(p *hist.SSZProof) []fval { return []fval{fb(p.Leaf), fi(p.Witnesses)} }),
		mk("h.MasterAccumulator", []slot{vecLooseS(32, 1897)},
			func(p *hist.MasterAccumulator, v []fval) { p.HistoricalEpochs = v[0].itemBytes() },
			func(p *hist.MasterAccumulator) []fval { return []fval{fi(p.HistoricalEpochs)} }),
		mk("h.PortalReceipts", []slot{dynS(16384, 134217728)},
			func(p *hist.PortalReceipts, v []fval) { p.Receipts = v[0].itemBytes() },
			func(p *hist.PortalReceipts) []fval { return []fval{fi(p.Receipts)} }),

		// ---- types/beacon content keys
		mk("b.LcUpdateKey", []slot{uintS(8), uintS(8)},
			func(p *tbeacon.LightClientUpdateKey, v []fval) { p.StartPeriod, p.Count = v[0].num, v[1].num },
			func(p *tbeacon.LightClientUpdateKey) []fval { return []fval{fn(p.StartPeriod), fn(p.Count)} }),
		mk("b.LcBootstrapKey", []slot{fixS(32)},
			func(p *tbeacon.LightClientBootstrapKey, v []fval) { p.BlockHash = v[0].b.Bytes() },
			func(p *tbeacon.LightClientBootstrapKey) []fval { return []fval{fb(p.BlockHash)} }),
		mk("b.LcFinalityKey", []slot{uintS(8)},
			func(p *tbeacon.LightClientFinalityUpdateKey, v []fval) { p.FinalizedSlot = v[0].num },
			func(p *tbeacon.LightClientFinalityUpdateKey) []fval { return []fval{fn(p.FinalizedSlot)} }),
		mk("b.LcOptimisticKey", []slot{uintS(8)},
			func(p *tbeacon.LightClientOptimisticUpdateKey, v []fval) { p.OptimisticSlot = v[0].num },
			func(p *tbeacon.LightClientOptimisticUpdateKey) []fval { return []fval{fn(p.OptimisticSlot)} }),
		{name: "b.SummariesKey", slots: []slot{uintS(8)}, weight: 1,
			enc: func(v []fval) ([]byte, error) {
				var buf bytes.Buffer
				err := tbeacon.HistoricalSummariesWithProofKey{Epoch: v[0].num}.Serialize(codec.NewEncodingWriter(&buf))
				return buf.Bytes(), err
			},
			dec: func(b []byte) ([]fval, error) {
				k := &tbeacon.HistoricalSummariesWithProofKey{}
				if err := k.Deserialize(codec.NewDecodingReader(bytes.NewReader(b), uint64(len(b)))); err != nil {
					return nil, err
				}
				return []fval{fn(k.Epoch)}, nil
			}},
	}
	ts = append(ts, stateTypes()...)
	for _, t := range ts {
		switch t.name {
		case "Content", "Enrs", "pe.Capabilities", "th.EphemeralHeaderPayload", "h.PortalReceipts",
			"s.Nibbles", "s.EncodedTrieNode", "s.TrieProof", "s.ContractByteCode":
			t.bare = true
		}
		t.capLen, t.capN = 1<<30, 1<<30
		switch t.name {
		case "h.EpochAccumulator":
			t.weight = 0.02
		case "h.BlockBodyLegacy", "h.BlockBodyShanghai", "h.PortalReceipts":
			t.capLen, t.capN, t.weight = 6000, 300, 0.5
		case "h.SSZProof":
			t.capN, t.weight = 300, 0.5
		case "h.MasterAccumulator", "th.EphemeralHeaderPayload", "th.BlockHeaderWithProof", "h.BlockHeaderWithProof",
			"s.ContractByteCode", "s.ContractBytecodeContainer", "s.ContractBytecodeWithProof", "s.ContractStorageTrieNodeWithProof":
			t.weight = 0.5
		}
	}
	return ts
}

type zser interface {
	Serialize(w *codec.EncodingWriter) error
}
type zdes interface {
	Deserialize(dr *codec.DecodingReader) error
}

func zenc(x zser) ([]byte, error) {
	var buf bytes.Buffer
	err := x.Serialize(codec.NewEncodingWriter(&buf))
	return buf.Bytes(), err
}

func zdec(x zdes, b []byte) error {
	return x.Deserialize(codec.NewDecodingReader(bytes.NewReader(b), uint64(len(b))))
}

// mkz wires a ztyp type (Serialize / Deserialize over codec readers, as the networks call them).
func mkz[T any, PT interface {
	*T
	zser
	zdes
}](name string, slots []slot, build func(p PT, v []fval), read func(p PT) []fval) *wtype {
	return &wtype{name: name, slots: slots, weight: 1,
		enc: func(v []fval) ([]byte, error) {
			p := PT(new(T))
			build(p, v)
			return zenc(p)
		},
		dec: func(b []byte) ([]fval, error) {
			p := PT(new(T))
			if err := zdec(p, b); err != nil {
				return nil, err
			}
			retainHook = func() []fval { return read(p) }
			return read(p), nil
		}}
}

func proofOf(v fval) state.TrieProof {
	out := make(state.TrieProof, 0, len(v.items))
	for _, it := range v.items {
		out = append(out, state.EncodedTrieNode(it.Bytes()))
	}
	return out
}

func proofVal(p state.TrieProof) fval {
	xs := make([][]byte, len(p))
	for i := range p {
		xs[i] = []byte(p[i])
	}
	return fi(xs)
}

func stateTypes() []*wtype {
	return []*wtype{
		mkz("s.Nibbles", []slot{nibS(64)},
			func(p *state.Nibbles, v []fval) { p.Nibbles = v[0].b.Bytes() },
			func(p *state.Nibbles) []fval { return []fval{fb(p.Nibbles)} }),
		mkz("s.AccountTrieNodeKey", []slot{nibS(64), fixArrS(32)},
			func(p *state.AccountTrieNodeKey, v []fval) {
				p.Path.Nibbles, p.NodeHash = v[0].b.Bytes(), common.Bytes32(root32(v[1]))
			},
			func(p *state.AccountTrieNodeKey) []fval { return []fval{fb(p.Path.Nibbles), fb(p.NodeHash[:])} }),
		mkz("s.ContractStorageTrieNodeKey", []slot{fixArrS(32), nibS(64), fixArrS(32)},
			func(p *state.ContractStorageTrieNodeKey, v []fval) {
				p.AddressHash, p.Path.Nibbles, p.NodeHash = common.Bytes32(root32(v[0])), v[1].b.Bytes(), common.Bytes32(root32(v[2]))
			},
			func(p *state.ContractStorageTrieNodeKey) []fval {
				return []fval{fb(p.AddressHash[:]), fb(p.Path.Nibbles), fb(p.NodeHash[:])}
			}),
		mkz("s.ContractBytecodeKey", []slot{fixArrS(32), fixArrS(32)},
			func(p *state.ContractBytecodeKey, v []fval) {
				p.AddressHash, p.CodeHash = common.Bytes32(root32(v[0])), common.Bytes32(root32(v[1]))
			},
			func(p *state.ContractBytecodeKey) []fval { return []fval{fb(p.AddressHash[:]), fb(p.CodeHash[:])} }),
		mkz("s.EncodedTrieNode", []slot{bytesS(1024)},
			func(p *state.EncodedTrieNode, v []fval) { *p = v[0].b.Bytes() },
			func(p *state.EncodedTrieNode) []fval { return []fval{fb(*p)} }),
		mkz("s.TrieNode", []slot{bytesS(1024)},
			func(p *state.TrieNode, v []fval) { p.Node = v[0].b.Bytes() },
			func(p *state.TrieNode) []fval { return []fval{fb(p.Node)} }),
		mkz("s.TrieProof", []slot{dynS(65, 1024)},
			func(p *state.TrieProof, v []fval) { *p = proofOf(v[0]) },
			func(p *state.TrieProof) []fval { return []fval{proofVal(*p)} }),
		mkz("s.ContractByteCode", []slot{bytesS(32768)},
			func(p *state.ContractByteCode, v []fval) { *p = v[0].b.Bytes() },
			func(p *state.ContractByteCode) []fval { return []fval{fb(*p)} }),
		mkz("s.ContractBytecodeContainer", []slot{bytesS(32768)},
			func(p *state.ContractBytecodeContainer, v []fval) { p.Code = v[0].b.Bytes() },
			func(p *state.ContractBytecodeContainer) []fval { return []fval{fb(p.Code)} }),
		mkz("s.AccountTrieNodeWithProof", []slot{dynS(65, 1024), fixArrS(32)},
			func(p *state.AccountTrieNodeWithProof, v []fval) {
				p.Proof, p.BlockHash = proofOf(v[0]), common.Bytes32(root32(v[1]))
			},
			func(p *state.AccountTrieNodeWithProof) []fval { return []fval{proofVal(p.Proof), fb(p.BlockHash[:])} }),
		mkz("s.ContractStorageTrieNodeWithProof", []slot{dynS(65, 1024), dynS(65, 1024), fixArrS(32)},
			func(p *state.ContractStorageTrieNodeWithProof, v []fval) {
				p.StorageProof, p.AccountProof, p.BlockHash = proofOf(v[0]), proofOf(v[1]), common.Bytes32(root32(v[2]))
			},
			func(p *state.ContractStorageTrieNodeWithProof) []fval {
				return []fval{proofVal(p.StorageProof), proofVal(p.AccountProof), fb(p.BlockHash[:])}
			}),
		mkz("s.ContractBytecodeWithProof", []slot{bytesS(32768), dynS(65, 1024), fixArrS(32)},
			func(p *state.ContractBytecodeWithProof, v []fval) {
				p.Code, p.AccountProof, p.BlockHash = v[0].b.Bytes(), proofOf(v[1]), common.Bytes32(root32(v[2]))
			},
			func(p *state.ContractBytecodeWithProof) []fval {
				return []fval{fb(p.Code), proofVal(p.AccountProof), fb(p.BlockHash[:])}
			}),
	}
}

func capsOf(v fval) pingext.CapabilitiesPayload {
	out := make(pingext.CapabilitiesPayload, 0, len(v.items))
	for _, it := range v.items {
		b := append(it.Bytes(), 0, 0)
		out = append(out, view.Uint16View(binary.LittleEndian.Uint16(b[:2])))
	}
	return out
}

func capsVal(c pingext.CapabilitiesPayload) fval {
	xs := make([][]byte, len(c))
	for i, x := range c {
		xs[i] = []byte{byte(x), byte(x >> 8)}
	}
	return fi(xs)
}

// ---------------------------------------------------------------- notation

func termIn(t Term) string {
	return t.String() // "x<hex>" (possibly just "x") or "r<len>:<seed>"
}

func (t *wtype) inStr(v []fval) string {
	parts := make([]string, len(t.slots))
	for i, s := range t.slots {
		switch s.k {
		case sUint:
			parts[i] = strconv.FormatUint(v[i].num, 10)
		case sFix, sBytes, sBits, sNib:
			parts[i] = termIn(v[i].b)
		default:
			parts[i] = termsString(v[i].items)
		}
	}
	return strings.Join(parts, "/")
}

func (t *wtype) outStr(v []fval) string {
	parts := make([]string, len(t.slots))
	for i, s := range t.slots {
		switch s.k {
		case sUint:
			parts[i] = strconv.FormatUint(v[i].num, 10)
		case sFix, sBytes, sBits, sNib:
			parts[i] = canon(v[i].b.Bytes())
		default:
			parts[i] = strconv.Itoa(len(v[i].items)) + ":" + canonItems(v[i].itemBytes())
		}
	}
	return strings.Join(parts, "/")
}

// valCase: value -> MarshalSSZ -> UnmarshalSSZ. Returns the encoding when there is one.
func valCase(o *Out, t *wtype, v []fval) []byte {
	in := "val " + t.name + " v=" + t.inStr(v)
	b, err, p := c14SafeEnc(t, v)
	switch {
	case p:
		o.Case(in, "enc=panic")
		return nil
	case err != nil:
		o.Case(in, "enc=err")
		return nil
	}
	v2, err, p := safeDec(t, b)
	switch {
	case p:
		o.Case(in, "enc="+canon(b)+" dec=panic")
	case err != nil:
		o.Case(in, "enc="+canon(b)+" dec=err")
	default:
		o.Case(in, "enc="+canon(b)+" dec="+t.outStr(v2))
	}
	return b
}

// bytesCase: bytes -> UnmarshalSSZ -> MarshalSSZ of the decoded object.
func bytesCaseT(o *Out, t *wtype, kind string, b []byte, notation string) {
	in := "bytes " + t.name + " k=" + kind + " b=" + notation
	v, err, p := safeDec(t, b)
	switch {
	case p:
		o.Case(in, "dec=panic")
		return
	case err != nil:
		o.Case(in, "dec=err")
		return
	}
	b2, err, p := c14SafeEnc(t, v)
	switch {
	case p:
		o.Case(in, "dec="+t.outStr(v)+" re=panic")
	case err != nil:
		o.Case(in, "dec="+t.outStr(v)+" re=err")
	default:
		o.Case(in, "dec="+t.outStr(v)+" re="+canon(b2))
	}
}

func bytesCase(o *Out, t *wtype, kind string, b []byte) {
	bytesCaseT(o, t, kind, b, bytesTerm(b))
}

// ---------------------------------------------------------------- crafting encodings beyond the encoder's limits

func le(n int, v uint64) []byte {
	out := make([]byte, n)
	for i := 0; i < n; i++ {
		out[i] = byte(v >> (8 * i))
	}
	return out
}

func craftDyn(items [][]byte) []byte {
	var out []byte
	off := 4 * len(items)
	for _, it := range items {
		out = append(out, le(4, uint64(off))...)
		off += len(it)
	}
	for _, it := range items {
		out = append(out, it...)
	}
	return out
}

func rawField(s slot, v fval) []byte {
	switch s.k {
	case sUint:
		return le(s.n, v.num)
	case sFix, sBytes, sBits:
		return v.b.Bytes()
	case sNib:
		ns := v.b.Bytes()
		var out []byte
		if len(ns)%2 == 0 {
			out = append(out, 0)
		} else {
			out = append(out, 0x10|ns[0])
			ns = ns[1:]
		}
		for i := 0; i+1 < len(ns); i += 2 {
			out = append(out, ns[i]<<4|ns[i+1])
		}
		return out
	case sDyn:
		return craftDyn(v.itemBytes())
	default:
		var out []byte
		for _, it := range v.itemBytes() {
			out = append(out, it...)
		}
		return out
	}
}

func (t *wtype) fixedLen() int {
	if t.bare {
		return 0
	}
	n := 0
	for _, s := range t.slots {
		switch s.k {
		case sFix, sUint:
			n += s.n
		case sFvec:
			n += s.n * s.size
		default:
			n += 4
		}
	}
	return n
}

// craft writes the SSZ image of any value, limits ignored (the harness's own writer: test input only).
func craft(t *wtype, v []fval) []byte {
	if t.bare {
		return rawField(t.slots[0], v[0])
	}
	var fixed, tail []byte
	off := t.fixedLen()
	for i, s := range t.slots {
		raw := rawField(s, v[i])
		if s.isVar() {
			fixed = append(fixed, le(4, uint64(off))...)
			off += len(raw)
			tail = append(tail, raw...)
		} else {
			fixed = append(fixed, raw...)
		}
	}
	return append(fixed, tail...)
}

// offsetPositions: where 4-byte offsets sit in a well-formed encoding (container slots and list tables).
func offsetPositions(t *wtype, b []byte) []int {
	var pos []int
	rd := func(p int) int {
		if p+4 > len(b) {
			return -1
		}
		return int(binary.LittleEndian.Uint32(b[p:]))
	}
	table := func(start int) {
		first := rd(start)
		if first < 0 || first%4 != 0 {
			return
		}
		for i := 0; i < first/4 && i < 80; i++ {
			if start+4*i+4 <= len(b) {
				pos = append(pos, start+4*i)
			}
		}
	}
	if t.bare {
		if t.slots[0].k == sDyn {
			table(0)
		}
		return pos
	}
	p := 0
	for _, s := range t.slots {
		switch s.k {
		case sFix, sUint:
			p += s.n
		case sFvec:
			p += s.n * s.size
		default:
			pos = append(pos, p)
			if s.k == sDyn {
				if st := rd(p); st >= 0 && st < len(b) {
					table(st)
				}
			}
			p += 4
		}
	}
	return pos
}

// ---------------------------------------------------------------- generators

func randTerm(r *rand.Rand, n int) Term { return randItem(r, n) }

func minInt(a, b int) int {
	if a < b {
		return a
	}
	return b
}

// pickLen: a length within [0,max] with the boundaries favoured; `over`: just beyond max.
func pickLen(r *rand.Rand, max, cap int, over bool) int {
	if over {
		switch r.Intn(3) {
		case 0:
			return max + 1
		case 1:
			return max + 2 + r.Intn(7)
		default:
			return max + 1 + r.Intn(max/8+2)
		}
	}
	hi := minInt(max, cap)
	switch r.Intn(9) {
	case 0:
		return 0
	case 1:
		return minInt(1, hi)
	case 2:
		return hi
	case 3:
		if hi > 0 {
			return hi - 1
		}
		return 0
	case 4:
		return r.Intn(hi + 1)
	default:
		return r.Intn(minInt(hi, 40) + 1)
	}
}

func bitlistBytes(r *rand.Rand, nbits int) []byte {
	bl := bitfield.NewBitlist(uint64(nbits))
	for i := 0; i < nbits; i++ {
		if r.Intn(2) == 0 {
			bl.SetBitAt(uint64(i), true)
		}
	}
	return []byte(bl)
}

// genField: mode 0 = within the limits, 1 = just beyond this field's limit (or otherwise not a legal value).
func genField(r *rand.Rand, t *wtype, s slot, over bool) fval {
	switch s.k {
	case sUint:
		var v uint64
		switch r.Intn(5) {
		case 0:
			v = 0
		case 1:
			v = 1
		case 2:
			v = ^uint64(0)
		default:
			v = r.Uint64()
		}
		if s.n < 8 {
			v &= (uint64(1) << (8 * uint(s.n))) - 1
		}
		return fn(v)
	case sFix:
		n := s.n
		if over {
			switch r.Intn(3) {
			case 0:
				n = s.n + 1
			case 1:
				n = s.n - 1
			default:
				n = 0
			}
		}
		return fval{b: randTerm(r, n)}
	case sFvec:
		c, sz := s.n, s.size
		bad, bad2 := -1, -1
		if over {
			switch r.Intn(4) {
			case 0:
				c++
			case 1:
				c--
			case 2:
				bad = r.Intn(c)
			default:
				// two items of the wrong size whose errors cancel out (one byte long, one byte short): the total is right
				if c >= 2 {
					bad = r.Intn(c)
					bad2 = (bad + 1 + r.Intn(c-1)) % c
				} else {
					bad = 0
				}
			}
		}
		items := make([]Term, c)
		d := 1 - 2*r.Intn(2)
		for i := range items {
			n := sz
			if i == bad {
				n += d
			}
			if i == bad2 {
				n -= d
			}
			items[i] = randTerm(r, n)
		}
		return fval{items: items}
	case sBytes:
		return fval{b: randTerm(r, pickLen(r, s.maxN, t.capLen, over))}
	case sVec:
		if over && s.loose && r.Intn(3) == 0 {
			// an item of the wrong size (only expressible for [][]byte-backed vectors): encoder must refuse
			c := 1 + r.Intn(4)
			items := make([]Term, c)
			for i := range items {
				items[i] = randTerm(r, s.n)
			}
			items[r.Intn(c)] = randTerm(r, s.n+1-2*r.Intn(2))
			return fval{items: items}
		}
		c := pickLen(r, s.maxN, t.capN, over && s.maxN < 5000)
		if over && s.maxN >= 5000 && r.Intn(12) == 0 {
			c = s.maxN + 1 // a very long list: rare, and written with generated terms
		}
		items := make([]Term, c)
		for i := range items {
			if c > 300 {
				items[i] = gen(s.n, r.Intn(10))
			} else {
				items[i] = randTerm(r, s.n)
			}
		}
		return fval{items: items}
	case sDyn:
		overN, overItem := false, false
		if over {
			if s.maxItem <= 4096 && r.Intn(2) == 0 {
				overItem = true
			} else if s.maxN < 5000 || r.Intn(12) == 0 {
				overN = true
			}
		}
		c := pickLen(r, s.maxN, t.capN, false)
		if overN {
			c = s.maxN + 1 + r.Intn(3)
		}
		if c > 5000 {
			// a very long list: rare, all items empty so that the line stays short
			items := make([]Term, c)
			for i := range items {
				items[i] = lit(nil)
			}
			return fval{items: items}
		}
		if overItem && c == 0 {
			c = 1 + r.Intn(3)
		}
		items := make([]Term, c)
		// a few large items, the rest short; now and then everything at the maximum
		allMax := !over && c > 0 && c*minInt(s.maxItem, t.capLen) <= 140000 && r.Intn(40) == 0
		nBig := r.Intn(3)
		for i := range items {
			switch {
			case allMax:
				items[i] = randTerm(r, minInt(s.maxItem, t.capLen))
			case nBig > 0 && r.Intn(c) < 2:
				items[i] = randTerm(r, pickLen(r, s.maxItem, t.capLen, false))
				nBig--
			default:
				items[i] = randTerm(r, r.Intn(41))
			}
		}
		if overItem {
			items[r.Intn(c)] = randTerm(r, pickLen(r, s.maxItem, t.capLen, true))
		}
		return fval{items: items}
	case sNib:
		n := pickLen(r, s.maxN, 1<<30, over)
		b := make([]byte, n)
		for i := range b {
			b[i] = byte(r.Intn(16))
		}
		return fval{b: lit(b)}
	case sBits:
		if !over {
			return fval{b: lit(bitlistBytes(r, pickLen(r, s.maxN, 1<<30, false)))}
		}
		switch r.Intn(6) {
		case 0: // one bit too many
			return fval{b: lit(bitlistBytes(r, s.maxN+1+r.Intn(8)))}
		case 1: // many bits: 10..64 bytes, the encoder's byte bound lets them through
			return fval{b: lit(bitlistBytes(r, 8*(9+r.Intn(55))+r.Intn(8)))}
		case 2: // more than 64 bytes
			return fval{b: lit(bitlistBytes(r, 8*(64+r.Intn(10))+r.Intn(8)))}
		case 3: // no sentinel at all
			return fval{b: lit(nil)}
		case 4: // last byte zero
			b := bitlistBytes(r, r.Intn(s.maxN-7))
			return fval{b: lit(append(b, 0))}
		default: // right number of bytes, sentinel too high
			b := make([]byte, s.maxN/8+1)
			r.Read(b)
			b[len(b)-1] |= 2 + byte(r.Intn(126))*2
			return fval{b: lit(b)}
		}
	}
	return fval{}
}

// genValue: all fields within limits, or exactly one field beyond.
func genValue(r *rand.Rand, t *wtype, over bool) []fval {
	v := make([]fval, len(t.slots))
	bad := -1
	if over {
		// choose among the fields that have a limit to cross
		var cands []int
		for i, s := range t.slots {
			if s.k != sUint && !(s.k == sFix && s.typed) {
				cands = append(cands, i)
			}
		}
		if len(cands) == 0 {
			over = false
		} else {
			bad = cands[r.Intn(len(cands))]
		}
	}
	for i, s := range t.slots {
		v[i] = genField(r, t, s, i == bad)
	}
	return v
}

// boundaryFields: the field at its declared maximum and just beyond it.
func boundaryFields(s slot, thorough bool) []fval {
	budget := 300000
	if thorough {
		budget = 4 << 20
	}
	items := func(n, size int) fval {
		out := make([]Term, n)
		for i := range out {
			if size == 0 {
				out[i] = lit(nil)
			} else {
				out[i] = gen(size, i%7)
			}
		}
		return fval{items: out}
	}
	var out []fval
	switch s.k {
	case sFix:
		if !s.typed {
			out = append(out, fval{b: gen(s.n, 1)}, fval{b: gen(s.n+1, 1)}, fval{b: gen(s.n-1, 1)})
		}
	case sFvec:
		if s.n*s.size <= budget {
			out = append(out, items(s.n, s.size), items(s.n+1, s.size), items(s.n-1, s.size))
		}
		if s.n >= 2 && s.n*s.size <= 4<<20 {
			// the right number of items and the right total, but one item a byte long and another a byte short
			c := items(s.n, s.size)
			c.items = append([]Term{}, c.items...)
			c.items[0], c.items[s.n-1] = gen(s.size+1, 5), gen(s.size-1, 6)
			out = append(out, c)
			c2 := items(s.n, s.size)
			c2.items = append([]Term{}, c2.items...)
			c2.items[s.n/2], c2.items[s.n/2-1] = gen(0, 5), gen(2*s.size, 6)
			out = append(out, c2)
		}
	case sBytes:
		if s.maxN <= budget {
			out = append(out, fval{b: gen(s.maxN, 2)}, fval{b: gen(s.maxN+1, 2)})
		}
	case sNib:
		for _, n := range []int{s.maxN, s.maxN + 1} {
			b := make([]byte, n)
			for i := range b {
				b[i] = byte((i*7 + 3) % 16)
			}
			out = append(out, fval{b: lit(b)})
		}
	case sVec:
		if s.maxN*s.n <= budget {
			out = append(out, items(s.maxN, s.n), items(s.maxN+1, s.n))
		}
	case sDyn:
		if 4*s.maxN <= budget {
			out = append(out, items(s.maxN, 0), items(s.maxN+1, 0))
		}
		if s.maxItem <= budget {
			out = append(out, fval{items: []Term{gen(s.maxItem, 3)}}, fval{items: []Term{gen(s.maxItem+1, 3)}},
				fval{items: []Term{lit(nil), gen(s.maxItem+1, 3), lit([]byte{1})}})
		}
	case sBits:
		for _, n := range []int{s.maxN, s.maxN + 1} {
			out = append(out, fval{b: lit([]byte(bitfield.NewBitlist(uint64(n))))})
		}
	}
	return out
}

func minimalValue(t *wtype) []fval {
	v := make([]fval, len(t.slots))
	for i, s := range t.slots {
		switch s.k {
		case sFix:
			v[i] = fval{b: lit(make([]byte, s.n))}
		case sFvec:
			items := make([]Term, s.n)
			for j := range items {
				items[j] = gen(s.size, 0)
			}
			v[i] = fval{items: items}
		case sBits:
			v[i] = fval{b: lit([]byte{1})}
		case sBytes, sNib:
			v[i] = fval{b: lit(nil)}
		}
	}
	return v
}

func mutate(r *rand.Rand, b []byte) ([]byte, string) {
	c := append([]byte{}, b...)
	switch k := r.Intn(7); {
	case k == 0 && len(c) > 0:
		c[r.Intn(len(c))] ^= 1 << uint(r.Intn(8))
		return c, "bitflip"
	case k == 1 && len(c) > 0:
		c[r.Intn(len(c))] = byte(r.Intn(256))
		return c, "byteset"
	case k == 2 && len(c) > 0:
		return c[:r.Intn(len(c))], "truncate"
	case k == 3:
		n := 1 + r.Intn(8)
		ext := make([]byte, n)
		if r.Intn(2) == 0 {
			r.Read(ext)
		}
		return append(c, ext...), "trailing"
	case k == 4 && len(c) > 0:
		i := r.Intn(len(c))
		return append(c[:i], c[i+1:]...), "delete"
	case k == 5:
		i := r.Intn(len(c) + 1)
		c = append(c[:i], append([]byte{byte(r.Intn(256))}, c[i:]...)...)
		return c, "insert"
	default:
		ext := make([]byte, 4)
		return append(c, ext...), "trailing"
	}
}

// offsetGame rewrites one 4-byte offset of a valid encoding.
func offsetGame(r *rand.Rand, b []byte, pos []int) ([]byte, string) {
	c := append([]byte{}, b...)
	i := r.Intn(len(pos))
	p := pos[i]
	cur := int(binary.LittleEndian.Uint32(c[p:]))
	put := func(v int) { binary.LittleEndian.PutUint32(c[p:], uint32(v)) }
	switch r.Intn(11) {
	case 0:
		put(cur + 1)
		return c, "off+1"
	case 1:
		put(cur - 1)
		return c, "off-1"
	case 2:
		put(cur + 4)
		return c, "off+4"
	case 3:
		put(cur - 4)
		return c, "off-4"
	case 4:
		put(0)
		return c, "off=0"
	case 5:
		put(len(c))
		return c, "off=len"
	case 6:
		put(len(c) + 1)
		return c, "off=len+1"
	case 7:
		put(-1)
		return c, "off=max"
	case 8: // equal to / swapped with a neighbour: overlapping or decreasing offsets
		if i+1 < len(pos) {
			q := pos[i+1]
			nv := binary.LittleEndian.Uint32(c[q:])
			binary.LittleEndian.PutUint32(c[q:], uint32(cur))
			put(int(nv))
			return c, "off-swap"
		}
		put(cur + 1 + r.Intn(5))
		return c, "off+k"
	case 9: // shift the offset AND insert the bytes it skips: shifted first offset
		k := 1 + r.Intn(4)
		put(cur + k)
		if cur <= len(c) {
			c = append(c[:cur], append(make([]byte, k), c[cur:]...)...)
		}
		return c, "off-shift-pad"
	default:
		if i > 0 {
			q := pos[i-1]
			put(int(binary.LittleEndian.Uint32(c[q:])))
			return c, "off=prev"
		}
		put(cur + 2)
		return c, "off+2"
	}
}

func wordTails(maxWords int) [][]byte {
	words := [][]byte{{0, 0, 0, 0}, {4, 0, 0, 0}, {8, 0, 0, 0}, {12, 0, 0, 0}, {5, 0, 0, 0}, {0xff, 0xff, 0xff, 0xff}}
	extras := [][]byte{{}, {0}, {0xff}, {0, 0}, {0xff, 0}, {0, 0xff}, {0xff, 0xff}}
	var seqs [][]byte
	var rec func(prefix []byte, depth int)
	rec = func(prefix []byte, depth int) {
		for _, e := range extras {
			seqs = append(seqs, append(append([]byte{}, prefix...), e...))
		}
		if depth == maxWords {
			return
		}
		for _, w := range words {
			rec(append(append([]byte{}, prefix...), w...), depth+1)
		}
	}
	rec(nil, 0)
	return seqs
}

func byteTails(maxLen int) [][]byte {
	alpha := []byte{0x00, 0x01, 0x04, 0xff}
	seqs := [][]byte{{}}
	level := [][]byte{{}}
	for l := 1; l <= maxLen; l++ {
		var next [][]byte
		for _, p := range level {
			for _, a := range alpha {
				next = append(next, append(append([]byte{}, p...), a))
			}
		}
		seqs = append(seqs, next...)
		level = next
	}
	return seqs
}

func runC14(o *Out, r *rand.Rand, thorough bool, _ []string) {
	scale := 1.0
	if thorough {
		scale = 20
	}
	types := c14Types()
	defer func() {
		var names []string
		for n := range appendChecks {
			names = append(names, n)
		}
		sort.Strings(names)
		for _, n := range names {
			o.Case(fmt.Sprintf("appendenc %s n=%d", n, appendChecks[n]), fmt.Sprintf("diffs=%d", appendDiffs[n]))
		}
		for _, t := range types {
			if t.nRetain > 0 {
				o.Case(fmt.Sprintf("retain %s n=%d", t.name, t.nRetain), fmt.Sprintf("changed=%d", t.nChanged))
			}
			if t.nEncRetain > 0 {
				o.Case(fmt.Sprintf("retain %s.enc n=%d", t.name, t.nEncRetain), fmt.Sprintf("changed=%d", t.nEncChanged))
			}
		}
	}()
	for _, t := range types {
		nVal := int(110 * scale * t.weight)
		if nVal < 3 {
			nVal = 3
		}
		nRand := int(60 * scale * t.weight)
		var encs [][]byte
		fl := t.fixedLen()

		// ---- values: within, at and just beyond the limits
		valCase(o, t, minimalValue(t))
		for i := 0; i < nVal; i++ {
			over := i%5 >= 3 // two in five carry one field beyond its limit
			v := genValue(r, t, over)
			b := valCase(o, t, v)
			if b != nil && len(b) <= 6000 {
				encs = append(encs, b)
			}
			if b == nil {
				// the encoder refused: hand the decoder the image such a value WOULD have
				if c := craft(t, v); len(c) <= 12000 || (i%20 == 3 && len(c) <= 300000) {
					bytesCase(o, t, "crafted-overlimit", c)
				}
			} else if len(b) <= 3000 && i%3 == 0 {
				bytesCase(o, t, "valid", b)
			}
		}
		// ---- deterministic sweep: every limit of the type at its maximum and one beyond, other fields minimal
		for i, sl := range t.slots {
			for _, fv := range boundaryFields(sl, thorough) {
				v := minimalValue(t)
				v[i] = fv
				b := valCase(o, t, v)
				if b == nil {
					if c := craft(t, v); len(c) <= 300000 || thorough {
						bytesCase(o, t, "crafted-boundary", c)
					}
				} else if len(b) <= 300000 {
					bytesCase(o, t, "valid-boundary", b)
				}
			}
		}
		// one large valid buffer for the fixed-size giants (term notation keeps the line short)
		if t.name == "h.EpochAccumulator" {
			for i := 0; i < 2; i++ {
				tm := gen(fl+i, 7+i) // exact size, and one byte too long
				bytesCaseT(o, t, "valid-or-long", tm.Bytes(), tm.String())
			}
		}

		// ---- byte strings
		bytesCase(o, t, "empty", nil)
		min, _, _ := c14SafeEnc(t, minimalValue(t))
		if len(min) <= 4096 {
			bytesCase(o, t, "minimal", min)
			for k := 1; k <= 4 && len(min) > 0; k++ {
				bytesCase(o, t, "truncate", min[:len(min)-minInt(k, len(min))])
			}
			bytesCase(o, t, "trailing", append(append([]byte{}, min...), 0))
			bytesCase(o, t, "trailing", append(append([]byte{}, min...), 0, 0, 0, 0))
			bytesCase(o, t, "trailing", append(append([]byte{}, min...), 4, 0, 0, 0))
		}
		if len(encs) > 0 {
			for i := 0; i < int(150*scale*t.weight); i++ {
				src := encs[r.Intn(len(encs))]
				if len(src) > 1500 && i%8 != 0 {
					src = encs[r.Intn(len(encs))]
				}
				if len(src) > 3000 {
					continue
				}
				m, kind := mutate(r, src)
				bytesCase(o, t, kind, m)
			}
			for i := 0; i < int(150*scale*t.weight); i++ {
				src := encs[r.Intn(len(encs))]
				if len(src) > 3000 {
					continue
				}
				pos := offsetPositions(t, src)
				if len(pos) == 0 {
					break
				}
				m, kind := offsetGame(r, src, pos)
				bytesCase(o, t, kind, m)
			}
		}
		for i := 0; i < nRand; i++ {
			n := r.Intn(fl + 24)
			if fl > 2000 {
				n = fl - 2 + r.Intn(5)
			}
			b := make([]byte, n)
			for j := range b {
				switch r.Intn(5) {
				case 0:
					b[j] = 0
				case 1:
					b[j] = byte(4 * r.Intn(4))
				case 2:
					b[j] = byte(fl)
				default:
					b[j] = byte(r.Intn(256))
				}
			}
			if n >= 4 && fl > 0 && fl < 256 && r.Intn(2) == 0 {
				// plausible first offset where the container expects it
				if pos := offsetPositions(t, min); len(pos) > 0 && pos[0]+4 <= n {
					binary.LittleEndian.PutUint32(b[pos[0]:], uint32(fl))
				}
			}
			bytesCase(o, t, "random", b)
		}
		// ---- exhaustive short tails after the minimal fixed part (and on their own)
		if fl <= 64 {
			prefix := []byte{}
			if !t.bare && len(min) >= fl {
				prefix = min[:fl]
			}
			last := t.slots[len(t.slots)-1]
			var tails [][]byte
			if last.k == sDyn {
				tails = wordTails(map[bool]int{false: 2, true: 3}[thorough])
			} else {
				tails = byteTails(map[bool]int{false: 3, true: 6}[thorough])
			}
			for _, tl := range tails {
				bytesCase(o, t, "exhaustive-tail", append(append([]byte{}, prefix...), tl...))
			}
			if len(prefix) > 0 {
				for _, tl := range byteTails(map[bool]int{false: 2, true: 4}[thorough]) {
					bytesCase(o, t, "exhaustive-short", tl)
				}
			}
		}
	}

	// ---- go-bitfield bit lists as carried by ACCEPT (v0)
	for n := 0; n <= 80; n++ {
		reps := 2
		if thorough {
			reps = 20
		}
		for k := 0; k < reps; k++ {
			bl := bitfield.NewBitlist(uint64(n))
			var set []string
			for i := 0; i < n; i++ {
				if r.Intn(3) == 0 {
					bl.SetBitAt(uint64(i), true)
					set = append(set, strconv.Itoa(i))
				}
			}
			s := "-"
			if len(set) > 0 {
				s = strings.Join(set, ",")
			}
			acc := "err"
			func() {
				defer func() {
					if recover() != nil {
						acc = "panic"
					}
				}()
				a := &portalwire.Accept{ConnectionId: []byte{1, 2}, ContentKeys: []byte(bl)}
				if b, err := a.MarshalSSZ(); err == nil {
					a2 := &portalwire.Accept{}
					if a2.UnmarshalSSZ(b) == nil && bytes.Equal(a2.ContentKeys, bl) && bitfield.Bitlist(a2.ContentKeys).Len() == uint64(n) {
						acc = "ok"
					}
				}
			}()
			o.Case(fmt.Sprintf("bits n=%d set=%s", n, s), hex.EncodeToString(bl)+" accept="+acc)
		}
	}

	// ---- the pre-built error payload table against the struct values it stands for
	for code := uint16(0); code < 6; code++ {
		p, ok := pingext.VerifErrorPayloads()[code]
		tab := pingext.GetErrorPayloadBytes(code)
		if !ok {
			continue
		}
		o.Case(fmt.Sprintf("errtab code=%d msg=%s", uint16(p.ErrorCode), bytesTerm(p.Message)), canon(tab))
		for _, t := range types {
			if t.name == "pe.Error" {
				bytesCase(o, t, "errtab", tab)
			}
		}
	}

	runC14Generic(o, r, thorough)
	runC14Big(o, thorough)
}
