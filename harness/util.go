//go:build verif

package main

import (
	"bufio"
	"encoding/hex"
	"fmt"
	"math/rand"
	"os"
	"strconv"
	"strings"
)

// Out is the case stream: one `input | impl-output` line per case.
type Out struct {
	w *bufio.Writer
	n int
}

func newOut() *Out { return &Out{w: bufio.NewWriterSize(os.Stdout, 1<<20)} }
func (o *Out) Case(input, impl string) {
	fmt.Fprintf(o.w, "%s | %s\n", input, impl)
	o.n++
	if o.n%512 == 0 { // a crash of the process in another goroutine loses at most the last lines
		o.w.Flush()
	}
}
func (o *Out) Comment(s string) { fmt.Fprintf(o.w, "# %s\n", s) }
func (o *Out) Flush()           { o.w.Flush() }

func hx(b []byte) string {
	if len(b) == 0 {
		return "-"
	}
	return hex.EncodeToString(b)
}

func fnv(b []byte) uint64 {
	h := uint64(0xcbf29ce484222325)
	for _, c := range b {
		h = (h ^ uint64(c)) * 0x100000001b3
	}
	return h
}

// canon: hex when short, "#len:fnv64" otherwise (same rule in the Lean driver).
func canon(b []byte) string {
	if len(b) <= 48 {
		return hx(b)
	}
	return fmt.Sprintf("#%d:%016x", len(b), fnv(b))
}

func canonItems(xs [][]byte) string {
	if len(xs) == 0 {
		return "-"
	}
	s := make([]string, len(xs))
	for i, x := range xs {
		s[i] = canon(x)
	}
	return strings.Join(s, ",")
}

// genBytes: the pseudo-random bytes of the term "r<len>:<seed>".
func genBytes(n, seed int) []byte {
	b := make([]byte, n)
	for i := range b {
		b[i] = byte((seed*31 + i*7 + (i/256)*13) % 256)
	}
	return b
}

// Term is one piece of the byte notation shared with the driver.
type Term struct {
	lit  []byte
	n    int
	seed int
	gen  bool
}

func lit(b []byte) Term    { return Term{lit: b} }
func gen(n, seed int) Term { return Term{n: n, seed: seed, gen: true} }
func (t Term) Bytes() []byte {
	if t.gen {
		return genBytes(t.n, t.seed)
	}
	return t.lit
}
func (t Term) String() string {
	if t.gen {
		return "r" + strconv.Itoa(t.n) + ":" + strconv.Itoa(t.seed)
	}
	return "x" + hex.EncodeToString(t.lit)
}

// item picks literal notation for short strings and generated notation for long ones.
func randItem(r *rand.Rand, n int) Term {
	if n <= 40 {
		b := make([]byte, n)
		r.Read(b)
		return lit(b)
	}
	return gen(n, r.Intn(1000))
}

func termsString(ts []Term) string {
	if len(ts) == 0 {
		return "-"
	}
	s := make([]string, len(ts))
	for i, t := range ts {
		s[i] = t.String()
	}
	return strings.Join(s, ",")
}

func bytesTerm(b []byte) string {
	if len(b) == 0 {
		return "-"
	}
	return "x" + hex.EncodeToString(b)
}

func errStr(err error) string {
	if err != nil {
		return "err"
	}
	return "ok"
}

func envInt(name string, def int) int {
	if v := os.Getenv(name); v != "" {
		if n, err := strconv.Atoi(v); err == nil {
			return n
		}
	}
	return def
}
