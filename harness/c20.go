//go:build verif

package main

import (
	"bytes"
	"crypto/sha256"
	"encoding/hex"
	"fmt"
	"github.com/ethereum/go-ethereum/rlp"
	"math/rand"
	"net"
	"sort"
	"strconv"
	"strings"
	"time"

	"github.com/ethereum/go-ethereum/p2p/enode"
	"github.com/holiman/uint256"
	"github.com/zen-eth/shisui/portalwire"
	pingext "github.com/zen-eth/shisui/portalwire/ping_ext"
)

func init() {
	runners["gossip"] = runGossip
	runners["radius"] = runRadius
}

func radiusBytes(r *rand.Rand) []byte {
	// SSZ (little-endian) uint256
	v := new(uint256.Int)
	switch r.Intn(4) {
	case 0:
		v.SetAllOne()
	case 1:
		v.Lsh(uint256.NewInt(1), uint(200+r.Intn(56)))
	default:
		b := make([]byte, 32)
		r.Read(b)
		v.SetBytes(b)
	}
	out, _ := v.MarshalSSZ()
	return out
}

// runGossip: GossipAndReturnPeers on a started node without offer workers (queued offers stay observable). The
// radius cache is rewritten per call so that 0..32 of the closest nodes cover the content.
func runGossip(o *Out, r *rand.Rand, thorough bool, _ []string) {
	rounds, perRound := 3, shorter(150, thorough)
	if thorough {
		rounds, perRound = 30, 300
	}
	for round := 0; round < rounds; round++ {
		mn := newMemNet()
		nd := startNode(mn, r, nodeOpts{ip: net.IP{34, 80, 1, byte(1 + round)}, port: 9600 + round, utpLimit: 100000, noWorkers: true})
		count := []int{0, 3, 20, 62, 140, 272}[(round*2+r.Intn(2))%6]
		known := fillTable(nd, r, count, false)
		stranger := signRecPad(keyFromSeed(r), net.IP{34, 99, 2, 2}, 4000, 1, 0)
		var knownIDs []enode.ID
		for id := range known {
			knownIDs = append(knownIDs, id)
		}
		sort.Slice(knownIDs, func(i, j int) bool { return bytes.Compare(knownIDs[i][:], knownIDs[j][:]) < 0 })
		// content ids are scripted per key (the sub-network's key-to-id function is a parameter of the protocol)
		cidOf := map[string][]byte{}
		nd.p.VerifSetToContentId(func(k []byte) []byte {
			if c, ok := cidOf[string(k)]; ok {
				return c
			}
			h := sha256.Sum256(k)
			return h[:]
		})
		for c := 0; c < perRound; c++ {
			key := make([]byte, 8+r.Intn(20))
			r.Read(key)
			idh := sha256.Sum256(key)
			cid := idh[:]
			if len(knownIDs) > 0 && r.Intn(5) == 0 {
				// the content id at the largest distance there is from one table node (its bitwise complement), or next to it
				nid := knownIDs[r.Intn(len(knownIDs))]
				cid = make([]byte, 32)
				for i := range cid {
					cid[i] = ^nid[i]
				}
				if r.Intn(3) == 0 {
					cid[31] ^= 1
				}
				cidOf[string(key)] = cid
			}
			before := viewTable(nd, known)
			closest := nd.p.VerifFindNodesCloseToContent(cid, 32)
			density := r.Intn(5) // 0: nobody knows a radius .. 4: everybody covers
			var desc []string
			for _, n2 := range closest {
				nd.p.VerifRadiusCacheDel(n2.ID())
				knownR, covers := false, false
				if r.Intn(4) < density {
					knownR = true
					var rad *uint256.Int
					// the distance, computed here (not by the code under test): XOR of the two ids as a big-endian number
					nid := n2.ID()
					xb := make([]byte, 32)
					for i := range xb {
						xb[i] = nid[i] ^ cid[i]
					}
					dist := new(uint256.Int).SetBytes(xb)
					switch k := r.Intn(8); {
					case k == 0:
						rad = dist.Clone() // exactly the distance: not covered
					case k == 1 && !dist.Eq(new(uint256.Int).SetAllOne()):
						rad = new(uint256.Int).AddUint64(dist, 1) // just above: covered
					case r.Intn(4) < density:
						rad = new(uint256.Int).SetAllOne()
					default:
						rad = uint256.NewInt(uint64(r.Intn(1000)))
					}
					rb, _ := rad.MarshalSSZ()
					nd.p.VerifRadiusCacheSet(n2.ID(), rb)
					covers = dist.Lt(rad)
				}
				desc = append(desc, fmt.Sprintf("%d:%d:%d:%d", before.index[n2.ID()], enode.LogDist(n2.ID(), enode.ID(cid)), b2i(knownR), b2i(covers)))
			}
			var src *enode.ID
			srcIdx := -1
			switch r.Intn(3) {
			case 0:
				if len(closest) > 0 {
					id := closest[r.Intn(len(closest))].ID()
					src, srcIdx = &id, before.index[id]
				}
			case 1:
				id := stranger.ID()
				src, srcIdx = &id, 0
			}
			got, err := nd.p.GossipAndReturnPeers(src, [][]byte{key}, [][]byte{genBytes(10, c)})
			queued := nd.p.VerifDrainOfferQueue()
			srcOnQueue := 0
			for _, q := range queued {
				q.VerifPermit().Release()
				if src != nil && q.Node.ID() == *src {
					srcOnQueue = 1
				}
			}
			after := viewTable(nd, known)
			if before.desc != after.desc {
				continue
			}
			if len(desc) == 0 {
				desc = []string{"-"}
			}
			input := fmt.Sprintf("gossip tablen=%d src=%d closest=%s", len(before.index), srcIdx, strings.Join(desc, ","))
			if err != nil {
				o.Case(input, "error")
				continue
			}
			var ids []string
			for _, g := range got {
				ids = append(ids, strconv.Itoa(before.index[g.ID()]))
			}
			if len(ids) == 0 {
				ids = []string{"-"}
			}
			o.Case(input, fmt.Sprintf("peers=%s queued=%d srcqueued=%d", strings.Join(ids, ","), len(queued), srcOnQueue))
		}
		nd.stop()
	}
}

// runRadius: the radius cache under interleavings of ping and pong payload types, for peers that are table entries,
// replacements, or unknown; on a history node (types 0 and 2) and a state node (types 0 and 1).
func runRadius(o *Out, r *rand.Rand, thorough bool, _ []string) {
	seqs := 120
	if thorough {
		seqs = 3000
	}
	mn := newMemNet()
	hist := startNode(mn, r, nodeOpts{ip: net.IP{34, 81, 1, 1}, port: 9700, utpLimit: 10})
	state := startNode(mn, r, nodeOpts{ip: net.IP{34, 81, 1, 2}, port: 9701, utpLimit: 10, proto: portalwire.State})
	// full buckets: most newcomers then become replacements, which count as members for the radius cache
	fillTable(hist, r, 250, false)
	fillTable(state, r, 250, false)
	// and a history node whose buckets have room: there a newcomer becomes an entry at once
	roomy := startNode(mn, r, nodeOpts{ip: net.IP{34, 81, 1, 3}, port: 9702, utpLimit: 10})
	fillTable(roomy, r, 12, false)
	defer roomy.stop()
	for s := 0; s < seqs; s++ {
		nd, net_ := hist, "history"
		switch r.Intn(3) {
		case 0:
			nd, net_ = state, "state"
		case 1:
			nd = roomy
		}
		peer := signRecPad(keyFromSeed(r), net.IP{byte(35 + s/60000), byte(s / 250 % 250), byte(s % 250), 9}, 6000, 5, 0)
		// a full bucket sends a newcomer to the replacement list: still a member for the radius cache
		membership := func() string {
			for _, b := range nd.p.VerifTable().VerifSnapshot().Buckets {
				for _, e := range b.Entries {
					if e.Node.ID() == peer.ID() {
						return "entry"
					}
				}
				for _, e := range b.Replacements {
					if e.Node.ID() == peer.ID() {
						return "replacement"
					}
				}
			}
			return "none"
		}
		if r.Intn(4) != 0 && (nd != roomy || r.Intn(2) == 0) {
			nd.p.VerifTable().VerifAddNode(peer, false, true)
		}
		member := membership()
		o.Case(fmt.Sprintf("rpeer net=%s member=%s", net_, member), "ok")
		// every twelfth sequence of a member begins with the case that must not depend on luck: a well-formed ping of a supported
		// radius type that announces a newer record than the one held
		forceNewer := s%12 == 5 && member != "none"
		for e := 0; e < 1+r.Intn(6); e++ {
			typ := []uint16{pingext.ClientInfo, pingext.BasicRadius, pingext.HistoryRadius, 7, pingext.Error}[r.Intn(5)]
			if forceNewer && e == 0 {
				typ = pingext.ClientInfo
			}
			rad := radiusBytes(r)
			var payload []byte
			var decoded interface{}
			switch typ {
			case pingext.ClientInfo:
				pl := pingext.NewClientInfoAndCapabilitiesPayload(rad, []uint16{0, 1, 2})
				payload, _ = pl.MarshalSSZ()
				decoded = &pl
			case pingext.BasicRadius:
				pl := pingext.NewBasicRadiusPayload(rad)
				payload, _ = pl.MarshalSSZ()
				decoded = &pl
			case pingext.HistoryRadius:
				pl := pingext.NewHistoryRadiusPayload(rad, uint16(r.Intn(100)))
				payload, _ = pl.MarshalSSZ()
				decoded = &pl
			default:
				payload = rad
			}
			malformed := r.Intn(8) == 0 && len(payload) > 3 && !(forceNewer && e == 0)
			if malformed {
				payload = payload[:len(payload)-3]
			}
			kind := "ping"
			if r.Intn(2) == 0 && !(forceNewer && e == 0) {
				kind = "pong"
			}
			if r.Intn(10) == 0 && !(forceNewer && e == 0) {
				// the record is handed to AddEnr again (an operator re-submitting known records): a node that is in the table
				// already keeps the radius it reported; only a node that enters the table by this call starts with the maximum
				before := membership()
				nd.p.AddEnr(peer)
				cached, found := nd.p.VerifRadiusCacheGet(peer.ID())
				cs := "none"
				if found {
					cs = hex.EncodeToString(cached)
				}
				o.Case(fmt.Sprintf("raddenr before=%s member=%s", before, membership()), "cache="+cs)
				continue
			}
			if !(forceNewer && e == 0) && (r.Intn(7) == 0 || (nd == roomy && e == 0 && r.Intn(2) == 0)) {
				// the peer answers one of our FINDCONTENT requests with a list of closer nodes: that says nothing about ITS radius
				// (it may enter the table by this; what the cache holds for it stays what it last reported, or nothing)
				before := membership()
				var recs [][]byte
				for k := r.Intn(3); k > 0; k-- {
					n2 := signRecPad(keyFromSeed(r), net.IP{36, byte(r.Intn(250)), byte(r.Intn(250)), 9}, 6001, 1, 0)
					b, _ := rlp.EncodeToBytes(n2.Record())
					recs = append(recs, b)
				}
				body, _ := (&portalwire.Enrs{Enrs: recs}).MarshalSSZ()
				reply := append([]byte{portalwire.CONTENT, portalwire.ContentEnrsSelector}, body...)
				_, _, perr := nd.p.VerifProcessContent(peer, reply)
				cached, found := nd.p.VerifRadiusCacheGet(peer.ID())
				cs := "none"
				if found {
					cs = hex.EncodeToString(cached)
				}
				o.Case(fmt.Sprintf("rcontentenrs before=%s member=%s", before, membership()), fmt.Sprintf("%s cache=%s", errStr(perr), cs))
				continue
			}
			res := "ok"
			if kind == "ping" {
				ping := &portalwire.Ping{EnrSeq: 1, PayloadType: typ, Payload: payload}
				if r.Intn(12) == 0 || (forceNewer && e == 0) {
					// the peer announces a newer record than the one we hold (sequence number 5) and then does not serve it (the
					// record request times out): the radius reported in this very ping counts all the same
					ping.EnrSeq = 6 + uint64(r.Intn(5))
				}
				// the reply is requested under an id that is in no table: the handler's asynchronous processPing then has no
				// effect, and the ordered processing below is the only writer of the cache
				var ghost enode.ID
				r.Read(ghost[:])
				resp, err := nd.p.VerifHandlePing(ghost, ping)
				// the pong must carry our current ENR sequence number and, for radius payloads, our radius
				if err != nil || len(resp) == 0 || resp[0] != portalwire.PONG {
					res = "pongerr"
				} else {
					pong := &portalwire.Pong{}
					if pong.UnmarshalSSZ(resp[1:]) != nil || pong.EnrSeq != nd.p.Self().Seq() {
						res = "badpong"
					} else {
						res = fmt.Sprintf("pongtype=%d", pong.PayloadType)
					}
				}
				if !malformed && decoded != nil {
					nd.p.VerifProcessPing(peer.ID(), ping, decoded) // same call the handler makes asynchronously, in order
				}
			} else {
				pong := &portalwire.Pong{EnrSeq: 1, PayloadType: typ, Payload: payload}
				body, _ := pong.MarshalSSZ()
				_, _, err := nd.p.VerifProcessPong(peer, append([]byte{portalwire.PONG}, body...))
				res = errStr(err)
			}
			cached, found := nd.p.VerifRadiusCacheGet(peer.ID())
			cs := "none"
			if found {
				cs = hex.EncodeToString(cached)
			}
			// processPong first adds the responder to the table (if it fits), so membership is observed after the call
			o.Case(fmt.Sprintf("revent kind=%s type=%d radius=%s malformed=%d member=%s", kind, typ, hex.EncodeToString(rad), b2i(malformed), membership()), fmt.Sprintf("%s cache=%s", res, cs))
			if s%12 == 9 && e == 0 && member != "none" {
				// our own liveness ping to the peer goes unanswered (it is silent): a missed check says nothing about its radius
				_, perr := nd.p.VerifPing(peer)
				cached, found := nd.p.VerifRadiusCacheGet(peer.ID())
				cs := "none"
				if found {
					cs = hex.EncodeToString(cached)
				}
				o.Case(fmt.Sprintf("rpingfail member=%s", membership()), fmt.Sprintf("%s cache=%s", errStr(perr), cs))
			}
		}
		// the handler's own (asynchronous) processing: one ping through handlePing, then poll the cache
		if member != "none" && r.Intn(4) == 0 {
			typ := []uint16{pingext.ClientInfo, pingext.BasicRadius, pingext.HistoryRadius}[r.Intn(3)]
			rad := radiusBytes(r)
			// a radius different from what is cached, so that "the cache now holds it" means this ping put it there
			for {
				if c, ok := nd.p.VerifRadiusCacheGet(peer.ID()); !ok || hex.EncodeToString(c) != hex.EncodeToString(rad) {
					break
				}
				rad = radiusBytes(r)
			}
			var payload []byte
			switch typ {
			case pingext.ClientInfo:
				pl := pingext.NewClientInfoAndCapabilitiesPayload(rad, []uint16{0})
				payload, _ = pl.MarshalSSZ()
			case pingext.BasicRadius:
				pl := pingext.NewBasicRadiusPayload(rad)
				payload, _ = pl.MarshalSSZ()
			default:
				pl := pingext.NewHistoryRadiusPayload(rad, 3)
				payload, _ = pl.MarshalSSZ()
			}
			_, _ = nd.p.VerifHandlePing(peer.ID(), &portalwire.Ping{EnrSeq: 1, PayloadType: typ, Payload: payload})
			updated := 0
			for i := 0; i < 400; i++ {
				if c, ok := nd.p.VerifRadiusCacheGet(peer.ID()); ok && hex.EncodeToString(c) == hex.EncodeToString(rad) {
					updated = 1
					break
				}
				time.Sleep(time.Millisecond)
			}
			o.Case(fmt.Sprintf("rwire type=%d radius=%s member=%s", typ, hex.EncodeToString(rad), membership()), fmt.Sprintf("updated=%d", updated))
		}
		if member == "entry" && r.Intn(3) != 0 {
			nd.p.VerifTable().VerifDeleteNode(peer)
		}
	}
	hist.stop()
	state.stop()
}
