//go:build verif

package main

import (
	"crypto/ecdsa"
	"errors"
	"fmt"
	"math"
	"math/rand"
	"net"
	"net/netip"
	"regexp"
	"sort"
	"strconv"
	"strings"
	"sync"
	"time"

	"github.com/ethereum/go-ethereum/common/mclock"
	"github.com/ethereum/go-ethereum/p2p/enode"
	"github.com/ethereum/go-ethereum/p2p/enr"
	"github.com/ethereum/go-ethereum/p2p/netutil"
	"github.com/zen-eth/shisui/portalwire"
)

func init() { runners["table"] = runTable }

// ---- fake transport: ping / ENR answers are scripted per node id

type tabTransport struct {
	mu     sync.Mutex
	self   *enode.Node
	answer map[enode.ID]pingAnswer
	pinged chan enode.ID
}

type pingAnswer struct {
	respond bool
	seq     uint64
	rec     *enode.Node
}

func (t *tabTransport) Self() *enode.Node { return t.self }
func (t *tabTransport) RequestENR(n *enode.Node) (*enode.Node, error) {
	t.mu.Lock()
	defer t.mu.Unlock()
	a := t.answer[n.ID()]
	if a.rec == nil {
		return nil, errors.New("no record")
	}
	return a.rec, nil
}
func (t *tabTransport) LookupRandom() []*enode.Node { return nil }
func (t *tabTransport) LookupSelf() []*enode.Node   { return nil }
func (t *tabTransport) Ping(n *enode.Node) (uint64, error) {
	t.mu.Lock()
	a := t.answer[n.ID()]
	t.mu.Unlock()
	t.pinged <- n.ID()
	if !a.respond {
		return 0, errors.New("timeout")
	}
	return a.seq, nil
}

// ---- pool of ids and record variants

type tabRec struct {
	idIdx int
	node  *enode.Node
	ip    net.IP
	port  int
	seq   uint64
}

func signRec(key *ecdsa.PrivateKey, ip net.IP, port int, seq uint64) *enode.Node {
	var r enr.Record
	if ip != nil {
		if len(ip) == 16 && ip.To4() != nil {
			// the same IPv4 endpoint announced in its v4-mapped IPv6 form (::ffff:a.b.c.d) in the ip6 field: enode keeps the
			// mapped address, and its /24 is ::/24, not a.b.c.0/24
			r.Set(enr.IPv6(ip))
		} else {
			r.Set(enr.IP(ip))
		}
	}
	r.Set(enr.UDP(uint16(port)))
	r.SetSeq(seq)
	if err := enode.SignV4(&r, key); err != nil {
		panic(err)
	}
	n, err := enode.New(enode.ValidSchemes, &r)
	if err != nil {
		panic(err)
	}
	return n
}

// ipText prints an address so that the v4-mapped form stays distinguishable from the plain one
func ipText(a netip.Addr) string {
	if !a.IsValid() {
		return "none"
	}
	if a.Is4In6() {
		return "m" + a.Unmap().String()
	}
	return a.String()
}

var netRe = regexp.MustCompile(`(\d+\.\d+\.\d+)\.0/24×(\d+)`)

// every v4-mapped address lies in ::/24; the pseudo subnet name the driver understands for it
var mappedNetRe = regexp.MustCompile(`::/24×(\d+)`)

const mappedSubnet = "m0.0.0"

func counters(s string, subnets []string) string {
	m := map[string]string{}
	for _, g := range netRe.FindAllStringSubmatch(s, -1) {
		m[g[1]] = g[2]
	}
	if g := mappedNetRe.FindStringSubmatch(s); g != nil {
		m[mappedSubnet] = g[1]
	}
	out := make([]string, len(subnets))
	for i, sn := range subnets {
		if v, ok := m[sn]; ok {
			out[i] = v
		} else {
			out[i] = "0"
		}
	}
	return strings.Join(out, ",")
}

type tabState struct {
	tab     *portalwire.Table
	idIdx   map[enode.ID]int
	subnets []string
}

func (ts *tabState) node(v portalwire.VerifNode, withState bool) string {
	ips := ipText(v.Node.IPAddr())
	s := fmt.Sprintf("%d/%s/%d/%d", ts.idIdx[v.Node.ID()], ips, v.Node.UDP(), v.Node.Seq())
	if withState {
		live := 0
		if v.Live {
			live = 1
		}
		l := "-"
		if v.List == "fast" {
			l = "F"
		} else if v.List == "slow" {
			l = "S"
		}
		s += fmt.Sprintf("/%d/%d/%s", v.Checks, live, l)
	}
	return s
}

func (ts *tabState) snapshot() (string, *portalwire.VerifSnapshot) {
	s := ts.tab.VerifSnapshot()
	var parts []string
	for i, b := range s.Buckets {
		if len(b.Entries) == 0 && len(b.Replacements) == 0 && b.IPs == "{}" {
			continue
		}
		var es, rs []string
		for _, e := range b.Entries {
			es = append(es, ts.node(e, true))
		}
		for _, r := range b.Replacements {
			rs = append(rs, ts.node(r, false))
		}
		parts = append(parts, fmt.Sprintf("b%d:e=%s;r=%s;c=%s", i, strings.Join(es, ","), strings.Join(rs, ","), counters(b.IPs, ts.subnets)))
	}
	idl := func(ids []enode.ID) string {
		var x []int
		for _, id := range ids {
			x = append(x, ts.idIdx[id])
		}
		sort.Ints(x)
		var ss []string
		for _, v := range x {
			ss = append(ss, strconv.Itoa(v))
		}
		return strings.Join(ss, ",")
	}
	return fmt.Sprintf("%s T=%s F=%s S=%s A=%s", strings.Join(parts, " "), counters(s.IPs, ts.subnets), idl(s.Fast), idl(s.Slow), idl(s.ActiveReq)), s
}

// promotedIndex recovers the random replacement pick of deleteInBucket by comparing snapshots.
func promotedIndex(before, after *portalwire.VerifSnapshot) int {
	for bi := range before.Buckets {
		afterE := map[enode.ID]bool{}
		for _, e := range after.Buckets[bi].Entries {
			afterE[e.Node.ID()] = true
		}
		for ri, r := range before.Buckets[bi].Replacements {
			wasEntry := false
			for _, e := range before.Buckets[bi].Entries {
				if e.Node.ID() == r.Node.ID() {
					wasEntry = true
				}
			}
			stillRep := false
			for _, r2 := range after.Buckets[bi].Replacements {
				if r2.Node.ID() == r.Node.ID() {
					stillRep = true
				}
			}
			if afterE[r.Node.ID()] && !wasEntry && !stillRep {
				return ri
			}
		}
	}
	return 0
}

func runTable(o *Out, r *rand.Rand, thorough bool, _ []string) {
	nSeq, nOps := shorter(14, thorough), 420
	if thorough {
		nSeq, nOps = 200, 500
	}
	for s := 0; s < nSeq; s++ {
		tableSequence(o, r, s, nOps)
	}
}

func tableSequence(o *Out, r *rand.Rand, seqNo, nOps int) {
	selfKey := keyFromSeed(r)
	self := signRec(selfKey, net.IP{127, 0, 0, 1}, 30303, 1)
	tr := &tabTransport{self: self, answer: map[enode.ID]pingAnswer{}, pinged: make(chan enode.ID, 64)}
	db, _ := enode.OpenDB("")
	clock := new(mclock.Simulated)
	// every fifth sequence starts INSIDE the table's initial seeding phase (the production default keeps it open until the
	// first refresh has finished): nodes that contact us are not added yet, everything else is as ever; the phase is ended
	// after a third of the operations
	preInit := seqNo%5 == 2 && seqNo%4 != 3
	var tab *portalwire.Table
	var err error
	// every third sequence runs a table that was configured with boot nodes - among them, now and then, the record of the
	// local node itself (an operator running one of the nodes of the default boot list): they are added when the table is
	// built and again by the seed-loading step of every refresh
	type bootNode struct {
		key  *ecdsa.PrivateKey // nil: the local node's own record
		node *enode.Node
		ip   net.IP
		port int
	}
	var boot []bootNode
	if seqNo%3 == 0 {
		for n := 1 + r.Intn(4); n > 0; n-- {
			if r.Intn(3) == 0 {
				boot = append(boot, bootNode{nil, self, net.IP{127, 0, 0, 1}, 30303})
				continue
			}
			k := keyFromSeed(r)
			ip := net.IP{34, 1, 7, byte(1 + r.Intn(250))}
			if r.Intn(3) == 0 {
				ip = net.IP{192, 168, 1, byte(1 + r.Intn(200))}
			}
			port := 30000 + r.Intn(4)
			boot = append(boot, bootNode{k, signRec(k, ip, port, 1), ip, port})
		}
		var bn []*enode.Node
		for _, b := range boot {
			bn = append(bn, b.node)
		}
		tab, err = portalwire.VerifNewTableBoot(tr, db, clock, 3*time.Second, r.Int63(), bn, !preInit)
	} else if preInit {
		tab, err = portalwire.VerifNewTableForLoop(tr, db, clock, 3*time.Second, r.Int63())
	} else {
		tab, err = portalwire.VerifNewTable(tr, db, clock, 3*time.Second, r.Int63())
	}
	if err != nil {
		panic(err)
	}
	defer db.Close()
	// address pools: three public /24s (two adjacent), LAN, loopback
	subnets := []string{"34.1.7", "34.1.8", "91.200.3"}
	if seqNo%4 == 3 {
		subnets = []string{"34.1.7"} // crowd one subnet: the table-wide limit binds
	}
	ts := &tabState{tab: tab, idIdx: map[enode.ID]int{}, subnets: []string{"34.1.7", "34.1.8", "91.200.3", mappedSubnet}}
	o.Case(fmt.Sprintf("tabinit self=%x subnets=%s initdone=%d", self.ID().Bytes(), strings.Join(ts.subnets, ","), b2i(!preInit)), "ok")
	nIds := 90
	if seqNo%3 == 1 {
		nIds = 34 // small pool: many repeats, few full buckets
	}
	keys := make([]*ecdsa.PrivateKey, nIds)
	ids := make([]enode.ID, nIds)
	for i := range keys {
		keys[i] = keyFromSeed(r)
		ids[i] = enode.PubkeyToIDV4(&keys[i].PublicKey)
		ts.idIdx[ids[i]] = i
		o.Case(fmt.Sprintf("id i%d %x bucket=%d", i, ids[i].Bytes(), tab.VerifBucketIndex(ids[i])), "ok")
	}
	ts.idIdx[self.ID()] = nIds
	o.Case(fmt.Sprintf("id i%d %x bucket=%d", nIds, self.ID().Bytes(), 0), "ok")
	var recs []tabRec
	newRec := func(idIdx int) int {
		var ip net.IP
		c := r.Intn(12)
		if seqNo%4 == 3 && c < 7 && r.Intn(4) != 0 {
			c = 7 // a LAN-heavy history: the /24 limits do not apply, so full buckets collect more than ten newcomers
		}
		switch {
		case c < 7:
			sn := subnets[r.Intn(len(subnets))]
			ip = net.ParseIP(fmt.Sprintf("%s.%d", sn, 1+r.Intn(250))).To4()
			if r.Intn(7) == 0 {
				ip = ip.To16() // announced in the v4-mapped form
			}
		case c < 9:
			ip = net.IP{192, 168, byte(r.Intn(3)), byte(1 + r.Intn(200))}
		case c == 9:
			ip = net.IP{10, 0, 0, byte(1 + r.Intn(200))}
		case c == 10:
			ip = net.IP{127, 0, 0, byte(1 + r.Intn(200))}
		default:
			ip = net.ParseIP(fmt.Sprintf("%s.%d", ts.subnets[r.Intn(3)], 1+r.Intn(250))).To4()
		}
		if r.Intn(60) == 0 {
			ip = nil // a record without an address
		}
		key := selfKey
		if idIdx < nIds {
			key = keys[idIdx]
		}
		port := 30000 + r.Intn(4)
		if r.Intn(14) == 0 {
			port = 0 // a record that carries no usable UDP port (relayed by somebody who dropped it)
		}
		seq := uint64(1 + r.Intn(3))
		if r.Intn(9) == 0 {
			// sequence numbers at the ends of their 64-bit range: nothing is "newer" than the largest one
			seq = []uint64{0, math.MaxUint64, math.MaxUint64, math.MaxUint64 - 1, 1 << 63, 1<<63 - 1, 1 << 32}[r.Intn(7)]
		}
		// a newer record of a known id that keeps its address: only the port moves, or only the sequence number
		if r.Intn(4) == 0 {
			for k := len(recs) - 1; k >= 0; k-- {
				if recs[k].idIdx == idIdx && recs[k].ip != nil {
					ip = recs[k].ip
					seq = recs[k].seq + uint64(r.Intn(2))
					if r.Intn(3) == 0 {
						port = recs[k].port
						seq = recs[k].seq + 1
					}
					// the same endpoint re-announced in the other form (plain <-> v4-mapped): a different address for
					// every rule of the table, and another /24
					if ip.To4() != nil && !netutil.IsLAN(ip) && r.Intn(3) == 0 {
						if len(ip) == 16 {
							ip = ip.To4()
						} else {
							ip = ip.To16()
						}
						seq = recs[k].seq + 1
					}
					break
				}
			}
		}
		n := signRec(key, ip, port, seq)
		recs = append(recs, tabRec{idIdx, n, ip, port, seq})
		k := len(recs) - 1
		ips, lan := "none", 0
		if ip != nil {
			ips = ipText(n.IPAddr())
			if netutil.IsLAN(ip) {
				lan = 1
			}
		}
		o.Case(fmt.Sprintf("rec r%d i%d ip=%s port=%d seq=%d lan=%d", k, idIdx, ips, port, seq, lan), "ok")
		return k
	}
	pickRec := func() int {
		if len(recs) > 0 && r.Intn(3) == 0 {
			return r.Intn(len(recs))
		}
		if r.Intn(150) == 0 {
			return newRec(nIds) // the local node's own id
		}
		return newRec(r.Intn(nIds))
	}
	recOfID := func(idIdx int) int {
		for k := len(recs) - 1; k >= 0; k-- {
			if recs[k].idIdx == idIdx {
				return k
			}
		}
		return newRec(idIdx)
	}
	entryIDs := func() []int {
		var out []int
		for _, b := range tab.VerifSnapshot().Buckets {
			for _, e := range b.Entries {
				out = append(out, ts.idIdx[e.Node.ID()])
			}
		}
		return out
	}
	type pending struct {
		resp     *portalwire.VerifRevalResponse
		idIdx    int
		newK     int
		scripted bool // what the transport was scripted to do with this node's PING (the ground truth of the liveness check)
	}
	var pend []pending
	now := time.Duration(0)
	// the boot nodes: ids and records are declared now, and the first line is the table as its construction left it
	var bootRefs []string
	for j, b := range boot {
		idx := nIds
		if b.key != nil {
			idx = nIds + 1 + j
			ts.idIdx[b.node.ID()] = idx
			o.Case(fmt.Sprintf("id i%d %x bucket=%d", idx, b.node.ID().Bytes(), tab.VerifBucketIndex(b.node.ID())), "ok")
		}
		recs = append(recs, tabRec{idx, b.node, b.ip, b.port, 1})
		k := len(recs) - 1
		o.Case(fmt.Sprintf("rec r%d i%d ip=%s port=%d seq=%d lan=%d", k, idx, ipText(b.node.IPAddr()), b.port, 1, b2i(netutil.IsLAN(b.ip))), "ok")
		bootRefs = append(bootRefs, fmt.Sprintf("r%d", k))
	}
	if len(boot) > 0 {
		snap, _ := ts.snapshot()
		o.Case("loadseeds "+strings.Join(bootRefs, ","), snap)
	}
	// every seventh sequence begins with a node that collects five fruitless queries while its bucket is too small for that to
	// matter, sees the bucket grow, and then ANSWERS a query: it stays (and its failure count is forgotten)
	if seqNo%7 == 1 && !preInit {
		func() {
			defer func() { _ = recover() }()
			var far []int
			for i := 0; i < nIds && len(far) < 5; i++ {
				if tab.VerifBucketIndex(ids[i]) == tab.VerifBucketIndex(ids[0]) {
					far = append(far, i)
				}
			}
			if len(far) < 5 {
				return
			}
			addRec := func(i int) int {
				k := newRec(i)
				ok := tab.VerifAddNode(recs[k].node, false, true)
				snap, _ := ts.snapshot()
				o.Case(fmt.Sprintf("add r%d inbound=0 live=1", k), fmt.Sprintf("ret=%d %s", b2i(ok), snap))
				return k
			}
			track := func(k int, success bool, found []*enode.Node, fs []string) {
				_, before := ts.snapshot()
				tab.VerifHandleTrackRequest(recs[k].node, success, found)
				fails := tab.VerifFindFails(recs[k].node)
				snap, after := ts.snapshot()
				o.Case(fmt.Sprintf("track r%d success=%d fails=%d rnd=%d found=%s", k, b2i(success), fails, promotedIndex(before, after), strings.Join(append([]string{"-"}, fs...), ",")), snap)
			}
			ka := addRec(far[0])
			for j := 0; j < 5+r.Intn(3); j++ {
				track(ka, false, nil, nil)
			}
			var kb int
			for _, i := range far[1:] {
				kb = addRec(i)
			}
			track(ka, true, []*enode.Node{recs[kb].node}, []string{"r" + strconv.Itoa(kb)})
		}()
	}
	for op := 0; op < nOps; op++ {
		if len(boot) > 0 && r.Intn(25) == 0 {
			// a refresh loads the seeds again
			tab.VerifLoadSeedNodes()
			snap, _ := ts.snapshot()
			o.Case("loadseeds "+strings.Join(bootRefs, ","), snap)
		}
		if preInit && op == nOps/3 {
			tab.VerifFinishInit()
			preInit = false
			snap, _ := ts.snapshot()
			o.Case("initdone", snap)
		}
		_, before := ts.snapshot()
		c := r.Intn(100)
		panicked := false
		func() {
			// "No such sequence makes a table operation panic": a panic is an outcome, reported with the operation
			defer func() {
				if rec := recover(); rec != nil {
					panicked = true
					o.Case(fmt.Sprintf("tabpanic op=%d kind=%d", op, c), "panic:"+strings.ReplaceAll(fmt.Sprint(rec), " ", "_"))
				}
			}()
			switch {
			case c < 45: // add found / inbound
				k := pickRec()
				inbound, live := r.Intn(3) == 0, r.Intn(2) == 0
				if inbound {
					live = false
				}
				ok := tab.VerifAddNode(recs[k].node, inbound, live)
				snap, _ := ts.snapshot()
				o.Case(fmt.Sprintf("add r%d inbound=%d live=%d", k, b2i(inbound), b2i(live)), fmt.Sprintf("ret=%d %s", b2i(ok), snap))
			case c < 51: // delete
				es := entryIDs()
				var k int
				if len(es) > 0 && r.Intn(5) != 0 {
					k = recOfID(es[r.Intn(len(es))])
				} else {
					k = pickRec()
				}
				tab.VerifDeleteNode(recs[k].node)
				snap, after := ts.snapshot()
				o.Case(fmt.Sprintf("del r%d rnd=%d", k, promotedIndex(before, after)), snap)
			case c < 72: // revalidation timer: advance the clock, run, collect what was started
				now += time.Duration(1+r.Intn(4)) * time.Second
				clock.Run(time.Duration(1+r.Intn(4)) * time.Second)
				// script the answers of every node before anything is pinged
				tr.mu.Lock()
				for _, id := range ids {
					a := pingAnswer{respond: r.Intn(10) < 6}
					if a.respond {
						a.seq = uint64(1 + r.Intn(4))
					}
					tr.answer[id] = a
				}
				tr.mu.Unlock()
				// choose the new record (if the node will announce a higher seq) now, so that it can be declared first
				newK := map[int]int{}
				for _, e := range entryIDs() {
					if e < nIds && r.Intn(3) == 0 {
						k := newRec(e)
						newK[e] = k
						tr.mu.Lock()
						a := tr.answer[ids[e]]
						a.rec = recs[k].node
						tr.answer[ids[e]] = a
						tr.mu.Unlock()
					}
				}
				tab.VerifRevalRun(clock.Now())
				var started []string
				var fresh []pending
				// every request that was started is in activeReq; wait for exactly those answers
				want := len(tab.VerifSnapshot().ActiveReq) - len(pend)
				for w := 0; w < want; w++ {
					resp := tab.VerifNextRevalResponse(20 * time.Second)
					if resp == nil {
						panic("revalidation request did not answer")
					}
					<-tr.pinged
					idx := ts.idIdx[resp.ID()]
					nk := -1
					if resp.NewRecord() != nil {
						nk = newK[idx]
					}
					tr.mu.Lock()
					scripted := tr.answer[resp.ID()].respond
					tr.mu.Unlock()
					fresh = append(fresh, pending{resp, idx, nk, scripted})
				}
				// the two requests of one run answer in either order: canonicalise
				sort.Slice(fresh, func(a, b int) bool { return fresh[a].idIdx < fresh[b].idIdx })
				for _, f := range fresh {
					pend = append(pend, f)
					started = append(started, "i"+strconv.Itoa(f.idIdx))
				}
				snap, _ := ts.snapshot()
				o.Case("revalstart "+strings.Join(append([]string{"ids=-"}, started...), ","), snap)
			case c < 88: // deliver one pending revalidation answer (any order)
				if len(pend) == 0 {
					return
				}
				i := r.Intn(len(pend))
				p := pend[i]
				pend = append(pend[:i], pend[i+1:]...)
				tab.VerifHandleRevalResponse(p.resp)
				snap, after := ts.snapshot()
				nr := "-"
				if p.newK >= 0 {
					nr = "r" + strconv.Itoa(p.newK)
				}
				// responded = the PING's scripted outcome (ground truth); reported = what doRevalidate made of it
				o.Case(fmt.Sprintf("revalresp i%d responded=%d reported=%d newrec=%s rnd=%d", p.idIdx, b2i(p.scripted), b2i(p.resp.DidRespond()), nr, promotedIndex(before, after)), snap)
			default: // lookup feedback
				es := entryIDs()
				var k int
				if len(es) > 0 && r.Intn(4) != 0 {
					// favour a few nodes so that failure counts reach the limit
					k = recOfID(es[r.Intn(1+len(es)/6)])
				} else {
					k = pickRec()
				}
				success := r.Intn(4) == 0
				var found []*enode.Node
				var fs []string
				if success || r.Intn(3) == 0 {
					for j := 0; j < r.Intn(4); j++ {
						fk := pickRec()
						found = append(found, recs[fk].node)
						fs = append(fs, "r"+strconv.Itoa(fk))
					}
				}
				if !success {
					found, fs = nil, nil
				}
				reps := 1
				if !success && r.Intn(4) == 0 {
					reps = 3 + r.Intn(4) // consecutive fruitless queries against the same node
				}
				for rep := 0; rep < reps; rep++ {
					_, before = ts.snapshot()
					tab.VerifHandleTrackRequest(recs[k].node, success && len(found) > 0, found)
					fails := tab.VerifFindFails(recs[k].node)
					snap, after := ts.snapshot()
					o.Case(fmt.Sprintf("track r%d success=%d fails=%d rnd=%d found=%s", k, b2i(success && len(found) > 0), fails, promotedIndex(before, after), strings.Join(append([]string{"-"}, fs...), ",")), snap)
				}
			}
		}()
		if panicked {
			break // the table's state after a panic (mutex possibly held) is undefined: end this sequence
		}
	}
	// LAN-heavy sequences end with a burst of fresh records for every id of the farthest bucket (half of all ids fall into
	// it): far more newcomers than a replacement list holds
	if seqNo%4 == 3 {
		func() {
			defer func() { _ = recover() }()
			for i := 0; i < nIds; i++ {
				if tab.VerifBucketIndex(ids[i]) != tab.VerifBucketIndex(ids[0]) {
					continue
				}
				k := newRec(i)
				ok := tab.VerifAddNode(recs[k].node, false, false)
				snap, _ := ts.snapshot()
				o.Case(fmt.Sprintf("add r%d inbound=0 live=0", k), fmt.Sprintf("ret=%d %s", b2i(ok), snap))
			}
		}()
	}
	tab.VerifCloseNoLoop()
}

func b2i(b bool) int {
	if b {
		return 1
	}
	return 0
}

func init() { runners["tableconc"] = runTableConc }

// runTableConc drives the running table loop (real timers, revalidation every few milliseconds against a transport
// whose peers answer or not at random) from several goroutines at once: found / inbound additions and lookup
// feedback (explicit deletion through the RPC path is left out: it mutates the revalidation lists under the table mutex
// while the loop reads them without it - a data race the step model has no notion of, see DESIGN). The loop serialises them in an order the harness does not know, so only the structural invariant is
// judged, on snapshots taken while the mix runs and after it has drained. A panic of the table would kill the harness;
// the check reports that as a violation.
func runTableConc(o *Out, r *rand.Rand, thorough bool, _ []string) {
	runs := 8
	if thorough {
		runs = 100
	}
	for k := 0; k < runs; k++ {
		selfKey := keyFromSeed(r)
		self := signRec(selfKey, net.IP{127, 0, 0, 1}, 30303, 1)
		tr := &tabTransport{self: self, answer: map[enode.ID]pingAnswer{}, pinged: make(chan enode.ID, 100000)}
		db, _ := enode.OpenDB("")
		tab, err := portalwire.VerifNewTableForLoop(tr, db, mclock.System{}, 4*time.Millisecond, r.Int63())
		if err != nil {
			panic(err)
		}
		subnets := []string{"34.1.7", "34.1.8", "91.200.3"}
		ts := &tabState{tab: tab, idIdx: map[enode.ID]int{}, subnets: subnets}
		o.Case(fmt.Sprintf("tabinit self=%x subnets=%s", self.ID().Bytes(), strings.Join(subnets, ",")), "ok")
		nIds := 60
		keys := make([]*ecdsa.PrivateKey, nIds)
		ids := make([]enode.ID, nIds)
		for i := range keys {
			keys[i] = keyFromSeed(r)
			ids[i] = enode.PubkeyToIDV4(&keys[i].PublicKey)
			ts.idIdx[ids[i]] = i
			o.Case(fmt.Sprintf("id i%d %x bucket=%d", i, ids[i].Bytes(), tab.VerifBucketIndex(ids[i])), "ok")
			tr.answer[ids[i]] = pingAnswer{respond: r.Intn(3) != 0, seq: uint64(1 + r.Intn(3))}
		}
		ts.idIdx[self.ID()] = nIds
		o.Case(fmt.Sprintf("id i%d %x bucket=%d", nIds, self.ID().Bytes(), 0), "ok")
		// record variants, prepared up front (signing is not what is being raced)
		var recs []*enode.Node
		for i := 0; i < 400; i++ {
			idIdx := r.Intn(nIds)
			var ip net.IP
			switch c := r.Intn(10); {
			case c < 7:
				ip = net.ParseIP(fmt.Sprintf("%s.%d", subnets[r.Intn(3)], 1+r.Intn(250))).To4()
			case c < 9:
				ip = net.IP{192, 168, 0, byte(1 + r.Intn(200))}
			default:
				ip = net.IP{127, 0, 0, byte(1 + r.Intn(200))}
			}
			recs = append(recs, signRec(keys[idIdx], ip, 30000+r.Intn(3), uint64(1+r.Intn(3))))
		}
		tab.VerifStartLoop()
		var wg sync.WaitGroup
		seeds := []int64{r.Int63(), r.Int63(), r.Int63(), r.Int63()}
		for g := 0; g < 4; g++ {
			wg.Add(1)
			go func(seed int64) {
				defer wg.Done()
				rr := rand.New(rand.NewSource(seed))
				for i := 0; i < 250; i++ {
					n := recs[rr.Intn(len(recs))]
					switch rr.Intn(10) {
					case 0, 1, 2, 3:
						tab.VerifAddFoundNode(n, rr.Intn(2) == 0)
					case 4, 5:
						tab.VerifAddInboundNode(n)
					default:
						var found []*enode.Node
						for j := 0; j < rr.Intn(3); j++ {
							found = append(found, recs[rr.Intn(len(recs))])
						}
						tab.VerifTrackRequestAsync(n, len(found) > 0, found)
					}
				}
			}(seeds[g])
		}
		// snapshots while the mix runs
		for s := 0; s < 5; s++ {
			time.Sleep(3 * time.Millisecond)
			snap, _ := ts.snapshot()
			o.Case("tsnap phase=running", snap)
		}
		wg.Wait()
		time.Sleep(20 * time.Millisecond)
		snap, _ := ts.snapshot()
		o.Case("tsnap phase=drained", snap)
		tab.VerifClose()
		db.Close()
	}
}
