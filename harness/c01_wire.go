//go:build verif

package main

// C01, third part: attacks that cannot be contained by recover() because the code under test runs in goroutines
// of its own (the discv5 talk handler goroutine, the uTP socket's reader). They run in CHILD processes of the
// harness; the parent turns the death of a child into the outcome `died@<function>:<kind>` of the case that was
// in flight.
//
//	utp  via=direct|wire data=<bytes>             | empty            the uTP TALKREQ handler, socket running
//	utplive n=<packets sent>                      | ok               a real uTP transfer still works afterwards
//	wire net=<h|b|s> ver=1 <env> msg=<bytes>      | <class> alive=1  TALKREQ over the in-memory discv5 link + ping

import (
	"bufio"
	"bytes"
	"fmt"
	"math/rand"
	"net"
	"os"
	"os/exec"
	"regexp"
	"strings"
	"time"

	"github.com/zen-eth/shisui/portalwire"
)

func runChildren(o *Out, r *rand.Rand, thorough bool) {
	for _, mode := range [][]string{{"utp"}, {"wire", "h"}, {"wire", "b"}, {"wire", "s"}} {
		// a child that dies is restarted (at most a few times) to carry on behind the input that killed it
		skip := 0
		for attempt := 0; attempt < 6; attempt++ {
			done, n := runChild(o, r.Int63(), thorough, append(mode, fmt.Sprint(skip)))
			skip += n
			if done {
				break
			}
		}
	}
}

var goroutineHdr = regexp.MustCompile(`^goroutine \d+ \[running\]`)

// crashSite extracts "<function>:<kind>" from the Go runtime's crash report on the child's stderr.
func crashSite(stderr string) string {
	kind := "explicit"
	lines := strings.Split(stderr, "\n")
	fn := "?"
	for i, l := range lines {
		if strings.HasPrefix(l, "panic: ") || strings.HasPrefix(l, "fatal error: ") {
			switch {
			case strings.Contains(l, "index out of range [-"):
				kind = "idxneg"
			case strings.Contains(l, "index out of range"):
				kind = "idx"
			case strings.Contains(l, "slice bounds out of range"):
				kind = "slice"
			case strings.Contains(l, "nil pointer dereference"):
				kind = "nil"
			case strings.Contains(l, "interface conversion"):
				kind = "conv"
			case strings.Contains(l, "runtime error"):
				kind = "rt"
			}
		}
		if goroutineHdr.MatchString(l) {
			for _, f := range lines[i+1:] {
				if strings.HasPrefix(f, "\t") || f == "" {
					continue
				}
				name := f
				if k := strings.LastIndex(name, "("); k > 0 {
					name = name[:k]
				}
				if strings.HasPrefix(name, "runtime.") || strings.HasPrefix(name, "panic(") || name == "panic" {
					continue
				}
				fn = name
				break
			}
			break
		}
	}
	if i := strings.LastIndex(fn, "/"); i >= 0 {
		fn = fn[i+1:]
	}
	fn = strings.NewReplacer("(*", "", ")", "", "(", "").Replace(fn)
	return fn + ":" + kind
}

// runChild returns (finished normally, number of cases consumed including the fatal one).
func runChild(o *Out, seed int64, thorough bool, args []string) (bool, int) {
	cmd := exec.Command(os.Args[0], append([]string{"C01child"}, args...)...)
	tier := "quick"
	if thorough {
		tier = "thorough"
	}
	cmd.Env = append(os.Environ(), fmt.Sprintf("VERIF_SEED=%d", seed&0x7fffffff), "VERIF_TIER="+tier)
	var stderr bytes.Buffer
	cmd.Stderr = &stderr
	stdout, err := cmd.StdoutPipe()
	if err != nil {
		panic(err)
	}
	if err := cmd.Start(); err != nil {
		panic(err)
	}
	pending := ""
	n := 0
	sc := bufio.NewScanner(stdout)
	sc.Buffer(make([]byte, 1<<20), 1<<24)
	finished := false
	for sc.Scan() {
		l := sc.Text()
		switch {
		case strings.HasPrefix(l, "# try "):
			pending = l[6:]
		case l == "#done":
			finished = true
		case strings.HasPrefix(l, "#"):
		default:
			if i := strings.Index(l, " | "); i >= 0 {
				o.Case(l[:i], l[i+3:])
				n++
				pending = ""
			}
		}
	}
	werr := cmd.Wait()
	if finished && werr == nil {
		return true, n
	}
	if pending == "" {
		pending = "child " + strings.Join(args, "_")
	}
	es := stderr.String()
	o.Comment("child died: " + strings.ReplaceAll(es[:min(len(es), 600)], "\n", " / "))
	o.Case(pending, "died@"+crashSite(es))
	return false, n + 1
}

func runC01Child(o *Out, r *rand.Rand, thorough bool, args []string) {
	if len(args) == 0 {
		return
	}
	skip := 0
	fmt.Sscan(args[len(args)-1], &skip)
	switch args[0] {
	case "utp":
		childUtp(o, r, thorough, skip)
	case "wire":
		childWire(o, r, thorough, args[1], skip)
	}
	o.Flush()
	fmt.Println("#done")
}

// try announces the case in flight (flushed) so that the parent can attribute a crash.
func try(o *Out, input string) {
	o.Comment("try " + input)
	o.Flush()
}

func childPair(r *rand.Rand, netw string) (target, attacker *c01Node) {
	mn := newMemNet()
	target = startC01(mn, r, netw, net.IP{36, 1, 1, 1}, 9100, []uint8{0, 1}, true)
	attacker = startC01(mn, r, netw, net.IP{36, 2, 2, 1}, 9101, []uint8{0, 1}, false)
	attacker.p.AddEnr(target.p.Self())
	target.p.AddEnr(attacker.p.Self())
	for i := 0; i < 5; i++ {
		if _, err := attacker.p.VerifPing(target.p.Self()); err == nil {
			return
		}
		time.Sleep(50 * time.Millisecond)
	}
	panic("child: the two nodes cannot reach each other")
}

func childWire(o *Out, r *rand.Rand, thorough bool, netw string, skip int) {
	vec := c01_loadVectors()
	target, attacker := childPair(r, netw)
	populate(target, r, vec)
	if netw == "b" {
		if err := target.store.Put(cat([]byte{0x14}, u64le(5)), nil, []byte("summaries")); err != nil {
			panic(err)
		}
	}
	rnd := func(k int) []byte { b := make([]byte, k); r.Read(b); return b }
	var msgs [][]byte
	msgs = append(msgs, nil)
	for _, c := range []byte{0, 2, 4, 6, 1, 9, 255} {
		msgs = append(msgs, []byte{c})
	}
	msgs = append(msgs,
		cat([]byte{0}, pingBody(r, 1, 0, nil)),
		cat([]byte{2}, u32le(4), []byte{0, 1}),
		cat([]byte{4}, u32le(4)),                         // FINDCONTENT, empty key
		cat([]byte{6}, u32le(4), u32le(4)),               // OFFER, one empty key
		cat([]byte{4}, u32le(4), []byte{0x14}),           // beacon: summaries key without an epoch
		cat([]byte{4}, u32le(4), []byte{0x14}, rnd(7)),   // ... with a short epoch
		cat([]byte{4}, u32le(4), []byte{0x14}, rnd(8)),   // ... well-formed
		cat([]byte{6}, offerBody([][]byte{{0x14, 1}})),   // the same through OFFER
		cat([]byte{6}, offerBody([][]byte{{1, 2}, nil})), // empty key in second place
	)
	nRand := 25
	if thorough {
		nRand = 2000
	}
	for i := 0; i < nRand; i++ {
		var m []byte
		switch r.Intn(3) {
		case 0:
			m = cat([]byte{4}, u32le(4), target.genKey(r))
		case 1:
			keys := make([][]byte, r.Intn(4))
			for k := range keys {
				keys[k] = target.genKey(r)
			}
			m = cat([]byte{6}, offerBody(keys))
		default:
			m = rnd(r.Intn(30))
			if len(m) > 0 {
				m[0] = []byte{0, 2, 4, 6}[r.Intn(4)]
			}
		}
		if r.Intn(3) == 0 {
			m = c01_mutate(r, m)
		}
		msgs = append(msgs, m)
	}
	proto := string(protoOf(netw))
	for i, m := range msgs {
		if i < skip {
			continue
		}
		input := fmt.Sprintf("wire net=%s ver=1 %s msg=%s", netw, target.env(), bt(m))
		try(o, input)
		resp, err := attacker.disc.TalkRequest(target.p.Self(), proto, m)
		class := "noresp"
		if err == nil {
			class = talkClass(resp)
		}
		alive := 0
		for k := 0; k < 3 && alive == 0; k++ {
			if _, err := attacker.p.VerifPing(target.p.Self()); err == nil {
				alive = 1
			}
		}
		o.Case(input, fmt.Sprintf("%s alive=%d", class, alive))
		o.Flush()
		target.drain()
	}
}

// utpPacket builds a uTP header (20 bytes) with optional extension chain and payload.
func utpPacket(typ, ver, ext byte, connID uint16, seq, ack uint16, extra []byte) []byte {
	b := make([]byte, 20)
	b[0] = typ<<4 | ver&15
	b[1] = ext
	b[2], b[3] = byte(connID>>8), byte(connID)
	b[16], b[17] = byte(seq>>8), byte(seq)
	b[18], b[19] = byte(ack>>8), byte(ack)
	b[12], b[13], b[14], b[15] = 0, 16, 0, 0
	return append(b, extra...)
}

func childUtp(o *Out, r *rand.Rand, thorough bool, skip int) {
	target, attacker := childPair(r, "h")
	big := cat([]byte{0}, make([]byte, 32))
	content := genBytes(40000, 7)
	if err := target.store.Put(big, sha(big), content); err != nil {
		panic(err)
	}
	rnd := func(k int) []byte { b := make([]byte, k); r.Read(b); return b }
	n := 300
	if thorough {
		n = 20000
	}
	sent := 0
	maxQ := 0
	for i := 0; i < n; i++ {
		var pkt []byte
		switch r.Intn(8) {
		case 0:
			pkt = rnd(r.Intn(20)) // shorter than a header
		case 1:
			pkt = rnd(20 + r.Intn(40))
		case 2: // selective-ack extension with every length, also beyond the packet
			l := byte(r.Intn(12))
			if r.Intn(3) == 0 {
				l = byte(r.Intn(256))
			}
			pkt = utpPacket(byte(r.Intn(5)), 1, 1, uint16(r.Intn(65536)), uint16(r.Intn(65536)), uint16(r.Intn(65536)), cat([]byte{byte(r.Intn(3)), l}, rnd(r.Intn(12))))
		case 3: // extension chains
			pkt = utpPacket(byte(r.Intn(5)), 1, byte(r.Intn(4)), uint16(r.Intn(65536)), 1, 0, cat([]byte{1, 4}, rnd(4), []byte{byte(r.Intn(3)), byte(r.Intn(9))}, rnd(r.Intn(9))))
		case 4: // every type and version nibble
			pkt = utpPacket(byte(r.Intn(16)), byte(r.Intn(16)), 0, uint16(r.Intn(65536)), uint16(r.Intn(65536)), uint16(r.Intn(65536)), rnd(r.Intn(30)))
		default: // plausible SYN / DATA / STATE / FIN / RESET
			pkt = utpPacket(byte(r.Intn(5)), 1, 0, uint16(r.Intn(8)), uint16(r.Intn(4)), uint16(r.Intn(4)), rnd([]int{0, 0, 10, 1000}[r.Intn(4)]))
		}
		if r.Intn(4) == 0 {
			pkt = c01_mutate(r, pkt)
		}
		if i < skip {
			continue
		}
		via := "direct"
		if i%3 == 0 {
			via = "wire"
		}
		input := fmt.Sprintf("utp via=%s data=%s", via, bt(pkt))
		try(o, input)
		var out string
		if via == "direct" {
			out = guarded(callTimeout, func() string {
				return talkClass(target.utp.Handle(attacker.p.Self(), attacker.udpAddr(), pkt))
			})
		} else {
			resp, err := attacker.disc.TalkRequest(target.p.Self(), string(portalwire.Utp), pkt)
			out = "noresp"
			if err == nil {
				out = talkClass(resp)
			}
		}
		if q := target.utp.Queued(); q > maxQ {
			maxQ = q
		}
		sent++
		o.Case(input, out)
	}
	// liveness: a genuine transfer of 40 000 bytes over uTP from the attacked node
	input := fmt.Sprintf("utplive n=%d maxq=%d cap=%d", sent, maxQ, target.utp.QueueCap())
	try(o, input)
	out := guarded(6*callTimeout, func() string {
		_, got, err := attacker.p.VerifFindContent(target.p.Self(), big)
		if err != nil {
			return "err"
		}
		if b, ok := got.([]byte); !ok || !bytes.Equal(b, content) {
			return "wrong"
		}
		return "ok"
	})
	o.Case(input, out)
}
