//go:build verif

package main

import (
	"fmt"
	"math/rand"
	"sort"

	"github.com/zen-eth/shisui/portalwire"
	pingext "github.com/zen-eth/shisui/portalwire/ping_ext"
	"github.com/zen-eth/shisui/storage"
)

func init() { runners["consts"] = runConsts }

// runConsts prints the constants of the real code as the Go compiler sees them, as a Lean module (T1).
func runConsts(o *Out, _ *rand.Rand, _ bool, _ []string) {
	c := portalwire.VerifConstants()
	c["pingext_ClientInfo"] = int64(pingext.ClientInfo)
	c["pingext_BasicRadius"] = int64(pingext.BasicRadius)
	c["pingext_HistoryRadius"] = int64(pingext.HistoryRadius)
	c["pingext_Error"] = int64(pingext.Error)
	c["sizeKeyIsZero"] = 1
	for _, b := range storage.SizeKey {
		if b != 0 {
			c["sizeKeyIsZero"] = 0
		}
	}
	c["sizeKeyLen"] = int64(len(storage.SizeKey))
	c["version0"] = int64(portalwire.Versions[0])
	names := make([]string, 0, len(c))
	for k := range c {
		names = append(names, k)
	}
	sort.Strings(names)
	fmt.Fprintln(o.w, "/-! REGENERATED on every run by `harness consts` from /repo (values as the Go compiler sees them). Do not edit. -/")
	fmt.Fprintln(o.w, "namespace Gen")
	for _, k := range names {
		fmt.Fprintf(o.w, "def %s : Nat := %d\n", k, c[k])
	}
	fmt.Fprintln(o.w, "end Gen")
}
