//go:build verif

// Command harness runs the real shisui code on generated inputs and prints one
// `input | implementation-output` line per case for the Lean driver to check.
package main

import (
	"fmt"
	"github.com/ethereum/go-ethereum/metrics"
	"io"
	"math/rand"
	"os"
	"runtime/debug"

	"github.com/ethereum/go-ethereum/log"
)

type runner func(o *Out, r *rand.Rand, thorough bool, args []string)

var runners = map[string]runner{}

// metricsOn: this process runs with go-ethereum metrics enabled (a second, shorter pass of a scenario)
var metricsOn bool

// shorter scales a loop count down for the metrics-on pass of the quick tier
func shorter(n int, thorough bool) int {
	if metricsOn && !thorough {
		return max(1, n/3)
	}
	return n
}

func main() {
	if len(os.Args) < 2 {
		fmt.Fprintln(os.Stderr, "usage: harness <prop> [args]   (env VERIF_SEED, VERIF_TIER)")
		os.Exit(2)
	}
	log.SetDefault(log.NewLogger(log.NewTerminalHandlerWithLevel(io.Discard, log.LevelCrit, false)))
	seed := int64(envInt("VERIF_SEED", 1))
	thorough := os.Getenv("VERIF_TIER") == "thorough"
	if os.Getenv("VERIF_METRICS") == "1" {
		// the node as operators run it with --metrics: every "if metrics.Enabled()" branch of the code is live. The switch is
		// process-wide and has to be thrown before any protocol instance exists.
		metrics.Enable()
		metricsOn = true
	}
	run, ok := runners[os.Args[1]]
	if !ok {
		fmt.Fprintln(os.Stderr, "unknown property", os.Args[1])
		os.Exit(2)
	}
	o := newOut()
	o.Comment(fmt.Sprintf("prop=%s seed=%d thorough=%v", os.Args[1], seed, thorough))
	// a panic on the main goroutine (an outcome the run did not expect, e.g. a put refused by a fresh store) must not
	// lose the cases written so far: they are what the driver judges
	defer func() {
		if rec := recover(); rec != nil {
			o.Flush()
			fmt.Fprintf(os.Stderr, "harness panic: %v\n%s\n", rec, debug.Stack())
			os.Exit(3)
		}
	}()
	run(o, rand.New(rand.NewSource(seed)), thorough, os.Args[2:])
	o.Flush()
}
