//go:build verif && goexperiment.synctest

package main

import (
	"context"
	"errors"
	"fmt"
	"math/rand"
	"net"
	"runtime"
	"sort"
	"strconv"
	"strings"
	"sync"
	"testing/synctest"
	"time"

	"github.com/ethereum/go-ethereum/common/mclock"
	"github.com/ethereum/go-ethereum/p2p/enode"
	"github.com/ethereum/go-ethereum/p2p/enr"
	"github.com/zen-eth/shisui/portalwire"
)

func init() { runners["lookup"] = runLookup }

func nullNode(id enode.ID, i int) *enode.Node { return nullNodeSeq(id, i, 0) }

// nullNodeSeq: the record of that node with a given sequence number (peers hold records of different age for one node)
func nullNodeSeq(id enode.ID, i int, seq uint64) *enode.Node {
	var r enr.Record
	r.Set(enr.IP(net.IP{10, 0, byte(i / 250), byte(1 + i%250)}))
	r.Set(enr.UDP(30000))
	r.SetSeq(seq)
	return enode.SignNull(&r, id)
}

type lkRun struct {
	mu        sync.Mutex
	started   []int // query starts not yet reported
	inflight  map[int]chan struct{}
	everAsked map[int]int
	maxIn     int
}

func idxList(x []int) string {
	if len(x) == 0 {
		return "-"
	}
	sort.Ints(x)
	s := make([]string, len(x))
	for i, v := range x {
		s[i] = strconv.Itoa(v)
	}
	return strings.Join(s, ",")
}

func runLookup(o *Out, r *rand.Rand, thorough bool, _ []string) {
	// one P: goroutines made ready by the harness run only when it blocks in synctest.Wait, in a known order,
	// so "a reply and the cancellation become ready together" really reaches the lookup's select together
	defer runtime.GOMAXPROCS(runtime.GOMAXPROCS(1))
	nRuns := 500
	if thorough {
		nRuns = 3000
	}
	for k := 0; k < nRuns; k++ {
		lookupRun(o, r, k, thorough)
	}
}

func lookupRun(o *Out, r *rand.Rand, k int, thorough bool) {
	// universe
	n := []int{0, 1, 2, 3, 5, 8, 17, 24, 40, 64}[r.Intn(10)]
	if thorough && r.Intn(4) == 0 {
		n = 100 + r.Intn(101)
	}
	ids := make([]enode.ID, n+1) // index n = the local node
	nodes := make([]*enode.Node, n+1)
	idx := map[enode.ID]int{}
	for i := range ids {
		r.Read(ids[i][:])
		nodes[i] = nullNode(ids[i], i)
		idx[ids[i]] = i
	}
	self := nodes[n]
	var target enode.ID
	r.Read(target[:])
	if r.Intn(8) == 0 {
		target = ids[n] // self lookup
	}
	// table (outside the bubble): seed nodes, then close it so that trackRequest falls through
	tr := &lkTransport{self: self}
	db, _ := enode.OpenDB("")
	defer db.Close()
	tab, err := portalwire.VerifNewTable(tr, db, mclock.System{}, 3*time.Second, r.Int63())
	if err != nil {
		panic(err)
	}
	var seeds []int
	nSeeds := 0
	if n > 0 {
		nSeeds = r.Intn(6)
		if r.Intn(5) == 0 {
			nSeeds = n // a table richer than the result size
		}
	}
	for i := 0; i < nSeeds && i < n; i++ {
		s := r.Intn(n)
		if tab.VerifAddNode(nodes[s], false, true) {
			seeds = append(seeds, s)
		}
	}
	tab.VerifCloseNoLoop()
	// answers
	answers := make([][]int, n) // -1 = nil entry
	fails := make([]bool, n)
	for i := 0; i < n; i++ {
		switch c := r.Intn(10); {
		case c == 0:
			fails[i] = true // silent / failing peer
		case c == 1: // empty answer
		default:
			m := r.Intn(17)
			for j := 0; j < m; j++ {
				switch d := r.Intn(14); {
				case d == 0:
					answers[i] = append(answers[i], n) // the local node itself
				case d == 1:
					answers[i] = append(answers[i], i) // the answering peer itself
				case d == 2 && len(answers[i]) > 0:
					answers[i] = append(answers[i], answers[i][r.Intn(len(answers[i]))]) // duplicate
				case d == 3:
					answers[i] = append(answers[i], -1) // nil entry
				default:
					answers[i] = append(answers[i], r.Intn(n))
				}
			}
		}
	}
	o.Case(fmt.Sprintf("lrun n=%d self=%d target=%x", n, n, target.Bytes()), "ok")
	for i := range ids {
		o.Case(fmt.Sprintf("lnode %d %x", i, ids[i].Bytes()), "ok")
	}
	st := &lkRun{inflight: map[int]chan struct{}{}, everAsked: map[int]int{}}
	q := func(nd *enode.Node) ([]*enode.Node, error) {
		i := idx[nd.ID()]
		gate := make(chan struct{})
		st.mu.Lock()
		st.started = append(st.started, i)
		st.inflight[i] = gate
		st.everAsked[i]++
		if len(st.inflight) > st.maxIn {
			st.maxIn = len(st.inflight)
		}
		st.mu.Unlock()
		<-gate
		st.mu.Lock()
		delete(st.inflight, i)
		st.mu.Unlock()
		if i >= n || fails[i] {
			return nil, errors.New("rpc timeout")
		}
		out := make([]*enode.Node, 0, len(answers[i]))
		for _, a := range answers[i] {
			if a < 0 {
				out = append(out, nil)
			} else if (i+a)%3 == 0 && a < n {
				// this peer holds a NEWER record of that node than the table or other peers do: the same node all the same
				out = append(out, nullNodeSeq(ids[a], a, uint64(1+i%4)))
			} else {
				out = append(out, nodes[a])
			}
		}
		return out, nil
	}
	takeStarted := func() []int {
		st.mu.Lock()
		defer st.mu.Unlock()
		s := st.started
		st.started = nil
		return s
	}
	ansStr := func(i int) string {
		if i >= n || fails[i] {
			return "fail"
		}
		if len(answers[i]) == 0 {
			return "-"
		}
		s := make([]string, len(answers[i]))
		for j, a := range answers[i] {
			if a < 0 {
				s[j] = "x"
			} else {
				s[j] = strconv.Itoa(a)
			}
		}
		return strings.Join(s, ",")
	}
	cancelAt := -1
	if r.Intn(2) == 0 {
		cancelAt = r.Intn(7)
	}
	combined := r.Intn(2) == 0 // cancel together with a release (no quiescence in between)
	between := r.Intn(2) == 0  // cancel in the window between a reply that found new nodes and the next startQueries
	synctest.Run(func() {
		ctx, cancel := context.WithCancel(context.Background())
		defer cancel()
		lk := portalwire.VerifNewLookup(ctx, tab, target, q)
		adv := make(chan bool)        // result of each advance() call
		resume := make(chan struct{}) // permission to call advance() again
		go func() {
			for {
				ok := lk.Advance()
				adv <- ok
				if !ok {
					return
				}
				<-resume
			}
		}()
		finished := false
		// settle: let the lookup run until it is parked in its select or has ended; advance() returning true
		// (new nodes found) is answered by calling it again, exactly as run() does. cancelNow is invoked in
		// the window between such a return and the next call.
		settle := func(cancelNow bool) {
			for {
				synctest.Wait()
				select {
				case ok := <-adv:
					if !ok {
						finished = true
						return
					}
					if cancelNow {
						cancel()
						cancelNow = false
					}
					resume <- struct{}{}
				default:
					if cancelNow {
						cancel() // no new nodes: the lookup is parked in its select, an ordinary cancellation
					}
					return
				}
			}
		}
		report := func() {
			st.mu.Lock()
			infl, maxIn := len(st.inflight), st.maxIn
			twice := 0
			for _, c := range st.everAsked {
				if c > 1 {
					twice++
				}
			}
			askedSelf := st.everAsked[n]
			st.mu.Unlock()
			var rs []string
			for _, x := range lk.Result() {
				rs = append(rs, strconv.Itoa(idx[x.ID()]))
			}
			if len(rs) == 0 {
				rs = []string{"-"}
			}
			o.Case("lresult", fmt.Sprintf("%s inflight=%d maxin=%d twice=%d self=%d", strings.Join(rs, ","), infl, maxIn, twice, askedSelf))
			// let gated queries of a lookup that returned too early finish, so the bubble can end
			st.mu.Lock()
			for _, g := range st.inflight {
				close(g)
			}
			st.mu.Unlock()
			synctest.Wait()
		}
		settle(false)
		o.Case("llocal "+idxList(append([]int{}, seeds...)), "started "+idxList(takeStarted()))
		cancelled := false
		for step := 0; ; step++ {
			if finished {
				report()
				return
			}
			st.mu.Lock()
			var in []int
			for i := range st.inflight {
				in = append(in, i)
			}
			st.mu.Unlock()
			sort.Ints(in)
			if len(in) == 0 {
				o.Case("lresult", "wedged")
				return
			}
			p := in[r.Intn(len(in))]
			st.mu.Lock()
			g := st.inflight[p]
			st.mu.Unlock()
			if !cancelled && step == cancelAt {
				cancelled = true
				switch {
				case between:
					close(g)
					settle(true)
					settle(false)
					o.Case(fmt.Sprintf("lrelease %d %s", p, ansStr(p)), "started "+idxList(takeStarted()))
					o.Case("lcancel", "started -")
				case combined:
					if r.Intn(4) == 0 {
						close(g)
						cancel()
					} else {
						cancel()
						close(g)
					}
					settle(false)
					o.Case(fmt.Sprintf("lrelcancel %d %s", p, ansStr(p)), "started "+idxList(takeStarted()))
				default:
					cancel()
					settle(false)
					o.Case("lcancel", "started "+idxList(takeStarted()))
				}
				continue
			}
			close(g)
			settle(false)
			o.Case(fmt.Sprintf("lrelease %d %s", p, ansStr(p)), "started "+idxList(takeStarted()))
		}
	})
}

type lkTransport struct{ self *enode.Node }

func (t *lkTransport) Self() *enode.Node                           { return t.self }
func (t *lkTransport) RequestENR(*enode.Node) (*enode.Node, error) { return nil, errors.New("no") }
func (t *lkTransport) LookupRandom() []*enode.Node                 { return nil }
func (t *lkTransport) LookupSelf() []*enode.Node                   { return nil }
func (t *lkTransport) Ping(*enode.Node) (uint64, error)            { return 0, errors.New("no") }
