//go:build verif

package main

// C14, Go-side part: the fork-digest-tagged beacon containers (inner codec = zrnt, not modelled in Lean).
// One line of FACTS per case; the Lean driver evaluates the property clauses on them:
//   gval   <Type> fork=<f> inlim=<0|1> …  | enc=<ok|err|panic> dec=<ok|err|panic> eq=<0|1> type=<0|1> slot=<0|1>
//   gbytes <Type> k=<kind> n=<len> h=<fnv> | dec=<ok|err|panic> re=<ok|err|panic> same=<0|1> prefix=<0|1> lim=<0|1>

import (
	"bytes"
	"encoding/json"
	"fmt"
	"github.com/zen-eth/shisui/history"
	"math/rand"
	"os"
	"path/filepath"
	"reflect"
	"sort"

	"github.com/ethereum/go-ethereum/common/hexutil"
	"github.com/protolambda/zrnt/eth2/beacon/altair"
	"github.com/protolambda/zrnt/eth2/beacon/capella"
	"github.com/protolambda/zrnt/eth2/beacon/common"
	"github.com/protolambda/zrnt/eth2/beacon/deneb"
	"github.com/protolambda/zrnt/eth2/beacon/electra"
	"github.com/protolambda/zrnt/eth2/configs"
	"github.com/protolambda/ztyp/codec"
	tbeacon "github.com/zen-eth/shisui/types/beacon"
)

var gSpec = configs.Mainnet

// fillRandom fills any zrnt object with random content of the right sizes.
func fillRandom(r *rand.Rand, v reflect.Value, extraLen, nSummaries int) {
	switch v.Kind() {
	case reflect.Ptr:
		if v.IsNil() {
			v.Set(reflect.New(v.Type().Elem()))
		}
		fillRandom(r, v.Elem(), extraLen, nSummaries)
	case reflect.Struct:
		for i := 0; i < v.NumField(); i++ {
			if v.Field(i).CanSet() {
				fillRandom(r, v.Field(i), extraLen, nSummaries)
			}
		}
	case reflect.Array:
		if v.Type().Elem().Kind() == reflect.Uint8 {
			b := make([]byte, v.Len())
			r.Read(b)
			reflect.Copy(v, reflect.ValueOf(b))
			return
		}
		for i := 0; i < v.Len(); i++ {
			fillRandom(r, v.Index(i), extraLen, nSummaries)
		}
	case reflect.Slice:
		n := 0
		switch v.Type().Name() {
		case "SyncCommitteePubkeys":
			n = int(gSpec.SYNC_COMMITTEE_SIZE)
		case "SyncCommitteeBits":
			n = int(gSpec.SYNC_COMMITTEE_SIZE) / 8
		case "ExtraData":
			n = extraLen
		case "HistoricalSummaries":
			n = nSummaries
		default:
			panic("fillRandom: unknown slice type " + v.Type().String())
		}
		s := reflect.MakeSlice(v.Type(), n, n)
		for i := 0; i < n; i++ {
			fillRandom(r, s.Index(i), extraLen, nSummaries)
		}
		v.Set(s)
	case reflect.Uint8, reflect.Uint16, reflect.Uint32, reflect.Uint64:
		v.SetUint(r.Uint64() >> uint(64-v.Type().Bits()))
	case reflect.Bool:
		v.SetBool(r.Intn(2) == 0)
	default:
		panic("fillRandom: unsupported kind " + v.Kind().String())
	}
}

// looseEqual: reflect.DeepEqual, except that nil and empty slices are the same value.
func looseEqual(a, b reflect.Value) bool {
	if a.Kind() != b.Kind() || a.Type() != b.Type() {
		return false
	}
	switch a.Kind() {
	case reflect.Ptr, reflect.Interface:
		if a.IsNil() || b.IsNil() {
			return a.IsNil() == b.IsNil()
		}
		return looseEqual(a.Elem(), b.Elem())
	case reflect.Struct:
		for i := 0; i < a.NumField(); i++ {
			if !looseEqual(a.Field(i), b.Field(i)) {
				return false
			}
		}
		return true
	case reflect.Array, reflect.Slice:
		if a.Len() != b.Len() {
			return false
		}
		for i := 0; i < a.Len(); i++ {
			if !looseEqual(a.Index(i), b.Index(i)) {
				return false
			}
		}
		return true
	default:
		return reflect.DeepEqual(a.Interface(), b.Interface())
	}
}

// maxExtra / field finders by reflection (limits facts reported to the driver)
func walk(v reflect.Value, f func(name string, v reflect.Value)) {
	switch v.Kind() {
	case reflect.Ptr, reflect.Interface:
		if !v.IsNil() {
			walk(v.Elem(), f)
		}
	case reflect.Struct:
		for i := 0; i < v.NumField(); i++ {
			f(v.Type().Field(i).Name, v.Field(i))
			walk(v.Field(i), f)
		}
	case reflect.Slice, reflect.Array:
		if v.Type().Elem().Kind() == reflect.Uint8 {
			return
		}
		for i := 0; i < v.Len() && i < 200; i++ {
			walk(v.Index(i), f)
		}
	}
}

func withinBeaconLimits(x interface{}) bool {
	ok := true
	walk(reflect.ValueOf(x), func(name string, v reflect.Value) {
		if name == "ExtraData" && v.Len() > 32 {
			ok = false
		}
	})
	return ok
}

type specCodec interface {
	Serialize(spec *common.Spec, w *codec.EncodingWriter) error
	Deserialize(spec *common.Spec, dr *codec.DecodingReader) error
}

func specEnc(x specCodec) (b []byte, err error, panicked bool) {
	defer func() {
		if recover() != nil {
			panicked = true
		}
	}()
	var buf bytes.Buffer
	err = x.Serialize(gSpec, codec.NewEncodingWriter(&buf))
	return buf.Bytes(), err, false
}

func specDec(x specCodec, b []byte) (err error, panicked bool) {
	defer func() {
		if recover() != nil {
			panicked = true
		}
	}()
	return x.Deserialize(gSpec, codec.NewDecodingReader(bytes.NewReader(b), uint64(len(b)))), false
}

var forkNames = map[common.ForkDigest]string{
	tbeacon.Bellatrix: "bellatrix", tbeacon.Capella: "capella", tbeacon.Deneb: "deneb", tbeacon.Electra: "electra",
}
var forkOrder = []common.ForkDigest{tbeacon.Bellatrix, tbeacon.Capella, tbeacon.Deneb, tbeacon.Electra}

// gType: one fork-tagged wrapper.
type gType struct {
	name  string
	inner map[common.ForkDigest]func() common.SpecObj // the object type each digest stands for
	wrap  func(d common.ForkDigest, o common.SpecObj) specCodec
	fresh func() specCodec
	get   func(c specCodec) (common.ForkDigest, common.SpecObj)
	slot  func(c specCodec) (uint64, bool) // the accessor that repeats the digest dispatch, if any
	slotF string                           // path of the field it should return
}

func fieldSlot(o interface{}, path string) uint64 {
	v := reflect.ValueOf(o)
	for v.Kind() == reflect.Ptr {
		v = v.Elem()
	}
	switch path {
	case "SignatureSlot":
		return v.FieldByName("SignatureSlot").Uint()
	case "FinalizedSlot":
		h := v.FieldByName("FinalizedHeader")
		if b := h.FieldByName("Beacon"); b.IsValid() {
			return b.FieldByName("Slot").Uint()
		}
		return h.FieldByName("Slot").Uint()
	}
	return 0
}

func gTypes() []*gType {
	return []*gType{
		{name: "b.ForkedBootstrap",
			inner: map[common.ForkDigest]func() common.SpecObj{
				tbeacon.Bellatrix: func() common.SpecObj { return &altair.LightClientBootstrap{} },
				tbeacon.Capella:   func() common.SpecObj { return &capella.LightClientBootstrap{} },
				tbeacon.Deneb:     func() common.SpecObj { return &deneb.LightClientBootstrap{} },
				tbeacon.Electra:   func() common.SpecObj { return &electra.LightClientBootstrap{} }},
			wrap: func(d common.ForkDigest, o common.SpecObj) specCodec {
				return &tbeacon.ForkedLightClientBootstrap{ForkDigest: d, Bootstrap: o}
			},
			fresh: func() specCodec { return &tbeacon.ForkedLightClientBootstrap{} },
			get: func(c specCodec) (common.ForkDigest, common.SpecObj) {
				f := c.(*tbeacon.ForkedLightClientBootstrap)
				return f.ForkDigest, f.Bootstrap
			}},
		{name: "b.ForkedUpdate",
			inner: map[common.ForkDigest]func() common.SpecObj{
				tbeacon.Bellatrix: func() common.SpecObj { return &altair.LightClientUpdate{} },
				tbeacon.Capella:   func() common.SpecObj { return &capella.LightClientUpdate{} },
				tbeacon.Deneb:     func() common.SpecObj { return &deneb.LightClientUpdate{} },
				tbeacon.Electra:   func() common.SpecObj { return &electra.LightClientUpdate{} }},
			wrap: func(d common.ForkDigest, o common.SpecObj) specCodec {
				return &tbeacon.ForkedLightClientUpdate{ForkDigest: d, LightClientUpdate: o}
			},
			fresh: func() specCodec { return &tbeacon.ForkedLightClientUpdate{} },
			get: func(c specCodec) (common.ForkDigest, common.SpecObj) {
				f := c.(*tbeacon.ForkedLightClientUpdate)
				return f.ForkDigest, f.LightClientUpdate
			}},
		{name: "b.ForkedOptimisticUpdate",
			inner: map[common.ForkDigest]func() common.SpecObj{
				tbeacon.Bellatrix: func() common.SpecObj { return &altair.LightClientOptimisticUpdate{} },
				tbeacon.Capella:   func() common.SpecObj { return &capella.LightClientOptimisticUpdate{} },
				tbeacon.Deneb:     func() common.SpecObj { return &deneb.LightClientOptimisticUpdate{} },
				tbeacon.Electra:   func() common.SpecObj { return &deneb.LightClientOptimisticUpdate{} }},
			wrap: func(d common.ForkDigest, o common.SpecObj) specCodec {
				return &tbeacon.ForkedLightClientOptimisticUpdate{ForkDigest: d, LightClientOptimisticUpdate: o}
			},
			fresh: func() specCodec { return &tbeacon.ForkedLightClientOptimisticUpdate{} },
			get: func(c specCodec) (common.ForkDigest, common.SpecObj) {
				f := c.(*tbeacon.ForkedLightClientOptimisticUpdate)
				return f.ForkDigest, f.LightClientOptimisticUpdate
			},
			slot: func(c specCodec) (s uint64, ok bool) {
				defer func() {
					if recover() != nil {
						ok = false
					}
				}()
				return c.(*tbeacon.ForkedLightClientOptimisticUpdate).GetSignatureSlot(), true
			}, slotF: "SignatureSlot"},
		{name: "b.ForkedFinalityUpdate",
			inner: map[common.ForkDigest]func() common.SpecObj{
				tbeacon.Bellatrix: func() common.SpecObj { return &altair.LightClientFinalityUpdate{} },
				tbeacon.Capella:   func() common.SpecObj { return &capella.LightClientFinalityUpdate{} },
				tbeacon.Deneb:     func() common.SpecObj { return &deneb.LightClientFinalityUpdate{} },
				tbeacon.Electra:   func() common.SpecObj { return &electra.LightClientFinalityUpdate{} }},
			wrap: func(d common.ForkDigest, o common.SpecObj) specCodec {
				return &tbeacon.ForkedLightClientFinalityUpdate{ForkDigest: d, LightClientFinalityUpdate: o}
			},
			fresh: func() specCodec { return &tbeacon.ForkedLightClientFinalityUpdate{} },
			get: func(c specCodec) (common.ForkDigest, common.SpecObj) {
				f := c.(*tbeacon.ForkedLightClientFinalityUpdate)
				return f.ForkDigest, f.LightClientFinalityUpdate
			},
			slot: func(c specCodec) (s uint64, ok bool) {
				defer func() {
					if recover() != nil {
						ok = false
					}
				}()
				return c.(*tbeacon.ForkedLightClientFinalityUpdate).GetBeaconSlot(), true
			}, slotF: "FinalizedSlot"},
	}
}

func b01s(b bool) string {
	if b {
		return "1"
	}
	return "0"
}

// gvalForked: object -> Serialize -> Deserialize; the decoded object must be of the type the digest stands for,
// equal to the original, and the slot accessor must read the field of that type.
func gvalForked(o *Out, t *gType, d common.ForkDigest, obj common.SpecObj, inlim bool, note string) []byte {
	in := fmt.Sprintf("gval %s fork=%s inlim=%s %s", t.name, forkNames[d], b01s(inlim), note)
	b, err, p := specEnc(t.wrap(d, obj))
	if p {
		o.Case(in, "enc=panic")
		return nil
	}
	if err != nil {
		o.Case(in, "enc=err")
		return nil
	}
	f := t.fresh()
	err, p = specDec(f, b)
	if p {
		o.Case(in, "enc=ok dec=panic")
		return b
	}
	if err != nil {
		o.Case(in, "enc=ok dec=err")
		return b
	}
	d2, o2 := t.get(f)
	typeOK := d2 == d && reflect.TypeOf(o2) == reflect.TypeOf(t.inner[d]())
	eq := typeOK && looseEqual(reflect.ValueOf(obj), reflect.ValueOf(o2))
	slotOK := true
	if t.slot != nil {
		s, ok := t.slot(f)
		slotOK = ok && s == fieldSlot(obj, t.slotF)
	}
	o.Case(in, fmt.Sprintf("enc=ok dec=ok eq=%s type=%s slot=%s", b01s(eq), b01s(typeOK), b01s(slotOK)))
	return b
}

func gbytesCase(o *Out, name, kind string, b []byte, fresh func() specCodec, limOK func(c specCodec) bool) {
	in := fmt.Sprintf("gbytes %s k=%s n=%d h=%016x", name, kind, len(b), fnv(b))
	f := fresh()
	err, p := specDec(f, append([]byte{}, b...))
	if p {
		o.Case(in, "dec=panic")
		return
	}
	if err != nil {
		o.Case(in, "dec=err")
		return
	}
	lim := limOK(f)
	b2, err, p := specEnc(f)
	switch {
	case p:
		o.Case(in, "dec=ok re=panic lim="+b01s(lim))
	case err != nil:
		o.Case(in, "dec=ok re=err lim="+b01s(lim))
	default:
		o.Case(in, fmt.Sprintf("dec=ok re=ok same=%s prefix=%s lim=%s", b01s(bytes.Equal(b, b2)),
			b01s(len(b2) < len(b) && bytes.Equal(b[:len(b2)], b2)), b01s(lim)))
	}
}

// the repository's own vectors (portal-spec-tests), by wrapper
func loadVectors(repo, file string) [][]byte {
	raw, err := os.ReadFile(filepath.Join(repo, "types/beacon/testdata/types", file))
	if err != nil {
		return nil
	}
	var m map[string]map[string]interface{}
	if json.Unmarshal(raw, &m) != nil {
		return nil
	}
	keys := make([]string, 0, len(m))
	for k := range m {
		keys = append(keys, k)
	}
	sort.Strings(keys)
	var out [][]byte
	for _, k := range keys {
		if s, ok := m[k]["content_value"].(string); ok {
			if b, err := hexutil.Decode(s); err == nil {
				out = append(out, b)
			}
		}
	}
	return out
}

type rangeCodec struct {
	r tbeacon.LightClientUpdateRange
}

func (c *rangeCodec) Serialize(spec *common.Spec, w *codec.EncodingWriter) error {
	return c.r.Serialize(spec, w)
}
func (c *rangeCodec) Deserialize(spec *common.Spec, dr *codec.DecodingReader) error {
	return c.r.Deserialize(spec, dr)
}

type proofCodec struct {
	p tbeacon.HistoricalSummariesProof
}

func (c *proofCodec) Serialize(_ *common.Spec, w *codec.EncodingWriter) error {
	return c.p.Serialize(w)
}
func (c *proofCodec) Deserialize(_ *common.Spec, dr *codec.DecodingReader) error {
	return c.p.Deserialize(dr)
}

func gMutate(r *rand.Rand, b []byte) ([]byte, string) {
	c := append([]byte{}, b...)
	switch k := r.Intn(8); {
	case k == 0 && len(c) > 0:
		c[r.Intn(len(c))] ^= 1 << uint(r.Intn(8))
		return c, "bitflip"
	case k == 1 && len(c) > 8:
		// the first bytes hold the digest and the container's offsets
		c[r.Intn(minInt(len(c), 64))] = byte(r.Intn(256))
		return c, "byteset-head"
	case k == 2 && len(c) > 0:
		return c[:r.Intn(len(c))], "truncate"
	case k == 3 || k == 4:
		n := 1 + r.Intn(8)
		ext := make([]byte, n)
		if r.Intn(2) == 0 {
			r.Read(ext)
		}
		return append(c, ext...), "trailing"
	case k == 5 && len(c) > 0:
		i := r.Intn(len(c))
		return append(c[:i], c[i+1:]...), "delete"
	case k == 6 && len(c) >= 8:
		// rewrite a 4-byte aligned word near the start (+-1, +-4, 0, len)
		p := 4 * r.Intn(minInt(len(c)/4, 48))
		cur := int(uint32(c[p]) | uint32(c[p+1])<<8 | uint32(c[p+2])<<16 | uint32(c[p+3])<<24)
		nv := []int{cur + 1, cur - 1, cur + 4, cur - 4, 0, len(c), len(c) + 1}[r.Intn(7)]
		c[p], c[p+1], c[p+2], c[p+3] = byte(nv), byte(nv>>8), byte(nv>>16), byte(nv>>24)
		return c, "word-game"
	default:
		i := r.Intn(len(c) + 1)
		c = append(c[:i], append([]byte{byte(r.Intn(256))}, c[i:]...)...)
		return c, "insert"
	}
}

func runC14Generic(o *Out, r *rand.Rand, thorough bool) {
	repo := os.Getenv("VERIF_REPO")
	if repo == "" {
		repo = "/repo"
	}
	scale := 1
	if thorough {
		scale = 20
	}
	vectors := map[string][][]byte{
		"b.ForkedBootstrap":        loadVectors(repo, "light_client_bootstrap.json"),
		"b.ForkedOptimisticUpdate": loadVectors(repo, "light_client_optimistic_update.json"),
		"b.ForkedFinalityUpdate":   loadVectors(repo, "light_client_finality_update.json"),
	}
	alwaysIn := func(c specCodec) bool { return withinBeaconLimits(c) }
	var updates []tbeacon.ForkedLightClientUpdate
	for _, t := range gTypes() {
		var encs [][]byte
		for _, d := range forkOrder {
			for i := 0; i < 3*scale; i++ {
				obj := t.inner[d]()
				extra := []int{0, 1, 31, 32}[r.Intn(4)]
				fillRandom(r, reflect.ValueOf(obj), extra, 0)
				if b := gvalForked(o, t, d, obj, true, fmt.Sprintf("extra=%d", extra)); b != nil {
					encs = append(encs, b)
					if t.name == "b.ForkedUpdate" && len(updates) < 8 {
						updates = append(updates, tbeacon.ForkedLightClientUpdate{ForkDigest: d, LightClientUpdate: obj})
					}
				}
			}
			// just beyond the one limit these objects have: 33 bytes of extra data (forks with an execution header)
			if d != tbeacon.Bellatrix {
				obj := t.inner[d]()
				fillRandom(r, reflect.ValueOf(obj), 33, 0)
				gvalForked(o, t, d, obj, false, "extra=33")
			}
		}
		for _, v := range vectors[t.name] {
			gbytesCase(o, t.name, "repo-vector", v, t.fresh, alwaysIn)
			encs = append(encs, v)
		}
		for _, e := range encs {
			gbytesCase(o, t.name, "valid", e, t.fresh, alwaysIn)
		}
		for i := 0; i < 60*scale; i++ {
			m, kind := gMutate(r, encs[r.Intn(len(encs))])
			gbytesCase(o, t.name, kind, m, t.fresh, alwaysIn)
		}
		// an unknown digest in front of a valid body must be refused
		for i := 0; i < 4; i++ {
			m := append([]byte{}, encs[r.Intn(len(encs))]...)
			m[0], m[1] = 0x12, 0x34
			gbytesCase(o, t.name, "unknown-digest", m, t.fresh, alwaysIn)
		}
	}

	// ---- LightClientUpdateRange: list of at most 128 fork-tagged updates
	rangeFresh := func() specCodec { return &rangeCodec{r: make(tbeacon.LightClientUpdateRange, 0)} }
	rangeLim := func(c specCodec) bool { return len(c.(*rangeCodec).r) <= 128 && withinBeaconLimits(c.(*rangeCodec).r) }
	var rangeEncs [][]byte
	counts := []int{0, 1, 2, 4, 127, 128, 129, 130}
	rangeVal := func(n int, updates []tbeacon.ForkedLightClientUpdate, note string) {
		rg := make(tbeacon.LightClientUpdateRange, n)
		for i := range rg {
			rg[i] = updates[(i+n)%len(updates)]
		}
		in := fmt.Sprintf("gval b.UpdateRange n=%d inlim=%s%s", n, b01s(n <= 128), note)
		b, err, p := specEnc(&rangeCodec{r: rg})
		switch {
		case p:
			o.Case(in, "enc=panic")
		case err != nil:
			o.Case(in, "enc=err")
		default:
			f := rangeFresh()
			err, p := specDec(f, b)
			switch {
			case p:
				o.Case(in, "enc=ok dec=panic")
			case err != nil:
				o.Case(in, "enc=ok dec=err")
			default:
				got := f.(*rangeCodec).r
				eq := len(got) == len(rg)
				for i := 0; eq && i < len(rg); i++ {
					eq = got[i].ForkDigest == rg[i].ForkDigest &&
						looseEqual(reflect.ValueOf(got[i].LightClientUpdate), reflect.ValueOf(rg[i].LightClientUpdate))
				}
				o.Case(in, "enc=ok dec=ok eq="+b01s(eq)+" type=1 slot=1")
			}
			if n <= 4 && note == "" {
				rangeEncs = append(rangeEncs, b)
			}
		}
	}
	for _, n := range counts {
		rangeVal(n, updates, "")
	}
	// the same containers under ANOTHER preset of the consensus spec (the spec is a parameter of every one of these codecs and
	// of the beacon network that uses them): sync committees of 32 keys instead of 512, so every element has another size
	func() {
		defer func(s *common.Spec) { gSpec = s }(gSpec)
		gSpec = configs.Minimal
		var small []tbeacon.ForkedLightClientUpdate
		for _, t := range gTypes() {
			for _, d := range forkOrder {
				for i := 0; i < 2; i++ {
					obj := t.inner[d]()
					extra := []int{0, 1, 31, 32}[r.Intn(4)]
					fillRandom(r, reflect.ValueOf(obj), extra, 0)
					if b := gvalForked(o, t, d, obj, true, fmt.Sprintf("extra=%d spec=minimal", extra)); b != nil && t.name == "b.ForkedUpdate" {
						small = append(small, tbeacon.ForkedLightClientUpdate{ForkDigest: d, LightClientUpdate: obj})
					}
				}
			}
		}
		if len(small) > 0 {
			for _, n := range []int{0, 1, 2, 3, 5, 128, 129} {
				rangeVal(n, small, " spec=minimal")
			}
		}
	}()
	for _, v := range loadVectors(repo, "light_client_updates_by_range.json") {
		gbytesCase(o, "b.UpdateRange", "repo-vector", v, rangeFresh, rangeLim)
		rangeEncs = append(rangeEncs, v)
	}
	for i := 0; i < 60*scale; i++ {
		m, kind := gMutate(r, rangeEncs[r.Intn(len(rangeEncs))])
		gbytesCase(o, "b.UpdateRange", kind, m, rangeFresh, rangeLim)
	}

	// ---- HistoricalSummariesProof (6 roots) and (Forked)HistoricalSummariesWithProof
	proofFresh := func() specCodec { return &proofCodec{} }
	swpFresh := func() specCodec { return &tbeacon.HistoricalSummariesWithProof{} }
	fswpFresh := func() specCodec { return &tbeacon.ForkedHistoricalSummariesWithProof{} }
	inLim := func(specCodec) bool { return true }
	var pe, se, fe [][]byte
	for i := 0; i < 6*scale; i++ {
		pc := &proofCodec{}
		fillRandom(r, reflect.ValueOf(&pc.p), 0, 0)
		in := "gval b.SummariesProof inlim=1"
		if b, err, p := specEnc(pc); !p && err == nil {
			f := &proofCodec{}
			err, p := specDec(f, b)
			o.Case(in, fmt.Sprintf("enc=ok dec=%s eq=%s type=1 slot=1", map[bool]string{true: "ok", false: "err"}[err == nil && !p], b01s(err == nil && !p && f.p == pc.p)))
			pe = append(pe, b)
		} else {
			o.Case(in, "enc=err")
		}
		n := []int{0, 1, 2, 17, 300}[r.Intn(5)]
		sw := &tbeacon.HistoricalSummariesWithProof{}
		fillRandom(r, reflect.ValueOf(sw), 0, n)
		in = fmt.Sprintf("gval b.SummariesWithProof n=%d inlim=1", n)
		if b, err, p := specEnc(sw); !p && err == nil {
			f := &tbeacon.HistoricalSummariesWithProof{}
			err, p := specDec(f, b)
			o.Case(in, fmt.Sprintf("enc=ok dec=%s eq=%s type=1 slot=1", map[bool]string{true: "ok", false: "err"}[err == nil && !p],
				b01s(err == nil && !p && looseEqual(reflect.ValueOf(sw), reflect.ValueOf(f)))))
			se = append(se, b)
		} else {
			o.Case(in, "enc=err")
		}
		fw := &tbeacon.ForkedHistoricalSummariesWithProof{}
		fillRandom(r, reflect.ValueOf(fw), 0, n)
		in = fmt.Sprintf("gval b.ForkedSummariesWithProof n=%d inlim=1", n)
		if b, err, p := specEnc(fw); !p && err == nil {
			f := &tbeacon.ForkedHistoricalSummariesWithProof{}
			err, p := specDec(f, b)
			o.Case(in, fmt.Sprintf("enc=ok dec=%s eq=%s type=1 slot=1", map[bool]string{true: "ok", false: "err"}[err == nil && !p],
				b01s(err == nil && !p && looseEqual(reflect.ValueOf(fw), reflect.ValueOf(f)))))
			fe = append(fe, b)
		} else {
			o.Case(in, "enc=err")
		}
	}
	for i := 0; i < 40*scale; i++ {
		m, kind := gMutate(r, pe[r.Intn(len(pe))])
		gbytesCase(o, "b.SummariesProof", kind, m, proofFresh, inLim)
		m, kind = gMutate(r, se[r.Intn(len(se))])
		gbytesCase(o, "b.SummariesWithProof", kind, m, swpFresh, inLim)
		m, kind = gMutate(r, fe[r.Intn(len(fe))])
		gbytesCase(o, "b.ForkedSummariesWithProof", kind, m, fswpFresh, inLim)
	}
	for _, e := range pe {
		gbytesCase(o, "b.SummariesProof", "valid", e, proofFresh, inLim)
	}
	for _, e := range se {
		gbytesCase(o, "b.SummariesWithProof", "valid", e, swpFresh, inLim)
	}
	for _, e := range fe {
		gbytesCase(o, "b.ForkedSummariesWithProof", "valid", e, fswpFresh, inLim)
	}
}

// runC14Big: the byte-list limits of the history containers that ordinary values never come near - 2^24 bytes per transaction,
// 2^27 per receipt, 2^17 for the uncles field - each with one item AT the limit (in-limit: value -> bytes -> value must give the
// value back) and one byte beyond (the encoder, or the decoder given the image, must refuse). Too large to spell out for the
// Lean codec: compared Go-side like the beacon containers.
func runC14Big(o *Out, thorough bool) {
	type big struct {
		name  string
		size  int
		inlim bool
		enc   func(item []byte) ([]byte, error)
		dec   func(b []byte) ([][]byte, error) // the byte-list items of the decoded value, the big one second
	}
	txLegacy := func(item []byte) ([]byte, error) {
		return (&history.BlockBodyLegacy{Transactions: [][]byte{{1}, item, {2, 3}}, Uncles: []byte{0xc0}}).MarshalSSZ()
	}
	txLegacyDec := func(b []byte) ([][]byte, error) {
		v := new(history.BlockBodyLegacy)
		err := v.UnmarshalSSZ(b)
		return v.Transactions, err
	}
	txShanghai := func(item []byte) ([]byte, error) {
		return (&history.PortalBlockBodyShanghai{Transactions: [][]byte{{1}, item, {2, 3}}, Uncles: []byte{0xc0}, Withdrawals: [][]byte{}}).MarshalSSZ()
	}
	txShanghaiDec := func(b []byte) ([][]byte, error) {
		v := new(history.PortalBlockBodyShanghai)
		err := v.UnmarshalSSZ(b)
		return v.Transactions, err
	}
	uncles := func(item []byte) ([]byte, error) {
		return (&history.BlockBodyLegacy{Transactions: [][]byte{{1}}, Uncles: item}).MarshalSSZ()
	}
	unclesDec := func(b []byte) ([][]byte, error) {
		v := new(history.BlockBodyLegacy)
		err := v.UnmarshalSSZ(b)
		return [][]byte{{1}, v.Uncles, {2, 3}}, err
	}
	rcpt := func(item []byte) ([]byte, error) {
		return (&history.PortalReceipts{Receipts: [][]byte{{1}, item, {2, 3}}}).MarshalSSZ()
	}
	rcptDec := func(b []byte) ([][]byte, error) {
		v := new(history.PortalReceipts)
		err := v.UnmarshalSSZ(b)
		return v.Receipts, err
	}
	cases := []big{
		{"h.BodyLegacy.tx", 1 << 24, true, txLegacy, txLegacyDec}, {"h.BodyLegacy.tx", 1<<24 + 1, false, txLegacy, txLegacyDec},
		{"h.BodyShanghai.tx", 1 << 24, true, txShanghai, txShanghaiDec}, {"h.BodyShanghai.tx", 1<<24 + 1, false, txShanghai, txShanghaiDec},
		{"h.BodyLegacy.uncles", 1 << 17, true, uncles, unclesDec}, {"h.BodyLegacy.uncles", 1<<17 + 1, false, uncles, unclesDec},
		{"h.PortalReceipts.item", 1 << 24, true, rcpt, rcptDec}, {"h.PortalReceipts.item", 1<<24 + 1, true, rcpt, rcptDec},
		{"h.PortalReceipts.item", 20 << 20, true, rcpt, rcptDec},
	}
	if thorough {
		cases = append(cases, big{"h.PortalReceipts.item", 1 << 27, true, rcpt, rcptDec}, big{"h.PortalReceipts.item", 1<<27 + 1, false, rcpt, rcptDec})
	}
	for _, c := range cases {
		item := make([]byte, c.size)
		for i := 0; i < len(item); i += 4093 {
			item[i] = byte(i)
		}
		in := fmt.Sprintf("gval %s inlim=%s size=%d", c.name, b01s(c.inlim), c.size)
		out := func() (res string) {
			defer func() {
				if recover() != nil {
					res = "enc=panic"
				}
			}()
			b, err := c.enc(item)
			if err != nil {
				return "enc=err"
			}
			items, err := c.dec(b)
			if err != nil {
				return "enc=ok dec=err"
			}
			eq := len(items) == 3 && bytes.Equal(items[1], item)
			return "enc=ok dec=ok eq=" + b01s(eq) + " type=1 slot=1"
		}()
		o.Case(in, out)
	}
}
