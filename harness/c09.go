//go:build verif

package main

import (
	"bytes"
	"context"
	"crypto/sha256"
	"encoding/binary"
	"fmt"
	"math/rand"
	"net"
	"strings"
	"sync"
	"time"

	bitfield "github.com/OffchainLabs/go-bitfield"
	"github.com/ethereum/go-ethereum/p2p/enode"
	"github.com/holiman/uint256"
	"github.com/zen-eth/shisui/portalwire"
	"github.com/zen-eth/shisui/storage"
)

func init() {
	runners["offer"] = runOffer
	runners["offer2"] = runOffer2
}

// radiusStore: a map store with a configurable radius (so that out-of-radius keys exist).
type radiusStore struct {
	mu     sync.Mutex
	db     map[string][]byte
	radius *uint256.Int
}

func (s *radiusStore) Get(_ []byte, id []byte) ([]byte, error) {
	s.mu.Lock()
	defer s.mu.Unlock()
	if v, ok := s.db[string(id)]; ok {
		return v, nil
	}
	return nil, storage.ErrContentNotFound
}
func (s *radiusStore) Put(_ []byte, id []byte, v []byte) error {
	s.mu.Lock()
	defer s.mu.Unlock()
	s.db[string(id)] = v
	return nil
}
func (s *radiusStore) Radius() *uint256.Int { return s.radius }
func (s *radiusStore) Close() error         { return nil }

var verdictNames = []string{"accepted", "declined", "alreadyStored", "notWithinRadius", "rateLimited", "inProgress", "unspecified"}

// decodeAcceptOn is decodeAccept for a reply of node nd to an offer of these keys. A connection id of 0 normally means "no
// transfer was set up", but 0 is also an id the uTP library may draw (once in 65536 transfers): when the reply accepts keys,
// names id 0, and the node has marked every accepted key as being received, a transfer WAS set up and the id is a real one.
func decodeAcceptOn(nd *realNode, version uint8, resp []byte, keys [][]byte) string {
	s := decodeAccept(version, resp, len(keys))
	f := strings.Fields(s)
	if len(f) != 2 || f[1] != "conn=0" {
		return s
	}
	vs := strings.Split(strings.TrimPrefix(f[0], "verdicts="), ",")
	accepted := 0
	for i, v := range vs {
		if v == "accepted" {
			if i >= len(keys) || !nd.p.VerifTransferringHas(keys[i]) {
				return s
			}
			accepted++
		}
	}
	if accepted > 0 {
		return f[0] + " conn=1"
	}
	return s
}

func decodeAccept(version uint8, resp []byte, nKeys int) string {
	if len(resp) == 0 || resp[0] != portalwire.ACCEPT {
		return "badreply"
	}
	var vs []string
	var cid uint16
	if version == 0 {
		a := &portalwire.Accept{}
		if a.UnmarshalSSZ(resp[1:]) != nil {
			return "undecodable"
		}
		bl := bitfield.Bitlist(a.ContentKeys)
		for i := uint64(0); i < bl.Len(); i++ {
			if bl.BitAt(i) {
				vs = append(vs, "accepted")
			} else {
				vs = append(vs, "declined")
			}
		}
		cid = binary.BigEndian.Uint16(a.ConnectionId)
	} else {
		a := &portalwire.AcceptV1{}
		if a.UnmarshalSSZ(resp[1:]) != nil {
			return "undecodable"
		}
		for _, c := range a.ContentKeys {
			if int(c) < len(verdictNames) {
				vs = append(vs, verdictNames[c])
			} else {
				vs = append(vs, "code"+fmt.Sprint(c))
			}
		}
		cid = binary.BigEndian.Uint16(a.ConnectionId)
	}
	if len(vs) == 0 {
		vs = []string{"-"}
	}
	return fmt.Sprintf("verdicts=%s conn=%d", strings.Join(vs, ","), b2i(cid != 0))
}

// runOffer: the real handleOffer on started nodes, per case: wire version 0/1, 0..8 (sometimes 64) fresh keys each
// in/out of range, stored or not, marked in flight or not; a node without transfer slots and one with plenty; for
// version 0 an optionally full validation queue.
func runOffer(o *Out, r *rand.Rand, thorough bool, _ []string) {
	n := 700
	if thorough {
		n = 12000
	}
	n = shorter(n, thorough)
	mn := newMemNet()
	radius := new(uint256.Int).Lsh(uint256.NewInt(1), 255)
	mk := func(port, limit, qcap int) *realNode {
		return startNode(mn, r, nodeOpts{ip: net.IP{34, 60, 1, byte(port % 250)}, port: port, utpLimit: limit, queueCap: qcap,
			store: &radiusStore{db: map[string][]byte{}, radius: radius}})
	}
	noSlots, slots, fullQ := mk(9401, 0, 50), mk(9402, 100000, 50), mk(9403, 100000, 1)
	fullQ.queue <- &portalwire.ContentElement{} // its validation queue (capacity 1) is full
	for c := 0; c < n; c++ {
		nd, slotDesc := slots, "ample"
		switch r.Intn(5) {
		case 0, 1:
			nd, slotDesc = noSlots, "none"
		case 2:
			nd, slotDesc = fullQ, "ample-queuefull"
		}
		version := uint8(r.Intn(2))
		asker := signRecPad(keyFromSeed(r), net.IP{34, 70, byte(c / 250), byte(1 + c%250)}, 5000, 1, 0)
		nd.p.VerifVersionsCacheSet(asker, version)
		nKeys := r.Intn(7)
		if r.Intn(25) == 0 {
			nKeys = 60 + r.Intn(5)
		}
		var keys [][]byte
		var desc []string
		for k := 0; k < nKeys; k++ {
			key := make([]byte, 4+r.Intn(30))
			r.Read(key)
			idh := sha256.Sum256(key)
			inr := portalwire.VerifInRange(nd.p.Self().ID(), radius, idh[:])
			stored, inflight := r.Intn(4) == 0, r.Intn(5) == 0
			if stored {
				_ = nd.store.Put(key, idh[:], []byte{1})
			}
			if inflight {
				nd.p.VerifTransferringSet(key)
			}
			keys = append(keys, key)
			desc = append(desc, fmt.Sprintf("%d%d%d", b2i(inr), b2i(stored), b2i(inflight)))
		}
		if len(desc) == 0 {
			desc = []string{"-"}
		}
		input := fmt.Sprintf("offer v=%d slots=%s keys=%s", version, slotDesc, strings.Join(desc, ","))
		resp, err := nd.p.VerifHandleOffer(asker, &net.UDPAddr{IP: asker.IP(), Port: asker.UDP()}, &portalwire.Offer{ContentKeys: keys})
		if err != nil {
			o.Case(input, "error")
			continue
		}
		o.Case(input, decodeAcceptOn(nd, version, resp, keys))
	}
	// overlapping offers of the same fresh key, back to back (version 1): the second must see the first's transfer in
	// progress - the in-flight mark has to be in place when the first reply is given
	nOverlap := 60
	if thorough {
		nOverlap = 2000
	}
	for c := 0; c < nOverlap; c++ {
		a1 := signRecPad(keyFromSeed(r), net.IP{34, 72, byte(c / 250), byte(1 + c%250)}, 5000, 1, 0)
		a2 := signRecPad(keyFromSeed(r), net.IP{34, 73, byte(c / 250), byte(1 + c%250)}, 5000, 1, 0)
		slots.p.VerifVersionsCacheSet(a1, 1)
		slots.p.VerifVersionsCacheSet(a2, 1)
		var key []byte
		for {
			key = make([]byte, 16)
			r.Read(key)
			idh := sha256.Sum256(key)
			if portalwire.VerifInRange(slots.p.Self().ID(), radius, idh[:]) {
				break
			}
		}
		r1, e1 := slots.p.VerifHandleOffer(a1, &net.UDPAddr{IP: a1.IP(), Port: 5000}, &portalwire.Offer{ContentKeys: [][]byte{key}})
		r2, e2 := slots.p.VerifHandleOffer(a2, &net.UDPAddr{IP: a2.IP(), Port: 5000}, &portalwire.Offer{ContentKeys: [][]byte{key}})
		if e1 != nil || e2 != nil {
			o.Case("overlap", "error")
			continue
		}
		o.Case("overlap", decodeAcceptOn(slots, 1, r1, [][]byte{key})+" / "+decodeAccept(1, r2, 1))
	}
	// the life cycle of the in-flight mark (version 1): a sequence of offers over a small pool of fresh in-range keys, each
	// either from a peer that never opens the announced uTP connection (its accepted keys stay "being received") or from
	// a real instance that delivers at once (its accepted keys stop being received when its own transfer has ended -
	// and only those). Every verdict is compared with the model's in-flight set.
	{
		nSeq := 40
		if thorough {
			nSeq = 600
		}
		rcv := startNode(mn, r, nodeOpts{ip: net.IP{34, 60, 2, 1}, port: 9411, versions: []uint8{0, 1}, utpLimit: 100000, queueCap: 4096,
			store: &radiusStore{db: map[string][]byte{}, radius: radius}})
		snd := startNode(mn, r, nodeOpts{ip: net.IP{34, 60, 2, 2}, port: 9412, versions: []uint8{0, 1}, utpLimit: 100000})
		rcv.p.AddEnr(snd.p.Self())
		snd.p.AddEnr(rcv.p.Self())
		_, _ = snd.p.VerifPing(rcv.p.Self())
		for c := 0; c < nSeq; c++ {
			var pool [][]byte
			for len(pool) < 4 {
				key := make([]byte, 16)
				r.Read(key)
				idh := sha256.Sum256(key)
				if portalwire.VerifInRange(rcv.p.Self().ID(), radius, idh[:]) {
					pool = append(pool, key)
				}
			}
			var ops, outs []string
			nOps := 3 + r.Intn(3)
			for k := 0; k < nOps; k++ {
				completes := k > 0 && r.Intn(2) == 0
				perm := r.Perm(len(pool))[:1+r.Intn(3)]
				var keys [][]byte
				var ks []string
				for _, ix := range perm {
					keys = append(keys, pool[ix])
					ks = append(ks, fmt.Sprint(ix))
				}
				if !completes {
					// a quarter of the pending offers come from a version-0 peer: its filter does not look at the marks, but
					// what it accepts is being received all the same
					ver, tag := uint8(1), "p:"
					if r.Intn(4) == 0 {
						ver, tag = 0, "P:"
					}
					asker := signRecPad(keyFromSeed(r), net.IP{34, 74, byte(c), byte(1 + k)}, 5000, 1, 0)
					rcv.p.VerifVersionsCacheSet(asker, ver)
					resp, err := rcv.p.VerifHandleOffer(asker, &net.UDPAddr{IP: asker.IP(), Port: 5000}, &portalwire.Offer{ContentKeys: keys})
					ops = append(ops, tag+strings.Join(ks, "."))
					if err != nil {
						outs = append(outs, "error")
					} else {
						outs = append(outs, strings.TrimPrefix(strings.Fields(decodeAccept(ver, resp, len(keys)))[0], "verdicts="))
					}
					continue
				}
				ops = append(ops, "c:"+strings.Join(ks, "."))
				// an offer from a real instance whose transfer ENDS at once: it opens the announced connection and sends a
				// stream with one item too many, which the receiver discards (a successful transfer keeps the receive
				// goroutine waiting on the same connection id for another connect timeout)
				rcv.p.VerifVersionsCacheSet(snd.p.Self(), 1)
				freeBefore := freeSlots(rcv, true, 100000)
				resp, err := rcv.p.VerifHandleOffer(snd.p.Self(), snd.udpAddr(), &portalwire.Offer{ContentKeys: keys})
				if err != nil || len(resp) < 2 {
					outs = append(outs, "error")
					continue
				}
				vstr := strings.TrimPrefix(strings.Fields(decodeAccept(1, resp, len(keys)))[0], "verdicts=")
				outs = append(outs, vstr)
				acc := &portalwire.AcceptV1{}
				if acc.UnmarshalSSZ(resp[1:]) != nil {
					continue
				}
				accepted := 0
				for _, b := range acc.ContentKeys {
					if b == 0 {
						accepted++
					}
				}
				if accepted == 0 {
					continue
				}
				items := make([][]byte, accepted+1)
				for i := range items {
					items[i] = genBytes(30, i)
				}
				ctx, cancel := context.WithTimeout(context.Background(), 5*time.Second)
				conn, err := snd.p.Utp.DialWithCid(ctx, rcv.p.Self(), binary.BigEndian.Uint16(acc.ConnectionId))
				if err != nil {
					outs[len(outs)-1] += "!nodial"
					cancel()
					continue
				}
				_, _ = conn.Write(ctx, portalwire.VerifEncodeContents(items))
				conn.Close()
				cancel()
				// the slot comes back when the stream has been read; the goroutine then discards it and cleans up
				deadline := time.Now().Add(5 * time.Second)
				for freeSlots(rcv, true, 100000) < freeBefore && time.Now().Before(deadline) {
					time.Sleep(5 * time.Millisecond)
				}
				time.Sleep(30 * time.Millisecond)
			}
			o.Case("inflight ops="+strings.Join(ops, ";"), strings.Join(outs, "/"))
		}
		// a second connection on the connection id of an offer whose transfer has already completed, delivering nothing (a
		// lost or empty stream): 0 items for n accepted keys is a stream with a different item count - nothing reaches
		// validation a second time
		nFollow := 3
		if thorough {
			nFollow = 4 // the fourth keeps the empty connection OPEN until the receiver's 60 s read deadline passes
		}
		for c := 0; c < nFollow; c++ {
			silent := c == 3
			var keys [][]byte
			for len(keys) < 1+c%3 {
				key := make([]byte, 16)
				r.Read(key)
				idh := sha256.Sum256(key)
				if portalwire.VerifInRange(rcv.p.Self().ID(), radius, idh[:]) {
					keys = append(keys, key)
				}
			}
			for len(rcv.queue) > 0 {
				<-rcv.queue
			}
			rcv.p.VerifVersionsCacheSet(snd.p.Self(), 1)
			resp, err := rcv.p.VerifHandleOffer(snd.p.Self(), snd.udpAddr(), &portalwire.Offer{ContentKeys: keys})
			acc := &portalwire.AcceptV1{}
			if err != nil || len(resp) < 2 || acc.UnmarshalSSZ(resp[1:]) != nil {
				o.Case(fmt.Sprintf("offerfollowup keys=%d", len(keys)), "error")
				continue
			}
			cid := binary.BigEndian.Uint16(acc.ConnectionId)
			items := make([][]byte, len(keys))
			for i := range items {
				items[i] = genBytes(50, i+c)
			}
			first, second := "none", 0
			ctx, cancel := context.WithTimeout(context.Background(), 5*time.Second)
			if conn, err := snd.p.Utp.DialWithCid(ctx, rcv.p.Self(), cid); err == nil {
				_, _ = conn.Write(ctx, portalwire.VerifEncodeContents(items))
				conn.Close()
				select {
				case el := <-rcv.queue:
					first = fmt.Sprintf("items%d", len(el.Contents))
				case <-time.After(5 * time.Second):
					first = "timeout"
				}
				time.Sleep(400 * time.Millisecond) // let the first connection wind down on both sides
				if conn2, err := snd.p.Utp.DialWithCid(ctx, rcv.p.Self(), cid); err == nil {
					wait := 700 * time.Millisecond
					if silent {
						wait = 63 * time.Second // not one byte and no end of stream either: the read runs into its deadline
					} else {
						conn2.Close() // not one byte
					}
					select {
					case <-rcv.queue:
						second = 1
					case <-time.After(wait):
					}
					if silent {
						conn2.Close()
					}
				} else {
					first += "+noseconddial"
				}
			}
			cancel()
			o.Case(fmt.Sprintf("offerfollowup keys=%d", len(keys)), fmt.Sprintf("first=%s second_enqueued=%d", first, second))
		}
		rcv.stop()
		snd.stop()
	}
	// an unsupported negotiated version: no verdicts, an error
	asker := signRecPad(keyFromSeed(r), net.IP{34, 71, 1, 1}, 5000, 1, 0)
	slots.p.VerifVersionsCacheSet(asker, 2)
	_, err := slots.p.VerifHandleOffer(asker, &net.UDPAddr{IP: asker.IP(), Port: 5000}, &portalwire.Offer{ContentKeys: [][]byte{{1, 2, 3}}})
	o.Case("offer v=2 slots=ample keys=100", map[bool]string{true: "error", false: "noerror"}[err != nil])
	noSlots.stop()
	slots.stop()
	fullQ.stop()
}

// runOffer2: OFFER end to end between two real instances: the offerer's processOffer selects the contents of the
// accepted indices, the receiver's handleOfferedContents pairs them with the accepted keys; what appears on the
// receiver's validation queue is compared. Plus streams with a wrong item count fed to handleOfferedContents.
func runOffer2(o *Out, r *rand.Rand, thorough bool, _ []string) {
	rounds := 10
	if thorough {
		rounds = 120
	}
	pairs := [][2][]uint8{{{0, 1}, {0, 1}}, {{0}, {0, 1}}, {{0, 1}, {0}}}
	if metricsOn && !thorough {
		rounds, pairs = 8, pairs[:1]
	}
	for pi, pr := range pairs {
		mn := newMemNet()
		a := startNode(mn, r, nodeOpts{ip: net.IP{34, 3, 3, byte(1 + pi)}, port: 9500, versions: pr[0], utpLimit: 50})
		b := startNode(mn, r, nodeOpts{ip: net.IP{34, 4, 4, byte(1 + pi)}, port: 9501, versions: pr[1], utpLimit: 50})
		a.p.AddEnr(b.p.Self())
		b.p.AddEnr(a.p.Self())
		_, _ = a.p.VerifPing(b.p.Self())
		for c := 0; c < rounds; c++ {
			nKeys := 1 + r.Intn(6)
			var entries []*portalwire.ContentEntry
			var mask []string
			for k := 0; k < nKeys; k++ {
				key := []byte(fmt.Sprintf("o-%d-%d-%d-%d", pi, c, k, r.Intn(1000)))
				stored := r.Intn(3) == 0
				if k > 0 && r.Intn(5) == 0 {
					// the same key offered again within one offer (with other content): one verdict and one item per POSITION
					e := r.Intn(k)
					key = entries[e].ContentKey
					stored = mask[e][0] == '1'
				}
				idh := sha256.Sum256(key)
				size := []int{0, 1, 50, 1000, 3000}[r.Intn(5)]
				val := genBytes(size, k+c)
				if stored {
					_ = b.store.Put(key, idh[:], []byte{9})
				}
				entries = append(entries, &portalwire.ContentEntry{ContentKey: key, Content: val})
				mask = append(mask, fmt.Sprintf("%d/%s", b2i(stored), canon(val)))
			}
			req := &portalwire.OfferRequest{Kind: portalwire.TransientOfferRequestKind, Request: &portalwire.TransientOfferRequest{Contents: entries}}
			input := fmt.Sprintf("offer2 va=%s vb=%s items=%s", csv(pr[0]), csv(pr[1]), strings.Join(mask, ","))
			_, err := a.p.VerifOffer(b.p.Self(), req, &portalwire.NoPermit{})
			if err != nil {
				o.Case(input, "error")
				continue
			}
			anyAccepted := false
			for _, m := range mask {
				if m[0] == '0' {
					anyAccepted = true
				}
			}
			if !anyAccepted {
				select {
				case <-b.queue:
					o.Case(input, "queue=unexpected")
				case <-time.After(300 * time.Millisecond):
					o.Case(input, "queue=-")
				}
				continue
			}
			select {
			case el := <-b.queue:
				var parts []string
				used := map[int]bool{}
				for i := range el.ContentKeys {
					// position of the key among the offered ones (a repeated key: the first position not yet matched that
					// was not declined as stored)
					pos := -1
					for k, e := range entries {
						if !used[k] && mask[k][0] == '0' && bytes.Equal(e.ContentKey, el.ContentKeys[i]) {
							pos = k
							break
						}
					}
					used[pos] = true
					cont := "missing"
					if i < len(el.Contents) {
						cont = canon(el.Contents[i])
					}
					parts = append(parts, fmt.Sprintf("%d/%s", pos, cont))
				}
				o.Case(input, fmt.Sprintf("queue=%s from=%d", strings.Join(parts, ","), b2i(el.Node == a.p.Self().ID())))
			case <-time.After(85 * time.Second): // longer than the code's own connect (15 s) and read (60 s) deadlines
				o.Case(input, "queue=timeout")
			}
		}
		// streams whose item count differs from the number of accepted keys are discarded
		for c := 0; c < rounds; c++ {
			nKeys, nItems := 1+r.Intn(5), r.Intn(7)
			if r.Intn(3) == 0 {
				nItems = nKeys
			}
			if c%5 == 4 {
				// the most keys an offer may name, all accepted, and a stream with as many / more / far more items
				nKeys, nItems = 64, []int{64, 65, 71, 128, 63}[(c/5)%5]
			}
			var keys, items [][]byte
			for k := 0; k < nKeys; k++ {
				keys = append(keys, []byte{byte(k), byte(c)})
			}
			for k := 0; k < nItems; k++ {
				items = append(items, genBytes(r.Intn(40), k))
			}
			payload := portalwire.VerifEncodeContents(items)
			if r.Intn(6) == 0 && len(payload) > 0 {
				payload = payload[:len(payload)-1] // truncated stream
				nItems = -1
			}
			err := b.p.VerifHandleOfferedContents(enode.ID{1}, keys, payload)
			got := "queue=-"
			select {
			case el := <-b.queue:
				got = fmt.Sprintf("queue=%d/%d", len(el.ContentKeys), len(el.Contents))
			default:
			}
			o.Case(fmt.Sprintf("offered keys=%d items=%d", nKeys, nItems), fmt.Sprintf("%s %s", errStr(err), got))
		}
		a.stop()
		b.stop()
	}
}
