//go:build verif

package main

import (
	"bytes"
	"fmt"
	"github.com/ethereum/go-ethereum/p2p/enode"
	"github.com/holiman/uint256"
	"math/rand"
	"net"
	"strconv"
	"strings"
	"time"

	"github.com/ethereum/go-ethereum/p2p/enr"
	"github.com/zen-eth/shisui/portalwire"
)

func init() { runners["C19"] = runC19 }

func csv(v []uint8) string {
	if len(v) == 0 {
		return "-"
	}
	s := make([]string, len(v))
	for i, x := range v {
		s[i] = strconv.Itoa(int(x))
	}
	return strings.Join(s, ",")
}

// all lists over {0,1,2} of length 0..3
func smallLists() [][]uint8 {
	out := [][]uint8{{}}
	for l := 1; l <= 3; l++ {
		n := 1
		for i := 0; i < l; i++ {
			n *= 3
		}
		for k := 0; k < n; k++ {
			v := make([]uint8, l)
			x := k
			for i := range v {
				v[i] = uint8(x % 3)
				x /= 3
			}
			out = append(out, v)
		}
	}
	return out
}

type badPv []uint64

func (badPv) ENRKey() string { return "pv" }

func runC19(o *Out, r *rand.Rand, thorough bool, _ []string) {
	lists := smallLists()
	// (a) findBiggestSameNumber: exhaustive over pairs of short lists over {0,1,2}, then random lists over 0..255
	for _, a := range lists {
		for _, b := range lists {
			v, err := portalwire.VerifFindBiggestSameNumber(a, b)
			res := "err"
			if err == nil {
				res = "ok:" + strconv.Itoa(int(v))
			}
			o.Case(fmt.Sprintf("fbsn a=%s b=%s", csv(a), csv(b)), res)
		}
	}
	nRand := 3000
	if thorough {
		nRand = 100000
	}
	rl := func() []uint8 {
		n := r.Intn(7)
		v := make([]uint8, n)
		for i := range v {
			switch r.Intn(3) {
			case 0:
				v[i] = uint8(r.Intn(4))
			case 1:
				v[i] = uint8(250 + r.Intn(6))
			default:
				v[i] = uint8(r.Intn(256))
			}
		}
		return v
	}
	for i := 0; i < nRand; i++ {
		a, b := rl(), rl()
		v, err := portalwire.VerifFindBiggestSameNumber(a, b)
		res := "err"
		if err == nil {
			res = "ok:" + strconv.Itoa(int(v))
		}
		o.Case(fmt.Sprintf("fbsn a=%s b=%s", csv(a), csv(b)), res)
	}
	// (b) call histories through the real cache: own set x peer advertisement x 1..3 calls
	hist := func(own []uint8, peerDesc string, peer []uint8, raw enr.Entry, calls int) {
		p, _ := bareProtocol(r, own)
		var n = peerNode(r, peer, raw)
		var res []string
		for c := 0; c < calls; c++ {
			v, err := p.VerifGetOrStoreHighestVersion(n)
			if err != nil {
				res = append(res, "err")
			} else {
				res = append(res, "ok:"+strconv.Itoa(int(v)))
			}
		}
		o.Case(fmt.Sprintf("gos own=%s peer=%s calls=%d", csv(own), peerDesc, calls), strings.Join(res, ","))
	}
	for _, own := range lists {
		if len(own) == 0 {
			continue
		}
		for _, peer := range lists {
			if len(peer) == 0 {
				// an empty advertised list is not a missing entry: it is present and empty
				hist(own, "-", []uint8{}, nil, 3)
				continue
			}
			hist(own, csv(peer), peer, nil, 3)
		}
		hist(own, "none", nil, nil, 3)
		hist(own, "bad", nil, badPv{1, 2}, 3)
	}
	for i := 0; i < nRand/10; i++ {
		own, peer := rl(), rl()
		if len(own) == 0 {
			continue
		}
		hist(own, csv(peer), peer, nil, 1+r.Intn(3))
	}
	// the negotiated version decides the uTP content framing on BOTH sides: what the serving side writes for a version must
	// be what the asking side reads for that same version - for every version a pairing can settle on, not only 0 and 1
	{
		p, _ := bareProtocol(r, []uint8{0, 1, 2, 3})
		for v := 0; v <= 3; v++ {
			n := peerNode(r, []uint8{uint8(v)}, nil)
			p.VerifVersionsCacheSet(n, uint8(v))
			for _, ln := range []int{0, 1, 127, 128, 1000, 2000, 70000} {
				data := genBytes(ln, v)
				enc, err := p.VerifEncodeUtpContent(n, data)
				if err != nil {
					o.Case(fmt.Sprintf("frame v=%d len=%d", v, ln), "encerr")
					continue
				}
				dec, err := p.VerifDecodeUtpContent(n, enc)
				rt := "diff"
				if err != nil {
					rt = "decerr"
				} else if string(dec) == string(data) {
					rt = "same"
				}
				o.Case(fmt.Sprintf("frame v=%d len=%d", v, ln), fmt.Sprintf("rt=%s prefixed=%d", rt, b2i(len(enc) != len(data))))
			}
		}
	}

	// a peer the node already knows by an OLDER record (it sits in the routing table) comes back with a newer record that
	// advertises another version list: the version is computed from the record at hand, not from the table's copy
	{
		mn := newMemNet()
		nd := startNode(mn, r, nodeOpts{ip: net.IP{34, 90, 1, 1}, port: 9700, versions: []uint8{0, 1}, utpLimit: 4, noWorkers: true})
		lists := [][]uint8{{0}, {1}, {0, 1}, {1, 0}, nil}
		k := 0
		for _, older := range lists {
			for _, newer := range lists {
				if csv(older) == csv(newer) && (older == nil) == (newer == nil) {
					continue
				}
				k++
				key := keyFromSeed(r)
				ip := net.IP{34, 91, byte(k), 7}
				nd.p.AddEnr(signRecPv(key, ip, 7400, 1, older))
				now := signRecPv(key, ip, 7400, 2, newer)
				var res []string
				for c := 0; c < 2; c++ {
					v, err := nd.p.VerifGetOrStoreHighestVersion(now)
					if err != nil {
						res = append(res, "err")
					} else {
						res = append(res, "ok:"+strconv.Itoa(int(v)))
					}
				}
				peerDesc := "none"
				if newer != nil {
					peerDesc = csv(newer)
				}
				olderDesc := "none"
				if older != nil {
					olderDesc = csv(older)
				}
				o.Case(fmt.Sprintf("gos own=0,1 peer=%s calls=2 known_by_older=%s", peerDesc, olderDesc), strings.Join(res, ","))
			}
		}
		nd.stop()
	}

}

func init() { runners["offerafterfail"] = runOfferAfterFail }

// runOfferAfterFail: "OFFER/ACCEPT exchanges ... succeed between every pairing that shares a version" - also AFTER negotiations
// with other peers have failed. Node a (versions 0,1; two transfer slots; offer workers running) is handed, the way its gossip
// path hands them, offers for peers it shares no version with (another version, an empty list, an undecodable entry); then it
// gossips one item to b, which shares {0,1} (or {0}, or {1}): the item arrives at b.
func runOfferAfterFail(o *Out, r *rand.Rand, thorough bool, _ []string) {
	const limit = 2
	for pi, vb := range [][]uint8{{0, 1}, {0}, {1}} {
		mn := newMemNet()
		a := startNode(mn, r, nodeOpts{ip: net.IP{34, 12, 1, byte(1 + pi)}, port: 9860, versions: []uint8{0, 1}, utpLimit: limit})
		b := startNode(mn, r, nodeOpts{ip: net.IP{34, 12, 2, byte(1 + pi)}, port: 9861, versions: vb, utpLimit: limit})
		a.p.AddEnr(b.p.Self())
		b.p.AddEnr(a.p.Self())
		_, _ = a.p.VerifPing(b.p.Self())
		max, _ := new(uint256.Int).SetAllOne().MarshalSSZ()
		a.p.VerifRadiusCacheSet(b.p.Self().ID(), max)
		fails := 0
		strangers := []*enode.Node{
			signRecPv(keyFromSeed(r), net.IP{34, 12, 3, 1}, 7400, 1, []uint8{3}),
			signRecPv(keyFromSeed(r), net.IP{34, 12, 3, 2}, 7400, 1, []uint8{}),
			peerNode(r, nil, badPv{1, 2}),
			signRecPv(keyFromSeed(r), net.IP{34, 12, 3, 4}, 7400, 1, []uint8{2, 7}),
		}
		for _, x := range strangers {
			permit, ok := a.p.Utp.GetOutboundPermit()
			if !ok {
				break
			}
			req := &portalwire.OfferRequest{Kind: portalwire.TransientOfferRequestKind, Request: &portalwire.TransientOfferRequest{
				Contents: []*portalwire.ContentEntry{{ContentKey: []byte{1, 2, byte(fails)}, Content: genBytes(30, fails)}}}}
			if _, err := a.p.VerifOffer(x, req, permit); err != nil {
				fails++
			}
		}
		key := []byte(fmt.Sprintf("after-fail-%d", pi))
		val := genBytes(2000, pi)
		_, _ = a.p.Gossip(nil, [][]byte{key}, [][]byte{val})
		delivered := 0
		select {
		case el := <-b.queue:
			if len(el.Contents) == 1 && bytes.Equal(el.Contents[0], val) {
				delivered = 1
			}
		case <-time.After(8 * time.Second):
		}
		o.Case(fmt.Sprintf("offerafterfail vb=%s fails=%d limit=%d", csv(vb), fails, limit), fmt.Sprintf("delivered=%d", delivered))
		a.stop()
		b.stop()
	}
}
