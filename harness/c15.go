//go:build verif

package main

import (
	"bytes"
	"crypto/ecdsa"
	"fmt"
	"math/rand"
	"net"
	"strconv"
	"strings"
	"sync"
	"sync/atomic"
	"time"

	"github.com/ethereum/go-ethereum/crypto"
	"github.com/ethereum/go-ethereum/p2p/enode"
	"github.com/ethereum/go-ethereum/p2p/enr"
	cache "github.com/go-pkgz/expirable-cache/v3"
	"github.com/zen-eth/shisui/portalwire"
	"github.com/zen-eth/shisui/storage"
)

// a panic of the decoder under test is an outcome of one case (the property says: rejected with an error), and the input is
// handed over with capacity = length, as a packet read from the wire has
func c15DecodeContents(b []byte) (xs [][]byte, err error) {
	defer func() {
		if e := recover(); e != nil {
			xs, err = nil, fmt.Errorf("PANIC")
		}
	}()
	return portalwire.VerifDecodeContents(append(make([]byte, 0, len(b)), b...))
}
func c15DecodeSingle(b []byte) (c, rest []byte, err error) {
	defer func() {
		if e := recover(); e != nil {
			c, rest, err = nil, nil, fmt.Errorf("PANIC")
		}
	}()
	return portalwire.VerifDecodeSingleContent(append(make([]byte, 0, len(b)), b...))
}
func c15DecodeUtp(p *portalwire.PortalProtocol, n *enode.Node, b []byte) (d []byte, err error) {
	defer func() {
		if e := recover(); e != nil {
			d, err = nil, fmt.Errorf("PANIC")
		}
	}()
	return p.VerifDecodeUtpContent(n, append(make([]byte, 0, len(b)), b...))
}

// the stream returned by a join is a value: it must still be what it was after later joins (the offer path joins, dials for
// up to 15 s and only then writes)
type c15Retain struct {
	live, copy []byte
	n, changed int
}

func (t *c15Retain) note(enc []byte) {
	if t.live != nil {
		t.n++
		if !bytes.Equal(t.live, t.copy) {
			t.changed++
		}
	}
	t.live, t.copy = enc, append([]byte{}, enc...)
}

var c15RetContents, c15RetUtp c15Retain

func init() { runners["C15"] = runC15 }

var c15Lens = []int{0, 0, 1, 2, 5, 31, 126, 127, 128, 129, 255, 256, 300, 1000, 16382, 16383, 16384, 16385, 20000}

func keyFromSeed(r *rand.Rand) *ecdsa.PrivateKey {
	for {
		b := make([]byte, 32)
		r.Read(b)
		k, err := crypto.ToECDSA(b)
		if err == nil {
			return k
		}
	}
}

// bareProtocol builds a PortalProtocol that is never started (no sockets): enough for
// the version cache and the framing helpers.
func bareProtocol(r *rand.Rand, versions []uint8) (*portalwire.PortalProtocol, *enode.LocalNode) {
	return bareProtocolWithStore(r, versions, &storage.MockStorage{Db: map[string][]byte{}})
}

func bareProtocolWithStore(r *rand.Rand, versions []uint8, store storage.ContentStorage) (*portalwire.PortalProtocol, *enode.LocalNode) {
	key := keyFromSeed(r)
	db, _ := enode.OpenDB("")
	ln := enode.NewLocalNode(db, key)
	ln.SetFallbackIP(net.IP{127, 0, 0, 1})
	ln.SetFallbackUDP(30000 + r.Intn(1000))
	if versions != nil {
		ln.Set(pvEntry(versions))
	}
	conf := portalwire.DefaultPortalProtocolConfig()
	vc := cache.NewCache[*enode.Node, uint8]().WithMaxKeys(1000).WithTTL(time.Hour)
	p, err := portalwire.NewPortalProtocol(conf, portalwire.History, key, nil, ln, nil, nil,
		store, make(chan *portalwire.ContentElement, 50), vc)
	if err != nil {
		panic(err)
	}
	return p, ln
}

type pvEntry []uint8

func (pvEntry) ENRKey() string { return "pv" }

func peerNode(r *rand.Rand, versions []uint8, raw enr.Entry) *enode.Node {
	key := keyFromSeed(r)
	var rec enr.Record
	rec.Set(enr.IP(net.IP{127, 0, 0, 1}))
	rec.Set(enr.UDP(uint16(2000 + r.Intn(30000))))
	if versions != nil {
		rec.Set(pvEntry(versions))
	}
	if raw != nil {
		rec.Set(raw)
	}
	if err := enode.SignV4(&rec, key); err != nil {
		panic(err)
	}
	n, err := enode.New(enode.ValidSchemes, &rec)
	if err != nil {
		panic(err)
	}
	return n
}

func errOrPanic(err error) string {
	if err != nil && err.Error() == "PANIC" {
		return "panic"
	}
	return "err"
}

func decResult(xs [][]byte, err error) string {
	if err != nil {
		return errOrPanic(err)
	}
	return "ok " + canonItems(xs)
}

func runC15(o *Out, r *rand.Rand, thorough bool, _ []string) {
	nLists, nRand := 1500, 6000
	lens := c15Lens
	if thorough {
		nLists, nRand = 20000, 200000
		lens = append(append([]int{}, c15Lens...), 2097151, 2097152, 1<<20, 300000)
	}
	pick := func() int {
		if r.Intn(3) == 0 {
			return r.Intn(40)
		}
		return lens[r.Intn(len(lens))]
	}
	// the version-1 single-item decoder sees every hand-made and random stream too
	pu, _ := bareProtocol(r, []uint8{0, 1})
	nodeV1 := peerNode(r, []uint8{1}, nil)
	pu.VerifVersionsCacheSet(nodeV1, 1)
	emitDec := func(tag string, b []byte) {
		if d, err := c15DecodeUtp(pu, nodeV1, b); err != nil {
			o.Case("utpdec 1 "+bytesTerm(b), errOrPanic(err))
		} else {
			o.Case("utpdec 1 "+bytesTerm(b), "ok "+canon(d))
		}
		xs, err := c15DecodeContents(b)
		o.Case("dec "+bytesTerm(b), decResult(xs, err))
		c, rest, err := c15DecodeSingle(b)
		if err != nil {
			o.Case("dec1 "+bytesTerm(b), errOrPanic(err))
		} else {
			o.Case("dec1 "+bytesTerm(b), "ok "+canon(c)+" "+canon(rest))
		}
		_ = tag
	}
	// 1. lists of items: encode, round trip, truncation, mutation
	for i := 0; i < nLists; i++ {
		n := 0
		switch r.Intn(6) {
		case 0:
			n = r.Intn(3)
		case 1:
			n = 60 + r.Intn(12) // around and above the 64 keys an offer may name: a stream is a stream, however many items
		default:
			n = r.Intn(12)
		}
		big := 0
		ts := make([]Term, n)
		raw := make([][]byte, n)
		for j := range ts {
			l := pick()
			if l > 100000 {
				big++
				if big > 1 || n > 4 {
					l = r.Intn(200)
				}
			}
			if n > 20 && l > 2000 {
				l = r.Intn(300)
			}
			ts[j] = randItem(r, l)
			raw[j] = ts[j].Bytes()
		}
		enc := portalwire.VerifEncodeContents(raw)
		c15RetContents.note(enc)
		o.Case("enc "+termsString(ts), canon(enc))
		back, err := c15DecodeContents(enc)
		same := err == nil && len(back) == len(raw)
		if same {
			for j := range raw {
				if !bytes.Equal(raw[j], back[j]) {
					same = false
				}
			}
		}
		o.Case("rt "+termsString(ts), map[bool]string{true: "same", false: "diff"}[same])
		if len(enc) > 0 && len(enc) < 70000 {
			for k := 0; k < 3; k++ {
				cut := r.Intn(len(enc))
				if k == 0 && len(enc) > 1 {
					cut = len(enc) - 1
				}
				xs, err := c15DecodeContents(enc[:cut])
				o.Case(fmt.Sprintf("trunc %s %d", termsString(ts), cut), decResult(xs, err))
			}
		}
		if len(enc) > 0 && len(enc) < 3000 {
			m := append([]byte{}, enc...)
			switch r.Intn(4) {
			case 0:
				m[r.Intn(len(m))] ^= 1 << uint(r.Intn(8))
			case 1:
				m[r.Intn(len(m))] = byte(r.Intn(256))
			case 2:
				m = append(m, byte(r.Intn(256)))
			case 3:
				k := r.Intn(len(m))
				m = append(m[:k], m[k+1:]...)
			}
			emitDec("mut", m)
		}
	}
	// 1b. items of 2^28 bytes and more, where the length prefix takes its fifth byte: too large to spell out, so the values are
	// all zero, the line carries the lengths, and the harness itself checks where each prefix and each value lies
	{
		huge := make([]byte, 1<<28+1)
		lists := [][]int{{1 << 28}, {3, 1 << 28}, {1<<28 - 1}}
		if thorough {
			lists = append(lists, []int{1 << 28, 1<<28 + 1}, []int{1 << 28, 0, 5})
		}
		for _, lens := range lists {
			var raw [][]byte
			var ls []string
			for _, l := range lens {
				raw = append(raw, huge[:l])
				ls = append(ls, strconv.Itoa(l))
			}
			out := func() (res string) {
				defer func() {
					if recover() != nil {
						res = "panic"
					}
				}()
				enc := portalwire.VerifEncodeContents(raw)
				// where each prefix starts follows from the lengths (own arithmetic: 7 bits per prefix byte)
				var prefixes []string
				bodies, pos := 1, 0
				for _, l := range lens {
					pl := 1
					for v := l; v >= 128; v >>= 7 {
						pl++
					}
					if pos+pl+l > len(enc) {
						bodies = 0
						break
					}
					prefixes = append(prefixes, canon(enc[pos:pos+pl]))
					if !bytes.Equal(enc[pos+pl:pos+pl+l], huge[:l]) {
						bodies = 0
					}
					pos += pl + l
				}
				rt := "diff"
				if back, err := c15DecodeContents(enc); err == nil && len(back) == len(raw) {
					rt = "same"
					for j := range raw {
						if !bytes.Equal(raw[j], back[j]) {
							rt = "diff"
						}
					}
				}
				return fmt.Sprintf("outlen=%d prefixes=%s bodies=%d rt=%s", len(enc), strings.Join(prefixes, ","), bodies, rt)
			}()
			o.Case("hugeenc "+strings.Join(ls, ","), out)
		}
	}
	// 1c. many well-formed items followed by a malformed tail: wherever in the stream the fault lies, the stream is rejected
	for _, n := range []int{63, 64, 65, 66, 100} {
		var head []byte
		for k := 0; k < n; k++ {
			head = append(head, portalwire.VerifEncodeSingleContent([]byte{byte(k)})...)
		}
		for _, tail := range [][]byte{{5, 1, 2}, {0x80}, {0xff, 0xff, 0xff, 0xff, 0x1f, 1}, {3, 1, 2, 3, 9}} {
			emitDec("longtail", append(append([]byte{}, head...), tail...))
		}
	}
	// 2. edge varints and hand-picked streams
	edges := [][]byte{
		{}, {0}, {0, 0}, {1}, {1, 7}, {2, 7}, {0x80}, {0x80, 0}, {0x80, 0x80, 0}, {0x81, 0}, {0x81, 0, 9},
		{0xff, 0xff, 0xff, 0xff, 0x0f}, {0xff, 0xff, 0xff, 0xff, 0x10}, {0xff, 0xff, 0xff, 0xff, 0x1f},
		{0x80, 0x80, 0x80, 0x80, 0x00}, {0x80, 0x80, 0x80, 0x80, 0x80, 0x00}, {0x80, 0x80, 0x80, 0x80, 0x01},
		{0xff, 0xff, 0xff, 0xff, 0xff}, {0x7f}, {0xff, 0x00}, {0xff, 0x7f}, {0x80, 0x01},
		{3, 1, 2, 3, 0, 0, 2, 9, 9}, {3, 1, 2}, {0x83, 0x00, 1, 2, 3}, {0x83, 0x80, 0x00, 1, 2, 3},
	}
	for _, e := range edges {
		emitDec("edge", e)
	}
	// 2b. crafted varints: small lengths encoded in 1..10 bytes (non-minimal forms; more than 5 bytes is more than a 32-bit
	// length can take, whatever the surplus bits are), with spare high bits of the last byte set (32-bit overflow whose low
	// bits are a plausible length), followed by length-1, length, length+1 bytes
	for k := 1; k <= 10; k++ {
		for _, v := range []int{0, 1, 2, 5, 17} {
			for _, hi := range []byte{0x00, 0x10, 0x20, 0x40, 0x70, 0x08} {
				hdr := make([]byte, k)
				x := v
				for j := 0; j < k; j++ {
					hdr[j] = byte(x&0x7f) | 0x80
					x >>= 7
				}
				hdr[k-1] = (hdr[k-1] & 0x7f) | hi
				if hdr[k-1]&0x80 != 0 {
					continue
				}
				for _, d := range []int{v - 1, v, v + 1, v + 4} {
					if d < 0 {
						continue
					}
					b := append(append([]byte{}, hdr...), genBytes(d, k+v)...)
					emitDec("craft", b)
					// and the same item in the middle of a stream
					emitDec("craft", append(append([]byte{2, 7, 7}, b...), 1, 9))
				}
			}
		}
	}
	// 3. random byte strings biased to continuation bytes and small lengths
	for i := 0; i < nRand; i++ {
		n := r.Intn(24)
		b := make([]byte, n)
		for j := range b {
			switch r.Intn(5) {
			case 0:
				b[j] = byte(0x80 | r.Intn(128))
			case 1:
				b[j] = byte(r.Intn(4))
			case 2:
				b[j] = 0
			default:
				b[j] = byte(r.Intn(256))
			}
		}
		emitDec("rand", b)
	}
	// 4. uTP single-content framing through the version cache (versions 0, 1 and an unknown one)
	p, _ := bareProtocol(r, []uint8{0, 1})
	nodes := map[int]*enode.Node{}
	for _, v := range []int{0, 1, 2} {
		n := peerNode(r, []uint8{uint8(v)}, nil)
		p.VerifVersionsCacheSet(n, uint8(v))
		nodes[v] = n
	}
	nUtp := 600
	if thorough {
		nUtp = 20000
	}
	for i := 0; i < nUtp; i++ {
		v := r.Intn(3)
		t := randItem(r, pick()%70000)
		data := t.Bytes()
		enc, err := p.VerifEncodeUtpContent(nodes[v], data)
		if err != nil {
			o.Case("utpenc "+strconv.Itoa(v)+" "+t.String(), "err")
			continue
		}
		c15RetUtp.note(enc)
		o.Case("utpenc "+strconv.Itoa(v)+" "+t.String(), "ok "+canon(enc))
		dec, err := c15DecodeUtp(p, nodes[v], enc)
		o.Case("utprt "+strconv.Itoa(v)+" "+t.String(), map[bool]string{true: "same", false: "diff"}[err == nil && bytes.Equal(dec, data)])
		// decoder on mutated / arbitrary streams
		m := append([]byte{}, enc...)
		if len(m) > 300 {
			m = m[:300]
		}
		switch r.Intn(5) {
		case 0:
			m = append(m, byte(r.Intn(256)))
		case 1:
			if len(m) > 0 {
				m = m[:len(m)-1]
			}
		case 2:
			if len(m) > 0 {
				m[0] ^= byte(1 << uint(r.Intn(8)))
			}
		case 3:
			m = append([]byte{byte(len(m))}, m...)
		}
		d, err := c15DecodeUtp(p, nodes[v], m)
		if err != nil {
			o.Case("utpdec "+strconv.Itoa(v)+" "+bytesTerm(m), errOrPanic(err))
		} else {
			o.Case("utpdec "+strconv.Itoa(v)+" "+bytesTerm(m), "ok "+canon(d))
		}
	}
	// 5. the same functions called from many goroutines at once (every accepted offer is split in a goroutine of its own, answers
	// to FINDCONTENT in the caller's, and the sub-networks of one process share the package): each worker joins and splits its
	// own lists; every result must be what the same call gives alone
	{
		const workers = 8
		type job struct {
			raw     [][]byte
			enc     []byte
			splitOf string // decResult of the stream when split alone
			single  []byte
		}
		jobs := make([][]job, workers)
		for w := range jobs {
			for k := 0; k < 12; k++ {
				n := 1 + r.Intn(16)
				raw := make([][]byte, n)
				for j := range raw {
					raw[j] = randItem(r, []int{0, 1, 5, 127, 128, 200, 16383, 16384, 20000}[r.Intn(9)]).Bytes()
				}
				enc := portalwire.VerifEncodeContents(raw)
				xs, err := c15DecodeContents(enc)
				jobs[w] = append(jobs[w], job{raw, enc, decResult(xs, err), raw[0]})
			}
		}
		rounds := 300
		if thorough {
			rounds = 5000
		}
		var diffs int64
		var wg sync.WaitGroup
		for w := 0; w < workers; w++ {
			wg.Add(1)
			go func(w int) {
				defer wg.Done()
				for k := 0; k < rounds; k++ {
					j := jobs[w][k%len(jobs[w])]
					if e := portalwire.VerifEncodeContents(j.raw); !bytes.Equal(e, j.enc) {
						atomic.AddInt64(&diffs, 1)
					}
					xs, err := c15DecodeContents(j.enc)
					if decResult(xs, err) != j.splitOf {
						atomic.AddInt64(&diffs, 1)
					}
					one := portalwire.VerifEncodeSingleContent(j.single)
					if c, rest, err := c15DecodeSingle(one); err != nil || !bytes.Equal(c, j.single) || len(rest) != 0 {
						atomic.AddInt64(&diffs, 1)
					}
				}
			}(w)
		}
		wg.Wait()
		o.Case(fmt.Sprintf("concframing workers=%d rounds=%d", workers, rounds), fmt.Sprintf("diffs=%d", diffs))
	}
	c15RetContents.note(nil)
	c15RetUtp.note(nil)
	o.Case(fmt.Sprintf("retainenc contents n=%d", c15RetContents.n), fmt.Sprintf("changed=%d", c15RetContents.changed))
	o.Case(fmt.Sprintf("retainenc utp n=%d", c15RetUtp.n), fmt.Sprintf("changed=%d", c15RetUtp.changed))
}
