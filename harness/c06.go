//go:build verif

package main

import (
	"crypto/sha256"
	"encoding/hex"
	"fmt"
	"math/big"
	"math/rand"

	"github.com/ethereum/go-ethereum/p2p/enode"
	"github.com/holiman/uint256"
	"github.com/zen-eth/shisui/portalwire"
)

func init() { runners["inrange"] = runInRange }

// runInRange: the in-range test used for offer filtering, the store RPC and gossip target selection,
// on (node id, radius, content id) triples: random, and in a window around every power of two.
func runInRange(o *Out, r *rand.Rand, thorough bool, _ []string) {
	n := 6000
	if thorough {
		n = 300000
	}
	emit := func(node enode.ID, radius *big.Int, id []byte) {
		rad, _ := uint256.FromBig(radius)
		got := portalwire.VerifInRange(node, rad, id)
		rb := rad.Bytes32()
		o.Case(fmt.Sprintf("inrange node=%s radius=%s id=%s", hex.EncodeToString(node[:]), hex.EncodeToString(rb[:]), hex.EncodeToString(id)), fmt.Sprint(got))
	}
	max := new(big.Int).Sub(new(big.Int).Lsh(big.NewInt(1), 256), big.NewInt(1))
	// the store RPC (portal_*Store) applies the same rule before it puts: a protocol instance over a store with a
	// chosen radius; keys are arbitrary, ids are their SHA-256
	for i := 0; i < n/10; i++ {
		rs := &radiusStore{db: map[string][]byte{}, radius: new(uint256.Int)}
		p, _ := bareProtocolWithStore(r, []uint8{0, 1}, rs)
		key := make([]byte, 1+r.Intn(40))
		r.Read(key)
		idh := sha256.Sum256(key)
		self := p.Self().ID()
		d := new(big.Int)
		db := make([]byte, 32)
		for j := range db {
			db[j] = self[j] ^ idh[j]
		}
		d.SetBytes(db)
		var radius *big.Int
		switch r.Intn(4) {
		case 0:
			radius = new(big.Int).Add(d, big.NewInt(int64(r.Intn(3)-1))) // distance-1, distance, distance+1
		case 1:
			radius = new(big.Int).Set(max)
		default:
			radius = new(big.Int).Rand(r, max)
		}
		if radius.Sign() < 0 {
			radius = big.NewInt(0)
		}
		if radius.Cmp(max) > 0 {
			radius = new(big.Int).Set(max)
		}
		rs.radius, _ = uint256.FromBig(radius)
		stored, err := portalwire.NewPortalAPI(p).Store("0x"+hex.EncodeToString(key), "0x01")
		_, gerr := rs.Get(key, idh[:])
		rb := rs.radius.Bytes32()
		got := fmt.Sprint(stored && err == nil && gerr == nil)
		if stored != (gerr == nil) {
			got = "inconsistent" // said stored but nothing there, or the reverse
		}
		o.Case(fmt.Sprintf("inrange node=%s radius=%s id=%s site=storerpc", hex.EncodeToString(self[:]), hex.EncodeToString(rb[:]), hex.EncodeToString(idh[:])), got)
	}
	for i := 0; i < n; i++ {
		var node enode.ID
		r.Read(node[:])
		if r.Intn(10) == 0 {
			node = enode.ID{}
		}
		// distance: random magnitude 0..256 bits
		bits := r.Intn(257)
		d := new(big.Int)
		if bits > 0 {
			d.Rand(r, new(big.Int).Lsh(big.NewInt(1), uint(bits)))
		}
		var radius *big.Int
		switch r.Intn(8) {
		case 0:
			radius = new(big.Int).Set(max)
		case 1:
			radius = big.NewInt(int64(r.Intn(600))) // radii below 2^9 .. 600: the log-distance scale
		case 2, 3, 4: // window around the distance
			radius = new(big.Int).Add(d, big.NewInt(int64(r.Intn(5)-2)))
		case 5: // window around a power of two
			radius = new(big.Int).Add(new(big.Int).Lsh(big.NewInt(1), uint(r.Intn(256))), big.NewInt(int64(r.Intn(5)-2)))
		default:
			radius = new(big.Int).Rand(r, max)
		}
		if radius.Sign() < 0 {
			radius = big.NewInt(0)
		}
		if radius.Cmp(max) > 0 {
			radius = new(big.Int).Set(max)
		}
		db := d.FillBytes(make([]byte, 32))
		id := make([]byte, 32)
		for j := range id {
			id[j] = node[j] ^ db[j]
		}
		emit(node, radius, id)
	}
}
