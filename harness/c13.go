//go:build verif

package main

// C13: state content is accepted only with a hash-linked proof down to the state root.
//
// Real code driven here: state.StateValidator.ValidateContent over a table-driven header source (validation.Oracle),
// state.Storage.Put over a recording store, and below them trie.DecodeTrieNode + trie.TraverseTrieNode,
// types.FullAccount and crypto.Keccak256 on raw bytes. Tries are built with go-ethereum's trie; honest proofs come from
// Trie.Prove and a small independent walker that computes the path consumed up to every proof node.
//
// Line formats (the Lean driver Driver/C13.lean recomputes every answer from the raw bytes):
//   vc t=<keytype> path=<nibbles> nh=<hex> ah=<hex> bh=<hex> proof=<hex,..> aproof=<hex,..> code=<term> oracle=<bh:root;..> mut=<name>
//        | v=<ok|err|panic> p=<ok:canon(stored)|err|panic> n=<puts into the store> idok=<stored under the content id>
//   tr node=<hex> path=<nibbles>   | decerr | err | panic | ok <bytes> <remaining nibbles>
//   acct rlp=<hex>                 | err | ok nonce= bal= root= code=
//   hash data=<term>               | <keccak256 hex>

import (
	"bytes"
	"crypto/sha256"
	"encoding/hex"
	"errors"
	"fmt"
	"math/big"
	"math/rand"
	"os"
	"path/filepath"
	"runtime"
	"strings"
	"sync"
	"sync/atomic"
	"time"

	"github.com/ethereum/go-ethereum/common"
	"github.com/ethereum/go-ethereum/core/rawdb"
	"github.com/ethereum/go-ethereum/core/types"
	"github.com/ethereum/go-ethereum/crypto"
	"github.com/ethereum/go-ethereum/rlp"
	gethtrie "github.com/ethereum/go-ethereum/trie"
	"github.com/ethereum/go-ethereum/triedb"
	"github.com/holiman/uint256"
	"github.com/protolambda/zrnt/eth2/beacon/capella"
	zcommon "github.com/protolambda/zrnt/eth2/beacon/common"
	"github.com/protolambda/ztyp/codec"
	"github.com/zen-eth/shisui/state"
	strie "github.com/zen-eth/shisui/state/trie"
	"github.com/zen-eth/shisui/storage"
	"github.com/zen-eth/shisui/validation"
)

func init() { runners["C13"] = runC13 }

// ---------------------------------------------------------------- header source and store

type tableOracle struct{ roots map[string][]byte }

var _ validation.Oracle = (*tableOracle)(nil)

func (t *tableOracle) GetHistoricalSummaries(uint64) (capella.HistoricalSummaries, error) {
	return nil, errors.New("not available")
}
func (t *tableOracle) GetFinalizedStateRoot() ([]byte, error) {
	return nil, errors.New("not available")
}
func (t *tableOracle) GetBlockHeaderByHash(hash []byte) (*types.Header, error) {
	root, ok := t.roots[string(hash)]
	if !ok {
		return nil, errors.New("header not found")
	}
	return &types.Header{Root: common.BytesToHash(root)}, nil
}

var (
	c13SharedOracle    = &tableOracle{roots: map[string][]byte{}}
	c13SharedValidator *state.StateValidator
)

type c13RecPut struct{ key, id, val []byte }
type c13RecStore struct{ puts []c13RecPut }

var _ storage.ContentStorage = (*c13RecStore)(nil)

func (s *c13RecStore) Get(k, id []byte) ([]byte, error) { return nil, storage.ErrContentNotFound }
func (s *c13RecStore) Put(k, id, v []byte) error {
	s.puts = append(s.puts, c13RecPut{bytes.Clone(k), bytes.Clone(id), bytes.Clone(v)})
	return nil
}
func (s *c13RecStore) Radius() *uint256.Int { return storage.MaxDistance }
func (s *c13RecStore) Close() error         { return nil }

// ---------------------------------------------------------------- items

type oracleEntry struct{ bh, root []byte }

type c13item struct {
	typ    byte
	path   []byte // nibbles
	nh     []byte // node hash / code hash (32)
	ah     []byte // address hash (32)
	bh     []byte // block hash (32)
	proof  [][]byte
	aproof [][]byte
	code   Term
	oracle []oracleEntry
}

func (it c13item) clone() c13item {
	c := it
	c.path = bytes.Clone(it.path)
	c.nh, c.ah, c.bh = bytes.Clone(it.nh), bytes.Clone(it.ah), bytes.Clone(it.bh)
	c.proof = cloneNodes(it.proof)
	c.aproof = cloneNodes(it.aproof)
	c.oracle = append([]oracleEntry(nil), it.oracle...)
	return c
}

func cloneNodes(p [][]byte) [][]byte {
	out := make([][]byte, len(p))
	for i := range p {
		out[i] = bytes.Clone(p[i])
	}
	return out
}

func b32(b []byte) (out zcommon.Bytes32) { copy(out[:], b); return }

func toProof(p [][]byte) state.TrieProof {
	out := make(state.TrieProof, len(p))
	for i := range p {
		out[i] = state.EncodedTrieNode(p[i])
	}
	return out
}

// wire form of key and value, produced by the repo's own SSZ serializers
func (it c13item) wire() (key, content []byte, err error) {
	var kb, cb bytes.Buffer
	kw, cw := codec.NewEncodingWriter(&kb), codec.NewEncodingWriter(&cb)
	switch it.typ {
	case state.AccountTrieNodeType:
		k := &state.AccountTrieNodeKey{Path: state.Nibbles{Nibbles: it.path}, NodeHash: b32(it.nh)}
		c := &state.AccountTrieNodeWithProof{Proof: toProof(it.proof), BlockHash: b32(it.bh)}
		if err = k.Serialize(kw); err == nil {
			err = c.Serialize(cw)
		}
	case state.ContractStorageTrieNodeType:
		k := &state.ContractStorageTrieNodeKey{AddressHash: b32(it.ah), Path: state.Nibbles{Nibbles: it.path}, NodeHash: b32(it.nh)}
		c := &state.ContractStorageTrieNodeWithProof{StorageProof: toProof(it.proof), AccountProof: toProof(it.aproof), BlockHash: b32(it.bh)}
		if err = k.Serialize(kw); err == nil {
			err = c.Serialize(cw)
		}
	case state.ContractByteCodeType:
		k := &state.ContractBytecodeKey{AddressHash: b32(it.ah), CodeHash: b32(it.nh)}
		c := &state.ContractBytecodeWithProof{Code: it.code.Bytes(), AccountProof: toProof(it.aproof), BlockHash: b32(it.bh)}
		if err = k.Serialize(kw); err == nil {
			err = c.Serialize(cw)
		}
	default:
		// unknown selector: reuse the account-trie-node layout
		k := &state.AccountTrieNodeKey{Path: state.Nibbles{Nibbles: it.path}, NodeHash: b32(it.nh)}
		c := &state.AccountTrieNodeWithProof{Proof: toProof(it.proof), BlockHash: b32(it.bh)}
		if err = k.Serialize(kw); err == nil {
			err = c.Serialize(cw)
		}
	}
	return append([]byte{it.typ}, kb.Bytes()...), cb.Bytes(), err
}

func nibbleString(n []byte) string {
	if len(n) == 0 {
		return "-"
	}
	const digits = "0123456789abcdef"
	s := make([]byte, len(n))
	for i, x := range n {
		s[i] = digits[x&15]
	}
	return string(s)
}

func hexList(p [][]byte) string {
	if len(p) == 0 {
		return "-"
	}
	s := make([]string, len(p))
	for i, x := range p {
		s[i] = hex.EncodeToString(x)
		if len(x) == 0 {
			s[i] = "_" // an empty node (distinct from the empty proof "-")
		}
	}
	return strings.Join(s, ",")
}

func (it c13item) line(mut string) string {
	or := "-"
	if len(it.oracle) > 0 {
		s := make([]string, len(it.oracle))
		for i, e := range it.oracle {
			s[i] = hex.EncodeToString(e.bh) + ":" + hex.EncodeToString(e.root)
		}
		or = strings.Join(s, ";")
	}
	code := "-"
	if it.code.gen || len(it.code.lit) > 0 {
		code = it.code.String()
	}
	return fmt.Sprintf("vc t=%d path=%s nh=%s ah=%s bh=%s proof=%s aproof=%s code=%s oracle=%s mut=%s",
		it.typ, nibbleString(it.path), hx(it.nh), hx(it.ah), hx(it.bh), hexList(it.proof), hexList(it.aproof), code, or, mut)
}

func callValidate(v *state.StateValidator, key, content []byte) (res string) {
	defer func() {
		if recover() != nil {
			res = "panic"
		}
	}()
	if err := v.ValidateContent(key, content); err != nil {
		return "err"
	}
	return "ok"
}

func callPut(st *state.Storage, key, id, content []byte) (res string) {
	defer func() {
		if recover() != nil {
			res = "panic"
		}
	}()
	if err := st.Put(key, id, content); err != nil {
		return "err"
	}
	return "ok"
}

type c13stats struct{ accepted, rejected, panics int }

func runItem(o *Out, it c13item, mut string, st *c13stats) {
	key, content, err := it.wire()
	if err != nil {
		o.Comment("serializer refused " + mut + ": " + err.Error())
		return
	}
	// ONE validator for the whole run (as a node has), over a header source whose answers are set per case: whatever a
	// call leaves behind must not help a later one. A rejected item is offered a second time at once (a retry, the same
	// offer from a second peer): it counts as accepted if either call accepts.
	if c13SharedValidator == nil {
		c13SharedValidator = state.NewStateValidator(c13SharedOracle)
	}
	c13SharedOracle.roots = map[string][]byte{}
	for _, e := range it.oracle {
		c13SharedOracle.roots[string(e.bh)] = e.root
	}
	v := callValidate(c13SharedValidator, key, content)
	if v == "err" {
		if v2 := callValidate(c13SharedValidator, key, content); v2 != "err" {
			v = v2
		}
	}
	rec := &c13RecStore{}
	id := sha256.Sum256(key)
	p := callPut(state.NewStateStorage(rec, nil), key, id[:], content)
	idok := 1
	for _, pu := range rec.puts {
		if !bytes.Equal(pu.id, id[:]) || !bytes.Equal(pu.key, id[:]) {
			idok = 0
		}
	}
	if p == "ok" {
		if len(rec.puts) > 0 {
			p = "ok:" + canon(rec.puts[len(rec.puts)-1].val)
		} else {
			p = "ok:none"
		}
	}
	switch v {
	case "ok":
		st.accepted++
	case "err":
		st.rejected++
	default:
		st.panics++
	}
	o.Case(it.line(mut), fmt.Sprintf("v=%s p=%s n=%d idok=%d", v, p, len(rec.puts), idok))
	if (v == "ok" || v == "err") && len(c13Samples) < 600 && len(content) < 20000 {
		c13Samples = append(c13Samples, c13Sample{key, content, it.oracle, v})
	}
}

// c13Sample: an item with the verdict it got when it was validated alone
type c13Sample struct {
	key, content []byte
	oracle       []oracleEntry
	verdict      string
}

var c13Samples []c13Sample

// slowOracle answers from one table for everybody and takes a moment over it (the header look-up is a network round trip in a
// node): the window in which another validation runs on the same validator
type slowOracle struct {
	tableOracle
}

func (t *slowOracle) GetBlockHeaderByHash(hash []byte) (*types.Header, error) {
	time.Sleep(20 * time.Microsecond)
	runtime.Gosched()
	return t.tableOracle.GetBlockHeaderByHash(hash)
}

// runConcurrentValidation: one validator, eight goroutines (a node validates offers in a pool of workers), each going through
// the sampled items: every verdict is the one the item got alone
func runConcurrentValidation(o *Out, thorough bool) {
	if len(c13Samples) == 0 {
		return
	}
	so := &slowOracle{tableOracle{roots: map[string][]byte{}}}
	for _, sm := range c13Samples {
		for _, e := range sm.oracle {
			if old, ok := so.roots[string(e.bh)]; ok && !bytes.Equal(old, e.root) {
				continue // two cases name one block hash with different roots: leave such samples to the sequential run
			}
			so.roots[string(e.bh)] = e.root
		}
	}
	var usable []c13Sample
	for _, sm := range c13Samples {
		ok := true
		for _, e := range sm.oracle {
			if !bytes.Equal(so.roots[string(e.bh)], e.root) {
				ok = false
			}
		}
		if ok && len(sm.oracle) > 0 {
			usable = append(usable, sm)
		}
	}
	v := state.NewStateValidator(so)
	rounds := 3
	if thorough {
		rounds = 30
	}
	var diffs, falseAccepts int64
	var wg sync.WaitGroup
	for w := 0; w < 8; w++ {
		wg.Add(1)
		go func(w int) {
			defer wg.Done()
			for k := 0; k < rounds*len(usable); k++ {
				sm := usable[(k*7+w*13)%len(usable)]
				got := callValidate(v, sm.key, sm.content)
				if got != sm.verdict {
					atomic.AddInt64(&diffs, 1)
					if got == "ok" {
						atomic.AddInt64(&falseAccepts, 1)
					}
				}
			}
		}(w)
	}
	wg.Wait()
	o.Case(fmt.Sprintf("concval workers=8 samples=%d rounds=%d", len(usable), rounds), fmt.Sprintf("diffs=%d falseaccepts=%d", diffs, falseAccepts))
}

// ---------------------------------------------------------------- tries and honest proofs

type proofList [][]byte

func (p *proofList) Put(key, value []byte) error { *p = append(*p, bytes.Clone(value)); return nil }
func (p *proofList) Delete(key []byte) error     { return nil }

type builtTrie struct {
	tr   *gethtrie.Trie
	keys [][]byte
	vals map[string][]byte
	root []byte
}

func buildTrie(keys, vals [][]byte) *builtTrie {
	tr := gethtrie.NewEmpty(triedb.NewDatabase(rawdb.NewMemoryDatabase(), nil))
	bt := &builtTrie{tr: tr, vals: map[string][]byte{}}
	for i, k := range keys {
		if len(vals[i]) == 0 {
			continue // go-ethereum deletes on empty values
		}
		tr.MustUpdate(k, vals[i])
		if _, dup := bt.vals[string(k)]; !dup {
			bt.keys = append(bt.keys, k)
		}
		bt.vals[string(k)] = vals[i]
	}
	h := tr.Hash()
	bt.root = h[:]
	return bt
}

func (bt *builtTrie) prove(key []byte) [][]byte {
	var pl proofList
	if err := bt.tr.Prove(key, &pl); err != nil {
		panic(err)
	}
	return pl
}

func toNibbles(b []byte) []byte {
	out := make([]byte, 0, 2*len(b))
	for _, x := range b {
		out = append(out, x>>4, x&15)
	}
	return out
}

// independent reading of the hex-prefix encoding: nibbles and the leaf flag
func hpDecode(c []byte) (nib []byte, leaf bool) {
	if len(c) == 0 {
		return nil, false
	}
	flag := c[0] >> 4
	leaf = flag&2 != 0
	if flag&1 != 0 {
		nib = append(nib, c[0]&15)
	}
	return append(nib, toNibbles(c[1:])...), leaf
}

func hpEncode(nib []byte, leaf bool) []byte {
	flag := byte(0)
	if leaf {
		flag = 2
	}
	var out []byte
	if len(nib)%2 == 1 {
		out = append(out, (flag|1)<<4|nib[0])
		nib = nib[1:]
	} else {
		out = append(out, flag<<4)
	}
	for i := 0; i+1 < len(nib); i += 2 {
		out = append(out, nib[i]<<4|nib[i+1])
	}
	return out
}

// consumed: how many nibbles of rem the encoded node uses up before it refers to the next HASHED node; -1 when the walk
// ends inside this node (leaf, missing child, value slot) or the node cannot be read
func consumed(node []byte, rem []byte) int {
	elems, _, err := rlp.SplitList(node)
	if err != nil {
		return -1
	}
	n, _ := rlp.CountValues(elems)
	follow := func(ref []byte, used int) int {
		kind, val, _, err := rlp.Split(ref)
		if err != nil {
			return -1
		}
		if kind == rlp.List {
			sz := len(ref) // embedded node: ref starts at its list header
			_ = sz
			c := consumed(ref, rem[used:])
			if c < 0 {
				return -1
			}
			return used + c
		}
		if len(val) == 32 {
			return used
		}
		return -1
	}
	switch n {
	case 2:
		kbuf, rest, err := rlp.SplitString(elems)
		if err != nil {
			return -1
		}
		nib, leaf := hpDecode(kbuf)
		if leaf || len(rem) < len(nib) || !bytes.Equal(rem[:len(nib)], nib) {
			return -1
		}
		return follow(rest, len(nib))
	case 17:
		if len(rem) == 0 {
			return -1
		}
		b := elems
		for i := 0; i < int(rem[0]); i++ {
			_, _, b, err = rlp.Split(b)
			if err != nil {
				return -1
			}
		}
		return follow(b, 1)
	}
	return -1
}

// target: one node of a trie as the claimed content: the proof down to it and the path consumed to reach it
type target struct {
	path  []byte
	proof [][]byte
	key   []byte // the trie key whose proof this came from
	depth int
	isEnd bool // last node of the key's proof (leaf, or the node proving the value)
}

func (bt *builtTrie) targets(key []byte, seen map[string]bool) []target {
	nodes := bt.prove(key)
	nib := toNibbles(key)
	var out []target
	used := 0
	for i, n := range nodes {
		id := string(crypto.Keccak256(n)) + "/" + string(nib[:used])
		if !seen[id] {
			seen[id] = true
			out = append(out, target{path: bytes.Clone(nib[:used]), proof: cloneNodes(nodes[:i+1]), key: key, depth: i, isEnd: i == len(nodes)-1})
		}
		if i == len(nodes)-1 {
			break
		}
		c := consumed(n, nib[used:])
		if c < 0 {
			panic(fmt.Sprintf("harness walker lost the path at node %d of %d", i, len(nodes)))
		}
		used += c
	}
	return out
}

// key sets with shared prefixes: a third of the keys copy a prefix (often a long one) of an earlier key
func genKeys(r *rand.Rand, n, keyLen int) [][]byte {
	keys := make([][]byte, 0, n)
	seen := map[string]bool{}
	for len(keys) < n {
		k := make([]byte, keyLen)
		r.Read(k)
		if len(keys) > 0 && r.Intn(3) == 0 {
			base := keys[r.Intn(len(keys))]
			total := 2 * keyLen
			var share int
			switch r.Intn(4) {
			case 0:
				share = 1 + r.Intn(min(5, total-1))
			case 1:
				share = max(1, total-2-r.Intn(4))
			case 2:
				share = max(1, total-2)
				if r.Intn(6) == 0 {
					share = total - 1 // leaves with an empty key remainder
				}
			default:
				share = 1 + r.Intn(total-1)
			}
			kn, bn := toNibbles(k), toNibbles(base)
			copy(kn, bn[:share])
			if kn[share] == bn[share] {
				kn[share] ^= byte(1 + r.Intn(15))
			}
			for i := range k {
				k[i] = kn[2*i]<<4 | kn[2*i+1]
			}
		}
		if seen[string(k)] {
			continue
		}
		seen[string(k)] = true
		keys = append(keys, k)
	}
	return keys
}

func storageValue(r *rand.Rand) []byte {
	// RLP of a trimmed big-endian integer, as a storage trie holds it
	n := 1 + r.Intn(32)
	if r.Intn(3) == 0 {
		n = 1 + r.Intn(3)
	}
	b := make([]byte, n)
	r.Read(b)
	if b[0] == 0 {
		b[0] = 1
	}
	enc, _ := rlp.EncodeToBytes(b)
	return enc
}

type c13account struct {
	addrHash []byte
	leaf     []byte // RLP of the account as stored in the account trie
	storage  *builtTrie
	code     Term
	codeHash []byte
}

type c13world struct {
	accts     *builtTrie
	accounts  []c13account
	blockHash []byte
	others    []oracleEntry // other headers the source knows
}

func (w *c13world) oracle() []oracleEntry {
	return append([]oracleEntry{{w.blockHash, w.accts.root}}, w.others...)
}

func c13RandHash(r *rand.Rand) []byte { b := make([]byte, 32); r.Read(b); return b }

func genWorld(r *rand.Rand, nAcct, maxSlots int, manyContracts bool) *c13world {
	w := &c13world{blockHash: c13RandHash(r)}
	keys := genKeys(r, nAcct, 32)
	vals := make([][]byte, len(keys))
	for i, k := range keys {
		a := c13account{addrHash: k}
		acc := types.StateAccount{Nonce: uint64(r.Intn(1000)), Balance: uint256.NewInt(uint64(r.Int63())), Root: types.EmptyRootHash, CodeHash: types.EmptyCodeHash[:]}
		if r.Intn(4) == 0 {
			acc.Nonce, acc.Balance = 0, uint256.NewInt(0)
		}
		// the first accounts are contracts so that every world has storage and code cases
		if i < 3 || (manyContracts && r.Intn(50) == 0) {
			ns := 1 + r.Intn(maxSlots)
			if i > 0 && ns > 60 {
				ns = 1 + ns%60 // one large storage trie per world, the others small
			}
			kl := 32
			if r.Intn(3) == 0 {
				kl = []int{1, 2, 3, 4}[r.Intn(4)] // short keys: embedded leaves and embedded branches
				if ns > 1<<(8*kl-1) {
					ns = 1 << (8*kl - 1)
				}
			}
			sk := genKeys(r, ns, kl)
			sv := make([][]byte, len(sk))
			for j := range sk {
				sv[j] = storageValue(r)
			}
			a.storage = buildTrie(sk, sv)
			acc.Root = common.BytesToHash(a.storage.root)
			cl := []int{0, 1, 31, 32, 33, 135, 136, 137, 500, 3000, 24576, 32768}[r.Intn(12)]
			if cl <= 40 {
				a.code = randItem(r, cl)
			} else {
				a.code = gen(cl, r.Intn(1000))
			}
			a.codeHash = crypto.Keccak256(a.code.Bytes())
			acc.CodeHash = a.codeHash
		} else {
			a.code = lit(nil)
			a.codeHash = types.EmptyCodeHash[:]
		}
		a.leaf, _ = rlp.EncodeToBytes(&acc)
		vals[i] = a.leaf
		w.accounts = append(w.accounts, a)
	}
	w.accts = buildTrie(keys, vals)
	for i := 0; i < 2; i++ {
		w.others = append(w.others, oracleEntry{c13RandHash(r), c13RandHash(r)})
	}
	return w
}

// ---------------------------------------------------------------- mutations

var nodeMutations = []string{
	"path-flip", "path-short", "path-long", "nh-flip", "bh-unknown", "bh-other", "oracle-wrongroot",
	"swap", "drop-first", "drop-mid", "drop-last", "dup-last", "append-junk", "append-child",
	"node-bitflip", "node-trunc", "node-extend", "node-empty", "node-random", "empty-proof", "other-key-proof",
	"over-proof", "over-node", "over-path", "unknown-type", "last-short-slice", "last-short-slice",
}

func c13FlipBit(r *rand.Rand, b []byte) {
	if len(b) > 0 {
		b[r.Intn(len(b))] ^= 1 << uint(r.Intn(8))
	}
}

// mutateProof applies a proof-level mutation in place to *p; returns false when it does not apply
func mutateProof(r *rand.Rand, mut string, p *[][]byte, child []byte) bool {
	pr := *p
	switch mut {
	case "swap":
		if len(pr) < 2 {
			return false
		}
		i := r.Intn(len(pr) - 1)
		pr[i], pr[i+1] = pr[i+1], pr[i]
	case "drop-first":
		if len(pr) < 1 {
			return false
		}
		*p = pr[1:]
	case "drop-mid":
		if len(pr) < 3 {
			return false
		}
		i := 1 + r.Intn(len(pr)-2)
		*p = append(pr[:i:i], pr[i+1:]...)
	case "drop-last":
		if len(pr) < 1 {
			return false
		}
		*p = pr[:len(pr)-1]
	case "dup-last":
		if len(pr) < 1 {
			return false
		}
		*p = append(pr, bytes.Clone(pr[len(pr)-1]))
	case "append-junk":
		j := make([]byte, 1+r.Intn(60))
		r.Read(j)
		*p = append(pr, j)
	case "append-child":
		if child == nil {
			return false
		}
		*p = append(pr, bytes.Clone(child))
	case "node-bitflip":
		if len(pr) < 1 {
			return false
		}
		c13FlipBit(r, pr[r.Intn(len(pr))])
	case "node-trunc":
		if len(pr) < 1 {
			return false
		}
		i := r.Intn(len(pr))
		if len(pr[i]) == 0 {
			return false
		}
		pr[i] = pr[i][:len(pr[i])-1-r.Intn(min(3, len(pr[i])))]
	case "node-extend":
		if len(pr) < 1 {
			return false
		}
		i := r.Intn(len(pr))
		pr[i] = append(pr[i], byte(r.Intn(256)))
	case "node-empty":
		if len(pr) < 1 {
			return false
		}
		pr[r.Intn(len(pr))] = []byte{}
	case "node-random":
		if len(pr) < 1 {
			return false
		}
		j := make([]byte, 1+r.Intn(80))
		r.Read(j)
		pr[r.Intn(len(pr))] = j
	case "empty-proof":
		*p = nil
	case "over-proof":
		for len(*p) < 66 {
			*p = append(*p, []byte{0x80})
		}
	case "over-node":
		if len(pr) < 1 {
			return false
		}
		i := r.Intn(len(pr))
		pr[i] = append(pr[i], make([]byte, 1025-len(pr[i]))...)
	default:
		return false
	}
	return true
}

// mutate returns a mutated copy of an honest trie-node item; child = a genuine child node of the target (if known);
// otherProof = honest proof of a different key of the same trie
func mutateNodeItem(r *rand.Rand, w *c13world, it c13item, mut string, child []byte, otherProof [][]byte) (c13item, bool) {
	m := it.clone()
	switch mut {
	case "path-flip":
		if len(m.path) == 0 {
			return m, false
		}
		m.path[r.Intn(len(m.path))] ^= byte(1 + r.Intn(15))
	case "path-short":
		if len(m.path) == 0 {
			return m, false
		}
		m.path = m.path[:len(m.path)-1]
	case "path-long":
		m.path = append(m.path, byte(r.Intn(16)))
	case "over-path":
		for len(m.path) < 65 {
			m.path = append(m.path, byte(r.Intn(16)))
		}
	case "nh-flip":
		c13FlipBit(r, m.nh)
	case "bh-unknown":
		m.bh = c13RandHash(r)
	case "bh-other":
		if len(w.others) == 0 {
			return m, false
		}
		m.bh = bytes.Clone(w.others[r.Intn(len(w.others))].bh)
	case "oracle-wrongroot":
		m.oracle[0].root = c13RandHash(r)
	case "other-key-proof":
		if otherProof == nil {
			return m, false
		}
		m.proof = cloneNodes(otherProof)
	case "unknown-type":
		m.typ = []byte{0x1f, 0x23, 0x00, 0xff}[r.Intn(4)]
	case "last-short-slice":
		// the claimed node is a short byte string (under 32 bytes, the size below which a trie embeds a child instead of
		// hashing it) cut out of its parent's own encoding, and the key names ITS hash: everything is consistent except that
		// the parent does not reference it
		if len(m.proof) < 2 {
			return m, false
		}
		parent := m.proof[len(m.proof)-2]
		n := min(1+r.Intn(31), len(parent))
		off := r.Intn(len(parent) - n + 1)
		if r.Intn(3) == 0 {
			off = len(parent) - n // the tail: for a branch without a value it ends with the empty-string byte 0x80
		}
		sl := bytes.Clone(parent[off : off+n])
		m.proof[len(m.proof)-1] = sl
		m.nh = crypto.Keccak256(sl)
	default:
		if !mutateProof(r, mut, &m.proof, child) {
			return m, false
		}
	}
	return m, true
}

// ---------------------------------------------------------------- the runs

func runC13(o *Out, r *rand.Rand, thorough bool, _ []string) {
	st := &c13stats{}
	runHashes(o, r)
	runCrafted(o, r, st)
	runVectors(o, r, st)
	nWorlds, maxAcct, maxSlots, mutPer := 12, 100, 40, 3
	if thorough {
		nWorlds, maxAcct, maxSlots, mutPer = 20, 500, 500, 8
	}
	for wi := 0; wi < nWorlds; wi++ {
		nAcct := 1 + r.Intn(maxAcct)
		switch {
		case wi < 4:
			nAcct = 1 + wi // 1..4 leaves
		case wi == 4:
			nAcct = maxAcct
		}
		runWorld(o, r, genWorld(r, nAcct, maxSlots, thorough), mutPer, wi, st)
	}
	nTr, nAc := 3000, 1500
	if thorough {
		nTr, nAc = 60000, 30000
	}
	runTraverse(o, r, nTr)
	runAccounts(o, r, nAc)
	runConcurrentValidation(o, thorough)
	o.Comment(fmt.Sprintf("validate outcomes: accepted=%d rejected=%d panics=%d", st.accepted, st.rejected, st.panics))
}

func runHashes(o *Out, r *rand.Rand) {
	for _, n := range []int{0, 1, 2, 31, 32, 33, 55, 56, 134, 135, 136, 137, 138, 271, 272, 273, 532, 1024, 4096} {
		t := randItem(r, n)
		o.Case("hash data="+func() string {
			if n == 0 {
				return "-"
			}
			return t.String()
		}(), hex.EncodeToString(crypto.Keccak256(t.Bytes())))
	}
}

var mutCursor int

func pickMutations(r *rand.Rand, k int) []string {
	if k >= len(nodeMutations) {
		return nodeMutations
	}
	out := make([]string, 0, k)
	for i := 0; i < k; i++ {
		out = append(out, nodeMutations[mutCursor%len(nodeMutations)])
		mutCursor++
	}
	return out
}

func runWorld(o *Out, r *rand.Rand, w *c13world, mutPer, wi int, st *c13stats) {
	oracle := w.oracle()
	// (1) account trie: every node on every path as the target
	seen := map[string]bool{}
	var all []target
	for _, k := range w.accts.keys {
		all = append(all, w.accts.targets(k, seen)...)
	}
	for ti, t := range all {
		it := c13item{typ: state.AccountTrieNodeType, path: t.path, nh: crypto.Keccak256(t.proof[len(t.proof)-1]), ah: nil,
			bh: w.blockHash, proof: t.proof, oracle: oracle}
		runItem(o, it, "honest", st)
		full := w.accts.prove(t.key)
		var child []byte
		if len(full) > len(t.proof) {
			child = full[len(t.proof)]
		}
		other := w.accts.prove(w.accts.keys[r.Intn(len(w.accts.keys))])
		for _, mut := range pickMutations(r, mutPer) {
			if m, ok := mutateNodeItem(r, w, it, mut, child, other); ok {
				runItem(o, m, mut, st)
			}
		}
		_ = ti
	}
	// (2) storage tries under their accounts, (3) bytecode
	for _, a := range w.accounts {
		aproof := w.accts.prove(a.addrHash)
		if a.storage != nil {
			seenS := map[string]bool{}
			var ts []target
			for _, k := range a.storage.keys {
				ts = append(ts, a.storage.targets(k, seenS)...)
			}
			for _, t := range ts {
				it := c13item{typ: state.ContractStorageTrieNodeType, path: t.path, nh: crypto.Keccak256(t.proof[len(t.proof)-1]),
					ah: a.addrHash, bh: w.blockHash, proof: t.proof, aproof: aproof, oracle: oracle}
				runItem(o, it, "honest", st)
				full := a.storage.prove(t.key)
				var child []byte
				if len(full) > len(t.proof) {
					child = full[len(t.proof)]
				}
				other := a.storage.prove(a.storage.keys[r.Intn(len(a.storage.keys))])
				for _, mut := range pickMutations(r, max(2, mutPer-1)) {
					if m, ok := mutateNodeItem(r, w, it, mut, child, other); ok {
						runItem(o, m, mut, st)
					}
				}
				// one mutation of the account side
				am := []string{"ah-flip", "aproof-drop-last", "aproof-drop-first", "aproof-swap", "aproof-node-bitflip", "aproof-dup-last",
					"aproof-empty-proof", "aproof-other-account", "aproof-append-junk", "aproof-over-proof"}[r.Intn(10)]
				if m, ok := mutateAccountSide(r, w, it, am); ok {
					runItem(o, m, am, st)
				}
				// the same storage node offered under an account that HAS no storage (its storage root is the empty-trie
				// root), with that account's genuine proof: there is no trie this node could be anchored in
				if r.Intn(3) == 0 {
					for _, e := range w.accounts {
						if e.storage == nil {
							m := it.clone()
							m.ah, m.aproof = e.addrHash, w.accts.prove(e.addrHash)
							runItem(o, m, "under-account-without-storage", st)
							break
						}
					}
				}
			}
		}
		if a.storage != nil || r.Intn(3) == 0 {
			it := c13item{typ: state.ContractByteCodeType, nh: a.codeHash, ah: a.addrHash, bh: w.blockHash, aproof: aproof, code: a.code, oracle: oracle}
			runItem(o, it, "honest", st)
			for _, mut := range []string{"ch-flip", "code-flip", "code-other", "code-over", "ah-flip", "bh-unknown", "bh-other", "oracle-wrongroot",
				"aproof-drop-last", "aproof-drop-first", "aproof-swap", "aproof-node-bitflip", "aproof-dup-last", "aproof-empty-proof",
				"aproof-other-account", "aproof-append-junk", "aproof-node-trunc", "aproof-node-extend"} {
				if r.Intn(3) != 0 && mutPer < len(nodeMutations) {
					continue
				}
				m := it.clone()
				ok := true
				switch mut {
				case "ch-flip":
					c13FlipBit(r, m.nh)
				case "code-flip":
					b := bytes.Clone(it.code.Bytes())
					if len(b) == 0 {
						b = []byte{0}
					} else {
						c13FlipBit(r, b)
					}
					m.code = lit(b)
				case "code-other":
					oa := w.accounts[r.Intn(len(w.accounts))]
					if bytes.Equal(oa.codeHash, a.codeHash) {
						ok = false
					}
					m.code = oa.code
				case "code-over":
					m.code = gen(32769, r.Intn(1000))
				case "bh-unknown", "bh-other", "oracle-wrongroot":
					m, ok = mutateNodeItem(r, w, it, mut, nil, nil)
				default:
					m, ok = mutateAccountSide(r, w, it, mut)
				}
				if ok {
					runItem(o, m, mut, st)
				}
			}
		}
	}
}

func mutateAccountSide(r *rand.Rand, w *c13world, it c13item, mut string) (c13item, bool) {
	m := it.clone()
	switch mut {
	case "ah-flip":
		c13FlipBit(r, m.ah)
	case "aproof-other-account":
		oa := w.accounts[r.Intn(len(w.accounts))]
		if bytes.Equal(oa.addrHash, it.ah) {
			return m, false
		}
		m.aproof = w.accts.prove(oa.addrHash)
	default:
		if !mutateProof(r, strings.TrimPrefix(mut, "aproof-"), &m.aproof, nil) {
			return m, false
		}
	}
	return m, true
}

// ---------------------------------------------------------------- the repo's own mainnet vectors

func readVectors(file string) []map[string]string {
	data, err := os.ReadFile(file)
	if err != nil {
		return nil
	}
	var out []map[string]string
	var cur map[string]string
	for _, line := range strings.Split(string(data), "\n") {
		t := strings.TrimSpace(line)
		if strings.HasPrefix(t, "#") || t == "" {
			continue
		}
		if strings.HasPrefix(t, "- ") {
			cur = map[string]string{}
			out = append(out, cur)
			t = t[2:]
		}
		k, v, ok := strings.Cut(t, ":")
		if !ok || cur == nil {
			continue
		}
		cur[strings.TrimSpace(k)] = strings.Trim(strings.TrimSpace(v), "'\"")
	}
	return out
}

func unhex0x(s string) []byte {
	b, _ := hex.DecodeString(strings.TrimPrefix(s, "0x"))
	return b
}

func fromProof(p state.TrieProof) [][]byte {
	out := make([][]byte, len(p))
	for i := range p {
		out[i] = []byte(p[i])
	}
	return out
}

func runVectors(o *Out, r *rand.Rand, st *c13stats) {
	repo := os.Getenv("VERIF_REPO")
	if repo == "" {
		repo = "/repo"
	}
	n := 0
	for _, f := range []string{"account_trie_node.yaml", "contract_storage_trie_node.yaml", "contract_bytecode.yaml"} {
		for _, v := range readVectors(filepath.Join(repo, "state", "testdata", f)) {
			key, content, hdr := unhex0x(v["content_key"]), unhex0x(v["content_value_offer"]), unhex0x(v["block_header"])
			if len(key) == 0 || len(content) == 0 || len(hdr) == 0 {
				continue
			}
			var header types.Header
			if err := rlp.DecodeBytes(hdr, &header); err != nil {
				continue
			}
			it := c13item{typ: key[0]}
			rd := func(b []byte) *codec.DecodingReader {
				return codec.NewDecodingReader(bytes.NewReader(b), uint64(len(b)))
			}
			switch key[0] {
			case state.AccountTrieNodeType:
				k, c := &state.AccountTrieNodeKey{}, &state.AccountTrieNodeWithProof{}
				if k.Deserialize(rd(key[1:])) != nil || c.Deserialize(rd(content)) != nil {
					continue
				}
				it.path, it.nh, it.proof, it.bh = k.Path.Nibbles, k.NodeHash[:], fromProof(c.Proof), c.BlockHash[:]
			case state.ContractStorageTrieNodeType:
				k, c := &state.ContractStorageTrieNodeKey{}, &state.ContractStorageTrieNodeWithProof{}
				if k.Deserialize(rd(key[1:])) != nil || c.Deserialize(rd(content)) != nil {
					continue
				}
				it.path, it.nh, it.ah, it.proof, it.aproof, it.bh = k.Path.Nibbles, k.NodeHash[:], k.AddressHash[:], fromProof(c.StorageProof), fromProof(c.AccountProof), c.BlockHash[:]
			case state.ContractByteCodeType:
				k, c := &state.ContractBytecodeKey{}, &state.ContractBytecodeWithProof{}
				if k.Deserialize(rd(key[1:])) != nil || c.Deserialize(rd(content)) != nil {
					continue
				}
				it.nh, it.ah, it.aproof, it.bh, it.code = k.CodeHash[:], k.AddressHash[:], fromProof(c.AccountProof), c.BlockHash[:], lit([]byte(c.Code))
			}
			it.oracle = []oracleEntry{{bytes.Clone(it.bh), header.Root[:]}, {c13RandHash(r), c13RandHash(r)}}
			w := &c13world{others: it.oracle[1:]}
			runItem(o, it, "vector", st)
			n++
			for _, mut := range nodeMutations {
				if it.typ == state.ContractByteCodeType {
					break
				}
				if m, ok := mutateNodeItem(r, w, it, mut, nil, nil); ok {
					runItem(o, m, mut, st)
				}
			}
			for _, mut := range []string{"ah-flip", "aproof-drop-last", "aproof-drop-first", "aproof-swap", "aproof-node-bitflip", "aproof-dup-last", "aproof-empty-proof", "aproof-append-junk"} {
				if it.typ == state.AccountTrieNodeType {
					break
				}
				wv := &c13world{others: it.oracle[1:], accounts: []c13account{{addrHash: it.ah}}}
				if m, ok := mutateAccountSide(r, wv, it, mut); ok {
					runItem(o, m, mut, st)
				}
			}
		}
	}
	o.Comment(fmt.Sprintf("repo vectors used: %d", n))
}

// ---------------------------------------------------------------- hand-made nodes (lying header sources; decoder corner cases)

func rlpList(items ...[]byte) []byte {
	var payload []byte
	for _, it := range items {
		payload = append(payload, it...)
	}
	if len(payload) < 56 {
		return append([]byte{0xc0 + byte(len(payload))}, payload...)
	}
	l := big.NewInt(int64(len(payload))).Bytes()
	return append(append([]byte{0xf7 + byte(len(l))}, l...), payload...)
}

func rlpStr(b []byte) []byte {
	e, _ := rlp.EncodeToBytes(b)
	return e
}

func shortNode(nib []byte, leaf bool, val []byte) []byte {
	return rlpList(rlpStr(hpEncode(nib, leaf)), val)
}

func fullNode(children map[int][]byte, value []byte) []byte {
	items := make([][]byte, 17)
	for i := 0; i < 16; i++ {
		items[i] = []byte{0x80}
		if c, ok := children[i]; ok {
			items[i] = c
		}
	}
	items[16] = rlpStr(value)
	return rlpList(items...)
}

func hashRef(node []byte) []byte { return rlpStr(crypto.Keccak256(node)) }

// crafted: a chain of hand-made nodes under a header source that vouches for its root (the validator trusts the source)
func crafted(o *Out, st *c13stats, name string, typ byte, path []byte, proof [][]byte, nh []byte) {
	bh := crypto.Keccak256([]byte("block:" + name))
	root := crypto.Keccak256([]byte{})
	if len(proof) > 0 {
		root = crypto.Keccak256(proof[0])
	}
	it := c13item{typ: typ, path: path, nh: nh, bh: bh, proof: proof, oracle: []oracleEntry{{bh, root}}}
	runItem(o, it, name, st)
}

func runCrafted(o *Out, r *rand.Rand, st *c13stats) {
	leafY := shortNode([]byte{1, 2}, true, rlpStr([]byte("final node")))
	hY := crypto.Keccak256(leafY)
	acct := state.AccountTrieNodeType

	// short node with an empty key (c2 80 80) first in a two-node proof
	emptyKey := []byte{0xc2, 0x80, 0x80}
	crafted(o, st, "crafted-empty-key-short", acct, []byte{1}, [][]byte{emptyKey, leafY}, hY)
	crafted(o, st, "crafted-empty-key-short", acct, nil, [][]byte{emptyKey, leafY}, hY)
	crafted(o, st, "crafted-empty-key-single", acct, nil, [][]byte{emptyKey}, crypto.Keccak256(emptyKey))
	// extension [3,4,5] -> Y
	ext := shortNode([]byte{3, 4, 5}, false, hashRef(leafY))
	crafted(o, st, "crafted-ext-exact", acct, []byte{3, 4, 5}, [][]byte{ext, leafY}, hY)
	crafted(o, st, "crafted-ext-path-shorter", acct, []byte{3, 4}, [][]byte{ext, leafY}, hY)
	crafted(o, st, "crafted-ext-path-empty", acct, nil, [][]byte{ext, leafY}, hY)
	crafted(o, st, "crafted-ext-path-longer", acct, []byte{3, 4, 5, 6}, [][]byte{ext, leafY}, hY)
	crafted(o, st, "crafted-ext-path-differs", acct, []byte{3, 9, 5}, [][]byte{ext, leafY}, hY)
	// extension whose compact key is 0x00 (even, no nibbles): empty hex key
	ext0 := rlpList(rlpStr([]byte{0x00}), hashRef(leafY))
	crafted(o, st, "crafted-ext-zero-nibbles", acct, []byte{1}, [][]byte{ext0, leafY}, hY)
	// leaf with no nibbles before the terminator
	leaf0 := rlpList(rlpStr([]byte{0x20}), rlpStr(hY))
	crafted(o, st, "crafted-leaf-empty-prefix", acct, nil, [][]byte{leaf0, leafY}, hY)
	// compact flags 4..15 are not rejected by compactToHex
	for _, fl := range []byte{0x40, 0x51, 0x60, 0x73, 0xf7, 0xe0} {
		n := rlpList(rlpStr([]byte{fl, 0x34}), hashRef(leafY))
		crafted(o, st, "crafted-compact-flag", acct, []byte{3, 4}, [][]byte{n, leafY}, hY)
		crafted(o, st, "crafted-compact-flag", acct, []byte{fl & 15, 3, 4}, [][]byte{n, leafY}, hY)
	}
	// branch: child 7 -> Y, child 2 embedded leaf, value slot set
	emb := shortNode([]byte{9}, true, rlpStr([]byte{0x2a}))
	br := fullNode(map[int][]byte{7: hashRef(leafY), 2: emb}, []byte("branch value"))
	crafted(o, st, "crafted-branch-child", acct, []byte{7}, [][]byte{br, leafY}, hY)
	crafted(o, st, "crafted-branch-nil-child", acct, []byte{5}, [][]byte{br, leafY}, hY)
	crafted(o, st, "crafted-branch-embedded-leaf", acct, []byte{2, 9}, [][]byte{br, leafY}, hY)
	crafted(o, st, "crafted-branch-path-empty", acct, nil, [][]byte{br, leafY}, hY)
	crafted(o, st, "crafted-branch-single", acct, nil, [][]byte{br}, crypto.Keccak256(br))
	// embedded extension -> embedded branch -> hash
	inner := fullNode(map[int][]byte{1: hashRef(leafY)}, nil) // 17 + 33 bytes: too big to embed; used hashed
	br2 := fullNode(map[int][]byte{4: shortNode([]byte{6}, false, hashRef(inner))}, nil)
	crafted(o, st, "crafted-embedded-ext", acct, []byte{4, 6, 1}, [][]byte{br2, inner, leafY}, hY)
	crafted(o, st, "crafted-embedded-ext", acct, []byte{4, 6}, [][]byte{br2, inner}, crypto.Keccak256(inner))
	crafted(o, st, "crafted-embedded-ext-path-shorter", acct, []byte{4}, [][]byte{br2, inner}, crypto.Keccak256(inner))
	// oversized embedded node (33+ bytes inline) and junk references
	big33 := shortNode([]byte{1, 2, 3, 4}, true, rlpStr(bytes.Repeat([]byte{7}, 30)))
	crafted(o, st, "crafted-oversized-embedded", acct, []byte{3}, [][]byte{fullNode(map[int][]byte{3: big33}, nil), leafY}, hY)
	crafted(o, st, "crafted-bad-ref-size", acct, []byte{3}, [][]byte{fullNode(map[int][]byte{3: rlpStr(bytes.Repeat([]byte{7}, 31))}, nil), leafY}, hY)
	crafted(o, st, "crafted-bad-ref-size", acct, []byte{3}, [][]byte{fullNode(map[int][]byte{3: {0x05}}, nil), leafY}, hY)
	// trailing bytes after the node's list are ignored by the decoder but covered by the hash
	crafted(o, st, "crafted-trailing-bytes", acct, []byte{3, 4, 5}, [][]byte{append(bytes.Clone(ext), 0xaa, 0xbb), leafY}, hY)
	// the empty trie: a single node 0x80 hashing to the empty root
	crafted(o, st, "crafted-empty-trie-node", acct, nil, [][]byte{{0x80}}, types.EmptyRootHash[:])

	// a leaf VALUE used as the reference to the next proof node: leaf(key 5,6 -> keccak(X)), X = extension [5,6] -> Y
	x := shortNode([]byte{5, 6}, false, hashRef(leafY))
	leafV := shortNode([]byte{5, 6}, true, rlpStr(crypto.Keccak256(x)))
	rootB := fullNode(map[int][]byte{0xa: hashRef(leafV)}, nil)
	crafted(o, st, "crafted-leaf-value-as-link", acct, []byte{0xa, 5, 6}, [][]byte{rootB, leafV, x, leafY}, hY)
	crafted(o, st, "crafted-leaf-value-as-link", acct, []byte{5, 6}, [][]byte{leafV, x, leafY}, hY)
	// the same inside a real trie: the value of one key is the hash of a hand-made node
	{
		keys := genKeys(r, 12, 32)
		vals := make([][]byte, len(keys))
		for i := range keys {
			vals[i] = storageValue(r)
		}
		// a key whose leaf keeps at least one nibble (a leaf with an empty key remainder is refused by TraverseTrieNode)
		for ki := range keys {
			v2 := cloneNodes(vals)
			v2[ki] = bytes.Repeat([]byte{1}, 32) // a 32-byte value is never embedded: the proof ends at the leaf itself
			sh := buildTrie(keys, v2)
			ts := sh.targets(keys[ki], map[string]bool{})
			if len(ts[len(ts)-1].path) < 64 {
				keys[0], keys[ki] = keys[ki], keys[0]
				break
			}
		}
		vals[0] = bytes.Repeat([]byte{1}, 32) // placeholder with the final length: the shape does not depend on it
		shape := buildTrie(keys, vals)
		ts := shape.targets(keys[0], map[string]bool{})
		leafPath := ts[len(ts)-1].path
		pre := toNibbles(keys[0])[len(leafPath):]
		x2 := shortNode(pre, false, hashRef(leafY))
		vals[0] = crypto.Keccak256(x2)
		bt := buildTrie(keys, vals)
		proof := append(bt.prove(keys[0]), x2, leafY)
		bh := c13RandHash(r)
		it := c13item{typ: acct, path: toNibbles(keys[0]), nh: hY, bh: bh, proof: proof, oracle: []oracleEntry{{bh, bt.root}}}
		runItem(o, it, "crafted-leaf-value-as-link", st)
		// and as a storage trie under a genuine account
		acc := types.StateAccount{Nonce: 1, Balance: uint256.NewInt(5), Root: common.BytesToHash(bt.root), CodeHash: types.EmptyCodeHash[:]}
		leaf, _ := rlp.EncodeToBytes(&acc)
		ak := genKeys(r, 9, 32)
		av := make([][]byte, len(ak))
		for i := range ak {
			av[i] = leaf
		}
		at := buildTrie(ak, av)
		for ki := range ak {
			if ts := at.targets(ak[ki], map[string]bool{}); len(ts[len(ts)-1].path) < 64 {
				ak[0] = ak[ki] // an account whose leaf keeps at least one nibble
				break
			}
		}
		it2 := c13item{typ: state.ContractStorageTrieNodeType, path: toNibbles(keys[0]), nh: hY, ah: ak[0], bh: bh, proof: proof, aproof: at.prove(ak[0]),
			oracle: []oracleEntry{{bh, at.root}}}
		runItem(o, it2, "crafted-leaf-value-as-link", st)
	}

	// a child REFERENCE used as the account. Address 1a1a..1a is a contract (storage root keccak("storage"), code 6000).
	// Its balance was chosen offline (about 2^24 Keccak evaluations each) so that the HASH of its leaf node, read as RLP,
	// is a well-formed slim account: balance 18593024 -> [.., root (26 bytes), code hash EMPTY]; balance 3896871 ->
	// [.., root EMPTY, code hash (27 bytes)]. The account proof offered stops at the root branch.
	{
		ak0, ak1 := bytes.Repeat([]byte{0x1a}, 32), bytes.Repeat([]byte{0x2b}, 32)
		other, _ := rlp.EncodeToBytes(&types.StateAccount{Nonce: 1, Balance: uint256.NewInt(1), Root: types.EmptyRootHash, CodeHash: types.EmptyCodeHash[:]})
		for _, bal := range []uint64{18593024, 3896871} {
			acc := types.StateAccount{Nonce: 7, Balance: uint256.NewInt(bal), Root: common.BytesToHash(crypto.Keccak256([]byte("storage"))),
				CodeHash: crypto.Keccak256([]byte{0x60, 0x00})}
			leaf, _ := rlp.EncodeToBytes(&acc)
			at := buildTrie([][]byte{ak0, ak1}, [][]byte{leaf, other})
			full := at.prove(ak0)
			pseudo, err := types.FullAccount(crypto.Keccak256(full[len(full)-1]))
			if len(full) != 2 || err != nil {
				o.Comment(fmt.Sprintf("account-shaped node hash not reproduced for balance %d", bal))
				continue
			}
			bh := c13RandHash(r)
			or := []oracleEntry{{bh, at.root}}
			ah2 := c13RandHash(r) // any address sharing the first nibble is "proven" the same way
			ah2[0] = ak0[0]&0xf0 | ah2[0]&0x0f
			for _, ah := range [][]byte{ak0, ah2} {
				if bytes.Equal(pseudo.CodeHash, types.EmptyCodeHash[:]) {
					// "the contract's bytecode is empty"
					runItem(o, c13item{typ: state.ContractByteCodeType, nh: types.EmptyCodeHash[:], ah: ah, bh: bh, aproof: full[:1], code: lit(nil), oracle: or},
						"crafted-child-ref-as-account", st)
				}
				if pseudo.Root == types.EmptyRootHash {
					// "the contract's storage trie is the empty trie"
					runItem(o, c13item{typ: state.ContractStorageTrieNodeType, nh: types.EmptyRootHash[:], ah: ah, bh: bh, proof: [][]byte{{0x80}}, aproof: full[:1], oracle: or},
						"crafted-child-ref-as-account", st)
				}
			}
			// the honest items for comparison: real code under the full proof; the empty-code claim under the full proof
			runItem(o, c13item{typ: state.ContractByteCodeType, nh: acc.CodeHash, ah: ak0, bh: bh, aproof: full, code: lit([]byte{0x60, 0x00}), oracle: or}, "honest", st)
			runItem(o, c13item{typ: state.ContractByteCodeType, nh: types.EmptyCodeHash[:], ah: ak0, bh: bh, aproof: full, code: lit(nil), oracle: or}, "ch-flip", st)
		}
	}

	// account leaves in slim / odd encodings inside a genuine account trie
	{
		st32 := bytes.Repeat([]byte{0xab}, 32)
		mk := func(nonce, bal, root, code []byte) []byte { return rlpList(nonce, bal, rlpStr(root), rlpStr(code)) }
		variants := [][]byte{
			mk([]byte{0x01}, []byte{0x80}, nil, nil),                                      // slim: empty root, empty code hash
			mk([]byte{0x80}, []byte{0x05}, st32, nil),                                     // empty code hash
			mk([]byte{0x01}, []byte{0x01}, st32[:20], st32),                               // 20-byte root: left-padded
			mk([]byte{0x01}, []byte{0x01}, append(st32, 0xcd), st32),                      // 33-byte root: last 32 kept
			mk([]byte{0x01}, []byte{0x01}, st32, st32[:31]),                               // 31-byte code hash
			mk([]byte{0x00}, []byte{0x01}, st32, st32),                                    // nonce 0x00: non-canonical
			mk([]byte{0x82, 0x00, 0x01}, []byte{0x01}, st32, st32),                        // leading zero
			append(mk([]byte{0x01}, []byte{0x01}, st32, st32), 0x00),                      // trailing byte
			rlpList([]byte{0x01}, []byte{0x01}, rlpStr(st32)),                             // three fields
			rlpList([]byte{0x01}, []byte{0x01}, rlpStr(st32), rlpStr(st32), []byte{0x01}), // five fields
		}
		ak := genKeys(r, len(variants)+3, 32)
		av := make([][]byte, len(ak))
		good, _ := rlp.EncodeToBytes(&types.StateAccount{Nonce: 1, Balance: uint256.NewInt(1), Root: types.EmptyRootHash, CodeHash: types.EmptyCodeHash[:]})
		for i := range ak {
			av[i] = good
			if i < len(variants) {
				av[i] = variants[i]
			}
		}
		at := buildTrie(ak, av)
		bh := c13RandHash(r)
		for i := range variants {
			root, ch := types.EmptyRootHash[:], types.EmptyCodeHash[:]
			if a, err := types.FullAccount(variants[i]); err == nil {
				root, ch = a.Root[:], make([]byte, 32)
				copy(ch, a.CodeHash)
			}
			it := c13item{typ: state.ContractByteCodeType, nh: ch, ah: ak[i], bh: bh, aproof: at.prove(ak[i]), code: lit(nil), oracle: []oracleEntry{{bh, at.root}}}
			runItem(o, it, "crafted-account-encoding", st)
			// the empty storage trie under that account: one node 0x80
			it2 := c13item{typ: state.ContractStorageTrieNodeType, nh: crypto.Keccak256([]byte{0x80}), ah: ak[i], bh: bh, proof: [][]byte{{0x80}}, aproof: at.prove(ak[i]),
				oracle: []oracleEntry{{bh, at.root}}}
			_ = root
			runItem(o, it2, "crafted-account-encoding", st)
		}
	}
	// account tries whose keys are SHORTER than an address hash (31 or 30 bytes): the proof for such a key, offered for a 32-byte
	// address hash that begins with it, reaches a leaf while part of the path is left over - no account of that hash exists
	for _, kl := range []int{31, 30, 16} {
		ak := genKeys(r, 24, kl)
		av := make([][]byte, len(ak))
		good, _ := rlp.EncodeToBytes(&types.StateAccount{Nonce: 1, Balance: uint256.NewInt(1), Root: types.EmptyRootHash, CodeHash: types.EmptyCodeHash[:]})
		for i := range ak {
			av[i] = good
		}
		at := buildTrie(ak, av)
		bh := c13RandHash(r)
		for i := 0; i < 6; i++ {
			ah := append(bytes.Clone(ak[i]), c13RandHash(r)[:32-kl]...)
			it := c13item{typ: state.ContractByteCodeType, nh: types.EmptyCodeHash[:], ah: ah, bh: bh, aproof: at.prove(ak[i]), code: lit(nil), oracle: []oracleEntry{{bh, at.root}}}
			runItem(o, it, "crafted-short-account-key", st)
			it2 := c13item{typ: state.ContractStorageTrieNodeType, nh: crypto.Keccak256([]byte{0x80}), ah: ah, bh: bh, proof: [][]byte{{0x80}}, aproof: at.prove(ak[i]),
				oracle: []oracleEntry{{bh, at.root}}}
			runItem(o, it2, "crafted-short-account-key", st)
		}
	}
}

// ---------------------------------------------------------------- DecodeTrieNode + TraverseTrieNode on generated nodes

func genRef(r *rand.Rand, depth int) []byte {
	switch r.Intn(10) {
	case 0, 1, 2:
		return rlpStr(c13RandHash(r))
	case 3, 4:
		return []byte{0x80}
	case 5, 6:
		if depth < 3 {
			return genNode(r, depth+1, true)
		}
		return rlpStr(c13RandHash(r))
	case 7:
		b := make([]byte, []int{1, 20, 31, 33}[r.Intn(4)])
		r.Read(b)
		return rlpStr(b)
	case 8:
		return []byte{byte(r.Intn(128))}
	default:
		return rlpList() // empty list as a reference
	}
}

func genNode(r *rand.Rand, depth int, small bool) []byte {
	switch k := r.Intn(10); {
	case k < 5: // short node
		nib := make([]byte, r.Intn(5))
		for i := range nib {
			nib[i] = byte(r.Intn(3)) // few distinct nibbles so that paths often match
		}
		var key []byte
		switch r.Intn(12) {
		case 0:
			key = nil // empty compact key
		case 1:
			key = []byte{byte(r.Intn(256))}
		case 2:
			key = hpEncode(nib, r.Intn(2) == 0)
			key[0] |= byte(4+r.Intn(12)) << 4 // flag 4..15
		default:
			key = hpEncode(nib, r.Intn(3) == 0)
		}
		_, leaf := hpDecode(key)
		var val []byte
		if leaf && r.Intn(8) != 0 {
			v := make([]byte, r.Intn(40))
			r.Read(v)
			val = rlpStr(v)
		} else {
			val = genRef(r, depth)
		}
		return rlpList(rlpStr(key), val)
	case k < 9: // full node
		ch := map[int][]byte{}
		n := 1 + r.Intn(4)
		if small {
			n = 1
		}
		for i := 0; i < n; i++ {
			ch[r.Intn(3)] = genRef(r, depth+1)
		}
		var v []byte
		if r.Intn(4) == 0 {
			v = []byte{1, 2, 3}
		}
		return fullNode(ch, v)
	default: // wrong arity
		n := []int{0, 1, 3, 16, 18}[r.Intn(5)]
		items := make([][]byte, n)
		for i := range items {
			items[i] = []byte{0x80}
		}
		return rlpList(items...)
	}
}

func runTraverse(o *Out, r *rand.Rand, n int) {
	for i := 0; i < n; i++ {
		node := genNode(r, 0, false)
		switch r.Intn(12) {
		case 0:
			c13FlipBit(r, node)
		case 1:
			if len(node) > 1 {
				node = node[:len(node)-1-r.Intn(min(3, len(node)-1))]
			}
		case 2:
			node = append(node, byte(r.Intn(256)))
		case 3:
			// non-canonical long form for a short payload
			if len(node) > 1 && node[0] >= 0xc0 && node[0] < 0xf8 {
				node = append([]byte{0xf8, node[0] - 0xc0}, node[1:]...)
			}
		case 4:
			node = make([]byte, r.Intn(6))
			r.Read(node)
		}
		path := make([]byte, r.Intn(7))
		for j := range path {
			path[j] = byte(r.Intn(3))
		}
		if r.Intn(10) == 0 && len(path) > 0 {
			path[r.Intn(len(path))] = byte(r.Intn(16))
		}
		o.Case(fmt.Sprintf("tr node=%s path=%s", hx(node), nibbleString(path)), callTraverse(node, path))
	}
}

func callTraverse(node, path []byte) (res string) {
	defer func() {
		if recover() != nil {
			res = "panic"
		}
	}()
	n, err := strie.DecodeTrieNode(nil, bytes.Clone(node))
	if err != nil {
		return "decerr"
	}
	ref, rest, err := strie.TraverseTrieNode(n, path)
	if err != nil {
		return "err"
	}
	return fmt.Sprintf("ok %s %s", hx(ref), nibbleString(rest))
}

// ---------------------------------------------------------------- types.FullAccount on generated encodings

func runAccounts(o *Out, r *rand.Rand, n int) {
	intEnc := func() []byte {
		switch r.Intn(8) {
		case 0:
			return []byte{0x80}
		case 1:
			return []byte{byte(r.Intn(128))} // includes 0x00 (non-canonical)
		case 2:
			return []byte{0x81, byte(r.Intn(256))} // < 0x80 is non-canonical
		case 3:
			b := make([]byte, 1+r.Intn(9))
			r.Read(b)
			return append([]byte{0x80 + byte(len(b))}, b...) // may have a leading zero, may exceed 8 bytes
		case 4:
			b := make([]byte, 30+r.Intn(5))
			r.Read(b)
			return append([]byte{0x80 + byte(len(b))}, b...)
		default:
			b := big.NewInt(r.Int63n(1 << uint(1+r.Intn(60)))).Bytes()
			return rlpStr(b)
		}
	}
	strEnc := func() []byte {
		switch r.Intn(8) {
		case 0:
			return []byte{0x80}
		case 1:
			return []byte{byte(r.Intn(128))}
		case 2:
			return []byte{0x81, byte(r.Intn(256))}
		case 3:
			return rlpList([]byte{0x01})
		case 4:
			b := make([]byte, 56+r.Intn(10))
			r.Read(b)
			return rlpStr(b)
		default:
			b := make([]byte, []int{32, 32, 32, 20, 31, 33, 1, 40}[r.Intn(8)])
			r.Read(b)
			return rlpStr(b)
		}
	}
	for i := 0; i < n; i++ {
		items := [][]byte{intEnc(), intEnc(), strEnc(), strEnc()}
		switch r.Intn(12) {
		case 0:
			items = items[:3]
		case 1:
			items = append(items, []byte{0x01})
		}
		enc := rlpList(items...)
		switch r.Intn(10) {
		case 0:
			c13FlipBit(r, enc)
		case 1:
			enc = enc[:len(enc)-1]
		case 2:
			enc = append(enc, byte(r.Intn(256)))
		case 3:
			if enc[0] >= 0xc0 && enc[0] < 0xf8 {
				enc = append([]byte{0xf8, enc[0] - 0xc0}, enc[1:]...) // long form for a short list
			}
		}
		res := "err"
		func() {
			defer func() {
				if recover() != nil {
					res = "panic"
				}
			}()
			if a, err := types.FullAccount(enc); err == nil {
				res = fmt.Sprintf("ok nonce=%d bal=%s root=%s code=%s", a.Nonce, a.Balance.Dec(), hx(a.Root[:]), hx(a.CodeHash))
			}
		}()
		o.Case("acct rlp="+hx(enc), res)
	}
}
