//go:build verif

package main

// C03: header proofs in the four eras. The harness runs the REAL validator
// (validation.HeaderValidator.ValidateHeaderAndProof and the four era validators behind it),
// the REAL pre-merge accumulator and prover (history.Accumulator, history.BuildProof,
// history.BuildHeaderWithProof) and REAL zrnt beacon structures (BeaconBlock of three forks,
// HistoricalBatch, HistoricalSummary) and prints one line per case. Every byte the Lean driver needs
// to recompute the case with its own SHA-256 is on the line.

import (
	"bytes"
	"crypto/sha256"
	"encoding/binary"
	"encoding/hex"
	"encoding/json"
	"errors"
	"fmt"
	"math/big"
	"math/rand"
	"os"
	"path/filepath"
	"sort"
	"strings"

	"github.com/ethereum/go-ethereum/core/types"
	"github.com/protolambda/zrnt/eth2/beacon/altair"
	"github.com/protolambda/zrnt/eth2/beacon/bellatrix"
	"github.com/protolambda/zrnt/eth2/beacon/capella"
	zcommon "github.com/protolambda/zrnt/eth2/beacon/common"
	"github.com/protolambda/zrnt/eth2/beacon/deneb"
	"github.com/protolambda/zrnt/eth2/beacon/phase0"
	"github.com/protolambda/zrnt/eth2/configs"
	"github.com/protolambda/ztyp/codec"
	"github.com/protolambda/ztyp/tree"
	"github.com/protolambda/ztyp/view"
	"github.com/zen-eth/shisui/history"
	thistory "github.com/zen-eth/shisui/types/history"
	"github.com/zen-eth/shisui/validation"
)

func init() { runners["C03"] = runC03 }

const (
	c03Epoch    = 8192
	c03CapStart = 194048 * 32 // first Capella slot = 758 * 8192
)

// ------------------------------------------------------------------ small helpers

func c03fatal(format string, a ...any) {
	fmt.Fprintf(os.Stderr, "C03 harness: "+format+"\n", a...)
	os.Exit(3)
}

func hexCat(xs [][]byte) string {
	if len(xs) == 0 {
		return "-"
	}
	var sb strings.Builder
	for _, x := range xs {
		sb.WriteString(hex.EncodeToString(x))
	}
	return sb.String()
}

func rnd32(r *rand.Rand) []byte {
	b := make([]byte, 32)
	r.Read(b)
	return b
}

func sha2(a, b []byte) []byte {
	var buf [64]byte
	copy(buf[:32], a)
	copy(buf[32:], b)
	h := sha256.Sum256(buf[:])
	return h[:]
}

// layers of a complete binary tree over the given leaves (len a power of two); layers[0] = leaves
func merkleLayers(leaves [][]byte) [][][]byte {
	layers := [][][]byte{leaves}
	cur := leaves
	for len(cur) > 1 {
		next := make([][]byte, len(cur)/2)
		for i := range next {
			next[i] = sha2(cur[2*i], cur[2*i+1])
		}
		layers = append(layers, next)
		cur = next
	}
	return layers
}

// siblings bottom-up for leaf i
func merkleBranch(layers [][][]byte, i int) [][]byte {
	var out [][]byte
	for l := 0; l < len(layers)-1; l++ {
		out = append(out, layers[l][i^1])
		i >>= 1
	}
	return out
}

func foldG(leaf []byte, sib [][]byte, g uint64) []byte {
	v := leaf
	for i, s := range sib {
		if (g>>uint(i))&1 == 1 {
			v = sha2(s, v)
		} else {
			v = sha2(v, s)
		}
	}
	return v
}

// outcome class of a call into the code under test; a panic of that code is an outcome
func c03outcome(f func() error) (s string) {
	defer func() {
		if x := recover(); x != nil {
			s = "panic"
		}
	}()
	err := f()
	switch {
	case err == nil:
		return "ok"
	case errors.Is(err, validation.ErrMerkleValidation):
		return "err why=merkle"
	case errors.Is(err, validation.ErrExecutionBlockProof):
		return "err why=exec"
	default:
		return "err why=other"
	}
}

// ------------------------------------------------------------------ validator under test + tables

type c03Oracle struct {
	fail bool
	list capella.HistoricalSummaries
}

func (o *c03Oracle) GetHistoricalSummaries(epoch uint64) (capella.HistoricalSummaries, error) {
	if o.fail {
		return nil, errors.New("oracle failure")
	}
	return o.list, nil
}
func (o *c03Oracle) GetBlockHeaderByHash(hash []byte) (*types.Header, error) {
	return nil, errors.New("not used")
}
func (o *c03Oracle) GetFinalizedStateRoot() ([]byte, error) { return nil, errors.New("not used") }

type c03 struct {
	o      *Out
	r      *rand.Rand
	v      validation.HeaderValidator
	epochs [][]byte
	roots  []zcommon.Root
	sums   []capella.HistoricalSummary
	nCase  int
}

func sumRoots(s []capella.HistoricalSummary) [][]byte {
	out := make([][]byte, len(s))
	for i := range s {
		out[i] = append([]byte{}, s[i].BlockSummaryRoot[:]...)
	}
	return out
}

func rootsBytes(s []zcommon.Root) [][]byte {
	out := make([][]byte, len(s))
	for i := range s {
		out[i] = append([]byte{}, s[i][:]...)
	}
	return out
}

func mkSums(blockRoots [][]byte, r *rand.Rand) []capella.HistoricalSummary {
	out := make([]capella.HistoricalSummary, len(blockRoots))
	for i, b := range blockRoots {
		copy(out[i].BlockSummaryRoot[:], b)
		r.Read(out[i].StateSummaryRoot[:])
	}
	return out
}

func mkRoots(bs [][]byte) []zcommon.Root {
	out := make([]zcommon.Root, len(bs))
	for i, b := range bs {
		copy(out[i][:], b)
	}
	return out
}

// setTables installs fresh copies of the three trusted tables (and an oracle behaviour) in a new validator.
// oracle: nil = no oracle; otherwise the fake above.
func (c *c03) setTables(epochs [][]byte, roots []zcommon.Root, sums []capella.HistoricalSummary, orc *c03Oracle) {
	c.epochs = make([][]byte, len(epochs))
	for i := range epochs {
		c.epochs[i] = append([]byte{}, epochs[i]...)
	}
	c.roots = append([]zcommon.Root{}, roots...)
	c.sums = append([]capella.HistoricalSummary{}, sums...)
	os := "none"
	var oracle validation.Oracle
	if orc != nil {
		oracle = orc
		if orc.fail {
			os = "err"
		} else {
			os = "list:" + hexCat(sumRoots(orc.list))
		}
	}
	c.v = validation.VerifNewHeaderValidator(c.epochs, c.roots, c.sums, oracle)
	e, ro, s := c.v.VerifTables()
	c.o.Case(fmt.Sprintf("tables epochs=%s roots=%s sums=%s oracle=%s", hexCat(c.epochs), hexCat(rootsBytes(c.roots)), hexCat(sumRoots(c.sums)), os),
		fmt.Sprintf("n=%d,%d,%d", len(e), len(ro), len(s)))
}

// overwrite one entry of a table of the validator under test (the tables are shared slices)
func (c *c03) install(tbl string, i int, v []byte) {
	switch tbl {
	case "epochs":
		c.epochs[i] = append([]byte{}, v...)
	case "roots":
		copy(c.roots[i][:], v)
	case "sums":
		// the provider may have swapped its cache for an oracle answer; write into what it uses now
		_, _, cur := c.v.VerifTables()
		copy(cur[i].BlockSummaryRoot[:], v)
	}
	c.o.Case(fmt.Sprintf("set tbl=%s i=%d v=%s", tbl, i, hex.EncodeToString(v)), "ok")
}

func (c *c03) cacheLen() int {
	_, _, s := c.v.VerifTables()
	return len(s)
}

// ------------------------------------------------------------------ the four entry points

func (c *c03) top(h *types.Header, proof []byte, kind string) string {
	hash := h.Hash()
	out := c03outcome(func() error { return c.v.ValidateHeaderAndProof(h, proof) })
	if out != "ok" {
		// the same proof offered again at once: it counts as accepted if either call accepts
		if out2 := c03outcome(func() error { return c.v.ValidateHeaderAndProof(h, proof) }); out2 == "ok" {
			out = out2
		}
	}
	c.o.Case(fmt.Sprintf("top num=%d hash=%s proof=%s kind=%s", h.Number.Uint64(), hex.EncodeToString(hash[:]), hx(proof), kind),
		fmt.Sprintf("%s cache=%d", out, c.cacheLen()))
	c.nCase++
	return out
}

// era-level entry points (the mainnet vectors give the header hash only, not the header)
func (c *c03) era(era string, num uint64, hash []byte, proof []byte, kind string) string {
	var out string
	switch era {
	case "bell":
		out = c03outcome(func() error {
			p := &thistory.BlockProofHistoricalRoots{}
			if err := p.UnmarshalSSZ(proof); err != nil {
				return err
			}
			return c.v.VerifValidateMergeToCapella(hash, p)
		})
	case "cap":
		out = c03outcome(func() error {
			p := &thistory.BlockProofHistoricalSummariesCapella{}
			if err := p.UnmarshalSSZ(proof); err != nil {
				return err
			}
			return c.v.VerifValidateCapellaToDeneb(hash, p)
		})
	case "deneb":
		out = c03outcome(func() error {
			p := &thistory.BlockProofHistoricalSummariesDeneb{}
			if err := p.UnmarshalSSZ(proof); err != nil {
				return err
			}
			return c.v.VerifValidatePostDeneb(hash, p)
		})
	}
	c.o.Case(fmt.Sprintf("%s hash=%s proof=%s kind=%s", era, hex.EncodeToString(hash), hx(proof), kind),
		fmt.Sprintf("%s cache=%d", out, c.cacheLen()))
	c.nCase++
	return out
}

// ------------------------------------------------------------------ synthetic headers

func c03Header(r *rand.Rand, number uint64) *types.Header {
	h := &types.Header{
		Difficulty: new(big.Int).SetUint64(1 + uint64(r.Int63n(1<<40))),
		Number:     new(big.Int).SetUint64(number),
		GasLimit:   uint64(r.Int63n(30_000_000)),
		GasUsed:    uint64(r.Int63n(30_000_000)),
		Time:       uint64(r.Int63()),
		Extra:      make([]byte, r.Intn(9)),
	}
	r.Read(h.ParentHash[:])
	r.Read(h.UncleHash[:])
	r.Read(h.Coinbase[:])
	r.Read(h.Root[:])
	r.Read(h.TxHash[:])
	r.Read(h.ReceiptHash[:])
	r.Read(h.MixDigest[:])
	r.Read(h.Nonce[:])
	r.Read(h.Extra)
	return h
}

// ------------------------------------------------------------------ pre-merge chains

type c03Chain struct {
	id      int
	base    uint64 // block number of the first header (a multiple of 8192)
	headers []*types.Header
	accs    []history.EpochAccumulator // one per epoch, zero padded
	roots   [][]byte                   // epoch roots (with the length mixed in)
}

// records exactly as history.epoch.add makes them: block hash ++ total difficulty (per epoch, little endian)
func c03Records(headers []*types.Header) [][]byte {
	var out [][]byte
	td := new(big.Int)
	for i, h := range headers {
		if i%c03Epoch == 0 {
			td = new(big.Int)
		}
		td = new(big.Int).Add(td, h.Difficulty)
		rec := make([]byte, 64)
		hash := h.Hash()
		copy(rec[:32], hash[:])
		be := td.Bytes()
		for k := range be {
			rec[32+k] = be[len(be)-1-k]
		}
		out = append(out, rec)
	}
	return out
}

// newChain builds n consecutive headers from `base`. When every number is below the merge block the epoch
// roots come from the real history.Accumulator (Update/Finish); otherwise (boundary chains that run across the
// merge block) from EpochAccumulator.HashTreeRoot + history.MixInLength. Both are what the Lean side recomputes
// from the records.
func (c *c03) newChain(id int, base uint64, n int) *c03Chain {
	ch := &c03Chain{id: id, base: base}
	for i := 0; i < n; i++ {
		ch.headers = append(ch.headers, c03Header(c.r, base+uint64(i)))
	}
	recs := c03Records(ch.headers)
	nEp := (n + c03Epoch - 1) / c03Epoch
	if nEp == 0 {
		nEp = 1
	}
	zero := make([]byte, 64)
	for e := 0; e < nEp; e++ {
		acc := history.EpochAccumulator{HeaderRecords: make([][]byte, 0, c03Epoch)}
		for i := e * c03Epoch; i < (e+1)*c03Epoch; i++ {
			if i < n {
				acc.HeaderRecords = append(acc.HeaderRecords, recs[i])
			} else {
				acc.HeaderRecords = append(acc.HeaderRecords, zero)
			}
		}
		ch.accs = append(ch.accs, acc)
	}
	// epoch roots computed directly from the records: EpochAccumulator.HashTreeRoot + history.MixInLength
	var direct [][]byte
	directOut := c03outcomeStr(func() string {
		for _, acc := range ch.accs {
			rt, err := acc.HashTreeRoot()
			if err != nil {
				return "err"
			}
			direct = append(direct, history.MixInLength(rt, c03Epoch))
		}
		return "roots=" + hexCat(direct)
	})
	via := "accumulator"
	if n > 0 && base+uint64(n-1) >= thistory.MergeBlockNumber {
		via = "direct"
	}
	out := directOut
	ch.roots = direct
	if via == "accumulator" {
		var viaAcc [][]byte
		out = c03outcomeStr(func() string {
			a := history.NewAccumulator()
			for _, h := range ch.headers {
				if err := a.Update(*h); err != nil {
					return "err"
				}
			}
			m, err := a.Finish()
			if err != nil {
				return "err"
			}
			viaAcc = m.HistoricalEpochs
			return "roots=" + hexCat(viaAcc)
		})
		if len(viaAcc) == nEp {
			ch.roots = viaAcc
		}
	}
	c.o.Case(fmt.Sprintf("chain id=%d base=%d n=%d via=%s recs=%s", id, base, n, via, hexCat(recs)), out)
	if len(ch.roots) != nEp {
		// neither path produced the accumulator: reported by the line above, the chain's cases are skipped
		c.o.Comment(fmt.Sprintf("chain %d unusable: %s / %s", id, out, directOut))
		return nil
	}
	return ch
}

func c03outcomeStr(f func() string) (s string) {
	defer func() {
		if x := recover(); x != nil {
			s = "panic"
		}
	}()
	return f()
}

// prove: the repo's prover (history.BuildProof) for header h (only its number is used) in its epoch of the chain
func (c *c03) prove(ch *c03Chain, h *types.Header) []byte {
	num := h.Number.Uint64()
	ep := int((num - ch.base) / c03Epoch)
	var proof []byte
	out := c03outcomeStr(func() string {
		p2, err := history.BuildProof(*h, ch.accs[ep])
		if err != nil {
			return "err"
		}
		proof = bytes.Join(p2, nil)
		// the proof handed out belongs to the caller: it overwrites every node after taking its copy, which must not reach
		// any later proof
		for _, node := range p2 {
			for i := range node {
				node[i] ^= 0xa5
			}
		}
		return "proof=" + hx(proof)
	})
	c.o.Case(fmt.Sprintf("prove chain=%d ep=%d r=%d", ch.id, ep, num%c03Epoch), out)
	return proof
}

// hwp: the other entry of the repo's prover, history.BuildHeaderWithProof: header bytes + proof in one value
func (c *c03) hwp(ch *c03Chain, h *types.Header) {
	num := h.Number.Uint64()
	ep := int((num - ch.base) / c03Epoch)
	out := c03outcomeStr(func() string {
		v, err := history.BuildHeaderWithProof(*h, ch.accs[ep])
		if err != nil {
			return "err"
		}
		dec, err := thistory.DecodeBlockHeader(v.Header)
		if err != nil {
			return "ok header=undecodable proof=" + hx(v.Proof)
		}
		hh := dec.Hash()
		return "ok header=" + hex.EncodeToString(hh[:]) + " proof=" + hx(v.Proof)
	})
	hash := h.Hash()
	c.o.Case(fmt.Sprintf("hwp chain=%d ep=%d r=%d hash=%s", ch.id, ep, num%c03Epoch, hex.EncodeToString(hash[:])), out)
}

// ------------------------------------------------------------------ corruption helpers

func flipBit(r *rand.Rand, b []byte, from, to int) []byte {
	out := append([]byte{}, b...)
	i := from + r.Intn(to-from)
	out[i] ^= 1 << uint(r.Intn(8))
	return out
}

// corruptions of a pre-merge proof (15 siblings of 32 bytes): every single node, and malformed lengths
func (c *c03) preCorruptions(h *types.Header, proof []byte, all bool) {
	n := len(proof) / 32
	for i := 0; i < n; i++ {
		if !all && c.r.Intn(5) != 0 {
			continue
		}
		c.top(h, flipBit(c.r, proof, 32*i, 32*i+32), fmt.Sprintf("sib%d", i))
	}
	if n >= 2 {
		// two siblings exchanged
		i := c.r.Intn(n - 1)
		p := append([]byte{}, proof...)
		copy(p[32*i:], proof[32*i+32:32*i+64])
		copy(p[32*i+32:], proof[32*i:32*i+32])
		if !bytes.Equal(p, proof) {
			c.top(h, p, "sibswap")
		}
		z := append([]byte{}, proof...)
		k := c.r.Intn(n)
		copy(z[32*k:32*k+32], make([]byte, 32))
		if !bytes.Equal(z, proof) {
			c.top(h, z, fmt.Sprintf("sib%d", k))
		}
	}
	if len(proof) >= 32 {
		c.top(h, proof[:len(proof)-32], "len")
		c.top(h, proof[32:], "len")
		c.top(h, proof[:len(proof)-1], "len")
	}
	c.top(h, append(append([]byte{}, proof...), rnd32(c.r)...), "len")
	c.top(h, append(append([]byte{}, proof...), 0), "len")
	c.top(h, nil, "len")
}

// ------------------------------------------------------------------ post-merge structures

type c03Block struct {
	era    string // bell | cap | deneb  (which BeaconBlock structure was built)
	header *types.Header
	hash   []byte
	root   []byte   // hash_tree_root of the beacon block
	eproof [][]byte // branch of block_hash under that root (11 or 12 siblings)
}

type serializable interface {
	Serialize(spec *zcommon.Spec, w *codec.EncodingWriter) error
}

func backingOf(s serializable, td *view.ContainerTypeDef) tree.Node {
	var buf bytes.Buffer
	if err := s.Serialize(configs.Mainnet, codec.NewEncodingWriter(&buf)); err != nil {
		c03fatal("serialize: %v", err)
	}
	v, err := td.Deserialize(codec.NewDecodingReader(bytes.NewReader(buf.Bytes()), uint64(buf.Len())))
	if err != nil {
		c03fatal("deserialize: %v", err)
	}
	return v.Backing()
}

// branch of generalized index g in a ztyp backing tree (siblings bottom-up) and the node found there
func gindexBranch(n tree.Node, g uint64) ([]byte, [][]byte) {
	hFn := tree.GetHashFn()
	depth := 0
	for (g >> uint(depth+1)) > 0 {
		depth++
	}
	var sib [][]byte
	for i := depth - 1; i >= 0; i-- {
		l, err := n.Left()
		if err != nil {
			c03fatal("gindex walk: %v", err)
		}
		r, err := n.Right()
		if err != nil {
			c03fatal("gindex walk: %v", err)
		}
		if (g>>uint(i))&1 == 1 {
			x := l.MerkleRoot(hFn)
			sib = append(sib, x[:])
			n = r
		} else {
			x := r.MerkleRoot(hFn)
			sib = append(sib, x[:])
			n = l
		}
	}
	for i, j := 0, len(sib)-1; i < j; i, j = i+1, j-1 {
		sib[i], sib[j] = sib[j], sib[i]
	}
	leaf := n.MerkleRoot(hFn)
	return leaf[:], sib
}

// newBlock builds a real zrnt BeaconBlock of the given fork around the execution block hash of a synthetic header,
// with random content elsewhere, and the branch of block_hash in it. Emits a `blk` line: the Lean side folds the
// branch with ITS gindex (3228 / 6444) and must arrive at zrnt's hash_tree_root.
func (c *c03) newBlock(era string, number uint64) *c03Block {
	spec := configs.Mainnet
	hFn := tree.GetHashFn()
	h := c03Header(c.r, number)
	hash := h.Hash()
	b := &c03Block{era: era, header: h, hash: hash[:]}
	var root zcommon.Root
	var back tree.Node
	var g uint64
	txs := func() []zcommon.Transaction {
		out := make([]zcommon.Transaction, c.r.Intn(4))
		for i := range out {
			out[i] = make([]byte, 1+c.r.Intn(100))
			c.r.Read(out[i])
		}
		return out
	}
	switch era {
	case "bell":
		blk := &bellatrix.BeaconBlock{Slot: zcommon.Slot(c.r.Int63()), ProposerIndex: zcommon.ValidatorIndex(c.r.Intn(1 << 20))}
		c.r.Read(blk.ParentRoot[:])
		c.r.Read(blk.StateRoot[:])
		c.r.Read(blk.Body.Graffiti[:])
		c.r.Read(blk.Body.RandaoReveal[:])
		blk.Body.SyncAggregate.SyncCommitteeBits = make(altair.SyncCommitteeBits, 64)
		c.r.Read(blk.Body.SyncAggregate.SyncCommitteeBits)
		ep := &blk.Body.ExecutionPayload
		c.r.Read(ep.ParentHash[:])
		c.r.Read(ep.StateRoot[:])
		c.r.Read(ep.ReceiptsRoot[:])
		c.r.Read(ep.PrevRandao[:])
		ep.BlockNumber = view.Uint64View(number)
		ep.GasLimit = view.Uint64View(c.r.Int63())
		ep.Timestamp = zcommon.Timestamp(c.r.Int63())
		ep.ExtraData = make([]byte, c.r.Intn(32))
		ep.Transactions = txs()
		ep.BlockHash = zcommon.Root(hash)
		root = blk.HashTreeRoot(spec, hFn)
		back = backingOf(blk, bellatrix.BeaconBlockType(spec))
		g = 3228
	case "cap":
		blk := &capella.BeaconBlock{Slot: zcommon.Slot(c.r.Int63()), ProposerIndex: zcommon.ValidatorIndex(c.r.Intn(1 << 20))}
		c.r.Read(blk.ParentRoot[:])
		c.r.Read(blk.StateRoot[:])
		c.r.Read(blk.Body.Graffiti[:])
		blk.Body.SyncAggregate.SyncCommitteeBits = make(altair.SyncCommitteeBits, 64)
		c.r.Read(blk.Body.SyncAggregate.SyncCommitteeBits)
		ep := &blk.Body.ExecutionPayload
		c.r.Read(ep.ParentHash[:])
		c.r.Read(ep.StateRoot[:])
		c.r.Read(ep.ReceiptsRoot[:])
		ep.BlockNumber = view.Uint64View(number)
		ep.Timestamp = zcommon.Timestamp(c.r.Int63())
		ep.Transactions = txs()
		ep.Withdrawals = make(zcommon.Withdrawals, c.r.Intn(3))
		for i := range ep.Withdrawals {
			ep.Withdrawals[i].Index = zcommon.WithdrawalIndex(c.r.Int63())
			ep.Withdrawals[i].Amount = zcommon.Gwei(c.r.Int63())
		}
		ep.BlockHash = zcommon.Root(hash)
		root = blk.HashTreeRoot(spec, hFn)
		back = backingOf(blk, capella.BeaconBlockType(spec))
		g = 3228
	case "deneb":
		blk := &deneb.BeaconBlock{Slot: zcommon.Slot(c.r.Int63()), ProposerIndex: zcommon.ValidatorIndex(c.r.Intn(1 << 20))}
		c.r.Read(blk.ParentRoot[:])
		c.r.Read(blk.StateRoot[:])
		c.r.Read(blk.Body.Graffiti[:])
		blk.Body.SyncAggregate.SyncCommitteeBits = make(altair.SyncCommitteeBits, 64)
		c.r.Read(blk.Body.SyncAggregate.SyncCommitteeBits)
		ep := &blk.Body.ExecutionPayload
		c.r.Read(ep.ParentHash[:])
		c.r.Read(ep.StateRoot[:])
		c.r.Read(ep.ReceiptsRoot[:])
		ep.BlockNumber = view.Uint64View(number)
		ep.Timestamp = zcommon.Timestamp(c.r.Int63())
		ep.Transactions = txs()
		ep.BlobGasUsed = view.Uint64View(c.r.Int63())
		ep.ExcessBlobGas = view.Uint64View(c.r.Int63())
		ep.BlockHash = zcommon.Root(hash)
		root = blk.HashTreeRoot(spec, hFn)
		back = backingOf(blk, deneb.BeaconBlockType(spec))
		g = 6444
	default:
		c03fatal("era %s", era)
	}
	leaf, sib := gindexBranch(back, g)
	if !bytes.Equal(leaf, hash[:]) || !bytes.Equal(foldG(leaf, sib, g), root[:]) {
		c03fatal("block prover inconsistent (era %s)", era)
	}
	b.root = append([]byte{}, root[:]...)
	b.eproof = sib
	c.o.Case(fmt.Sprintf("blk era=%s hash=%s proof=%s", era, hex.EncodeToString(b.hash), hexCat(sib)), "root="+hex.EncodeToString(b.root))
	return b
}

// a batch of 8192 beacon block roots committed by a historical root (Bellatrix) or a historical summary (Capella+)
type c03Batch struct {
	id     int
	roots  [][]byte
	layers [][][]byte
	vroot  []byte // hash_tree_root of the block_roots vector   (= HistoricalSummary.block_summary_root)
	sroot  []byte // hash_tree_root of the state_roots vector
	hroot  []byte // hash_tree_root of the HistoricalBatch       (= historical_roots[i])
	blocks map[int]*c03Block
	dup    int // position that repeats the root of the block before it (0 = none)
}

// newBatch: 8192 arbitrary block roots with real beacon blocks (fork `era`) at the given positions;
// roots computed by zrnt's HistoricalBatch / HistoricalBatchRoots.
func (c *c03) newBatch(id int, era string, positions []int, numbers []uint64) *c03Batch {
	spec := configs.Mainnet
	hFn := tree.GetHashFn()
	b := &c03Batch{id: id, blocks: map[int]*c03Block{}}
	b.roots = make([][]byte, c03Epoch)
	mode := c.r.Intn(3)
	for i := range b.roots {
		switch {
		case mode == 1 && i > 0 && c.r.Intn(4) == 0:
			b.roots[i] = b.roots[i-1] // skipped slots repeat the previous root
		case mode == 2 && c.r.Intn(8) == 0:
			b.roots[i] = make([]byte, 32)
		default:
			b.roots[i] = rnd32(c.r)
		}
	}
	for k, p := range positions {
		blk := c.newBlock(era, numbers[k])
		b.blocks[p] = blk
		b.roots[p] = blk.root
	}
	// a skipped slot: the slot after the third block repeats that block's root (as on mainnet)
	if len(positions) > 3 {
		p := positions[3]
		if _, taken := b.blocks[p+1]; !taken && p+1 < c03Epoch {
			b.roots[p+1] = b.blocks[p].root
			b.blocks[p+1] = b.blocks[p]
			b.dup = p + 1
		}
	}
	hb := phase0.HistoricalBatch{BlockRoots: make(phase0.HistoricalBatchRoots, c03Epoch), StateRoots: make(phase0.HistoricalBatchRoots, c03Epoch)}
	for i := range b.roots {
		copy(hb.BlockRoots[i][:], b.roots[i])
		c.r.Read(hb.StateRoots[i][:])
	}
	v := hb.BlockRoots.HashTreeRoot(spec, hFn)
	s := hb.StateRoots.HashTreeRoot(spec, hFn)
	h := hb.HashTreeRoot(spec, hFn)
	b.vroot, b.sroot, b.hroot = append([]byte{}, v[:]...), append([]byte{}, s[:]...), append([]byte{}, h[:]...)
	b.layers = merkleLayers(b.roots)
	if !bytes.Equal(b.layers[len(b.layers)-1][0], b.vroot) {
		c03fatal("batch merkleisation differs from zrnt")
	}
	c.o.Case(fmt.Sprintf("batch id=%d sroot=%s roots=%s", id, hex.EncodeToString(b.sroot), hexCat(b.roots)),
		fmt.Sprintf("vroot=%s hroot=%s", hex.EncodeToString(b.vroot), hex.EncodeToString(b.hroot)))
	return b
}

func le64(v uint64) []byte {
	b := make([]byte, 8)
	binary.LittleEndian.PutUint64(b, v)
	return b
}

// container bytes: beacon siblings ++ beacon block root ++ execution siblings ++ slot
func container(bproof [][]byte, broot []byte, eproof [][]byte, slot uint64) []byte {
	var out []byte
	for _, s := range bproof {
		out = append(out, s...)
	}
	out = append(out, broot...)
	for _, s := range eproof {
		out = append(out, s...)
	}
	return append(out, le64(slot)...)
}

// honest container for the block at position p of batch b, for the container layout of `layout` (bell: 14 beacon
// siblings incl. the state-roots root; cap/deneb: 13) at slot `slot`
func (b *c03Batch) honest(layout string, p int, slot uint64) []byte {
	blk := b.blocks[p]
	br := merkleBranch(b.layers, p)
	if layout == "bell" {
		br = append(br, b.sroot)
	}
	return container(br, blk.root, blk.eproof, slot)
}

// all single-node corruptions of a post-merge container and the other tamperings of the property text
func (c *c03) postCorruptions(h *types.Header, cont []byte, nb, ne int, all bool) {
	for i := 0; i < nb+1+ne; i++ {
		if !all && c.r.Intn(5) != 0 {
			continue
		}
		kind := fmt.Sprintf("bsib%d", i)
		if i == nb {
			kind = "broot"
		} else if i > nb {
			kind = fmt.Sprintf("esib%d", i-nb-1)
		}
		c.top(h, flipBit(c.r, cont, 32*i, 32*i+32), kind)
	}
	off := 32 * (nb + 1 + ne)
	slot := binary.LittleEndian.Uint64(cont[off:])
	for _, d := range []uint64{1, ^uint64(0), c03Epoch, ^uint64(c03Epoch - 1), 1 << 20, 1 << 40, 1 << 63} {
		if !all && c.r.Intn(2) != 0 {
			continue
		}
		p := append([]byte{}, cont...)
		copy(p[off:], le64(slot+d))
		c.top(h, p, "slot")
	}
	c.top(h, cont[:len(cont)-1], "len")
	c.top(h, append(append([]byte{}, cont...), 0), "len")
	c.top(h, cont[:len(cont)-32], "len")
	c.top(h, append(append([]byte{}, cont...), rnd32(c.r)...), "len")
	if all {
		c.top(h, nil, "len")
		c.top(h, cont[:8], "len")
	}
}

// ------------------------------------------------------------------ mainnet vectors of the repository

type c03Vector struct {
	hash   []byte
	eproof [][]byte
	broot  []byte
	bproof [][]byte
	slot   uint64
}

func unq(s string) string { return strings.Trim(strings.TrimSpace(s), "\"'") }

func c03ParseVector(path string) c03Vector {
	raw, err := os.ReadFile(path)
	if err != nil {
		c03fatal("%v", err)
	}
	var v c03Vector
	cur := ""
	hexv := func(s string) []byte {
		b, err := hex.DecodeString(strings.TrimPrefix(unq(s), "0x"))
		if err != nil {
			c03fatal("%s: %v", path, err)
		}
		return b
	}
	for _, line := range strings.Split(string(raw), "\n") {
		t := strings.TrimSpace(line)
		if t == "" {
			continue
		}
		if strings.HasPrefix(t, "- ") {
			x := hexv(t[2:])
			if cur == "execution_block_proof" {
				v.eproof = append(v.eproof, x)
			} else if cur == "beacon_block_proof" {
				v.bproof = append(v.bproof, x)
			}
			continue
		}
		k, val, _ := strings.Cut(t, ":")
		cur = k
		switch k {
		case "execution_block_header":
			v.hash = hexv(val)
		case "beacon_block_root":
			v.broot = hexv(val)
		case "slot":
			fmt.Sscan(unq(val), &v.slot)
		}
	}
	if len(v.hash) != 32 || len(v.broot) != 32 || len(v.eproof) < 11 || len(v.bproof) < 13 {
		c03fatal("vector %s not understood", path)
	}
	return v
}

func c03Vectors(dir string) []c03Vector {
	ents, err := os.ReadDir(dir)
	if err != nil {
		c03fatal("%v", err)
	}
	var names []string
	for _, e := range ents {
		names = append(names, e.Name())
	}
	sort.Strings(names)
	var out []c03Vector
	for _, n := range names {
		out = append(out, c03ParseVector(filepath.Join(dir, n)))
	}
	return out
}

func c03FixtureSummaries(repo string) []capella.HistoricalSummary {
	content, err := os.ReadFile(filepath.Join(repo, "validation/testdata/beacon_data/historical_summaries_at_slot_11476992.ssz"))
	if err != nil {
		c03fatal("%v", err)
	}
	s := new(capella.HistoricalSummaries)
	if err := s.Deserialize(configs.Mainnet, codec.NewDecodingReader(bytes.NewReader(content), uint64(len(content)))); err != nil {
		c03fatal("%v", err)
	}
	return []capella.HistoricalSummary(*s)
}

type c03Pre struct {
	header *types.Header
	proof  []byte
}

func c03PreVectors(repo string) []c03Pre {
	raw, err := os.ReadFile(filepath.Join(repo, "validation/testdata/header_with_proofs.json"))
	if err != nil {
		c03fatal("%v", err)
	}
	m := map[string]map[string]string{}
	if err := json.Unmarshal(raw, &m); err != nil {
		c03fatal("%v", err)
	}
	var keys []string
	for k := range m {
		keys = append(keys, k)
	}
	sort.Strings(keys)
	var out []c03Pre
	for _, k := range keys {
		b, err := hex.DecodeString(strings.TrimPrefix(m[k]["value"], "0x"))
		if err != nil {
			c03fatal("%v", err)
		}
		hwp, err := thistory.DecodeHeaderWithProof(b)
		if err != nil {
			c03fatal("%v", err)
		}
		out = append(out, c03Pre{hwp.Header, hwp.Proof})
	}
	return out
}

// the era-level tamperings of a mainnet post-merge vector
func (c *c03) vectorCases(era string, v c03Vector, nb, ne int) {
	cont := container(v.bproof[:nb], v.broot, v.eproof[:ne], v.slot)
	c.era(era, 0, v.hash, cont, "honest")
	for i := 0; i < nb+1+ne; i++ {
		kind := fmt.Sprintf("bsib%d", i)
		if i == nb {
			kind = "broot"
		} else if i > nb {
			kind = fmt.Sprintf("esib%d", i-nb-1)
		}
		c.era(era, 0, v.hash, flipBit(c.r, cont, 32*i, 32*i+32), kind)
	}
	c.era(era, 0, flipBit(c.r, v.hash, 0, 32), cont, "hash")
	off := 32 * (nb + 1 + ne)
	// the committed trees of the mainnet vectors are not known to the driver, so the label carries the truth here:
	// a neighbouring slot may legitimately verify (a skipped slot repeats the previous block root) -> "slotnear" (no claim)
	slotCase := func(s uint64) {
		p := append([]byte{}, cont...)
		copy(p[off:], le64(s))
		kind := "slot"
		if s == v.slot {
			kind = "honest"
		} else if s/c03Epoch == v.slot/c03Epoch && (s-v.slot < 64 || v.slot-s < 64) {
			kind = "slotnear"
		}
		c.era(era, 0, v.hash, p, kind)
	}
	for _, d := range []uint64{1, ^uint64(0), c03Epoch, ^uint64(c03Epoch - 1), 1 << 20, 1 << 40, 1 << 63, ^uint64(0) - v.slot} {
		slotCase(v.slot + d)
	}
	// first slot beyond each table, through this era's entry
	for _, s := range []uint64{uint64(len(c.roots)) * c03Epoch, uint64(len(c.roots))*c03Epoch + v.slot%c03Epoch,
		c03CapStart + uint64(c.cacheLen())*c03Epoch + v.slot%c03Epoch, c03CapStart - 1, 0} {
		slotCase(s)
	}
	c.era(era, 0, v.hash, cont[:len(cont)-1], "len")
	c.era(era, 0, v.hash, append(append([]byte{}, cont...), 0), "len")
	// the same vector through the entry points of the other eras (container re-laid out where the sizes differ)
	for _, other := range []struct {
		era    string
		nb, ne int
	}{{"bell", 14, 11}, {"cap", 13, 11}, {"deneb", 13, 12}} {
		if other.era == era {
			continue
		}
		bp := append([][]byte{}, v.bproof...)
		for len(bp) < other.nb {
			bp = append(bp, make([]byte, 32))
		}
		epf := append([][]byte{}, v.eproof...)
		for len(epf) < other.ne {
			epf = append(epf, make([]byte, 32))
		}
		c.era(other.era, 0, v.hash, container(bp[:other.nb], v.broot, epf[:other.ne], v.slot), "era")
		c.era(other.era, 0, v.hash, cont, "era")
	}
}

// ------------------------------------------------------------------ the run

func runC03(o *Out, r *rand.Rand, thorough bool, _ []string) {
	repo := os.Getenv("VERIF_REPO")
	if repo == "" {
		repo = "/repo"
	}
	c := &c03{o: o, r: r}
	kc := validation.VerifConstants()
	defEpochs := validation.DefaultPreMergeAccumulator().HistoricalEpochs
	defRoots := []zcommon.Root(validation.DefaultHistoricalRootsAccumulator().HistoricalRoots)
	fixSums := c03FixtureSummaries(repo)
	o.Case(fmt.Sprintf("consts epochSize=%d merge=%d shanghai=%d cancun=%d capellaForkEpoch=%d slotsPerEpoch=%d historyEpochSize=%d preMergeEpochs=%d embeddedEpochs=%d embeddedRoots=%d",
		kc["epochSize"], thistory.MergeBlockNumber, thistory.ShanghaiBlockNumber, thistory.CancunNumber, kc["capellaForkEpoch"], kc["slotsPerEpoch"], uint64(thistory.EpochSize),
		uint64(thistory.PreMergeEpochs), len(defEpochs), len(defRoots)), "ok")
	// every validator of a process consults the SAME embedded tables: the constructors are called again (a node builds one
	// validator per sub-network, tests build many) and what they return is what the first call returned - a table that grew
	// would put positions beyond the genuine table within range
	{
		same := 1
		for k := 0; k < 3; k++ {
			r2 := []zcommon.Root(validation.DefaultHistoricalRootsAccumulator().HistoricalRoots)
			e2 := validation.DefaultPreMergeAccumulator().HistoricalEpochs
			if len(r2) != len(defRoots) || len(e2) != len(defEpochs) {
				same = 0
				continue
			}
			for i := range r2 {
				if r2[i] != defRoots[i] {
					same = 0
				}
			}
		}
		o.Case(fmt.Sprintf("embeddedagain calls=3 roots=%d epochs=%d", len(defRoots), len(defEpochs)), fmt.Sprintf("same=%d", same))
	}
	// history.Accumulator.Update accepts pre-merge headers only
	for _, n := range []uint64{0, thistory.MergeBlockNumber - 1, thistory.MergeBlockNumber, thistory.MergeBlockNumber + 1, 1 << 62} {
		h := c03Header(r, n)
		o.Case(fmt.Sprintf("accupd num=%d", n), c03outcomeStr(func() string { return errStr(history.NewAccumulator().Update(*h)) }))
	}

	// ---------- A. the repository's mainnet vectors against the embedded accumulators
	c.setTables(defEpochs, defRoots, fixSums, nil)
	pre := c03PreVectors(repo)
	for i, pv := range pre {
		c.top(pv.header, pv.proof, "honest")
		c.preCorruptions(pv.header, pv.proof, true)
		// the proof of another header
		other := pre[(i+1)%len(pre)]
		c.top(pv.header, other.proof, "hash")
		// the same header claimed at another position / epoch / era (its hash changes with the number)
		for _, d := range []int64{1, -1, c03Epoch, -c03Epoch} {
			h2 := types.CopyHeader(pv.header)
			h2.Number = new(big.Int).Add(h2.Number, big.NewInt(d))
			c.top(h2, pv.proof, "pos")
		}
		for _, n := range []uint64{thistory.MergeBlockNumber, thistory.ShanghaiBlockNumber, thistory.CancunNumber} {
			h2 := types.CopyHeader(pv.header)
			h2.Number = new(big.Int).SetUint64(n)
			c.top(h2, pv.proof, "era")
		}
	}
	for _, v := range c03Vectors(filepath.Join(repo, "validation/testdata/block_proofs_bellatrix")) {
		c.vectorCases("bell", v, 14, 11)
	}
	for _, v := range c03Vectors(filepath.Join(repo, "validation/testdata/block_proofs_capella")) {
		c.vectorCases("cap", v, 13, 11)
	}
	for _, v := range c03Vectors(filepath.Join(repo, "validation/testdata/block_proofs_deneb")) {
		c.vectorCases("deneb", v, 13, 12)
	}

	// ---------- B. synthetic pre-merge chains: real accumulator, real prover, validator over the chain's own roots
	lengths := []int{1, 2, 3, 1 + r.Intn(512), 1 + r.Intn(512), 511, 512, c03Epoch - 1, c03Epoch, c03Epoch + 1, 2*c03Epoch + 5}
	if thorough {
		for i := 0; i < 12; i++ {
			lengths = append(lengths, 1+r.Intn(3*c03Epoch))
		}
		lengths = append(lengths, 6*c03Epoch)
	}
	chainID := 0
	var lastChain *c03Chain
	for li, n := range lengths {
		chainID++
		ch := c.newChain(chainID, 0, n)
		if ch == nil {
			continue
		}
		lastChain = ch
		// the validator's pre-merge table is exactly this chain's accumulator; a foreign epoch root after it in half the runs
		eps := append([][]byte{}, ch.roots...)
		if li%2 == 1 {
			eps = append(eps, rnd32(r))
		}
		c.setTables(eps, nil, nil, nil)
		pos := map[int]bool{0: true, n - 1: true, n / 2: true}
		for e := 0; e*c03Epoch < n; e++ {
			pos[e*c03Epoch] = true
			if (e+1)*c03Epoch-1 < n {
				pos[(e+1)*c03Epoch-1] = true
			}
		}
		extra := 4
		if thorough {
			extra = 40
		}
		for i := 0; i < extra; i++ {
			pos[r.Intn(n)] = true
		}
		var ps []int
		for p := range pos {
			ps = append(ps, p)
		}
		sort.Ints(ps)
		for k, p := range ps {
			h := ch.headers[p]
			proof := c.prove(ch, h)
			if proof == nil {
				continue
			}
			c.top(h, proof, "honest")
			if k == 0 {
				c.hwp(ch, h)
			}
			c.preCorruptions(h, proof, k < 2)
			// another header with the same number
			c.top(c03Header(r, h.Number.Uint64()), proof, "hash")
			// the proof of another position of the same epoch, and this header's proof presented for its neighbours
			if q := ps[(k+1)%len(ps)]; q != p && q/c03Epoch == p/c03Epoch {
				if pq := c.prove(ch, ch.headers[q]); pq != nil {
					c.top(h, pq, "pos")
				}
			}
			if p+1 < n {
				c.top(ch.headers[p+1], proof, "pos")
			}
			if p >= c03Epoch {
				c.top(ch.headers[p-c03Epoch], proof, "pos")
			}
		}
		// a position of the last epoch beyond the chain (zero-padded record)
		if n%c03Epoch != 0 {
			for _, q := range []int{n, (n/c03Epoch+1)*c03Epoch - 1} {
				h := c03Header(r, uint64(q))
				if proof := c.prove(ch, h); proof != nil {
					c.top(h, proof, "beyond")
				}
			}
		}
		// epochs beyond the accumulator: first one past the table, and far away
		h0 := ch.headers[0]
		p0 := c.prove(ch, h0)
		for _, e := range []uint64{uint64(len(eps)), uint64(len(eps)) + 1, 1896} {
			if e < uint64(len(eps)) {
				continue
			}
			hh := c03Header(r, e*c03Epoch+uint64(r.Intn(c03Epoch)))
			c.top(hh, p0, "oor")
		}
	}

	// every record index of one epoch (thorough), a stride of them (quick)
	if lastChain != nil {
		ch := lastChain
		c.setTables(ch.roots, nil, nil, nil)
		step := 257
		if thorough {
			step = 1
		}
		for p := c03Epoch; p < 2*c03Epoch && p < len(ch.headers); p += step {
			h := ch.headers[p]
			if proof := c.prove(ch, h); proof != nil {
				c.top(h, proof, "honest")
				if r.Intn(4) == 0 {
					c.top(h, flipBit(r, proof, 0, len(proof)), "sib")
				}
			}
		}
	}

	// the last pre-merge epoch inside the embedded accumulator: a synthetic chain up to the last pre-merge block
	// (through the real accumulator) and one that runs across the merge block
	for _, over := range []int{0, 3} {
		chainID++
		base := (thistory.MergeBlockNumber / c03Epoch) * c03Epoch
		n := int(thistory.MergeBlockNumber-base) + over
		ch := c.newChain(chainID, base, n)
		if ch == nil {
			continue
		}
		c.setTables(defEpochs, defRoots, fixSums, nil)
		e := int(base / c03Epoch)
		if e < len(c.epochs) {
			c.install("epochs", e, ch.roots[0])
		}
		for _, p := range []int{0, 1, n - 5, n - 4, n - 3, n - 2, n - 1, r.Intn(n)} {
			h := ch.headers[p]
			proof := c.prove(ch, h)
			kind := "honest"
			if h.Number.Uint64() >= thistory.MergeBlockNumber {
				kind = "era" // a hash-accumulator proof for a block that is not pre-merge
			}
			c.top(h, proof, kind)
			if kind == "honest" {
				c.preCorruptions(h, proof, false)
			}
		}
	}

	// ---------- C. synthetic post-merge eras: real beacon blocks, real batch/summary roots
	type eraCfg struct {
		layout      string // container layout: bell | cap | deneb
		nb, ne      int
		first, last uint64 // block numbers of the era
	}
	eras := []eraCfg{
		{"bell", 14, 11, thistory.MergeBlockNumber, thistory.ShanghaiBlockNumber - 1},
		{"cap", 13, 11, thistory.ShanghaiBlockNumber, thistory.CancunNumber - 1},
		{"deneb", 13, 12, thistory.CancunNumber, 1 << 40},
	}
	batchID := 0
	rounds := 2
	if thorough {
		rounds = 12
	}
	for round := 0; round < rounds; round++ {
		for ei, ec := range eras {
			batchID++
			positions := []int{0, c03Epoch - 1, 1, c03Epoch / 2, r.Intn(c03Epoch), r.Intn(c03Epoch), r.Intn(c03Epoch), r.Intn(c03Epoch)}
			seen := map[int]bool{}
			var ps []int
			for _, p := range positions {
				if !seen[p] {
					seen[p] = true
					ps = append(ps, p)
				}
			}
			numbers := make([]uint64, len(ps))
			for k := range ps {
				switch k {
				case 0:
					numbers[k] = ec.first
				case 1:
					numbers[k] = ec.last
				case 2:
					numbers[k] = ec.first + 1
				default:
					span := ec.last - ec.first
					if span > 1<<24 {
						span = 1 << 24
					}
					numbers[k] = ec.first + uint64(r.Int63n(int64(span)+1))
				}
			}
			b := c.newBatch(batchID, ec.layout, ps, numbers)

			// (i) small tables of the harness's own: the batch at index `at` of `tl` entries
			tl := 1 + r.Intn(4)
			at := r.Intn(tl)
			tbl := make([][]byte, tl)
			for i := range tbl {
				tbl[i] = rnd32(r)
			}
			var slotBase uint64
			if ec.layout == "bell" {
				tbl[at] = b.hroot
				c.setTables(nil, mkRoots(tbl), nil, nil)
				slotBase = uint64(at) * c03Epoch
			} else {
				tbl[at] = b.vroot
				c.setTables(nil, nil, mkSums(tbl, r), nil)
				slotBase = c03CapStart + uint64(at)*c03Epoch
			}
			for k, p := range ps {
				blk := b.blocks[p]
				slot := slotBase + uint64(p)
				cont := b.honest(ec.layout, p, slot)
				c.top(blk.header, cont, "honest")
				c.postCorruptions(blk.header, cont, ec.nb, ec.ne, k < 2)
				// another header with the same number
				c.top(c03Header(r, blk.header.Number.Uint64()), cont, "hash")
				// the branch of another position, under this slot; this block's proof under another block's slot
				q := ps[(k+1)%len(ps)]
				if q != p {
					c.top(blk.header, b.honest(ec.layout, q, slot), "pos")
					c.top(blk.header, b.honest(ec.layout, p, slotBase+uint64(q)), "slot")
					br := merkleBranch(b.layers, q)
					if ec.layout == "bell" {
						br = append(br, b.sroot)
					}
					c.top(blk.header, container(br, blk.root, blk.eproof, slotBase+uint64(q)), "pos")
				}
				// the same header hash claimed for the other eras: number moved across each boundary, container as is
				// and re-laid out for the layout of that era
				for ej, oc := range eras {
					if ej == ei {
						continue
					}
					for _, num := range []uint64{oc.first, oc.last} {
						if k >= 3 && r.Intn(3) != 0 {
							continue
						}
						h2 := types.CopyHeader(blk.header)
						h2.Number = new(big.Int).SetUint64(num)
						c.top(h2, cont, "era")
						br := merkleBranch(b.layers, p)
						for len(br) < oc.nb {
							br = append(br, b.sroot)
						}
						epf := append([][]byte{}, blk.eproof...)
						for len(epf) < oc.ne {
							epf = append(epf, make([]byte, 32))
						}
						c.top(h2, container(br[:oc.nb], blk.root, epf[:oc.ne], slot), "era")
					}
				}
				// pre-merge number with a post-merge container and vice versa
				if k < 2 {
					h2 := types.CopyHeader(blk.header)
					h2.Number = new(big.Int).SetUint64(thistory.MergeBlockNumber - 1)
					c.top(h2, cont, "era")
					c.top(h2, cont[:480], "era")
				}
			}
			// the skipped slot after a block commits to the same block root: its own opening is honest as well
			if b.dup > 0 {
				blk := b.blocks[b.dup]
				c.top(blk.header, b.honest(ec.layout, b.dup, slotBase+uint64(b.dup)), "honest")
				c.top(blk.header, b.honest(ec.layout, b.dup-1, slotBase+uint64(b.dup-1)), "honest")
				c.top(blk.header, b.honest(ec.layout, b.dup, slotBase+uint64(b.dup)+1), "slot")
			}
			// slots beyond the table through the honest container of position 0
			{
				blk := b.blocks[ps[0]]
				p := ps[0]
				var oor []uint64
				if ec.layout == "bell" {
					oor = []uint64{uint64(tl) * c03Epoch, uint64(tl)*c03Epoch + uint64(p), uint64(tl+1)*c03Epoch - 1, uint64(tl+7) * c03Epoch, 1 << 40, ^uint64(0)}
				} else {
					oor = []uint64{c03CapStart + uint64(tl)*c03Epoch, c03CapStart + uint64(tl+1)*c03Epoch - 1, c03CapStart - 1, c03CapStart - c03Epoch, 0, uint64(p), 1 << 40, ^uint64(0),
						^uint64(0) - c03Epoch + 1}
				}
				for _, s := range oor {
					c.top(blk.header, b.honest(ec.layout, p, s), "oor")
				}
				// last slot inside the table
				var lastIn uint64
				if ec.layout == "bell" {
					lastIn = uint64(tl)*c03Epoch - 1
				} else {
					lastIn = c03CapStart + uint64(tl)*c03Epoch - 1
				}
				c.top(blk.header, b.honest(ec.layout, p, lastIn), "slot")
			}

			// (ii) the embedded / fixture tables with the batch installed at their first and last index
			c.setTables(defEpochs, defRoots, fixSums, nil)
			var idxs []int
			if ec.layout == "bell" {
				idxs = []int{0, len(defRoots) - 1, r.Intn(len(defRoots))}
			} else {
				idxs = []int{0, len(fixSums) - 1, r.Intn(len(fixSums))}
			}
			for _, ix := range idxs {
				var base uint64
				if ec.layout == "bell" {
					c.install("roots", ix, b.hroot)
					base = uint64(ix) * c03Epoch
				} else {
					c.install("sums", ix, b.vroot)
					base = c03CapStart + uint64(ix)*c03Epoch
				}
				for k, p := range ps {
					if k >= 3 {
						break
					}
					blk := b.blocks[p]
					cont := b.honest(ec.layout, p, base+uint64(p))
					c.top(blk.header, cont, "honest")
					c.postCorruptions(blk.header, cont, ec.nb, ec.ne, false)
					// the neighbouring table entries do not commit to this block
					c.top(blk.header, b.honest(ec.layout, p, base+uint64(p)+c03Epoch), "slot")
					if base+uint64(p) >= c03Epoch {
						c.top(blk.header, b.honest(ec.layout, p, base+uint64(p)-c03Epoch), "slot")
					}
				}
			}
			// first slot past the embedded tables
			{
				blk := b.blocks[ps[0]]
				if ec.layout == "bell" {
					c.top(blk.header, b.honest(ec.layout, ps[0], uint64(len(defRoots))*c03Epoch), "oor")
					c.top(blk.header, b.honest(ec.layout, ps[0], uint64(len(defRoots))*c03Epoch+uint64(ps[0])), "oor")
				} else {
					c.top(blk.header, b.honest(ec.layout, ps[0], c03CapStart+uint64(len(fixSums))*c03Epoch), "oor")
					c.top(blk.header, b.honest(ec.layout, ps[0], c03CapStart-1), "oor")
				}
			}

			// (iii) summaries that come from the oracle (the production configuration starts with an empty cache)
			if ec.layout != "bell" {
				list := mkSums(tbl, r)
				short := mkSums(tbl[:at], r)
				p := ps[0]
				blk := b.blocks[p]
				cont := b.honest(ec.layout, p, slotBase+uint64(p))
				// empty cache, oracle knows the summary: accepted, and the cache is replaced
				c.setTables(nil, nil, nil, &c03Oracle{list: list})
				c.top(blk.header, cont, "honest")
				c.top(blk.header, cont, "honest")
				c.top(blk.header, flipBit(r, cont, 0, 32*ec.nb), "bsib")
				c.top(blk.header, b.honest(ec.layout, p, c03CapStart+uint64(tl)*c03Epoch+uint64(p)), "oor")
				// cache too short, oracle too short as well / failing / absent
				c.setTables(nil, nil, short, &c03Oracle{list: short})
				c.top(blk.header, cont, "oor")
				c.setTables(nil, nil, short, &c03Oracle{fail: true})
				c.top(blk.header, cont, "oor")
				c.setTables(nil, nil, short, nil)
				c.top(blk.header, cont, "oor")
				// cache too short, oracle long enough
				c.setTables(nil, nil, short, &c03Oracle{list: list})
				c.top(blk.header, cont, "honest")
				p1 := ps[1%len(ps)]
				c.top(b.blocks[p1].header, b.honest(ec.layout, p1, slotBase+uint64(p1)), "honest")
				// a lagging oracle: the validator already trusts the full list; a proof beyond every summary (rightly rejected) makes
				// it ask an oracle that knows FEWER summaries than it does - what it trusted before it still trusts afterwards
				if at > 0 {
					c.setTables(nil, nil, list, &c03Oracle{list: short})
					c.top(blk.header, cont, "honest")
					c.top(blk.header, b.honest(ec.layout, p, c03CapStart+uint64(tl)*c03Epoch+uint64(p)), "oor")
					c.top(blk.header, cont, "honest")
					c.top(b.blocks[p1].header, b.honest(ec.layout, p1, slotBase+uint64(p1)), "honest")
				}
			}
		}
	}
	o.Comment(fmt.Sprintf("validation cases=%d", c.nCase))
}
