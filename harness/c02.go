//go:build verif

package main

// C02 — history content is accepted only when bound to its key and the trusted roots.
//
// The harness drives the REAL HistoryValidator (history/validation.go) wired exactly as portal/node.go wires it: a
// validation.ValidationOracle over an in-process JSON-RPC client. Only the far end of that client is scripted: the
// `portal_historyGetContent` / `portal_beaconGetContent` methods answer what the case says a header source answers
// (honest, another block's header, a header forged to fit the content, garbage, an error …).
//
// For every case the harness also computes, with go-ethereum's own functions and independently of the validator, what the
// key and content *are*: the hash/number of the decoded header and the verdict of the C03 proof check on it, the
// transaction/uncle/withdrawal roots of the decoded body, the receipt root, and the same for the header the source
// answered. The Lean driver recomputes the verdict from those observations (model) and evaluates the property's clauses on
// the implementation's verdict (monitor).
//
// Ops:  vc   one ValidateContent call
//       orc  one ValidationOracle.GetBlockHeaderByHash call (what the oracle returns for a requested hash)
//       gate one Network.validateContents call over a recording store (what reaches ContentStorage.Put)
//       get  one GetBlockHeader/GetBlockBody/GetReceipts call (local store hit / remote lookup over a real two-node link)

import (
	"bytes"
	"encoding/binary"
	"encoding/hex"
	"encoding/json"
	"errors"
	"fmt"
	"github.com/ethereum/go-ethereum/crypto/kzg4844"
	"math/big"
	"math/rand"
	"net"
	"os"
	"path/filepath"
	"sort"
	"strings"
	"sync"
	"time"

	"github.com/ethereum/go-ethereum/common"
	"github.com/ethereum/go-ethereum/common/hexutil"
	"github.com/ethereum/go-ethereum/core/types"
	"github.com/ethereum/go-ethereum/p2p/enode"
	"github.com/ethereum/go-ethereum/rlp"
	"github.com/ethereum/go-ethereum/rpc"
	"github.com/ethereum/go-ethereum/trie"
	cache "github.com/go-pkgz/expirable-cache/v3"
	"github.com/holiman/uint256"
	"github.com/protolambda/zrnt/eth2/beacon/capella"
	"github.com/protolambda/zrnt/eth2/configs"
	"github.com/protolambda/ztyp/codec"
	"github.com/zen-eth/shisui/history"
	"github.com/zen-eth/shisui/portalwire"
	"github.com/zen-eth/shisui/storage"
	"github.com/zen-eth/shisui/types/beacon"
	ht "github.com/zen-eth/shisui/types/history"
	"github.com/zen-eth/shisui/validation"
)

func init() { runners["C02"] = runC02 }

// ---------------------------------------------------------------------------------------------- vectors

type kvEntry struct{ key, val []byte }

func repoDir() string {
	if d := os.Getenv("VERIF_REPO"); d != "" {
		return d
	}
	return "/repo"
}

// the repo's yaml vectors are flat lists of `- content_key: "0x.."` / `content_value: "0x.."`
func loadYamlEntries(path string) []kvEntry {
	data, err := os.ReadFile(path)
	if err != nil {
		panic(err)
	}
	var out []kvEntry
	var cur *kvEntry
	for _, line := range strings.Split(string(data), "\n") {
		s := strings.TrimSpace(line)
		s = strings.TrimPrefix(s, "- ")
		field := ""
		if strings.HasPrefix(s, "content_key:") {
			field = "k"
			s = strings.TrimPrefix(s, "content_key:")
		} else if strings.HasPrefix(s, "content_value:") {
			field = "v"
			s = strings.TrimPrefix(s, "content_value:")
		} else {
			continue
		}
		s = strings.Trim(strings.TrimSpace(s), "\"'")
		b, err := hexutil.Decode(s)
		if err != nil {
			if s == "0x" {
				b = []byte{}
			} else {
				panic(fmt.Sprintf("%s: %v", path, err))
			}
		}
		if field == "k" {
			out = append(out, kvEntry{key: b})
			cur = &out[len(out)-1]
		} else if cur != nil {
			cur.val = b
		}
	}
	return out
}

func loadJSONEntries(path string) []kvEntry {
	data, err := os.ReadFile(path)
	if err != nil {
		panic(err)
	}
	m := map[string]map[string]string{}
	if err := json.Unmarshal(data, &m); err != nil {
		panic(err)
	}
	names := make([]string, 0, len(m))
	for k := range m {
		names = append(names, k)
	}
	sort.Strings(names)
	var out []kvEntry
	for _, n := range names {
		v := m[n]
		val := v["content_value"]
		if val == "" {
			val = v["value"]
		}
		out = append(out, kvEntry{key: hexutil.MustDecode(v["content_key"]), val: hexutil.MustDecode(val)})
	}
	return out
}

// block: everything known about one block (genuine vector or synthetic)
type block struct {
	name     string
	hash     []byte
	header   *types.Header
	hwp      []byte // content under the header-by-hash key
	hwpNum   []byte // content under the header-by-number key (same bytes in the vectors)
	body     []byte // nil when the vector set has none
	receipts []byte
	hasBody  bool
	hasRcpt  bool
	era      string
	synth    bool
}

func eraOf(n uint64) string {
	switch {
	case n < ht.MergeBlockNumber:
		return "premerge"
	case n < ht.ShanghaiBlockNumber:
		return "bellatrix"
	case n < ht.CancunNumber:
		return "capella"
	default:
		return "deneb"
	}
}

func numKey(n uint64) []byte {
	k := make([]byte, 9)
	k[0] = byte(ht.BlockHeaderNumberType)
	binary.LittleEndian.PutUint64(k[1:], n)
	return k
}

func typedKey(t byte, payload []byte) []byte {
	return append([]byte{t}, payload...)
}

type world struct {
	blocks    []*block
	byHash    map[string]*block
	summaries []capella.HistoricalSummary
	sumBytes  []byte // encoded ForkedHistoricalSummariesWithProof served by the scripted portal_beaconGetContent
	pv        validation.HeaderValidator
	extra     [][]byte // stand-alone content without a header (cross-pairing material)
}

func (w *world) add(b *block) {
	if _, dup := w.byHash[string(b.hash)]; dup {
		old := w.byHash[string(b.hash)]
		if !old.hasBody && b.hasBody {
			old.body, old.hasBody = b.body, true
		}
		if !old.hasRcpt && b.hasRcpt {
			old.receipts, old.hasRcpt = b.receipts, true
		}
		return
	}
	w.blocks = append(w.blocks, b)
	w.byHash[string(b.hash)] = b
}

func decodeHWP(content []byte) (*types.Header, []byte, error) {
	// the SSZ container split HERE (not by the generated decoder under test): two 4-byte offsets, the first exactly 8, the second
	// between the first and the end; header = [8, o1) of at most 8192 bytes, proof = [o1, end) of at most 1024 bytes; the header
	// with go-ethereum's rlp directly
	if len(content) < 8 {
		return nil, nil, errors.New("short")
	}
	o0, o1 := int(binary.LittleEndian.Uint32(content)), int(binary.LittleEndian.Uint32(content[4:]))
	if o0 != 8 || o1 < o0 || o1 > len(content) || o1-o0 > 8192 || len(content)-o1 > 1024 {
		return nil, nil, errors.New("layout")
	}
	h := new(types.Header)
	if err := rlp.DecodeBytes(content[o0:o1], h); err != nil {
		return nil, nil, err
	}
	return h, append([]byte{}, content[o1:]...), nil
}

func (w *world) ingest(entries []kvEntry, src string) {
	// first pass: headers by hash; second: the rest, attached by hash / number
	for _, e := range entries {
		if len(e.key) == 33 && e.key[0] == byte(ht.BlockHeaderType) {
			h, _, err := decodeHWP(e.val)
			if err != nil {
				continue
			}
			if !bytes.Equal(h.Hash().Bytes(), e.key[1:]) {
				continue
			}
			w.add(&block{name: fmt.Sprintf("%d", h.Number.Uint64()), hash: h.Hash().Bytes(), header: h, hwp: e.val, hwpNum: e.val,
				era: eraOf(h.Number.Uint64())})
		}
	}
	for _, e := range entries {
		if len(e.key) == 0 {
			continue
		}
		switch e.key[0] {
		case byte(ht.BlockBodyType):
			if b := w.byHash[string(e.key[1:])]; b != nil && !b.hasBody {
				b.body, b.hasBody = e.val, true
			}
		case byte(ht.ReceiptsType):
			if b := w.byHash[string(e.key[1:])]; b != nil && !b.hasRcpt {
				b.receipts, b.hasRcpt = e.val, true
			}
		case byte(ht.BlockHeaderNumberType):
			if len(e.key) == 9 {
				n := binary.LittleEndian.Uint64(e.key[1:])
				for _, b := range w.blocks {
					if b.header.Number.Uint64() == n {
						if h, _, err := decodeHWP(e.val); err == nil && bytes.Equal(h.Hash().Bytes(), b.hash) {
							b.hwpNum = e.val
						}
					}
				}
			}
		}
	}
	_ = src
}

// loadComponentProof: one file of validation/testdata/block_proofs_bellatrix -> (execution block hash, encoded BlockProofHistoricalRoots)
func loadComponentProof(path string) ([]byte, []byte) {
	data, err := os.ReadFile(path)
	if err != nil {
		return nil, nil
	}
	p := &ht.BlockProofHistoricalRoots{}
	var hash []byte
	list := ""
	for _, line := range strings.Split(string(data), "\n") {
		s := strings.TrimSpace(line)
		unq := func(v string) string { return strings.Trim(strings.TrimSpace(v), "\"'") }
		switch {
		case strings.HasPrefix(s, "execution_block_header:"):
			hash = hexutil.MustDecode(unq(strings.TrimPrefix(s, "execution_block_header:")))
		case strings.HasPrefix(s, "execution_block_proof:"):
			list = "exec"
		case strings.HasPrefix(s, "beacon_block_proof:"):
			list = "beacon"
		case strings.HasPrefix(s, "beacon_block_root:"):
			p.BeaconBlockRoot = hexutil.MustDecode(unq(strings.TrimPrefix(s, "beacon_block_root:")))
		case strings.HasPrefix(s, "slot:"):
			fmt.Sscan(strings.TrimSpace(strings.TrimPrefix(s, "slot:")), &p.Slot)
		case strings.HasPrefix(s, "- "):
			v := hexutil.MustDecode(unq(strings.TrimPrefix(s, "- ")))
			if list == "exec" {
				p.ExecutionBlockProof = append(p.ExecutionBlockProof, v)
			} else if list == "beacon" {
				p.BeaconBlockProof = append(p.BeaconBlockProof, v)
			}
		}
	}
	out, err := p.MarshalSSZ()
	if err != nil {
		return nil, nil
	}
	return hash, out
}

func loadWorld(r *rand.Rand) *world {
	w := &world{byHash: map[string]*block{}}
	root := repoDir()
	files, _ := filepath.Glob(filepath.Join(root, "history/testdata/validation/*.yaml"))
	sort.Strings(files)
	for _, f := range files {
		w.ingest(loadYamlEntries(f), "validation")
	}
	w.ingest(loadJSONEntries(filepath.Join(root, "history/testdata/block_14764013.json")), "14764013")
	w.ingest(loadYamlEntries(filepath.Join(root, "types/history/testdata/header_with_proof.yaml")), "hwp")
	w.ingest(loadJSONEntries(filepath.Join(root, "validation/testdata/header_with_proofs.json")), "premerge")
	// the fork collection last: its header proofs are in a retired format (rejected), its bodies and receipts are genuine
	w.ingest(loadYamlEntries(filepath.Join(root, "history/testdata/test_data_collection_of_forks_blocks.yaml")), "forks")
	// merge-to-Capella era: the proofs of validation/testdata/block_proofs_bellatrix in the container layout of the code
	// (the three vectors of header_with_proof.yaml carry the two branches in the other order and are rejected; they stay
	// in the pool as cross-pairing material)
	pfiles, _ := filepath.Glob(filepath.Join(root, "validation/testdata/block_proofs_bellatrix/*.yaml"))
	sort.Strings(pfiles)
	for _, f := range pfiles {
		hash, proof := loadComponentProof(f)
		if b := w.byHash[string(hash)]; b != nil && proof != nil {
			w.extra = append(w.extra, b.hwp)
			b.hwp = reencodeHWP(b.header, proof)
			b.hwpNum = b.hwp
		}
	}
	if b, err := os.ReadFile(filepath.Join(root, "history/testdata/shanghaibody.txt")); err == nil {
		if v, err := hexutil.Decode(strings.TrimSpace(string(b))); err == nil {
			w.extra = append(w.extra, v)
		}
	}
	// trusted summaries: the repo's fixture, served through the scripted portal_beaconGetContent
	sb, err := os.ReadFile(filepath.Join(root, "validation/testdata/beacon_data/historical_summaries_at_slot_11476992.ssz"))
	if err != nil {
		panic(err)
	}
	sums := new(capella.HistoricalSummaries)
	if err := sums.Deserialize(configs.Mainnet, codec.NewDecodingReader(bytes.NewReader(sb), uint64(len(sb)))); err != nil {
		panic(err)
	}
	w.summaries = []capella.HistoricalSummary(*sums)
	f := beacon.ForkedHistoricalSummariesWithProof{
		HistoricalSummariesWithProof: beacon.HistoricalSummariesWithProof{EPOCH: 0, HistoricalSummaries: *sums},
	}
	var buf bytes.Buffer
	if err := f.Serialize(configs.Mainnet, codec.NewEncodingWriter(&buf)); err != nil {
		panic(err)
	}
	w.sumBytes = buf.Bytes()
	w.pv = validation.NewHeaderValidatorWithHistorySummaries(w.summaries)
	return w
}

// ---------------------------------------------------------------------------------------------- synthetic blocks

func randHash(r *rand.Rand) common.Hash {
	var h common.Hash
	r.Read(h[:])
	return h
}

func randTx(r *rand.Rand) *types.Transaction {
	to := common.BytesToAddress(randHash(r).Bytes())
	data := make([]byte, r.Intn(40))
	r.Read(data)
	switch r.Intn(4) {
	case 3:
		// a blob transaction in its consensus form (no sidecar): the one transaction type with a second accepted encoding
		var hashes []common.Hash
		for k := 1 + r.Intn(2); k > 0; k-- {
			h := randHash(r)
			h[0] = 1
			hashes = append(hashes, h)
		}
		return types.NewTx(&types.BlobTx{ChainID: uint256.NewInt(1), Nonce: uint64(r.Intn(1000)), GasTipCap: uint256.NewInt(uint64(r.Intn(1e9))),
			GasFeeCap: uint256.NewInt(uint64(1 + r.Intn(1e9))), Gas: 21000 + uint64(r.Intn(1e5)), To: to, Value: uint256.NewInt(uint64(r.Intn(1e9))), Data: data,
			BlobFeeCap: uint256.NewInt(uint64(1 + r.Intn(1e9))), BlobHashes: hashes,
			V: uint256.NewInt(uint64(r.Intn(2))), R: uint256.NewInt(1 + uint64(r.Intn(1e9))), S: uint256.NewInt(1 + uint64(r.Intn(1e9)))})
	case 0:
		return types.NewTx(&types.LegacyTx{Nonce: uint64(r.Intn(1000)), GasPrice: big.NewInt(int64(1 + r.Intn(1e9))), Gas: 21000 + uint64(r.Intn(1e5)),
			To: &to, Value: big.NewInt(int64(r.Intn(1e9))), Data: data, V: big.NewInt(37 + int64(r.Intn(2))), R: big.NewInt(1 + int64(r.Intn(1e9))), S: big.NewInt(1 + int64(r.Intn(1e9)))})
	case 1:
		return types.NewTx(&types.DynamicFeeTx{ChainID: big.NewInt(1), Nonce: uint64(r.Intn(1000)), GasTipCap: big.NewInt(int64(r.Intn(1e9))), GasFeeCap: big.NewInt(int64(1 + r.Intn(1e9))),
			Gas: 21000 + uint64(r.Intn(1e5)), To: &to, Value: big.NewInt(int64(r.Intn(1e9))), Data: data, V: big.NewInt(int64(r.Intn(2))), R: big.NewInt(1 + int64(r.Intn(1e9))), S: big.NewInt(1 + int64(r.Intn(1e9)))})
	default:
		return types.NewTx(&types.AccessListTx{ChainID: big.NewInt(1), Nonce: uint64(r.Intn(1000)), GasPrice: big.NewInt(int64(1 + r.Intn(1e9))), Gas: 21000 + uint64(r.Intn(1e5)),
			To: &to, Value: big.NewInt(int64(r.Intn(1e9))), Data: data, V: big.NewInt(int64(r.Intn(2))), R: big.NewInt(1 + int64(r.Intn(1e9))), S: big.NewInt(1 + int64(r.Intn(1e9)))})
	}
}

func randReceipt(r *rand.Rand, cum uint64, typ uint8) *types.Receipt {
	rc := &types.Receipt{Type: typ, Status: uint64(r.Intn(2)), CumulativeGasUsed: cum}
	for i := r.Intn(3); i > 0; i-- {
		l := &types.Log{Address: common.BytesToAddress(randHash(r).Bytes())}
		for j := r.Intn(3); j > 0; j-- {
			l.Topics = append(l.Topics, randHash(r))
		}
		l.Data = make([]byte, r.Intn(40))
		r.Read(l.Data)
		rc.Logs = append(rc.Logs, l)
	}
	rc.Bloom = types.CreateBloom(rc)
	return rc
}

func deriveTx(txs []*types.Transaction) common.Hash {
	return types.DeriveSha(types.Transactions(txs), trie.NewStackTrie(nil))
}

// synthBlock builds a self-consistent block: header roots = roots of body/receipts. Its header proof is random bytes, so
// the header itself is never acceptable content, but it is a perfectly good *header source* for bodies and receipts.
func synthBlock(r *rand.Rand, name string, number uint64, nTx, nUncles int, withdrawals int) *block {
	var txs []*types.Transaction
	var rcs []*types.Receipt
	cum := uint64(0)
	for i := 0; i < nTx; i++ {
		tx := randTx(r)
		txs = append(txs, tx)
		cum += 21000 + uint64(r.Intn(50000))
		rcs = append(rcs, randReceipt(r, cum, tx.Type()))
	}
	var uncles []*types.Header
	for i := 0; i < nUncles; i++ {
		uncles = append(uncles, &types.Header{ParentHash: randHash(r), Number: new(big.Int).SetUint64(number - 1), Difficulty: big.NewInt(int64(1 + r.Intn(1e6))),
			GasLimit: 30000000, Time: uint64(r.Intn(1e9)), Extra: []byte("u")})
	}
	h := &types.Header{ParentHash: randHash(r), Coinbase: common.BytesToAddress(randHash(r).Bytes()), Root: randHash(r),
		Number: new(big.Int).SetUint64(number), Difficulty: big.NewInt(int64(r.Intn(1e6))), GasLimit: 30000000, GasUsed: cum, Time: uint64(r.Intn(2e9)),
		Extra: []byte("verif-" + name)}
	h.UncleHash = types.CalcUncleHash(uncles)
	h.TxHash = deriveTx(txs)
	h.ReceiptHash = types.DeriveSha(types.Receipts(rcs), trie.NewStackTrie(nil))
	body := &types.Body{Transactions: txs, Uncles: uncles}
	if number >= 12965000 {
		h.BaseFee = big.NewInt(int64(1 + r.Intn(1e9)))
	}
	var wds []*types.Withdrawal
	if withdrawals >= 0 {
		wds = []*types.Withdrawal{}
		for i := 0; i < withdrawals; i++ {
			wds = append(wds, &types.Withdrawal{Index: uint64(r.Intn(1e6)), Validator: uint64(r.Intn(1e6)), Address: common.BytesToAddress(randHash(r).Bytes()), Amount: uint64(r.Intn(1e9))})
		}
		wh := types.DeriveSha(types.Withdrawals(wds), trie.NewStackTrie(nil))
		h.WithdrawalsHash = &wh
		if h.BaseFee == nil {
			h.BaseFee = big.NewInt(7)
		}
		body.Withdrawals = wds
	}
	hb, err := rlp.EncodeToBytes(h)
	if err != nil {
		panic(err)
	}
	proof := make([]byte, 32*(1+r.Intn(8)))
	r.Read(proof)
	hwp, err := (&ht.BlockHeaderWithProof{Header: hb, Proof: proof}).MarshalSSZ()
	if err != nil {
		panic(err)
	}
	b := &block{name: name, hash: h.Hash().Bytes(), header: h, hwp: hwp, hwpNum: hwp, era: eraOf(number), synth: true, hasBody: true, hasRcpt: true}
	b.body = encodeBody(txs, uncles, wds)
	if len(rcs) == 0 {
		b.receipts = []byte{}
	} else {
		b.receipts, err = history.EncodeReceipts(rcs)
		if err != nil {
			panic(err)
		}
	}
	return b
}

// encodeBody: wds == nil → legacy container, otherwise the Shanghai container (also for zero withdrawals)
func encodeBody(txs []*types.Transaction, uncles []*types.Header, wds []*types.Withdrawal) []byte {
	var txb [][]byte
	for _, tx := range txs {
		b, err := tx.MarshalBinary()
		if err != nil {
			panic(err)
		}
		txb = append(txb, b)
	}
	if uncles == nil {
		uncles = []*types.Header{}
	}
	ub, err := rlp.EncodeToBytes(uncles)
	if err != nil {
		panic(err)
	}
	return encodeBodyRaw(txb, ub, wds != nil, encodeWds(wds))
}

func encodeWds(wds []*types.Withdrawal) [][]byte {
	var out [][]byte
	for _, w := range wds {
		b, err := rlp.EncodeToBytes(w)
		if err != nil {
			panic(err)
		}
		out = append(out, b)
	}
	return out
}

func encodeBodyRaw(txb [][]byte, ub []byte, shanghai bool, wdb [][]byte) []byte {
	var out []byte
	var err error
	if shanghai {
		out, err = (&history.PortalBlockBodyShanghai{Transactions: txb, Uncles: ub, Withdrawals: wdb}).MarshalSSZ()
	} else {
		out, err = (&history.BlockBodyLegacy{Transactions: txb, Uncles: ub}).MarshalSSZ()
	}
	if err != nil {
		panic(err)
	}
	return out
}

// ---------------------------------------------------------------------------------------------- scripted far end of the oracle's RPC client

type resp struct {
	hex string // what portal_historyGetContent returns in ContentInfo.Content
	err bool   // … or a JSON-RPC error
}

func okResp(b []byte) resp { return resp{hex: hexutil.Encode(b)} }

type farEnd struct {
	mu       sync.Mutex
	script   map[string]resp // request key (hex) -> answer
	fallback func(key []byte) resp
	sums     []byte
	calls    int
}

type ContentInfo = portalwire.ContentInfo

func (f *farEnd) HistoryGetContent(keyHex string) (*ContentInfo, error) {
	f.mu.Lock()
	defer f.mu.Unlock()
	f.calls++
	key, _ := hexutil.Decode(keyHex)
	if keyHex == "0x" {
		key = []byte{}
	}
	rp, ok := f.script[hex.EncodeToString(key)]
	if !ok {
		if f.fallback == nil {
			return nil, errors.New("content not found")
		}
		rp = f.fallback(key)
	}
	if rp.err {
		return nil, errors.New("content not found")
	}
	return &ContentInfo{Content: rp.hex}, nil
}

func (f *farEnd) BeaconGetContent(keyHex string) (*ContentInfo, error) {
	return &ContentInfo{Content: hexutil.Encode(f.sums)}, nil
}

func (f *farEnd) set(script map[string]resp, fallback func([]byte) resp) {
	f.mu.Lock()
	f.script, f.fallback = script, fallback
	f.mu.Unlock()
}

// answer: what the far end answers for a request key right now (used for the observation)
func (f *farEnd) answer(key []byte) resp {
	f.mu.Lock()
	defer f.mu.Unlock()
	if rp, ok := f.script[hex.EncodeToString(key)]; ok {
		return rp
	}
	if f.fallback != nil {
		return f.fallback(key)
	}
	return resp{err: true}
}

type rig struct {
	w      *world
	far    *farEnd
	oracle *validation.ValidationOracle
	val    *history.HistoryValidator
}

func newRig(w *world) *rig {
	far := &farEnd{sums: w.sumBytes}
	srv := rpc.NewServer()
	if err := srv.RegisterName("portal", far); err != nil {
		panic(err)
	}
	client := rpc.DialInProc(srv)
	oracle := validation.NewOracle(client)
	return &rig{w: w, far: far, oracle: oracle, val: history.NewHistoryValidator(oracle)}
}

// honest source: the genuine header-with-proof of the block with the requested hash, nothing for anything else
func (w *world) honest(key []byte) resp {
	if len(key) == 33 && key[0] == 0 {
		if b := w.byHash[string(key[1:])]; b != nil {
			return okResp(b.hwp)
		}
	}
	return resp{err: true}
}

// ---------------------------------------------------------------------------------------------- observations

func c02h32(b []byte) string { return hex.EncodeToString(b) }

func obsHeader(h *types.Header) string {
	wd := "-"
	if h.WithdrawalsHash != nil {
		wd = c02h32(h.WithdrawalsHash.Bytes())
	}
	return fmt.Sprintf("%s:%d:%s:%s:%s:%s", c02h32(h.Hash().Bytes()), h.Number.Uint64(), c02h32(h.TxHash.Bytes()), c02h32(h.UncleHash.Bytes()), wd, c02h32(h.ReceiptHash.Bytes()))
}

func obsResp(rp resp) string {
	if rp.err {
		return "none"
	}
	data, err := hexutil.Decode(rp.hex)
	if err != nil {
		return "none"
	}
	h, _, err := decodeHWP(data)
	if err != nil {
		return "none"
	}
	return obsHeader(h)
}

func (w *world) proofVerdict(h *types.Header, proof []byte) (v string) {
	defer func() {
		if e := recover(); e != nil {
			v = "panic"
		}
	}()
	if err := w.pv.ValidateHeaderAndProof(h, proof); err != nil {
		return "err"
	}
	return "ok"
}

var emptyRoot = types.EmptyRootHash.Bytes()

// observe: what the content decodes to under a key with this selector, computed with go-ethereum only
func (w *world) observe(key, content []byte) (o string) {
	defer func() {
		if e := recover(); e != nil {
			o = "undec"
		}
	}()
	if len(key) == 0 {
		return "undec"
	}
	switch ht.ContentType(key[0]) {
	case ht.BlockHeaderType, ht.BlockHeaderNumberType:
		h, proof, err := decodeHWP(content)
		if err != nil {
			return "undec"
		}
		return fmt.Sprintf("hdr:%s:%d:%s", c02h32(h.Hash().Bytes()), h.Number.Uint64(), w.proofVerdict(h, proof))
	case ht.BlockBodyType:
		// the SSZ container (the generated decoder, checked by C14) is opened here; every field is then decoded with
		// go-ethereum only - NOT with the repository's DecodePortalBlockBodyBytes, whose leniency is what is being judged
		rb, ok := decodeRawBody(content)
		if !ok {
			return "undec"
		}
		var txs []*types.Transaction
		for _, raw := range rb.txs {
			tx := new(types.Transaction)
			if tx.UnmarshalBinary(raw) != nil {
				return "undec"
			}
			txs = append(txs, tx)
		}
		var uncles []*types.Header
		if rlp.DecodeBytes(rb.uncles, &uncles) != nil {
			return "undec"
		}
		wd := "-"
		if rb.shanghai {
			wds := make([]*types.Withdrawal, 0, len(rb.wds))
			for _, raw := range rb.wds {
				x := new(types.Withdrawal)
				if rlp.DecodeBytes(raw, x) != nil {
					return "undec"
				}
				wds = append(wds, x)
			}
			wd = c02h32(types.DeriveSha(types.Withdrawals(wds), trie.NewStackTrie(nil)).Bytes())
		}
		return fmt.Sprintf("body:%s:%s:%s", c02h32(deriveTx(txs).Bytes()), c02h32(types.CalcUncleHash(uncles).Bytes()), wd)
	case ht.ReceiptsType:
		if len(content) == 0 {
			return fmt.Sprintf("rcpt:%s:1", c02h32(emptyRoot))
		}
		pr := new(history.PortalReceipts)
		if pr.UnmarshalSSZ(content) != nil {
			return "undec"
		}
		var rcs []*types.Receipt
		for _, raw := range pr.Receipts {
			rc := new(types.Receipt)
			if rc.UnmarshalBinary(raw) != nil {
				return "undec"
			}
			rcs = append(rcs, rc)
		}
		return fmt.Sprintf("rcpt:%s:0", c02h32(types.DeriveSha(types.Receipts(rcs), trie.NewStackTrie(nil)).Bytes()))
	}
	return "undec"
}

func (rg *rig) validate(key, content []byte) (out string) {
	defer func() {
		if e := recover(); e != nil {
			out = "panic"
		}
	}()
	if err := rg.val.ValidateContent(key, content); err != nil {
		// offered again at once (a retry, the same offer from a second peer): accepted if either call accepts
		if rg.val.ValidateContent(key, content) == nil {
			return "ok"
		}
		return "err"
	}
	return "ok"
}

// obsLine: the observation tokens of one (key, content) pair under the far end as currently scripted
func (rg *rig) obsLine(key, content []byte) string {
	src := "-"
	truth := "-"
	if len(key) > 0 && (key[0] == byte(ht.BlockBodyType) || key[0] == byte(ht.ReceiptsType)) {
		src = obsResp(rg.far.answer(typedKey(0, key[1:])))
		if b := rg.w.byHash[string(key[1:])]; b != nil {
			truth = obsHeader(b.header)
			if truth == src {
				truth = "="
			}
		}
	}
	return fmt.Sprintf("key=%s c=%s src=%s truth=%s", hx(key), rg.w.observe(key, content), src, truth)
}

type caseMeta struct {
	vec, kt, mut, sk string
	twin             bool
}

func (rg *rig) vc(o *Out, key, content []byte, m caseMeta) {
	line := rg.obsLine(key, content)
	out := rg.validate(key, content)
	o.Case(fmt.Sprintf("vc %s vec=%s kt=%s mut=%s sk=%s", line, m.vec, m.kt, m.mut, m.sk), out)
	// the validator is one long-lived object: whatever a call leaves behind must not help the next one. Right after a
	// header was judged under its hash key the very same bytes are offered under the number key they name (a bridge
	// offers the two back to back).
	if len(key) == 33 && key[0] == byte(ht.BlockHeaderType) && !m.twin {
		if h, _, err := decodeHWP(content); err == nil && h.Number != nil && h.Number.IsUint64() {
			m2 := m
			m2.kt, m2.mut, m2.twin = "number", m.mut+"+twin", true
			rg.vc(o, numKey(h.Number.Uint64()), content, m2)
		}
	}
}

// ---------------------------------------------------------------------------------------------- mutations

type mutation struct {
	name string
	data []byte
}

func clone(b []byte) []byte { return append([]byte{}, b...) }

// byteMutations: n random single-bit, byte, truncation, extension, insertion, deletion and offset mutations
func byteMutations(r *rand.Rand, c []byte, n int) []mutation {
	var out []mutation
	add := func(name string, d []byte) { out = append(out, mutation{name, d}) }
	if len(c) == 0 {
		add("ext", []byte{0})
		add("ext", []byte{0, 0, 0, 0})
		add("ext", []byte{4, 0, 0, 0})
		b := make([]byte, 1+r.Intn(40))
		r.Read(b)
		add("rand", b)
		return out
	}
	for i := 0; i < n; i++ {
		d := clone(c)
		switch r.Intn(9) {
		case 0, 1:
			p := r.Intn(len(d))
			d[p] ^= 1 << uint(r.Intn(8))
			add("bit", d)
		case 2:
			p := r.Intn(len(d))
			nv := byte(r.Intn(256))
			if nv == d[p] {
				nv++
			}
			d[p] = nv
			add("byte", d)
		case 3:
			cut := r.Intn(len(d))
			switch r.Intn(4) {
			case 0:
				cut = len(d) - 1
			case 1:
				cut = r.Intn(min(len(d), 16))
			}
			add("trunc", d[:cut])
		case 4:
			ext := make([]byte, 1+r.Intn(40))
			if r.Intn(2) == 0 {
				r.Read(ext)
			}
			add("ext", append(d, ext...))
		case 5:
			p := r.Intn(len(d) + 1)
			d = append(d[:p], append([]byte{byte(r.Intn(256))}, d[p:]...)...)
			add("ins", d)
		case 6:
			p := r.Intn(len(d))
			add("del", append(d[:p], d[p+1:]...))
		case 7:
			// the SSZ offset words at the front of every container
			p := 4 * r.Intn(min(3, len(d)/4+1))
			if p+4 <= len(d) {
				v := binary.LittleEndian.Uint32(d[p:])
				v += uint32([]int{1, -1, 4, -4, 32}[r.Intn(5)])
				binary.LittleEndian.PutUint32(d[p:], v)
			}
			add("offset", d)
		case 8:
			// a bit in the first 64 bytes (offsets, rlp prefixes) or the last 64 (slot, proof tail)
			var p int
			if r.Intn(2) == 0 {
				p = r.Intn(min(64, len(d)))
			} else {
				p = len(d) - 1 - r.Intn(min(64, len(d)))
			}
			d[p] ^= 1 << uint(r.Intn(8))
			add("bit", d)
		}
	}
	add("zero", []byte{})
	rb := make([]byte, 1+r.Intn(200))
	r.Read(rb)
	add("rand", rb)
	// a mutation that happens to leave the bytes as they were is not one
	kept := out[:0]
	for _, m := range out {
		if !bytes.Equal(m.data, c) {
			kept = append(kept, m)
		}
	}
	return kept
}

func reencodeHWP(h *types.Header, proof []byte) []byte {
	hb, err := rlp.EncodeToBytes(h)
	if err != nil {
		return nil
	}
	out, err := (&ht.BlockHeaderWithProof{Header: hb, Proof: proof}).MarshalSSZ()
	if err != nil {
		return nil
	}
	return out
}

// headerFieldMutations: re-encoded header-with-proof contents with one field of the header or of the proof changed
func (w *world) headerFieldMutations(r *rand.Rand, b *block) []mutation {
	var out []mutation
	h0, proof, err := decodeHWP(b.hwp)
	if err != nil {
		return nil
	}
	add := func(name string, h *types.Header, p []byte) {
		if d := reencodeHWP(h, p); d != nil {
			out = append(out, mutation{name, d})
		}
	}
	cp := func() *types.Header { return types.CopyHeader(h0) }
	add("f-reencode", cp(), proof) // identical re-encoding: must still be accepted
	h := cp()
	h.Number = new(big.Int).Add(h.Number, big.NewInt(1))
	add("f-number+1", h, proof)
	h = cp()
	h.Number = new(big.Int).Add(h.Number, new(big.Int).Lsh(big.NewInt(1), 64))
	add("f-number+2^64", h, proof)
	for _, n := range []uint64{0, ht.MergeBlockNumber - 1, ht.MergeBlockNumber, ht.ShanghaiBlockNumber, ht.CancunNumber} {
		h = cp()
		h.Number = new(big.Int).SetUint64(n)
		add("f-number-era", h, proof)
	}
	h = cp()
	h.TxHash = randHash(r)
	add("f-txroot", h, proof)
	h = cp()
	h.ReceiptHash = randHash(r)
	add("f-receiptroot", h, proof)
	h = cp()
	h.UncleHash = randHash(r)
	add("f-uncleroot", h, proof)
	h = cp()
	h.Extra = append(clone(h.Extra), 1)
	add("f-extra", h, proof)
	h = cp()
	h.Time++
	add("f-time", h, proof)
	if h0.WithdrawalsHash != nil {
		h = cp()
		h.WithdrawalsHash = nil
		h.BlobGasUsed, h.ExcessBlobGas, h.ParentBeaconRoot, h.RequestsHash = nil, nil, nil, nil
		add("f-wdroot-nil", h, proof)
		h = cp()
		x := randHash(r)
		h.WithdrawalsHash = &x
		add("f-wdroot", h, proof)
	}
	// proof-side: other lengths, another block's proof, slot changes (the last 8 bytes of the post-merge containers)
	add("p-empty", cp(), []byte{})
	if len(proof) >= 32 {
		add("p-short32", cp(), proof[:len(proof)-32])
		add("p-short1", cp(), proof[:len(proof)-1])
	}
	add("p-long32", cp(), append(clone(proof), make([]byte, 32)...))
	other := w.blocks[r.Intn(len(w.blocks))]
	if _, op, err := decodeHWP(other.hwp); err == nil {
		add("p-other", cp(), op)
	}
	if b.era != "premerge" && len(proof) >= 8 {
		for _, delta := range []uint64{1, 8192, 1 << 20, 1 << 40, ^uint64(0)} {
			p := clone(proof)
			s := binary.LittleEndian.Uint64(p[len(p)-8:])
			binary.LittleEndian.PutUint64(p[len(p)-8:], s+delta)
			add(fmt.Sprintf("p-slot+%d", delta), cp(), p)
		}
		p := clone(proof)
		binary.LittleEndian.PutUint64(p[len(p)-8:], 0)
		add("p-slot=0", cp(), p)
	}
	return out
}

type rawBody struct {
	txs      [][]byte
	uncles   []byte
	shanghai bool
	wds      [][]byte
}

func decodeRawBody(c []byte) (*rawBody, bool) {
	s := new(history.PortalBlockBodyShanghai)
	if err := s.UnmarshalSSZ(c); err == nil {
		return &rawBody{txs: s.Transactions, uncles: s.Uncles, shanghai: true, wds: s.Withdrawals}, true
	}
	l := new(history.BlockBodyLegacy)
	if err := l.UnmarshalSSZ(c); err == nil {
		return &rawBody{txs: l.Transactions, uncles: l.Uncles}, true
	}
	return nil, false
}

func (b *rawBody) enc() []byte { return encodeBodyRaw(b.txs, b.uncles, b.shanghai, b.wds) }
func (b *rawBody) cp() *rawBody {
	n := &rawBody{uncles: clone(b.uncles), shanghai: b.shanghai}
	for _, t := range b.txs {
		n.txs = append(n.txs, clone(t))
	}
	for _, t := range b.wds {
		n.wds = append(n.wds, clone(t))
	}
	return n
}

func safeEnc(f func() []byte) (out []byte) {
	defer func() {
		if e := recover(); e != nil {
			out = nil
		}
	}()
	return f()
}

// bodyFieldMutations: structurally valid bodies that differ from the genuine one in one field
func (w *world) bodyFieldMutations(r *rand.Rand, c []byte) []mutation {
	rb, ok := decodeRawBody(c)
	if !ok {
		return nil
	}
	var out []mutation
	add := func(name string, b *rawBody) {
		if d := safeEnc(b.enc); d != nil {
			out = append(out, mutation{name, d})
		}
	}
	add("f-reencode", rb.cp())
	if len(rb.txs) > 0 {
		b := rb.cp()
		b.txs = b.txs[:len(b.txs)-1]
		add("f-tx-drop", b)
		b = rb.cp()
		b.txs = append(b.txs, clone(b.txs[0]))
		add("f-tx-dup", b)
		b = rb.cp()
		b.txs = nil
		add("f-tx-none", b)
	}
	if len(rb.txs) > 1 {
		b := rb.cp()
		b.txs[0], b.txs[1] = b.txs[1], b.txs[0]
		add("f-tx-swap", b)
	}
	// a blob transaction re-encoded in its OTHER accepted form (the transaction-pool form that carries blobs, commitments and
	// proofs next to the transaction): the same transaction hash, other bytes - and not what the header's root commits to
	for i, t := range rb.txs {
		if len(t) == 0 || t[0] != types.BlobTxType {
			continue
		}
		tx := new(types.Transaction)
		if tx.UnmarshalBinary(t) != nil || tx.BlobTxSidecar() != nil {
			continue
		}
		for k, sc := range []*types.BlobTxSidecar{
			{Blobs: []kzg4844.Blob{}, Commitments: []kzg4844.Commitment{}, Proofs: []kzg4844.Proof{}},
			{Blobs: []kzg4844.Blob{{1, 2, 3}}, Commitments: []kzg4844.Commitment{{0xc0, 0xff, 0xee}}, Proofs: []kzg4844.Proof{{0xde, 0xad}}},
		} {
			if k == 1 && r.Intn(4) != 0 {
				continue // a 128 kB blob: only now and then
			}
			if nb, err := tx.WithBlobTxSidecar(sc).MarshalBinary(); err == nil && !bytes.Equal(nb, t) {
				b := rb.cp()
				b.txs[i] = nb
				add("f-tx-pool-form", b)
			}
		}
		break
	}
	{
		b := rb.cp()
		tx, _ := randTx(r).MarshalBinary()
		b.txs = append(b.txs, tx)
		add("f-tx-add", b)
	}
	{
		b := rb.cp()
		u, _ := rlp.EncodeToBytes([]*types.Header{{ParentHash: randHash(r), Number: big.NewInt(5), Difficulty: big.NewInt(1)}})
		b.uncles = u
		add("f-uncles", b)
		b = rb.cp()
		b.uncles = []byte{0xc0}
		add("f-uncles-none", b)
		// an uncles field that is not the RLP of a header list at all, and every single-bit flip of a short genuine one
		for _, g := range [][]byte{{}, {0x80}, {0xc1}, {0xc0, 0xc0}, {0xde, 0xad, 0xbe, 0xef}, {0xc1, 0x80}, {0xf8}} {
			b = rb.cp()
			b.uncles = g
			add("f-uncles-garbage", b)
		}
		if len(rb.uncles) <= 2 {
			for i := 0; i < len(rb.uncles)*8; i++ {
				b = rb.cp()
				b.uncles[i/8] ^= 1 << uint(i%8)
				add("f-uncles-bit", b)
			}
		}
		if len(rb.txs) > 0 {
			b = rb.cp()
			b.txs[len(b.txs)-1] = []byte{0xc0}
			add("f-tx-garbage", b)
		}
		if rb.shanghai && len(rb.wds) > 0 {
			b = rb.cp()
			b.wds[len(b.wds)-1] = []byte{0x80}
			add("f-wd-garbage", b)
			b = rb.cp()
			b.wds[0] = []byte{0xc1}
			add("f-wd-garbage", b)
		}
	}
	if rb.shanghai {
		b := rb.cp()
		b.shanghai, b.wds = false, nil
		add("f-wd-strip", b) // Shanghai body re-encoded without its withdrawals list (legacy container)
		b = rb.cp()
		b.wds = nil
		add("f-wd-empty", b)
		if len(rb.wds) > 0 {
			b = rb.cp()
			b.wds = b.wds[:len(b.wds)-1]
			add("f-wd-drop", b)
			b = rb.cp()
			wd, _ := rlp.EncodeToBytes(&types.Withdrawal{Index: 1, Validator: 2, Address: common.Address{3}, Amount: 4})
			b.wds[0] = wd
			add("f-wd-change", b)
		}
	} else {
		b := rb.cp()
		b.shanghai = true
		add("f-wd-add-empty", b) // legacy body re-encoded as a Shanghai container with an empty withdrawals list
		b = rb.cp()
		b.shanghai = true
		wd, _ := rlp.EncodeToBytes(&types.Withdrawal{Index: 1, Validator: 2, Address: common.Address{3}, Amount: 4})
		b.wds = [][]byte{wd}
		add("f-wd-add", b)
	}
	return out
}

func (w *world) receiptFieldMutations(r *rand.Rand, c []byte) []mutation {
	var out []mutation
	add := func(name string, items [][]byte) {
		d, err := (&history.PortalReceipts{Receipts: items}).MarshalSSZ()
		if err == nil {
			out = append(out, mutation{name, d})
		}
	}
	var items [][]byte
	if len(c) > 0 {
		p := new(history.PortalReceipts)
		if err := p.UnmarshalSSZ(c); err != nil {
			return nil
		}
		items = p.Receipts
		add("f-reencode", items)
	}
	cp := func() [][]byte {
		var n [][]byte
		for _, it := range items {
			n = append(n, clone(it))
		}
		return n
	}
	if len(items) > 0 {
		add("f-rc-drop", cp()[:len(items)-1])
		add("f-rc-dup", append(cp(), clone(items[0])))
		n := cp()
		rc := new(types.Receipt)
		if err := rc.UnmarshalBinary(n[0]); err == nil {
			rc.Status ^= 1
			rc.PostState = nil
			if b, err := rc.MarshalBinary(); err == nil {
				n[0] = b
				add("f-rc-status", n)
			}
			rc.CumulativeGasUsed++
			if b, err := rc.MarshalBinary(); err == nil {
				n = cp()
				n[0] = b
				add("f-rc-gas", n)
			}
		}
	}
	if len(items) > 1 {
		n := cp()
		n[0], n[1] = n[1], n[0]
		add("f-rc-swap", n)
	}
	nb, _ := randReceipt(r, 21000, 0).MarshalBinary()
	add("f-rc-add", append(cp(), nb))
	if len(items) > 0 {
		g := cp()
		g[len(g)-1] = []byte{0xc0}
		add("f-rc-garbage", g)
		g = cp()
		g[0] = []byte{}
		add("f-rc-garbage", g)
	}
	out = append(out, mutation{"f-rc-zero-offset", []byte{0, 0, 0, 0}})
	return out
}

// ---------------------------------------------------------------------------------------------- header sources

type source struct {
	name string
	fn   func(key []byte) resp
}

// forgedHeaderFor: the block's header with its roots replaced by those of the given content (so that exactly this
// content fits it); its hash is of course no longer the key's
func forgedHeaderFor(b *block, keyType byte, content []byte) (*types.Header, bool) {
	h := types.CopyHeader(b.header)
	switch ht.ContentType(keyType) {
	case ht.BlockBodyType:
		body, err := history.DecodePortalBlockBodyBytes(content)
		if err != nil {
			return nil, false
		}
		h.TxHash = deriveTx(body.Transactions)
		h.UncleHash = types.CalcUncleHash(body.Uncles)
		if body.Withdrawals != nil {
			wh := types.DeriveSha(types.Withdrawals(body.Withdrawals), trie.NewStackTrie(nil))
			h.WithdrawalsHash = &wh
			if h.BaseFee == nil {
				h.BaseFee = big.NewInt(1)
			}
		} else {
			h.WithdrawalsHash = nil
			h.BlobGasUsed, h.ExcessBlobGas, h.ParentBeaconRoot, h.RequestsHash = nil, nil, nil, nil
		}
	case ht.ReceiptsType:
		if len(content) == 0 {
			h.ReceiptHash = types.EmptyRootHash
		} else {
			rcs, err := history.DecodeReceipts(content)
			if err != nil {
				return nil, false
			}
			h.ReceiptHash = types.DeriveSha(types.Receipts(rcs), trie.NewStackTrie(nil))
		}
	default:
		return nil, false
	}
	return h, true
}

func (w *world) sources(r *rand.Rand, b *block, keyType byte, content []byte) []source {
	fixed := func(name string, rp resp) source { return source{name, func([]byte) resp { return rp }} }
	out := []source{{"honest", w.honest}}
	other := w.blocks[r.Intn(len(w.blocks))]
	for bytes.Equal(other.hash, b.hash) {
		other = w.blocks[r.Intn(len(w.blocks))]
	}
	out = append(out, fixed("other", okResp(other.hwp)))
	if fh, ok := forgedHeaderFor(b, keyType, content); ok {
		_, proof, _ := decodeHWP(b.hwp)
		if d := reencodeHWP(fh, proof); d != nil {
			out = append(out, fixed("forged", okResp(d)))
		}
	}
	g := make([]byte, 1+r.Intn(300))
	r.Read(g)
	out = append(out, fixed("garbage", okResp(g)))
	out = append(out, fixed("truncated", okResp(b.hwp[:r.Intn(len(b.hwp))])))
	out = append(out, fixed("always-this", okResp(b.hwp))) // this block's genuine header, whatever key is asked
	out = append(out, fixed("rpcerr", resp{err: true}))
	out = append(out, fixed("badhex", resp{hex: "0xzz"}))
	out = append(out, fixed("emptyhex", resp{hex: "0x"}))
	if d, err := (&ht.BlockHeaderWithProof{Header: g, Proof: []byte{}}).MarshalSSZ(); err == nil {
		out = append(out, fixed("hdr-undecodable", okResp(d)))
	}
	// the genuine header without any proof: hash binding alone is what makes a header source trustworthy
	out = append(out, fixed("proofless", okResp(reencodeHWP(b.header, []byte{}))))
	return out
}

// ---------------------------------------------------------------------------------------------- the run

func (b *block) contentOf(t byte) ([]byte, bool) {
	switch ht.ContentType(t) {
	case ht.BlockHeaderType:
		return b.hwp, true
	case ht.BlockHeaderNumberType:
		return b.hwpNum, true
	case ht.BlockBodyType:
		return b.body, b.hasBody
	case ht.ReceiptsType:
		return b.receipts, b.hasRcpt
	}
	return nil, false
}

func (b *block) keyOf(t byte) []byte {
	if ht.ContentType(t) == ht.BlockHeaderNumberType {
		return numKey(b.header.Number.Uint64())
	}
	return typedKey(t, b.hash)
}

var keyTypes = []byte{byte(ht.BlockHeaderType), byte(ht.BlockHeaderNumberType), byte(ht.BlockBodyType), byte(ht.ReceiptsType)}

func ktName(t byte) string {
	switch t {
	case 0:
		return "hash"
	case 1:
		return "body"
	case 2:
		return "receipts"
	case 3:
		return "number"
	}
	return fmt.Sprintf("t%d", t)
}

func keyMutations(r *rand.Rand, key []byte) []mutation {
	var out []mutation
	add := func(name string, k []byte) { out = append(out, mutation{name, k}) }
	for i := 0; i < 3; i++ {
		k := clone(key)
		p := 1 + r.Intn(len(k)-1)
		k[p] ^= 1 << uint(r.Intn(8))
		add("k-bit", k)
	}
	add("k-trunc", key[:len(key)-1])
	add("k-trunc", key[:1+r.Intn(len(key)-1)])
	add("k-trunc1", key[:1])
	add("k-ext", append(clone(key), byte(r.Intn(256))))
	add("k-ext", append(clone(key), make([]byte, 1+r.Intn(32))...))
	// bytes slipped in between the selector and the payload: the payload still ENDS with the genuine hash
	{
		junk := make([]byte, 1+r.Intn(6))
		r.Read(junk)
		add("k-prefix", append(append([]byte{key[0]}, junk...), key[1:]...))
		add("k-prefix", append(append([]byte{key[0]}, 0), key[1:]...))
	}
	for _, s := range []byte{0, 1, 2, 3, 4, 5, 6, 255} {
		if s != key[0] {
			k := clone(key)
			k[0] = s
			add("k-selector", k)
		}
	}
	if r.Intn(8) == 0 {
		add("k-empty", []byte{})
	}
	return out
}

func runC02(o *Out, r *rand.Rand, thorough bool, args []string) {
	w := loadWorld(r)
	nMut := 36
	nSynth := 8
	if thorough {
		nMut = 700
		nSynth = 60
	}
	// synthetic blocks: legacy and Shanghai bodies, empty and non-empty receipts, around every fork boundary
	shapes := []struct {
		number          uint64
		txs, uncles, wd int
	}{
		{1_000_000, 0, 0, -1}, {5_000_000, 3, 1, -1}, {13_000_000, 5, 2, -1}, {ht.MergeBlockNumber + 10, 4, 0, -1},
		{ht.ShanghaiBlockNumber + 5, 3, 0, 4}, {ht.ShanghaiBlockNumber + 6, 0, 0, 0}, {ht.CancunNumber + 7, 6, 0, 16}, {ht.ShanghaiBlockNumber - 1, 2, 0, -1},
	}
	for i := 0; i < nSynth; i++ {
		var b *block
		if i < len(shapes) {
			s := shapes[i]
			b = synthBlock(r, fmt.Sprintf("s%d", i), s.number, s.txs, s.uncles, s.wd)
		} else {
			num := []uint64{uint64(r.Intn(15_000_000)), ht.MergeBlockNumber + uint64(r.Intn(1e6)), ht.ShanghaiBlockNumber + uint64(r.Intn(1e6)), ht.CancunNumber + uint64(r.Intn(1e6))}[r.Intn(4)]
			wd := -1
			if num >= ht.ShanghaiBlockNumber {
				wd = r.Intn(17)
			}
			unc := 0
			if num < ht.MergeBlockNumber {
				unc = r.Intn(3)
			}
			b = synthBlock(r, fmt.Sprintf("s%d", i), num, r.Intn(201), unc, wd)
		}
		w.add(b)
	}
	o.Comment(fmt.Sprintf("blocks=%d summaries=%d", len(w.blocks), len(w.summaries)))
	rg := newRig(w)

	section := ""
	if len(args) > 0 {
		section = args[0]
	}
	if section == "" || section == "orc" {
		runOracle(o, r, rg, thorough)
	}
	if section == "" || section == "vc" {
		runVC(o, r, rg, nMut, thorough)
	}
	if section == "" || section == "gate" {
		runGate(o, r, rg, thorough)
	}
	if section == "net" {
		runNet(o, r, rg, thorough)
	}
}

func runVC(o *Out, r *rand.Rand, rg *rig, nMut int, thorough bool) {
	w := rg.w
	for _, b := range w.blocks {
		for _, t := range keyTypes {
			c, ok := b.contentOf(t)
			if !ok {
				continue
			}
			key := b.keyOf(t)
			kt := ktName(t)
			rg.far.set(nil, w.honest)
			// (1) the genuine pair
			rg.vc(o, key, c, caseMeta{b.name, kt, "genuine", "honest", false})
			// (2) byte-level mutations of the content, honest source
			n := nMut
			if len(c) > 20000 && !thorough {
				n = nMut / 3
			}
			for _, m := range byteMutations(r, c, n) {
				rg.vc(o, key, m.data, caseMeta{b.name, kt, m.name, "honest", false})
			}
			// (3) field-level mutations
			var fm []mutation
			switch ht.ContentType(t) {
			case ht.BlockHeaderType, ht.BlockHeaderNumberType:
				fm = w.headerFieldMutations(r, b)
			case ht.BlockBodyType:
				fm = w.bodyFieldMutations(r, c)
			case ht.ReceiptsType:
				fm = w.receiptFieldMutations(r, c)
			}
			fm = append(fm, reframings(c, ht.ContentType(t))...)
			for _, m := range fm {
				rg.vc(o, key, m.data, caseMeta{b.name, kt, m.name, "honest", false})
			}
			// (4) every header source × {genuine, field-mutated, other block's} content (bodies and receipts)
			if ht.ContentType(t) == ht.BlockBodyType || ht.ContentType(t) == ht.ReceiptsType {
				variants := []mutation{{"genuine", c}}
				variants = append(variants, fm...)
				for tries := 0; tries < 3; tries++ {
					ob := w.blocks[r.Intn(len(w.blocks))]
					if oc, ok := ob.contentOf(t); ok && !bytes.Equal(ob.hash, b.hash) {
						variants = append(variants, mutation{"cross", oc})
					}
				}
				for _, v := range variants {
					for _, s := range w.sources(r, b, t, v.data) {
						if s.name == "honest" {
							continue
						}
						rg.far.set(nil, s.fn)
						rg.vc(o, key, v.data, caseMeta{b.name, kt, v.name, s.name, false})
					}
				}
				// the source answers with the header of the block the foreign content really belongs to
				for tries := 0; tries < 4; tries++ {
					ob := w.blocks[r.Intn(len(w.blocks))]
					if oc, ok := ob.contentOf(t); ok && !bytes.Equal(ob.hash, b.hash) {
						rp := okResp(ob.hwp)
						rg.far.set(nil, func([]byte) resp { return rp })
						rg.vc(o, key, oc, caseMeta{b.name, kt, "cross", "matching-other", false})
					}
				}
			}
			// (5) key mutations, honest source and a source that answers with this block's header whatever is asked
			for _, km := range keyMutations(r, key) {
				rg.far.set(nil, w.honest)
				rg.vc(o, km.data, c, caseMeta{b.name, kt, km.name, "honest", false})
				if ht.ContentType(t) == ht.BlockBodyType || ht.ContentType(t) == ht.ReceiptsType {
					rp := okResp(b.hwp)
					rg.far.set(nil, func([]byte) resp { return rp })
					rg.vc(o, km.data, c, caseMeta{b.name, kt, km.name, "always-this", false})
				}
			}
		}
	}
	// (5b) exhaustive: EVERY single-bit flip and EVERY truncation of selected vectors (quick: one accepted pre-merge header,
	// the smallest synthetic body with transactions and its receipts; thorough: one accepted header per era under both header
	// keys and the first twelve bodies / receipt lists of at most 2 KB)
	rg.far.set(nil, w.honest)
	exhaust := func(b *block, t byte) {
		c, ok := b.contentOf(t)
		if !ok || len(c) == 0 {
			return
		}
		key := b.keyOf(t)
		for i := 0; i < len(c)*8; i++ {
			d := clone(c)
			d[i/8] ^= 1 << uint(i%8)
			rg.vc(o, key, d, caseMeta{b.name, ktName(t), "allbits", "honest", false})
		}
		for i := 0; i < len(c); i++ {
			rg.vc(o, key, c[:i], caseMeta{b.name, ktName(t), "alltrunc", "honest", false})
		}
	}
	{
		seenEra := map[string]bool{}
		nBody, nRcpt := 0, 0
		var smallest *block
		for _, b := range w.blocks {
			if !b.synth && !seenEra[b.era] && rg.validate(b.keyOf(0), b.hwp) == "ok" {
				seenEra[b.era] = true
				if thorough || b.era == "premerge" {
					exhaust(b, byte(ht.BlockHeaderType))
				}
				if thorough {
					exhaust(b, byte(ht.BlockHeaderNumberType))
				}
			}
			if b.synth && b.hasBody && len(b.body) > 100 && (smallest == nil || len(b.body) < len(smallest.body)) {
				smallest = b
			}
			if thorough && b.hasBody && len(b.body) <= 2048 && nBody < 12 {
				nBody++
				exhaust(b, byte(ht.BlockBodyType))
			}
			if thorough && b.hasRcpt && len(b.receipts) > 0 && len(b.receipts) <= 2048 && nRcpt < 12 {
				nRcpt++
				exhaust(b, byte(ht.ReceiptsType))
			}
		}
		if !thorough && smallest != nil {
			exhaust(smallest, byte(ht.BlockBodyType))
			exhaust(smallest, byte(ht.ReceiptsType))
		}
	}
	// (6) cross-pairing: every key against every other block's content of every type (honest source)
	rg.far.set(nil, w.honest)
	for _, b := range w.blocks {
		for _, t := range keyTypes {
			if _, ok := b.contentOf(t); !ok {
				continue
			}
			key := b.keyOf(t)
			for _, ob := range w.blocks {
				for _, t2 := range keyTypes {
					if bytes.Equal(ob.hash, b.hash) && t2 == t {
						continue
					}
					oc, ok := ob.contentOf(t2)
					if !ok {
						continue
					}
					// all same-type pairings; other-type pairings sampled
					if t2 != t && !(thorough || r.Intn(6) == 0) {
						continue
					}
					if len(w.blocks) > 40 && r.Intn(len(w.blocks)/20) != 0 {
						continue
					}
					rg.vc(o, key, oc, caseMeta{b.name, ktName(t), "cross-" + ktName(t2), "honest", false})
				}
			}
			for _, x := range w.extra {
				rg.vc(o, key, x, caseMeta{b.name, ktName(t), "cross-extra", "honest", false})
			}
		}
	}
}

// runOracle: what ValidationOracle.GetBlockHeaderByHash returns for a requested hash, whatever the far end answers
func runOracle(o *Out, r *rand.Rand, rg *rig, thorough bool) {
	w := rg.w
	call := func(req []byte) (out string) {
		defer func() {
			if e := recover(); e != nil {
				out = "panic"
			}
		}()
		h, err := rg.oracle.GetBlockHeaderByHash(req)
		if err != nil {
			return "err"
		}
		return "hdr=" + c02h32(h.Hash().Bytes())
	}
	for _, b := range w.blocks {
		reqs := []mutation{{"hash", b.hash}}
		k := clone(b.hash)
		k[r.Intn(32)] ^= 1 << uint(r.Intn(8))
		reqs = append(reqs, mutation{"hash-bit", k}, mutation{"hash-short", b.hash[:31]}, mutation{"hash-long", append(clone(b.hash), 0)},
			mutation{"hash-random", randHash(r).Bytes()}, mutation{"hash-empty", []byte{}},
			mutation{"hash-prefixed", append([]byte{byte(1 + r.Intn(255))}, b.hash...)}, mutation{"hash-prefixed", append(make([]byte, 1+r.Intn(4)), b.hash...)})
		for _, rq := range reqs {
			for _, s := range w.sources(r, b, byte(ht.BlockBodyType), b.body) {
				rg.far.set(nil, s.fn)
				rp := rg.far.answer(typedKey(0, rq.data))
				o.Case(fmt.Sprintf("orc req=%s resp=%s vec=%s mut=%s sk=%s", hx(rq.data), obsResp(rp), b.name, rq.name, s.name), call(rq.data))
			}
		}
	}
}

// ---------------------------------------------------------------------------------------------- the gate before the store

type recStore struct {
	storage.MockStorage
	puts   []kvEntry
	radius *uint256.Int // what the store advertises (nil: the maximum, as a fresh store does)
}

func (s *recStore) Put(contentKey []byte, contentId []byte, content []byte) error {
	s.puts = append(s.puts, kvEntry{clone(contentKey), clone(content)})
	return s.MockStorage.Put(contentKey, contentId, content)
}
func (s *recStore) Radius() *uint256.Int {
	if s.radius != nil {
		return s.radius
	}
	return s.MockStorage.Radius()
}
func (s *recStore) reset() {
	s.puts = nil
	s.MockStorage.Db = map[string][]byte{}
}

// c02Protocol: a PortalProtocol that is never started (no sockets) over the given store
func c02Protocol(r *rand.Rand, st storage.ContentStorage) *portalwire.PortalProtocol {
	key := keyFromSeed(r)
	db, _ := enode.OpenDB("")
	ln := enode.NewLocalNode(db, key)
	ln.SetFallbackIP(net.IP{127, 0, 0, 1})
	ln.SetFallbackUDP(30000 + r.Intn(1000))
	conf := portalwire.DefaultPortalProtocolConfig()
	vc := cache.NewCache[*enode.Node, uint8]().WithMaxKeys(1000).WithTTL(time.Hour)
	p, err := portalwire.NewPortalProtocol(conf, portalwire.History, key, nil, ln, nil, nil, st, make(chan *portalwire.ContentElement, 50), vc)
	if err != nil {
		panic(err)
	}
	return p
}

type gateItem struct {
	key, content []byte
	pre          bool
	desc         string
}

func runGate(o *Out, r *rand.Rand, rg *rig, thorough bool) {
	w := rg.w
	n := 400
	if thorough {
		n = 8000
	}
	// pool of (key, content, source answer for the key's hash) triples
	type triple struct {
		key, content []byte
		rp           *resp // nil: honest
		desc         string
	}
	var pool []triple
	for _, b := range w.blocks {
		for _, t := range keyTypes {
			c, ok := b.contentOf(t)
			if !ok {
				continue
			}
			key := b.keyOf(t)
			pool = append(pool, triple{key, c, nil, "genuine"})
			bm := byteMutations(r, c, 2)
			pool = append(pool, triple{key, bm[0].data, nil, bm[0].name})
			if ht.ContentType(t) == ht.BlockBodyType || ht.ContentType(t) == ht.ReceiptsType {
				var fm []mutation
				if ht.ContentType(t) == ht.BlockBodyType {
					fm = w.bodyFieldMutations(r, c)
				} else {
					fm = w.receiptFieldMutations(r, c)
				}
				if len(fm) > 1 {
					m := fm[1+r.Intn(len(fm)-1)]
					pool = append(pool, triple{key, m.data, nil, m.name})
					if fh, ok := forgedHeaderFor(b, t, m.data); ok {
						rp := okResp(reencodeHWP(fh, []byte{}))
						pool = append(pool, triple{key, m.data, &rp, m.name + "+forged"})
					}
				}
				ob := w.blocks[r.Intn(len(w.blocks))]
				if oc, ok := ob.contentOf(t); ok && !bytes.Equal(ob.hash, b.hash) {
					rp := okResp(ob.hwp)
					pool = append(pool, triple{key, oc, &rp, "cross+matching-other"})
					pool = append(pool, triple{key, oc, nil, "cross"})
				}
			}
		}
	}
	st := &recStore{MockStorage: storage.MockStorage{Db: map[string][]byte{}}}
	p := c02Protocol(r, st)
	hn := history.NewHistoryNetwork(p, rg.val)
	for i := 0; i < n; i++ {
		st.reset()
		k := 1 + r.Intn(5)
		script := map[string]resp{}
		var items []gateItem
		for j := 0; j < k; j++ {
			var t triple
			if j > 0 && r.Intn(5) == 0 {
				// the same key again (with the same or another content)
				prev := items[r.Intn(len(items))]
				t = triple{prev.key, prev.content, nil, "dup"}
				if r.Intn(2) == 0 {
					x := pool[r.Intn(len(pool))]
					t.content, t.desc = x.content, "dup-other-content"
				}
			} else {
				t = pool[r.Intn(len(pool))]
			}
			if t.rp != nil && len(t.key) > 1 {
				rk := hex.EncodeToString(typedKey(0, t.key[1:]))
				if _, set := script[rk]; !set {
					script[rk] = *t.rp
				}
			}
			it := gateItem{key: t.key, content: t.content, desc: t.desc}
			if r.Intn(6) == 0 {
				it.pre = true
			}
			items = append(items, it)
		}
		rg.far.set(script, w.honest)
		var keys, contents [][]byte
		var parts []string
		seenPre := map[string]bool{}
		for _, it := range items {
			if it.pre && !seenPre[string(it.key)] {
				seenPre[string(it.key)] = true
				_ = st.MockStorage.Put(it.key, p.ToContentId(it.key), []byte("already-there"))
			}
		}
		for _, it := range items {
			keys = append(keys, it.key)
			contents = append(contents, it.content)
			pre := 0
			if seenPre[string(it.key)] {
				pre = 1
			}
			parts = append(parts, fmt.Sprintf("%s pre=%d cid=%016x d=%s", rg.obsLine(it.key, it.content), pre, fnv(it.content), it.desc))
		}
		out := func() (s string) {
			defer func() {
				if e := recover(); e != nil {
					s = "panic"
				}
			}()
			if err := hn.VerifValidateContents(keys, contents); err != nil {
				return "err"
			}
			return "ok"
		}()
		// which items were put, in order: match every recorded put to the first unmatched item with that key and content
		used := make([]bool, len(items))
		var idx []string
		for _, pt := range st.puts {
			found := "?"
			for j, it := range items {
				if !used[j] && bytes.Equal(it.key, pt.key) && bytes.Equal(it.content, pt.val) {
					used[j] = true
					found = fmt.Sprint(j)
					break
				}
			}
			idx = append(idx, found)
		}
		puts := "-"
		if len(idx) > 0 {
			puts = strings.Join(idx, ",")
		}
		o.Case(fmt.Sprintf("gate n=%d ; %s", len(items), strings.Join(parts, " ; ")), fmt.Sprintf("out=%s puts=%s", out, puts))
	}
}

// reframings: the genuine value laid out differently - every field keeps its bytes, but the leading offset table is followed by
// n bytes that belong to no field (all offsets raised by n). A decoder that only follows the offsets reads the genuine fields;
// the byte string is not the genuine one.
func reframings(c []byte, t ht.ContentType) []mutation {
	if len(c) < 4 {
		return nil
	}
	first := int(binary.LittleEndian.Uint32(c))
	nOff := 0
	switch t {
	case ht.BlockHeaderType, ht.BlockHeaderNumberType:
		nOff = 2
	case ht.BlockBodyType:
		nOff = first / 4 // 2 (legacy) or 3 (Shanghai): the first offset says where the table ends
	case ht.ReceiptsType:
		nOff = first / 4 // one offset per receipt
	}
	if nOff < 1 || nOff > 4096 || first != 4*nOff || len(c) < first {
		return nil
	}
	var out []mutation
	for _, n := range []int{1, 4, 32} {
		d := make([]byte, 0, len(c)+n)
		d = append(d, c[:first]...)
		for i := 0; i < nOff; i++ {
			binary.LittleEndian.PutUint32(d[4*i:], binary.LittleEndian.Uint32(c[4*i:])+uint32(n))
		}
		for k := 0; k < n; k++ {
			d = append(d, byte(0xa0+k))
		}
		d = append(d, c[first:]...)
		out = append(out, mutation{"s-gap-after-offsets", d})
	}
	return out
}
