//go:build verif

package main

// C01 — no remote input can crash or wedge the node.
//
// Every case calls REAL code of /repo inside a goroutine that recovers panics and is watched by a timer:
// the implementation output is an outcome class
//
//	reply:<code>[.<selector>] | empty | ok | found:<len> | notfound | nilnil | err | panic@<function>:<kind> | timeout
//
// The Lean driver (lean/Driver/C01.lean) recomputes the class with the model Dp (lean/Shisui/Dispatch.lean) and
// evaluates the property's clauses (never panics; the call returns) on the implementation's output.
//
// Groups (op names): talk (handleTalkRequest on started nodes of the history / beacon / state networks with their
// real storage adapters), resp (processPong/Nodes/Content/Offer), oc (handleOfferedContents), get/put (the three
// ContentStorage adapters with peer-chosen keys), val (the three validators over an adversarial header source),
// trav (TraverseTrieNode on decoded nodes), and — in child processes, because a panic in a discv5 talk goroutine
// cannot be recovered — utp (the uTP TALKREQ handler with the socket running) and wire (a real node attacked over
// the in-memory discv5 link, liveness probed afterwards).  See c01_store.go and c01_wire.go.

import (
	"context"
	"crypto/sha256"
	"encoding/binary"
	"fmt"
	"github.com/ethereum/go-ethereum/p2p/enr"
	"github.com/ethereum/go-ethereum/rlp"
	"github.com/holiman/uint256"
	pingext "github.com/zen-eth/shisui/portalwire/ping_ext"
	"math/rand"
	"net"
	"os"
	"runtime"
	"strconv"
	"strings"
	"sync/atomic"
	"time"

	"github.com/cockroachdb/pebble"
	"github.com/cockroachdb/pebble/vfs"
	"github.com/ethereum/go-ethereum/p2p/discover"
	"github.com/ethereum/go-ethereum/p2p/enode"
	cache "github.com/go-pkgz/expirable-cache/v3"
	"github.com/protolambda/zrnt/eth2/configs"
	"github.com/zen-eth/shisui/beacon"
	"github.com/zen-eth/shisui/history"
	"github.com/zen-eth/shisui/portalwire"
	"github.com/zen-eth/shisui/state"
	"github.com/zen-eth/shisui/storage"
	spebble "github.com/zen-eth/shisui/storage/pebble"
)

func init() {
	runners["C01"] = runC01
	runners["C01child"] = runC01Child
}

// ---------------------------------------------------------------- guarded calls

// panicSite names the function in which the panic was raised (first frame below the runtime's panic machinery)
// and the kind of run-time error, e.g. "history.isEphemeralOfferType:idx".
func panicSite(rec interface{}) string {
	kind := "explicit"
	if re, ok := rec.(runtime.Error); ok {
		m := re.Error()
		switch {
		case strings.Contains(m, "index out of range [-"):
			kind = "idxneg"
		case strings.Contains(m, "index out of range"):
			kind = "idx"
		case strings.Contains(m, "slice bounds out of range"):
			kind = "slice"
		case strings.Contains(m, "nil pointer dereference"):
			kind = "nil"
		case strings.Contains(m, "interface conversion"):
			kind = "conv"
		default:
			kind = "rt"
		}
	}
	pcs := make([]uintptr, 64)
	n := runtime.Callers(2, pcs)
	frames := runtime.CallersFrames(pcs[:n])
	seenPanic := false
	fn := "?"
	for {
		f, more := frames.Next()
		if f.Function == "runtime.gopanic" || f.Function == "runtime.sigpanic" || f.Function == "runtime.panicmem" {
			seenPanic = true
		} else if seenPanic && !strings.HasPrefix(f.Function, "runtime.") {
			fn = f.Function
			break
		}
		if !more {
			break
		}
	}
	if i := strings.LastIndex(fn, "/"); i >= 0 {
		fn = fn[i+1:]
	}
	fn = strings.NewReplacer("(*", "", ")", "", "(", "").Replace(fn)
	return fn + ":" + kind
}

// after this many calls that did not return the run is cut short: every further case would wait for the watchdog
// again (a wedged call keeps its goroutine, possibly spinning), and the violation is already established
const maxTimeouts = 3

var (
	timeouts atomic.Int32
	curOut   *Out
)

// guarded runs f with panic recovery and a watchdog; the harness process never dies from f.
func guarded(timeout time.Duration, f func() string) string {
	ch := make(chan string, 1)
	go func() {
		defer func() {
			if rec := recover(); rec != nil {
				ch <- "panic@" + panicSite(rec)
			}
		}()
		ch <- f()
	}()
	select {
	case s := <-ch:
		return s
	case <-time.After(timeout):
		timeouts.Add(1)
		return "timeout"
	}
}

// checkAbort is called when a case line has been written.
func checkAbort() {
	if timeouts.Load() >= maxTimeouts && curOut != nil {
		curOut.Comment(fmt.Sprintf("run cut short after %d calls that did not return", timeouts.Load()))
		curOut.Flush()
		os.Exit(0)
	}
}

const callTimeout = 10 * time.Second

// ---------------------------------------------------------------- byte-string notation

func termsPlus(ts []Term) string {
	if len(ts) == 0 {
		return "-"
	}
	s := make([]string, 0, len(ts))
	for _, t := range ts {
		if (!t.gen && len(t.lit) == 0) || (t.gen && t.n == 0) {
			continue
		}
		s = append(s, t.String())
	}
	if len(s) == 0 {
		return "-"
	}
	return strings.Join(s, "+")
}

func termsBytes(ts []Term) []byte {
	var b []byte
	for _, t := range ts {
		b = append(b, t.Bytes()...)
	}
	return b
}

// bt renders a byte string: literal when short, else literal head + literal tail is not possible, so long
// strings produced from real encoders are written in full hex (the driver needs every byte).
func bt(b []byte) string { return bytesTerm(b) }

func u32le(n int) []byte {
	b := make([]byte, 4)
	binary.LittleEndian.PutUint32(b, uint32(n))
	return b
}

func u64le(n uint64) []byte {
	b := make([]byte, 8)
	binary.LittleEndian.PutUint64(b, n)
	return b
}

func cat(bs ...[]byte) []byte {
	var out []byte
	for _, b := range bs {
		out = append(out, b...)
	}
	return out
}

func sha(b []byte) []byte { d := sha256.Sum256(b); return d[:] }

// exact returns a copy whose capacity equals its length, as a byte string decoded from a packet has: reading past
// the end must fault instead of seeing left-over bytes of a larger backing array. nil stays nil.
func exact(b []byte) []byte {
	if b == nil {
		return nil
	}
	out := make([]byte, len(b))
	copy(out, b)
	return out[:len(b):len(b)]
}

// c01_mutate applies one of: bit flip, byte set, truncate, extend, 4-byte little-endian field shift, delete, duplicate.
func c01_mutate(r *rand.Rand, in []byte) []byte {
	b := append([]byte{}, in...)
	switch r.Intn(10) {
	case 8, 9: // rewrite one entry of the leading offset table with a value taken from the table's own geometry
		if len(b) >= 8 {
			nOff := min(len(b)/4, 4)
			at := 4 * r.Intn(nOff)
			first := int(binary.LittleEndian.Uint32(b[0:]))
			other := int(binary.LittleEndian.Uint32(b[4*r.Intn(nOff):]))
			var v int
			switch r.Intn(8) {
			case 0:
				v = other - 1 - r.Intn(4) // just before another field starts
			case 1:
				v = other
			case 2:
				v = first + r.Intn(max(1, other-first)) // somewhere inside the fields before it
			case 3:
				v = first
			case 4:
				v = first + 1
			case 5:
				v = len(b)
			case 6:
				v = len(b) + 1 + r.Intn(4)
			default:
				v = r.Intn(len(b) + 1)
			}
			if v < 0 {
				v = 0
			}
			binary.LittleEndian.PutUint32(b[at:], uint32(v))
		}
	case 0:
		if len(b) > 0 {
			b[r.Intn(len(b))] ^= 1 << uint(r.Intn(8))
		}
	case 1:
		if len(b) > 0 {
			b[r.Intn(len(b))] = byte(r.Intn(256))
		}
	case 2:
		if len(b) > 0 {
			b = b[:r.Intn(len(b))]
		}
	case 3:
		ext := make([]byte, 1+r.Intn(6))
		r.Read(ext)
		b = append(b, ext...)
	case 4: // shift a 4-byte little-endian field near the front by a small amount
		if len(b) >= 5 {
			at := r.Intn(min(len(b)-4, 16))
			v := int(binary.LittleEndian.Uint32(b[at:])) + r.Intn(9) - 4
			binary.LittleEndian.PutUint32(b[at:], uint32(v))
		}
	case 5:
		if len(b) > 1 {
			at := r.Intn(len(b))
			b = append(b[:at], b[at+1:]...)
		}
	case 6:
		if len(b) > 0 {
			at := r.Intn(len(b))
			b = append(b[:at+1], b[at:]...)
		}
	default: // first bytes: message code / selector / type
		if len(b) > 0 {
			b[0] = byte(r.Intn(256))
		}
	}
	return b
}

// ---------------------------------------------------------------- nodes with the real storage adapters

type c01Node struct {
	net   string // h | b | s
	p     *portalwire.PortalProtocol
	disc  *discover.UDPv5
	ln    *enode.LocalNode
	store storage.ContentStorage
	inner storage.ContentStorage // state: the pebble store below the adapter
	db    *pebble.DB
	queue chan *portalwire.ContentElement
	utp   *portalwire.VerifUtpTalk
	ip    net.IP
	port  int
	// what the node holds (the env of a talk / get line)
	have []haveItem
	per  []perItem // beacon: update periods stored, with the serialized length of each update
	fin  string    // beacon: "<slot>:<len>" of the cached finality update, or "-"
	opt  string    // beacon: "<slot>:<len>" of the cached optimistic update, or "-"
}

type perItem struct {
	period uint64
	n      int
}

type haveItem struct {
	key []byte
	n   int
}

func memDB() *pebble.DB {
	db, err := pebble.Open("", &pebble.Options{FS: vfs.NewMem()})
	if err != nil {
		panic(err)
	}
	return db
}

// newStore builds the storage of one sub-network exactly as portal/node.go does, over in-memory pebble.
func newStore(netw string, id enode.ID) (st storage.ContentStorage, inner storage.ContentStorage, db *pebble.DB) {
	cfg := storage.PortalStorageConfig{StorageCapacityMB: 200, NodeId: id, Spec: configs.Mainnet}
	var err error
	switch netw {
	case "h":
		cfg.NetworkName = "history"
		db = memDB()
		eternal, e := spebble.NewStorage(cfg, db)
		if e != nil {
			panic(e)
		}
		eph := history.NewEphemeralStorage(cfg, memDB())
		st, err = history.NewHistoryStorage(eternal, eph)
		inner = eternal
	case "b":
		cfg.NetworkName = "beacon"
		db = memDB()
		st, err = beacon.NewBeaconStorage(cfg, db)
	case "s":
		cfg.NetworkName = "state"
		db = memDB()
		inner, err = spebble.NewStorage(cfg, db)
		if err != nil {
			panic(err)
		}
		st = state.NewStateStorage(inner, db)
	}
	if err != nil {
		panic(err)
	}
	return
}

func protoOf(netw string) portalwire.ProtocolId {
	switch netw {
	case "b":
		return portalwire.Beacon
	case "s":
		return portalwire.State
	}
	return portalwire.History
}

// startC01 is startNode (net.go) with the real storage adapter of the network and the uTP handler kept.
func startC01(mn *memNet, r *rand.Rand, netw string, ip net.IP, port int, versions []uint8, realStore bool) *c01Node {
	key := keyFromSeed(r)
	conf := portalwire.DefaultPortalProtocolConfig()
	conf.MaxUtpConnSize = 40
	conf.RadiusCacheSize, conf.CapabilitiesCacheSize = 1<<20, 1<<20
	conf.EphemeralHeaderCountCacheSize, conf.ContentKeyCacheSize = 1<<20, 1<<20
	conf.ListenAddr = fmt.Sprintf("%s:%d", ip, port)
	conn := mn.listen(ip, port)
	edb, err := enode.OpenDB("")
	if err != nil {
		panic(err)
	}
	ln := enode.NewLocalNode(edb, key)
	ln.SetStaticIP(ip)
	ln.SetFallbackUDP(port)
	ln.Set(portalwire.Tag)
	if versions != nil {
		ln.Set(pvEntry(versions))
	}
	n := &c01Node{net: netw, ln: ln, ip: ip, port: port, fin: "-", opt: "-"}
	if realStore {
		n.store, n.inner, n.db = newStore(netw, ln.ID())
	} else {
		n.store = &storage.MockStorage{Db: map[string][]byte{}}
	}
	disc, err := discover.ListenV5(conn, ln, discover.Config{PrivateKey: key})
	if err != nil {
		panic(err)
	}
	n.disc = disc
	utp := portalwire.NewZenEthUtp(context.Background(), conf, disc, conn)
	n.utp = utp.VerifStartKeepConn()
	n.queue = make(chan *portalwire.ContentElement, 50)
	vc := cache.NewCache[*enode.Node, uint8]().WithMaxKeys(4096).WithTTL(time.Hour)
	p, err := portalwire.NewPortalProtocol(conf, protoOf(netw), key, conn, ln, disc, utp, n.store, n.queue, vc,
		portalwire.WithDisableTableInitCheckOption(true))
	if err != nil {
		panic(err)
	}
	if err := p.Start(); err != nil {
		panic(err)
	}
	n.p = p
	time.Sleep(5 * time.Millisecond)
	return n
}

func (n *c01Node) udpAddr() *net.UDPAddr { return &net.UDPAddr{IP: n.ip, Port: n.port} }

func (n *c01Node) drain() {
	for {
		select {
		case <-n.queue:
		default:
			return
		}
	}
}

// env renders what the node holds, for the model.
func (n *c01Node) env() string {
	hs := make([]string, len(n.have))
	for i, h := range n.have {
		hs[i] = fmt.Sprintf("%x:%d", h.key, h.n)
	}
	s := "have=" + strings.Join(append([]string{"-"}, hs...), ",")
	if n.net == "b" {
		ps := []string{"-"}
		for _, p := range n.per {
			ps = append(ps, fmt.Sprintf("%d:%d", p.period, p.n))
		}
		s += " per=" + strings.Join(ps, ",") + " fin=" + n.fin + " opt=" + n.opt + " sum=" + n.sumEnv()
	}
	return s
}

// sumEnv reads the raw value stored under the beacon adapter's historical-summaries key: "<hex>" of the whole
// value when short, "<first 8 bytes hex>:<len>" otherwise, "-" when absent.
func (n *c01Node) sumEnv() string { return sumEnvOf(n.db) }

func sumEnvOf(db *pebble.DB) string {
	v, closer, err := db.Get([]byte("historical_summaries"))
	if err != nil {
		return "-"
	}
	defer closer.Close()
	if len(v) <= 16 {
		return "v" + fmt.Sprintf("%x", v)
	}
	return fmt.Sprintf("v%x:%d", v[:8], len(v))
}

// ---------------------------------------------------------------- runner

func runC01(o *Out, r *rand.Rand, thorough bool, args []string) {
	curOut = o
	scale := 1
	if thorough {
		scale = 20
	}
	only := ""
	if len(args) > 0 {
		only = args[0]
	}
	want := func(g string) bool { return only == "" || only == g }
	vec := c01_loadVectors()
	var setups []*netSetup
	var collect []func()
	if want("talk") || want("resp") || want("oc") {
		setups = setupNets(r, vec)
		if want("resp") {
			// CONTENT replies that announce a uTP connection make the processor dial and wait for the connect
			// timeout: start these calls now, for every network, and report them at the very end
			for _, st := range setups {
				collect = append(collect, startDialCases(o, r, st))
			}
		}
		for _, st := range setups {
			if want("talk") {
				if st.target.net == "b" { // first without, then with stored historical summaries
					runTalk(o, r, scale, st.target, st.senders, true)
					if err := st.target.store.Put(cat([]byte{0x14}, u64le(1000)), nil, genBytes(300, 1)); err != nil {
						panic(err)
					}
				}
				runTalk(o, r, scale, st.target, st.senders, false)
			}
			if want("resp") {
				runResp(o, r, scale, st.target, st.senders)
			}
			if want("oc") {
				runOfferedContents(o, r, scale, st.target)
			}
		}
	}
	if want("store") {
		runAdapters(o, r, scale, vec)
	}
	if want("val") {
		runValidators(o, r, scale, vec)
	}
	if want("trav") {
		c01_runTraverse(o, r, scale)
	}
	if want("utpbody") {
		runUtpBody(o, r)
		runPongThenNodes(o, r)
	}
	if want("wire") {
		runChildren(o, r, thorough)
	}
	for _, f := range collect {
		f()
	}
}

// senders of one network: real peers (so that the ENR request a PING can trigger is answered) with the three
// version advertisements, plus fresh records advertising a version we do not speak.
type sender struct {
	ver  string // 0 | 1 | x
	node *enode.Node
	addr *net.UDPAddr
}

type netSetup struct {
	target  *c01Node
	senders []sender
}

func setupNets(r *rand.Rand, vec *vectors) []*netSetup {
	mn := newMemNet()
	var out []*netSetup
	for i, netw := range []string{"h", "b", "s"} {
		target := startC01(mn, r, netw, net.IP{35, byte(10 + i), 1, 1}, 9000, []uint8{0, 1}, true)
		peers := []*c01Node{
			startC01(mn, r, netw, net.IP{35, byte(10 + i), 2, 1}, 9001, nil, false),
			startC01(mn, r, netw, net.IP{35, byte(10 + i), 3, 1}, 9002, []uint8{0}, false),
			startC01(mn, r, netw, net.IP{35, byte(10 + i), 4, 1}, 9003, []uint8{0, 1}, false),
		}
		senders := []sender{
			{"0", peers[0].p.Self(), peers[0].udpAddr()},
			{"0", peers[1].p.Self(), peers[1].udpAddr()},
			{"1", peers[2].p.Self(), peers[2].udpAddr()},
		}
		for _, pn := range peers {
			pn.p.AddEnr(target.p.Self())
		}
		fillTableC01(target, r, 40)
		populate(target, r, vec)
		out = append(out, &netSetup{target, senders})
	}
	return out
}

// startDialCases launches processContent on connection-id replies (the call dials uTP and returns when the
// connection attempt fails) and returns the function that reports them.
func startDialCases(o *Out, r *rand.Rand, st *netSetup) func() {
	type slow struct {
		l  string
		ch chan string
	}
	var slows []slow
	for i := 0; i < 3; i++ {
		s := st.senders[r.Intn(len(st.senders))]
		resp := []byte{5, 0, byte(r.Intn(256)), byte(r.Intn(256))}
		sl := slow{fmt.Sprintf("resp kind=content net=%s ver=%s nk=0 resp=%s", st.target.net, s.ver, bt(resp)), make(chan string, 1)}
		p := st.target.p
		go func() {
			sl.ch <- guarded(3*callTimeout, func() string {
				_, _, err := p.VerifProcessContent(s.node, resp)
				return errClass(err)
			})
		}()
		slows = append(slows, sl)
	}
	return func() {
		for _, sl := range slows {
			select {
			case out := <-sl.ch:
				o.Case(sl.l, out)
				checkAbort()
			case <-time.After(4 * callTimeout):
				o.Case(sl.l, "timeout")
				checkAbort()
			}
		}
	}
}

func fillTableC01(n *c01Node, r *rand.Rand, count int) {
	tab := n.p.VerifTable()
	for i := 0; i < count; i++ {
		nd := signRecPad(keyFromSeed(r), net.IP{byte(40 + i/200), byte(1 + i%200), byte(1 + r.Intn(250)), byte(1 + r.Intn(250))}, 3000+i, 1, r.Intn(40))
		tab.VerifAddNode(nd, false, true)
	}
}

// populate stores content so that FINDCONTENT / OFFER reach every branch of the adapter's Get.
func populate(n *c01Node, r *rand.Rand, vec *vectors) {
	put := func(key []byte, size int) {
		content := genBytes(size, r.Intn(1000))
		id := sha(key)
		var err error
		if n.net == "s" {
			err = n.inner.Put(id, id, content) // what state.Storage.Put does after its checks
		} else {
			err = n.store.Put(key, id, content)
		}
		if err != nil {
			panic(fmt.Sprintf("populate %s: %v", n.net, err))
		}
		n.have = append(n.have, haveItem{key, size})
	}
	rnd := func(k int) []byte { b := make([]byte, k); r.Read(b); return b }
	switch n.net {
	case "h":
		put(cat([]byte{0}, rnd(32)), 0)
		put(cat([]byte{1}, rnd(32)), 1)
		put(cat([]byte{2}, rnd(32)), 1175)
		put(cat([]byte{0}, rnd(32)), 1176)
		put(cat([]byte{3}, rnd(8)), 5000)
	case "s":
		put(cat([]byte{0x20}, rnd(40)), 0)
		put(cat([]byte{0x21}, rnd(70)), 600)
		put(cat([]byte{0x22}, rnd(64)), 1175)
		put(cat([]byte{0x20}, rnd(37)), 1176)
	case "b":
		// the repo's own vectors through the adapter's Put (bootstrap by id, updates by period, cached updates)
		for _, v := range vec.beacon {
			if len(v.key) == 0 {
				continue
			}
			if err := n.store.Put(v.key, sha(v.key), v.val); err != nil {
				continue
			}
			switch v.key[0] {
			case 0x10:
				n.have = append(n.have, haveItem{v.key, len(v.val)})
			case 0x11:
				start := binary.LittleEndian.Uint64(v.key[1:9])
				for k, l := range beaconUpdateLens(v.val) {
					n.per = append(n.per, perItem{start + uint64(k), l})
				}
			case 0x12:
				n.fin = fmt.Sprintf("%d:%d", beaconFinSlot(v.val), len(v.val))
			case 0x13:
				n.opt = fmt.Sprintf("%d:%d", beaconOptSlot(v.val), len(v.val))
			}
		}
	}
}

// ---------------------------------------------------------------- content keys a peer might choose

func (n *c01Node) genKey(r *rand.Rand) []byte {
	rnd := func(k int) []byte { b := make([]byte, k); r.Read(b); return b }
	if len(n.have) > 0 && r.Intn(5) == 0 {
		return n.have[r.Intn(len(n.have))].key
	}
	if r.Intn(12) == 0 {
		return nil // the empty key
	}
	switch n.net {
	case "h":
		typ := byte(r.Intn(8))
		switch r.Intn(6) {
		case 0:
			return []byte{typ}
		case 1:
			return cat([]byte{typ}, rnd(32))
		case 2:
			return cat([]byte{5}, rnd(33)) // well-formed ephemeral-headers key
		case 3:
			return cat([]byte{5}, rnd(r.Intn(40)))
		case 4:
			return cat([]byte{3}, rnd(8))
		default:
			return cat([]byte{typ}, rnd(r.Intn(70)))
		}
	case "s":
		typ := byte(0x20 + r.Intn(4))
		switch r.Intn(4) {
		case 0:
			return []byte{typ}
		case 1:
			return cat([]byte{typ}, rnd(64))
		default:
			return cat([]byte{typ}, rnd(r.Intn(80)))
		}
	default: // beacon
		typ := byte(0x10 + r.Intn(6))
		if r.Intn(10) == 0 {
			typ = byte(r.Intn(256))
		}
		switch typ {
		case 0x11:
			start, count := uint64(r.Intn(4)), uint64(r.Intn(3))
			if len(n.per) > 0 && r.Intn(2) == 0 {
				start = n.per[r.Intn(len(n.per))].period - uint64(r.Intn(2))
				count = uint64(r.Intn(len(n.per) + 3))
			}
			switch r.Intn(8) {
			case 0:
				count = ^uint64(0) // start+count wraps around
			case 1:
				start, count = ^uint64(0)-uint64(r.Intn(2)), uint64(1+r.Intn(3))
			case 2:
				return cat([]byte{typ}, rnd(r.Intn(20))) // wrong length
			}
			return cat([]byte{typ}, u64le(start), u64le(count))
		case 0x12, 0x13:
			slot := uint64(r.Int63())
			env := n.fin
			if typ == 0x13 {
				env = n.opt
			}
			if env != "-" && r.Intn(2) == 0 {
				s, _ := strconv.ParseUint(strings.Split(env, ":")[0], 10, 64)
				slot = s + uint64(r.Intn(3)) - 1
			}
			if r.Intn(6) == 0 {
				return cat([]byte{typ}, rnd(r.Intn(12)))
			}
			return cat([]byte{typ}, u64le(slot))
		case 0x14:
			switch r.Intn(4) {
			case 0:
				return cat([]byte{typ}, rnd(r.Intn(8))) // shorter than the 8-byte epoch
			case 1:
				return cat([]byte{typ}, rnd(8+r.Intn(4)))
			default:
				return cat([]byte{typ}, u64le(uint64(r.Intn(1<<20))))
			}
		default:
			if r.Intn(3) == 0 {
				return []byte{typ}
			}
			return cat([]byte{typ}, rnd(32))
		}
	}
}

// ---------------------------------------------------------------- talk: handleTalkRequest

func talkClass(resp []byte) string {
	if len(resp) == 0 {
		return "empty"
	}
	if resp[0] == portalwire.CONTENT && len(resp) > 1 {
		return fmt.Sprintf("reply:%d.%d", resp[0], resp[1])
	}
	return fmt.Sprintf("reply:%d", resp[0])
}

func pingBody(r *rand.Rand, seq uint64, typ uint16, payload []byte) []byte {
	return cat(u64le(seq), []byte{byte(typ), byte(typ >> 8)}, u32le(14), payload)
}

func offerBody(keys [][]byte) []byte {
	b, err := (&portalwire.Offer{ContentKeys: keys}).MarshalSSZ()
	if err != nil { // over the encoder's limits: build the table by hand
		b = u32le(4)
		off := 4 * len(keys)
		for _, k := range keys {
			b = append(b, u32le(off)...)
			off += len(k)
		}
		for _, k := range keys {
			b = append(b, k...)
		}
	}
	return b
}

func runTalk(o *Out, r *rand.Rand, scale int, n *c01Node, senders []sender, reduced bool) {
	p := n.p
	emit := func(s sender, ts []Term) {
		msg := exact(termsBytes(ts))
		snd := s
		if s.ver == "x" { // fresh record (the version cache is keyed by the node object): no common version
			snd.node = peerNode(r, []uint8{5, 9}, nil)
			snd.addr = &net.UDPAddr{IP: net.IP{127, 0, 0, 1}, Port: snd.node.UDP()}
		}
		env := n.env()
		out := guarded(callTimeout, func() string { return talkClass(p.VerifHandleTalkRequest(snd.node, snd.addr, msg)) })
		o.Case(fmt.Sprintf("talk net=%s ver=%s %s msg=%s", n.net, s.ver, env, termsPlus(ts)), out)
		checkAbort()
		n.drain()
	}
	any := func() sender {
		if r.Intn(12) == 0 {
			return sender{ver: "x"}
		}
		if r.Intn(10) == 0 {
			// a sender whose record has no usable UDP endpoint (a node behind NAT signs such a record before it learns its
			// address): no ip and no port, an ip without a port, the unspecified address. It speaks version 0 (no pv entry).
			var rec enr.Record
			switch r.Intn(3) {
			case 1:
				rec.Set(enr.IP(net.IP{35, 77, 1, byte(1 + r.Intn(200))}))
			case 2:
				rec.Set(enr.IP(net.IP{0, 0, 0, 0}))
				rec.Set(enr.UDP(uint16(3000 + r.Intn(1000))))
			}
			if enode.SignV4(&rec, keyFromSeed(r)) == nil {
				if nn, err := enode.New(enode.ValidSchemes, &rec); err == nil {
					return sender{"0", nn, &net.UDPAddr{IP: net.IP{35, 78, 1, 1}, Port: 4000 + r.Intn(1000)}}
				}
			}
		}
		return senders[r.Intn(len(senders))]
	}
	one := func(b []byte) []Term { return []Term{lit(b)} }
	rnd := func(k int) []byte { b := make([]byte, k); r.Read(b); return b }

	if !reduced {
		// (a) boundary lengths: empty, one byte for every code, two and three bytes
		emit(any(), nil)
		for c := 0; c < 256; c++ {
			emit(any(), one([]byte{byte(c)}))
		}
		for _, c := range []byte{0, 1, 2, 3, 4, 5, 6, 7, 8, 255} {
			emit(any(), one([]byte{c, byte(r.Intn(256))}))
			emit(any(), one([]byte{c, 4, 0}))
			emit(any(), one(cat([]byte{c}, u32le(4))))
		}
		// PING: fixed part 14; payload limit 1100; offset games
		for _, k := range []int{12, 13, 14, 15} {
			emit(any(), one(cat([]byte{0}, pingBody(r, 1, 0, nil)[:min(k, 14)], rnd(max(0, k-14)))))
		}
		for _, pl := range []int{0, 1, 32, 34, 1099, 1100, 1101, 1300} {
			for _, typ := range []uint16{0, 1, 2, 3, 65535} {
				emit(any(), []Term{lit(cat([]byte{0}, pingBody(r, uint64(r.Intn(3)), typ, nil))), gen(pl, r.Intn(1000))})
			}
		}
		for _, off := range []int{0, 13, 15, 16, 1 << 20} {
			b := pingBody(r, 1, 0, rnd(8))
			copy(b[10:14], u32le(off))
			emit(any(), one(cat([]byte{0}, b)))
		}
		// FINDNODES: offset 4, at most 256 two-byte distances
		for _, k := range []int{0, 1, 2, 3, 255, 256, 257, 600} {
			emit(any(), []Term{lit(cat([]byte{2}, u32le(4))), gen(2*k, r.Intn(1000))})
			emit(any(), []Term{lit(cat([]byte{2}, u32le(4))), gen(2*k+1, r.Intn(1000))})
		}
		for _, off := range []int{0, 3, 5, 8} {
			emit(any(), one(cat([]byte{2}, u32le(off), rnd(8))))
		}
		// FINDCONTENT: key lengths 0, 1, 2, ..., limit 2048
		for _, k := range []int{0, 1, 2, 32, 33, 34, 2047, 2048, 2049, 3000} {
			for _, typ := range []byte{0, 1, 5, 0x10, 0x11, 0x14, 0x20} {
				if k == 0 {
					emit(any(), one(cat([]byte{4}, u32le(4))))
					continue
				}
				emit(any(), []Term{lit(cat([]byte{4}, u32le(4), []byte{typ})), gen(k-1, r.Intn(1000))})
			}
		}
		for _, off := range []int{0, 3, 5, 8} {
			emit(any(), one(cat([]byte{4}, u32le(off), rnd(8))))
		}
		// every item the node holds is asked for by three senders of every kind (the large ones make the node announce a uTP
		// connection to the sender: endpoint-less records included)
		for _, h := range n.have {
			for k := 0; k < 4; k++ {
				emit(any(), one(cat([]byte{4}, u32le(4), h.key)))
			}
		}
		// OFFER: list limit 64, item limit 2048, the empty list in both spellings, empty keys at every position
		emit(any(), one(cat([]byte{6}, u32le(4))))
		emit(any(), one(cat([]byte{6}, u32le(4), u32le(0))))
		emit(any(), one(cat([]byte{6}, u32le(4), u32le(4))))
		for _, s := range senders {
			emit(s, one(cat([]byte{6}, u32le(4), u32le(4)))) // one empty key, every version
			emit(s, one(cat([]byte{6}, offerBody([][]byte{n.genKey(r), nil}))))
			emit(s, one(cat([]byte{6}, offerBody([][]byte{nil, n.genKey(r)}))))
		}
		for _, k := range []int{1, 2, 63, 64, 65, 100} {
			keys := make([][]byte, k)
			for i := range keys {
				keys[i] = cat([]byte{byte(0x10 * r.Intn(3))}, rnd(4))
			}
			emit(any(), one(cat([]byte{6}, offerBody(keys))))
		}
		for _, k := range []int{2047, 2048, 2049} {
			emit(any(), []Term{lit(cat([]byte{6}, u32le(4), u32le(4), []byte{1})), gen(k-1, r.Intn(1000))})
		}

	}
	// every prefix of a valid message of each type (all truncation points of the fixed part and beyond)
	if !reduced {
		for _, full := range [][]byte{
			cat([]byte{0}, pingBody(r, 1, 0, rnd(6))),
			cat([]byte{2}, u32le(4), []byte{0, 1, 0, 1}),
			cat([]byte{4}, u32le(4), []byte{1, 2, 3}),
			cat([]byte{6}, offerBody([][]byte{{1, 2}, {3}})),
		} {
			for k := 0; k <= len(full); k++ {
				emit(any(), one(full[:k]))
			}
		}
	}
	// (b) valid encodings with keys that matter to this network's adapter, and their mutations
	nValid := 500 * scale
	if reduced {
		nValid = 150 * scale
	}
	for i := 0; i < nValid; i++ {
		var msg []byte
		switch r.Intn(10) {
		case 0:
			typ := []uint16{0, 1, 2, 65535, uint16(r.Intn(65536))}[r.Intn(5)]
			seq := uint64(r.Intn(2))
			if r.Intn(20) == 0 {
				seq = uint64(r.Int63())
			}
			msg = cat([]byte{0}, pingBody(r, seq, typ, rnd([]int{0, 32, 34, r.Intn(80)}[r.Intn(4)])))
		case 1:
			msg = cat([]byte{2}, u32le(4), rnd(2*r.Intn(6)))
		case 2, 3, 4, 5:
			msg = cat([]byte{4}, u32le(4), n.genKey(r))
		default:
			keys := make([][]byte, r.Intn(5))
			for k := range keys {
				keys[k] = n.genKey(r)
			}
			msg = cat([]byte{6}, offerBody(keys))
		}
		if r.Intn(3) == 0 {
			msg = c01_mutate(r, msg)
		}
		emit(any(), one(msg))
	}
	if reduced {
		return
	}
	// (c) random bytes, first byte biased to the request codes
	for i := 0; i < 250*scale; i++ {
		k := []int{r.Intn(8), r.Intn(40), r.Intn(300), r.Intn(1400)}[r.Intn(4)]
		b := rnd(k)
		if k > 0 && r.Intn(3) != 0 {
			b[0] = []byte{0, 2, 4, 6}[r.Intn(4)]
		}
		emit(any(), one(b))
	}
	// (d) every message code in front of a body that is valid for some request
	bodies := [][]byte{pingBody(r, 1, 0, nil), cat(u32le(4), []byte{0, 1}), cat(u32le(4), n.genKey(r)), offerBody([][]byte{n.genKey(r)})}
	for c := 0; c < 256; c++ {
		emit(any(), one(cat([]byte{byte(c)}, bodies[c%4])))
	}
}

// ---------------------------------------------------------------- resp: the four response processors

func errClass(err error) string {
	if err != nil {
		return "err"
	}
	return "ok"
}

func nodesBody(total byte, enrs [][]byte) []byte {
	b := cat([]byte{total}, u32le(5))
	off := 4 * len(enrs)
	for _, e := range enrs {
		b = append(b, u32le(off)...)
		off += len(e)
	}
	for _, e := range enrs {
		b = append(b, e...)
	}
	return b
}

func runResp(o *Out, r *rand.Rand, scale int, n *c01Node, senders []sender) {
	p := n.p
	rnd := func(k int) []byte { b := make([]byte, k); r.Read(b); return b }
	mkReq := func(k int) *portalwire.OfferRequest {
		var es []*portalwire.ContentEntry
		for i := 0; i < k; i++ {
			es = append(es, &portalwire.ContentEntry{ContentKey: cat([]byte{1}, rnd(8)), Content: genBytes(20, i)})
		}
		return &portalwire.OfferRequest{Kind: portalwire.TransientOfferRequestKind, Request: &portalwire.TransientOfferRequest{Contents: es}}
	}
	call := func(kind string, s sender, nk int, resp []byte) string {
		resp = exact(resp)
		return guarded(3*callTimeout, func() string {
			switch kind {
			case "pong":
				_, _, err := p.VerifProcessPong(s.node, resp)
				return errClass(err)
			case "nodes":
				_, err := p.VerifProcessNodes(s.node, resp, []uint{256, 255, 0})
				return errClass(err)
			case "content":
				_, _, err := p.VerifProcessContent(s.node, resp)
				return errClass(err)
			default:
				permit, ok := p.Utp.GetOutboundPermit()
				if !ok {
					permit = &portalwire.NoPermit{}
				}
				_, err := p.VerifProcessOffer(s.node, resp, mkReq(nk), permit)
				return errClass(err)
			}
		})
	}
	line := func(kind string, s sender, nk int, resp []byte) string {
		return fmt.Sprintf("resp kind=%s net=%s ver=%s nk=%d resp=%s", kind, n.net, s.ver, nk, bt(resp))
	}
	emit := func(kind string, s sender, nk int, resp []byte) {
		o.Case(line(kind, s, nk, resp), call(kind, s, nk, resp))
		checkAbort()
	}
	any := func() sender { return senders[r.Intn(len(senders))] }

	kinds := []string{"pong", "nodes", "content", "offer"}
	codes := map[string]byte{"pong": 1, "nodes": 3, "content": 5, "offer": 7}
	// (a) boundary lengths for every processor: empty, every code alone, two and three bytes
	for _, k := range kinds {
		emit(k, any(), 2, nil)
		for c := 0; c < 256; c++ {
			if c%8 == 0 || c < 9 {
				emit(k, any(), 2, []byte{byte(c)})
			}
		}
		emit(k, any(), 2, []byte{codes[k]})
		for sel := 0; sel < 256; sel++ {
			if k == "content" || sel < 4 {
				emit(k, any(), 2, []byte{codes[k], byte(sel)})
				emit(k, any(), 2, []byte{codes[k], byte(sel), byte(r.Intn(256))})
			}
		}
	}
	radius := rnd(32)
	clientInfo, _ := pingextClientInfo(radius)
	valid := func(kind string, s sender, nk int) []byte {
		switch kind {
		case "pong":
			typ := []uint16{0, 1, 2, 3, 65535}[r.Intn(5)]
			var pl []byte
			switch r.Intn(5) {
			case 0:
				pl = clientInfo
			case 1:
				pl = radius
			case 2:
				pl = cat(radius, []byte{1, 0})
			case 3:
				pl = rnd(r.Intn(50))
			}
			seq := uint64(r.Intn(2))
			return cat([]byte{1}, pingBody(r, seq, typ, pl))
		case "nodes":
			var enrs [][]byte
			for i := r.Intn(4); i > 0; i-- {
				if r.Intn(2) == 0 {
					enrs = append(enrs, enrBytes(signRecPad(keyFromSeed(r), net.IP{50, 1, byte(r.Intn(200)), 9}, 4000, 1, 0)))
				} else {
					enrs = append(enrs, rnd(r.Intn(60)))
				}
			}
			return cat([]byte{3}, nodesBody(1, enrs))
		case "content":
			switch r.Intn(3) {
			case 0:
				return cat([]byte{5, 1}, rnd([]int{0, 1, 100, 2048, 2049}[r.Intn(5)]))
			case 1:
				var enrs [][]byte
				for i := r.Intn(3); i > 0; i-- {
					enrs = append(enrs, enrBytes(signRecPad(keyFromSeed(r), net.IP{50, 2, byte(r.Intn(200)), 9}, 4000, 1, 0)))
				}
				return cat([]byte{5, 2}, nodesBody(1, enrs)[5:])
			default:
				return cat([]byte{5, 0}, rnd([]int{0, 1, 3}[r.Intn(3)])) // wrong sizes only: size 2 dials
			}
		default:
			v := uint8(0)
			if s.ver == "1" {
				v = 1
			}
			k := []int{nk, nk, nk, nk - 1, nk + 1, 0, 64, 65}[r.Intn(8)]
			if k < 0 {
				k = 0
			}
			verdicts := make([]uint8, k)
			for i := range verdicts {
				verdicts[i] = uint8(r.Intn(7))
				if r.Intn(3) == 0 {
					verdicts[i] = 1 + uint8(r.Intn(5)) // declined
				}
			}
			if r.Intn(3) == 0 { // all declined: no transfer is started
				for i := range verdicts {
					verdicts[i] = 1 + uint8(r.Intn(5))
				}
			}
			if r.Intn(4) == 0 {
				v = 1 - v // the other version's encoding
			}
			return acceptBytes(v, verdicts, uint16(r.Intn(65536)))
		}
	}
	// every prefix of a valid response of each kind (all truncation points)
	for _, k := range kinds {
		for _, s := range senders {
			full := valid(k, s, 2)
			if len(full) > 80 {
				full = full[:80]
			}
			for c := 0; c <= len(full); c++ {
				if k == "content" && c == 4 && full[1] == 0 {
					continue // a complete connection-id reply dials
				}
				emit(k, s, 2, full[:c])
			}
		}
	}
	// (b) valid encodings and their mutations, (c) random bytes behind the right code
	for i := 0; i < 150*scale; i++ {
		for _, k := range kinds {
			s := any()
			nk := r.Intn(5)
			resp := valid(k, s, nk)
			switch r.Intn(4) {
			case 0:
				resp = c01_mutate(r, resp)
			case 1:
				if r.Intn(3) == 0 {
					resp = cat([]byte{codes[k]}, rnd(r.Intn(40)))
				}
			}
			if k == "content" && len(resp) == 4 && resp[0] == 5 && resp[1] == 0 {
				continue // would dial; covered by the parallel cases above
			}
			emit(k, s, nk, resp)
		}
	}
	// limits: NODES / CONTENT-ENRs with 32 and 33 records, records of 2048 and 2049 bytes
	for _, k := range []int{32, 33} {
		enrs := make([][]byte, k)
		for i := range enrs {
			enrs[i] = rnd(3)
		}
		emit("nodes", any(), 0, cat([]byte{3}, nodesBody(1, enrs)))
		emit("content", any(), 0, cat([]byte{5, 2}, nodesBody(1, enrs)[5:]))
	}
	for _, k := range []int{2048, 2049} {
		emit("nodes", any(), 0, cat([]byte{3}, nodesBody(1, [][]byte{genBytes(k, 3)})))
		emit("content", any(), 0, cat([]byte{5, 2}, nodesBody(1, [][]byte{genBytes(k, 3)})[5:]))
		emit("pong", any(), 0, cat([]byte{1}, pingBody(r, 1, 0, genBytes(k-948, 5)))) // 1100 / 1101
	}
}

// ---------------------------------------------------------------- oc: handleOfferedContents (uTP stream body)

func lebEnc(v uint64) []byte {
	var b []byte
	for {
		c := byte(v & 0x7f)
		v >>= 7
		if v != 0 {
			b = append(b, c|0x80)
		} else {
			return append(b, c)
		}
	}
}

func runOfferedContents(o *Out, r *rand.Rand, scale int, n *c01Node) {
	p := n.p
	id := n.p.Self().ID()
	rnd := func(k int) []byte { b := make([]byte, k); r.Read(b); return b }
	emit := func(nk int, ts []Term) {
		keys := make([][]byte, nk)
		for i := range keys {
			keys[i] = exact(n.genKey(r))
		}
		payload := exact(termsBytes(ts))
		out := guarded(callTimeout, func() string { return errClass(p.VerifHandleOfferedContents(id, keys, payload)) })
		o.Case(fmt.Sprintf("oc net=%s nk=%d payload=%s", n.net, nk, termsPlus(ts)), out)
		checkAbort()
		n.drain()
	}
	emit(0, nil)
	emit(1, nil)
	for _, b := range [][]byte{{0}, {1}, {0x80}, {0x80, 0}, {0xff, 0xff, 0xff, 0xff, 0x0f}, {0xff, 0xff, 0xff, 0xff, 0x10}, {0x80, 0x80, 0x80, 0x80, 0x80, 0}, {1, 7}, {2, 7}} {
		for nk := 0; nk < 3; nk++ {
			emit(nk, []Term{lit(b)})
		}
	}
	for i := 0; i < 120*scale; i++ {
		k := r.Intn(5)
		var ts []Term
		for j := 0; j < k; j++ {
			sz := []int{0, 1, r.Intn(200), 127, 128, 16383, 16384, r.Intn(3000)}[r.Intn(8)]
			ts = append(ts, lit(lebEnc(uint64(sz))), gen(sz, r.Intn(1000)))
		}
		nk := k
		switch r.Intn(6) {
		case 0:
			nk = k + 1
		case 1:
			if k > 0 {
				nk = k - 1
			}
		case 2:
			ts = []Term{lit(c01_mutate(r, termsBytes(ts)))}
		case 3:
			ts = append(ts, lit(rnd(1+r.Intn(4))))
		}
		emit(nk, ts)
	}
	for i := 0; i < 60*scale; i++ {
		emit(r.Intn(4), []Term{lit(rnd(r.Intn(60)))})
	}
}

// runUtpBody: a looked-up item that arrives over a uTP stream the peer really serves (connect, write, EOF), with the body
// framed the way the peer believes is negotiated: honestly, raw while we expect the version-1 frame (decoding fails AFTER a
// complete read), and framed while we expect raw bytes. The call returns a value or an error.
// runPongThenNodes: a TALKRESP to one of OUR requests that makes us send a second request, whose answer is then the input: a
// peer of our table answers our PING with a PONG announcing a newer record than we hold, we ask it for that record
// (FINDNODES for distance 0), and it answers with a well-formed NODES message that holds its new record (honest), nothing, a
// record of somebody else, or its record with a broken signature. The PING comes back fine in every case; nothing panics.
func runPongThenNodes(o *Out, r *rand.Rand) {
	mn := newMemNet()
	a := startNode(mn, r, nodeOpts{ip: net.IP{34, 41, 1, 1}, port: 9910, versions: []uint8{0, 1}, utpLimit: 10})
	for i, kind := range []string{"honest", "empty", "foreign", "unsigned", "twice", "honest"} {
		sp := startScriptedPeer(mn, r, net.IP{34, byte(42 + i), 2, 1}, 9911+i, portalwire.History)
		held := sp.node()
		a.p.AddEnr(held)
		sp.ln.Set(enr.WithEntry("bump", uint8(i))) // the peer's record moves on; we still hold (and ping) the old one
		newer := sp.node()
		rad, _ := new(uint256.Int).SetAllOne().MarshalSSZ()
		pl := pingext.NewClientInfoAndCapabilitiesPayload(rad, []uint16{0, 2})
		plb, _ := pl.MarshalSSZ()
		var asked int32 // FINDNODES requests the peer received: the scenario is about the answer to the second request
		sp.reply = func(req []byte) []byte {
			if len(req) == 0 {
				return nil
			}
			switch req[0] {
			case portalwire.PING:
				body, _ := (&portalwire.Pong{EnrSeq: newer.Seq(), PayloadType: pingext.ClientInfo, Payload: plb}).MarshalSSZ()
				return append([]byte{portalwire.PONG}, body...)
			case portalwire.FINDNODES:
				atomic.AddInt32(&asked, 1)
				var recs [][]byte
				own, _ := rlp.EncodeToBytes(newer.Record())
				switch kind {
				case "honest":
					recs = [][]byte{own}
				case "foreign":
					other, _ := rlp.EncodeToBytes(signRecPad(keyFromSeed(rand.New(rand.NewSource(int64(i)))), net.IP{34, 41, 3, 1}, 9000, 1, 0).Record())
					recs = [][]byte{other}
				case "unsigned":
					bad := append([]byte{}, own...)
					bad[10] ^= 0x40
					recs = [][]byte{bad}
				case "twice":
					recs = [][]byte{own, own}
				}
				body, _ := (&portalwire.Nodes{Total: 1, Enrs: recs}).MarshalSSZ()
				return append([]byte{portalwire.NODES}, body...)
			}
			return nil
		}
		out := guarded(callTimeout, func() string {
			_, err := a.p.VerifPing(held)
			return errClass(err)
		})
		o.Case(fmt.Sprintf("pongseq kind=%s asked=%d", kind, atomic.LoadInt32(&asked)), out)
		sp.stop()
		checkAbort()
	}
	a.stop()
}

func runUtpBody(o *Out, r *rand.Rand) {
	mn := newMemNet()
	// the serving side frames by what the asker ADVERTISES; the asker decodes by what its version cache says about the very
	// node object the look-up is given (set here by hand to disagree)
	a0 := startNode(mn, r, nodeOpts{ip: net.IP{34, 40, 1, 1}, port: 9900, versions: []uint8{0}, utpLimit: 20})
	a1 := startNode(mn, r, nodeOpts{ip: net.IP{34, 40, 1, 3}, port: 9902, versions: []uint8{0, 1}, utpLimit: 20})
	b := startNode(mn, r, nodeOpts{ip: net.IP{34, 40, 1, 2}, port: 9901, versions: []uint8{0, 1}, utpLimit: 20})
	for _, a := range []*realNode{a0, a1} {
		a.p.AddEnr(b.p.Self())
		b.p.AddEnr(a.p.Self())
		_, _ = a.p.VerifPing(b.p.Self())
	}
	for i, kind := range []string{"honest", "raw_for_v1", "framed_for_v0", "honest"} {
		key := []byte(fmt.Sprintf("utpbody-%d", i))
		idh := sha256.Sum256(key)
		_ = b.store.Put(key, idh[:], genBytes(2000+i, i))
		a, bn := a1, b.p.Self()
		switch kind {
		case "raw_for_v1":
			a = a0                           // b sends raw bytes (version 0 is all a0 advertises) ...
			a.p.VerifVersionsCacheSet(bn, 1) // ... and a0 expects the version-1 frame
		case "framed_for_v0":
			a.p.VerifVersionsCacheSet(bn, 0) // b frames (both speak version 1), a1 reads raw bytes
		}
		out := guarded(3*callTimeout, func() string {
			_, _, err := a.p.VerifFindContent(bn, key)
			return errClass(err)
		})
		o.Case(fmt.Sprintf("utpbody kind=%s n=%d", kind, i), out)
		checkAbort()
	}
	a0.stop()
	a1.stop()
	b.stop()
}
