//go:build verif

package main

import (
	"bytes"
	"context"
	"crypto/sha256"
	"encoding/binary"
	"fmt"
	"github.com/ethereum/go-ethereum/log"
	"github.com/holiman/uint256"
	"github.com/zen-eth/shisui/storage"
	"log/slog"
	"math/rand"
	"net"
	"net/netip"
	"strconv"
	"strings"
	"sync"
	"sync/atomic"
	"time"

	"github.com/ethereum/go-ethereum/p2p/enode"
	"github.com/ethereum/go-ethereum/p2p/enr"
	"github.com/ethereum/go-ethereum/rlp"
	"github.com/zen-eth/shisui/portalwire"
)

func init() {
	runners["findcontent"] = runFindContent
	runners["transfer"] = runTransfer
}

var fcSizes = []int{0, 1, 2, 500, 1000, 1173, 1174, 1175, 1176, 1177, 1178, 1300, 5000}

// runFindContent: the real handleFindContent on a started node: content absent / stored with boundary sizes,
// asker one of the closest table nodes or a stranger.
func runFindContent(o *Out, r *rand.Rand, thorough bool, _ []string) {
	rounds, perRound := 3, 250
	if thorough {
		rounds, perRound = 30, 400
	}
	perRound = shorter(perRound, thorough)
	for round := 0; round < rounds; round++ {
		mn := newMemNet()
		// every other round the node advertises a small radius: what it HOLDS is served whatever its radius says (a store
		// keeps the farthest item of a pruning pass exactly at distance = radius, which the in-range test counts as outside)
		var st storage.ContentStorage
		if round%2 == 1 {
			st = &radiusStore{db: map[string][]byte{}, radius: new(uint256.Int).Lsh(uint256.NewInt(1), uint(r.Intn(250)))}
		}
		nd := startNode(mn, r, nodeOpts{ip: net.IP{34, 50, 61, byte(10 + round)}, port: 9200 + round, utpLimit: 2000, store: st})
		count := 40 + r.Intn(220)
		if round%3 == 2 {
			count = r.Intn(6) // nearly empty table
		}
		known := fillTable(nd, r, count, round%2 == 0)
		stranger := signRecPad(keyFromSeed(r), net.IP{34, 99, 1, 1}, 4000, 1, 0)
		storedBefore := map[string][2]int{}
		for c := 0; c < perRound; c++ {
			key := make([]byte, 1+r.Intn(40))
			r.Read(key)
			idh := sha256.Sum256(key)
			cid := idh[:]
			stored, gseed := -1, c
			if prev, seen := storedBefore[string(key)]; seen {
				// a short key drawn again: what the node holds is what was put the first time
				stored, gseed = prev[0], prev[1]
			} else if r.Intn(5) < 2 {
				stored = fcSizes[r.Intn(len(fcSizes))]
				_ = nd.store.Put(key, cid, genBytes(stored, c))
				storedBefore[string(key)] = [2]int{stored, c}
			}
			before := viewTable(nd, known)
			closest := nd.p.VerifFindNodesCloseToContent(cid, 32)
			asker := stranger
			askerIdx := 0
			if len(closest) > 0 && r.Intn(2) == 0 {
				asker = closest[r.Intn(len(closest))]
				askerIdx = before.index[asker.ID()]
			} else if r.Intn(4) == 0 {
				// a table node that is not among the closest
				for id, tn := range known {
					if _, ok := before.index[id]; ok {
						asker, askerIdx = tn.node, before.index[id]
						break
					}
				}
			}
			resp, err := nd.p.VerifHandleFindContent(asker, &net.UDPAddr{IP: asker.IP(), Port: asker.UDP()}, &portalwire.FindContent{ContentKey: key})
			after := viewTable(nd, known)
			if before.desc != after.desc {
				continue
			}
			// table with log distance to the content id
			var tab []string
			s := nd.p.VerifTable().VerifSnapshot()
			for _, b := range s.Buckets {
				for _, e := range b.Entries {
					tab = append(tab, fmt.Sprintf("%d:%d:%d", before.index[e.Node.ID()], enode.LogDist(e.Node.ID(), enode.ID(cid)), enrSize(e.Node)))
				}
			}
			var so []string
			for _, n2 := range closest {
				so = append(so, strconv.Itoa(before.index[n2.ID()]))
			}
			if len(tab) == 0 {
				tab = []string{"-"}
			}
			if len(so) == 0 {
				so = []string{"-"}
			}
			input := fmt.Sprintf("findcontent asker=%d stored=%d tab=%s sorted=%s", askerIdx, stored, strings.Join(tab, ","), strings.Join(so, ","))
			if err != nil || len(resp) < 2 || resp[0] != portalwire.CONTENT {
				o.Case(input, "error")
				continue
			}
			switch resp[1] {
			case portalwire.ContentRawSelector:
				m := &portalwire.Content{}
				if m.UnmarshalSSZ(resp[2:]) != nil {
					o.Case(input, "undecodable")
					continue
				}
				o.Case(input, fmt.Sprintf("raw=%d same=%d total=%d", len(m.Content), b2i(bytes.Equal(m.Content, genBytes(stored, gseed))), len(resp)))
			case portalwire.ContentConnIdSelector:
				m := &portalwire.ConnectionId{}
				if m.UnmarshalSSZ(resp[2:]) != nil {
					o.Case(input, "undecodable")
					continue
				}
				o.Case(input, fmt.Sprintf("connid total=%d", len(resp)))
			case portalwire.ContentEnrsSelector:
				m := &portalwire.Enrs{}
				if m.UnmarshalSSZ(resp[2:]) != nil {
					o.Case(input, "undecodable")
					continue
				}
				var ids []string
				for _, e := range m.Enrs {
					rec := &enr.Record{}
					if rlp.DecodeBytes(e, rec) != nil {
						ids = append(ids, "999998")
						continue
					}
					n2, err := enode.New(enode.ValidSchemes, rec)
					if err != nil {
						ids = append(ids, "999998")
					} else if k, ok := before.index[n2.ID()]; ok {
						ids = append(ids, strconv.Itoa(k))
					} else {
						ids = append(ids, "999999")
					}
				}
				if len(ids) == 0 {
					ids = []string{"-"}
				}
				o.Case(input, fmt.Sprintf("enrs=%s total=%d", strings.Join(ids, ","), len(resp)))
			default:
				o.Case(input, "badselector")
			}
		}
		nd.stop()
	}
}

// runTransfer: FINDCONTENT end to end between two real protocol instances (real discv5, real uTP) for every size
// class and version pairing; what the asker ends up with must equal what the responder stores; every datagram on the
// wire is measured.
func runTransfer(o *Out, r *rand.Rand, thorough bool, args []string) {
	sizes := []int{0, 1, 1174, 1175, 1176, 1177, 4000}
	if thorough {
		sizes = append(sizes, 30000, 100000, 1000, 1172, 1173, 1180, 2500)
	}
	framingOnly := len(args) > 0 && args[0] == "framing"
	if framingOnly {
		// the run C19 uses: only transfers that go over uTP (where the negotiated version frames the stream)
		sizes = []int{1177, 4000}
		if thorough {
			sizes = append(sizes, 30000, 2500)
		}
	}
	pairs := [][2][]uint8{{{0, 1}, {0, 1}}, {{0}, {0, 1}}, {{0, 1}, {0}}, {{0}, {0}}, {{0, 1}, {0, 1}}, {{0}, {0}}}
	// the last two pairings serve through a SLOW LOG SINK: the serving node's logger takes 300 ms for the line the serving
	// goroutine writes before it registers its uTP accept, so the asker's SYN is there first. The order in which the two
	// happen is nobody's to choose; the bytes arrive either way.
	slowFrom := 4
	// the pairings run side by side (each on an in-memory network and a PRNG of its own); their lines are written in order
	lines := make([][][2]string, len(pairs))
	var wg sync.WaitGroup
	for pi, pr := range pairs {
		pi, pr := pi, pr
		r := rand.New(rand.NewSource(r.Int63()))
		o := &lineBuf{}
		wg.Add(1)
		go func() {
			defer wg.Done()
			defer func() { lines[pi] = o.lines }()
			mn := newMemNet()
			a := startNode(mn, r, nodeOpts{ip: net.IP{34, 1, 1, byte(1 + pi)}, port: 9300, versions: pr[0], utpLimit: 50})
			b := startNode(mn, r, nodeOpts{ip: net.IP{34, 2, 2, byte(1 + pi)}, port: 9301, versions: pr[1], utpLimit: 50})
			// make the peers known to each other (table membership is what FINDCONTENT replies are built from)
			a.p.AddEnr(b.p.Self())
			b.p.AddEnr(a.p.Self())
			if _, err := a.p.VerifPing(b.p.Self()); err != nil {
				o.Case(fmt.Sprintf("transfer-ping pair=%d", pi), "fail")
			}
			slow := ""
			if pi >= slowFrom {
				b.p.Log = log.NewLogger(slowSink{prefix: "will accept", d: 300 * time.Millisecond})
				slow = " slowlog=1"
			}
			// after the plain sizes: values that LOOK like a framed stream themselves - a varint length followed by exactly that many
			// bytes (once, or twice nested). They are content like any other and come back byte for byte.
			type tcase struct {
				sz    int
				val   []byte
				shape string
			}
			var cases []tcase
			for _, sz := range sizes {
				if slow != "" && sz != 4000 && sz != 1177 {
					continue
				}
				cases = append(cases, tcase{sz, genBytes(sz, sz%251), ""})
			}
			{
				v := append(binary.AppendUvarint(nil, 2000), genBytes(2000, 7)...)
				cases = append(cases, tcase{len(v), v, " shape=selfframed"})
				w := append(binary.AppendUvarint(nil, 1300), genBytes(1300, 8)...)
				w2 := append(binary.AppendUvarint(nil, uint64(len(w))), w...)
				cases = append(cases, tcase{len(w2), w2, " shape=selfframed2"})
			}
			for _, tc := range cases {
				sz, val := tc.sz, tc.val
				key := []byte(fmt.Sprintf("k-%d-%d%s", pi, sz, tc.shape))
				idh := sha256.Sum256(key)
				_ = b.store.Put(key, idh[:], val)
				mn.resetSizes()
				type res struct {
					flag byte
					data interface{}
					err  error
				}
				ch := make(chan res, 1)
				go func() {
					f, d, err := a.p.VerifFindContent(b.p.Self(), key)
					ch <- res{f, d, err}
				}()
				var out string
				select {
				case x := <-ch:
					if x.err != nil {
						out = "error"
					} else if got, ok := x.data.([]byte); ok {
						out = fmt.Sprintf("flag=%d same=%d maxdgram_ok=%d", x.flag, b2i(bytes.Equal(got, val)), b2i(mn.maxSize() <= 1280))
					} else {
						out = fmt.Sprintf("flag=%d notbytes", x.flag)
					}
				case <-time.After(40 * time.Second):
					out = "timeout"
				}
				o.Case(fmt.Sprintf("transfer size=%d va=%s vb=%s%s%s", sz, csv(pr[0]), csv(pr[1]), tc.shape, slow), out)
			}
			a.stop()
			b.stop()
		}()
	}
	wg.Wait()
	for _, ls := range lines {
		for _, l := range ls {
			o.Case(l[0], l[1])
		}
	}
	// the stream id is drawn at random by the serving node's uTP library; every 16-bit value is an ordinary id. Here the serving
	// half of the transfer is played for PINNED ids (the ends of the range included) exactly as handleFindContent's goroutine does
	// it - accept on (recv=id+1, send=id), frame for the asker's version, write, close - and the asker's real reply processing
	// takes the CONTENT message that announces that id
	for vi, vs := range [][]uint8{{0, 1}, {0}} {
		for ii, id := range []uint16{0, 1, 0xffff, uint16(2 + r.Intn(65000))} {
			// a pair of nodes of its own for every id: neighbouring ids would meet the connection of the previous transfer while
			// it lingers (the asker's id for stream n+1 is the server's id for stream n)
			mn := newMemNet()
			a := startNode(mn, r, nodeOpts{ip: net.IP{34, 1, byte(3 + ii), byte(1 + vi)}, port: 9320, versions: vs, utpLimit: 50})
			b := startNode(mn, r, nodeOpts{ip: net.IP{34, 2, byte(4 + ii), byte(1 + vi)}, port: 9321, versions: vs, utpLimit: 50})
			a.p.AddEnr(b.p.Self())
			b.p.AddEnr(a.p.Self())
			_, _ = a.p.VerifPing(b.p.Self())
			val := genBytes(5000, int(id%251))
			cid := b.p.Utp.RecvId(a.p.Self(), id)
			srvDone := make(chan error, 1)
			go func() {
				ctx, cancel := context.WithTimeout(context.Background(), 10*time.Second)
				defer cancel()
				conn, err := b.p.Utp.AcceptWithCid(ctx, cid)
				if err != nil || conn == nil {
					srvDone <- fmt.Errorf("accept: %v", err)
					return
				}
				payload, err := b.p.VerifEncodeUtpContent(a.p.Self(), val)
				if err == nil {
					_, err = conn.Write(ctx, payload)
				}
				conn.Close()
				srvDone <- err
			}()
			idMsg, _ := (&portalwire.ConnectionId{Id: []byte{byte(id >> 8), byte(id)}}).MarshalSSZ()
			reply := append([]byte{portalwire.CONTENT, portalwire.ContentConnIdSelector}, idMsg...)
			mn.resetSizes()
			type res struct {
				flag byte
				data interface{}
				err  error
			}
			ch := make(chan res, 1)
			go func() {
				f, d, err := a.p.VerifProcessContent(b.p.Self(), reply)
				ch <- res{f, d, err}
			}()
			var out string
			select {
			case x := <-ch:
				if x.err != nil {
					out = "error"
				} else if got, ok := x.data.([]byte); ok {
					out = fmt.Sprintf("flag=%d same=%d maxdgram_ok=%d", x.flag, b2i(bytes.Equal(got, val)), b2i(mn.maxSize() <= 1280))
				} else {
					out = fmt.Sprintf("flag=%d notbytes", x.flag)
				}
			case <-time.After(40 * time.Second):
				out = "timeout"
			}
			o.Case(fmt.Sprintf("transfer size=%d va=%s vb=%s streamid=%d", len(val), csv(vs), csv(vs), id), out)
			a.stop()
			b.stop()
		}
	}
	// a transfer that stalls (the serving node's datagrams stop arriving after the first twenty full ones) and an asker that is
	// shut down two seconds later, while its read is under way: the look-up ends with an error - or with the stored bytes -,
	// never with a part of them
	for vi, vs := range [][]uint8{{0}, {0, 1}} {
		mn := newMemNet()
		a := startNode(mn, r, nodeOpts{ip: net.IP{34, 1, 9, byte(1 + vi)}, port: 9330, versions: vs, utpLimit: 50})
		b := startNode(mn, r, nodeOpts{ip: net.IP{34, 2, 9, byte(1 + vi)}, port: 9331, versions: vs, utpLimit: 50})
		a.p.AddEnr(b.p.Self())
		b.p.AddEnr(a.p.Self())
		_, _ = a.p.VerifPing(b.p.Self())
		key := []byte(fmt.Sprintf("stall-%d", vi))
		idh := sha256.Sum256(key)
		val := genBytes(300000, 40+vi)
		_ = b.store.Put(key, idh[:], val)
		bAddr := netip.AddrPortFrom(netip.AddrFrom4([4]byte{34, 2, 9, byte(1 + vi)}), 9331)
		var big int32
		mn.mu.Lock()
		mn.drop = func(from, _ netip.AddrPort, pkt []byte) bool {
			if from != bAddr {
				return false
			}
			if len(pkt) > 900 {
				return atomic.AddInt32(&big, 1) > 20
			}
			return atomic.LoadInt32(&big) > 20
		}
		mn.mu.Unlock()
		type res struct {
			data interface{}
			err  error
		}
		ch := make(chan res, 1)
		go func() {
			_, d, err := a.p.VerifFindContent(b.p.Self(), key)
			ch <- res{d, err}
		}()
		time.Sleep(2 * time.Second)
		a.stop()
		out := "timeout"
		select {
		case x := <-ch:
			if x.err != nil {
				out = "error"
			} else if got, ok := x.data.([]byte); ok {
				out = fmt.Sprintf("flag=0 same=%d maxdgram_ok=1", b2i(bytes.Equal(got, val)))
			} else {
				out = "flag=0 notbytes"
			}
		case <-time.After(70 * time.Second):
		}
		o.Case(fmt.Sprintf("transfer size=%d va=%s vb=%s stalled=1", len(val), csv(vs), csv(vs)), out)
		b.stop()
	}
	// the serving side knows the asker by an OLDER record that advertises other versions than the asker does now (it was
	// upgraded or rolled back and re-published its record): framing follows the record of the live session, not the table's
	stale := [][2][]uint8{{{0}, {0, 1}}, {{0, 1}, {0}}}
	for si, st := range stale {
		mn := newMemNet()
		ka := keyFromSeed(r)
		ipA := net.IP{34, 1, 2, byte(1 + si)}
		a := startNode(mn, r, nodeOpts{ip: ipA, port: 9310, versions: st[0], utpLimit: 50, key: ka})
		b := startNode(mn, r, nodeOpts{ip: net.IP{34, 2, 3, byte(1 + si)}, port: 9311, versions: []uint8{0, 1}, utpLimit: 50})
		b.p.AddEnr(signRecPv(ka, ipA, 9310, 1, st[1])) // what b has in its table: sequence number 1, the other version list
		a.p.AddEnr(b.p.Self())
		for _, sz := range []int{1500, 5000} {
			key := []byte(fmt.Sprintf("ks-%d-%d", si, sz))
			idh := sha256.Sum256(key)
			val := genBytes(sz, sz%251)
			_ = b.store.Put(key, idh[:], val)
			mn.resetSizes()
			type res struct {
				flag byte
				data interface{}
				err  error
			}
			ch := make(chan res, 1)
			go func() {
				f, d, err := a.p.VerifFindContent(b.p.Self(), key)
				ch <- res{f, d, err}
			}()
			var out string
			select {
			case x := <-ch:
				if x.err != nil {
					out = "error"
				} else if got, ok := x.data.([]byte); ok {
					out = fmt.Sprintf("flag=%d same=%d maxdgram_ok=%d", x.flag, b2i(bytes.Equal(got, val)), b2i(mn.maxSize() <= 1280))
				} else {
					out = fmt.Sprintf("flag=%d notbytes", x.flag)
				}
			case <-time.After(40 * time.Second):
				out = "timeout"
			}
			o.Case(fmt.Sprintf("transfer size=%d va=%s vb=0,1 stale=%s", sz, csv(st[0]), csv(st[1])), out)
		}
		a.stop()
		b.stop()
	}
}

// lineBuf collects case lines of a scenario that runs next to others
type lineBuf struct{ lines [][2]string }

func (b *lineBuf) Case(in, out string) { b.lines = append(b.lines, [2]string{in, out}) }

// slowSink: a log handler that takes its time over the records whose message starts with a given prefix (a blocked terminal,
// a slow disk, a remote collector) and drops everything
type slowSink struct {
	prefix string
	d      time.Duration
}

func (h slowSink) Enabled(context.Context, slog.Level) bool { return true }
func (h slowSink) Handle(_ context.Context, rec slog.Record) error {
	if strings.HasPrefix(rec.Message, h.prefix) {
		time.Sleep(h.d)
	}
	return nil
}
func (h slowSink) WithAttrs([]slog.Attr) slog.Handler { return h }
func (h slowSink) WithGroup(string) slog.Handler      { return h }
