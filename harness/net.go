//go:build verif

package main

import (
	"context"
	"crypto/ecdsa"
	"errors"
	"fmt"
	"math/rand"
	"net"
	"net/netip"
	"sync"
	"time"

	"github.com/ethereum/go-ethereum/p2p/discover"
	"github.com/ethereum/go-ethereum/p2p/enode"
	"github.com/ethereum/go-ethereum/p2p/netutil"
	cache "github.com/go-pkgz/expirable-cache/v3"
	"github.com/zen-eth/shisui/portalwire"
	"github.com/zen-eth/shisui/storage"
)

// memNet is an in-memory datagram switch implementing discover.UDPConn for every attached node.
type memNet struct {
	mu    sync.Mutex
	conns map[netip.AddrPort]*memConn
	drop  func(from, to netip.AddrPort, b []byte) bool
	sizes []int // size of every datagram sent
	maxSz int
}

type memPacket struct {
	b    []byte
	from netip.AddrPort
}

type memConn struct {
	net    *memNet
	addr   netip.AddrPort
	in     chan memPacket
	closed chan struct{}
	once   sync.Once
}

func newMemNet() *memNet { return &memNet{conns: map[netip.AddrPort]*memConn{}} }

func (n *memNet) listen(ip net.IP, port int) *memConn {
	a, _ := netip.AddrFromSlice(ip.To4())
	ap := netip.AddrPortFrom(a, uint16(port))
	c := &memConn{net: n, addr: ap, in: make(chan memPacket, 4096), closed: make(chan struct{})}
	n.mu.Lock()
	n.conns[ap] = c
	n.mu.Unlock()
	return c
}

func (c *memConn) ReadFromUDPAddrPort(b []byte) (int, netip.AddrPort, error) {
	select {
	case p := <-c.in:
		n := copy(b, p.b)
		return n, p.from, nil
	case <-c.closed:
		return 0, netip.AddrPort{}, errors.New("closed")
	}
}

func (c *memConn) WriteToUDPAddrPort(b []byte, to netip.AddrPort) (int, error) {
	c.net.mu.Lock()
	dst := c.net.conns[netip.AddrPortFrom(to.Addr().Unmap(), to.Port())]
	c.net.sizes = append(c.net.sizes, len(b))
	if len(b) > c.net.maxSz {
		c.net.maxSz = len(b)
	}
	drop := c.net.drop
	c.net.mu.Unlock()
	if dst == nil || (drop != nil && drop(c.addr, to, b)) {
		return len(b), nil
	}
	select {
	case dst.in <- memPacket{append([]byte{}, b...), c.addr}:
	default:
	}
	return len(b), nil
}

func (c *memConn) Close() error {
	c.once.Do(func() { close(c.closed) })
	return nil
}
func (c *memConn) LocalAddr() net.Addr {
	return &net.UDPAddr{IP: c.addr.Addr().AsSlice(), Port: int(c.addr.Port())}
}

func (n *memNet) resetSizes() {
	n.mu.Lock()
	n.sizes, n.maxSz = nil, 0
	n.mu.Unlock()
}
func (n *memNet) maxSize() int {
	n.mu.Lock()
	defer n.mu.Unlock()
	return n.maxSz
}

// realNode is a started PortalProtocol (real discv5, real uTP socket, real table loop) on the memNet.
type realNode struct {
	p     *portalwire.PortalProtocol
	disc  *discover.UDPv5
	ln    *enode.LocalNode
	store storage.ContentStorage
	queue chan *portalwire.ContentElement
	ip    net.IP
	port  int
}

type nodeOpts struct {
	ip        net.IP
	port      int
	versions  []uint8
	store     storage.ContentStorage
	utpLimit  int
	queueCap  int
	noWorkers bool
	proto     portalwire.ProtocolId
	restrict  string            // netutil.ParseNetlist form; empty = no allow-list
	key       *ecdsa.PrivateKey // optional: the node's identity (else drawn from the PRNG)
	initCheck bool              // keep the table's init check (the production default): lookups wait for the first refresh
	boot      []*enode.Node     // boot nodes the protocol is configured with
}

func startNode(mn *memNet, r *rand.Rand, o nodeOpts) *realNode {
	key := o.key
	if key == nil {
		key = keyFromSeed(r)
	}
	if o.store == nil {
		o.store = &storage.MockStorage{Db: map[string][]byte{}}
	}
	if o.queueCap == 0 {
		o.queueCap = 50
	}
	conf := portalwire.DefaultPortalProtocolConfig()
	conf.MaxUtpConnSize = o.utpLimit
	conf.ListenAddr = fmt.Sprintf("%s:%d", o.ip, o.port)
	if o.boot != nil {
		conf.BootstrapNodes = o.boot
	}
	if o.restrict != "" {
		l, err := netutil.ParseNetlist(o.restrict)
		if err != nil {
			panic(err)
		}
		conf.NetRestrict = l
	}
	conn := mn.listen(o.ip, o.port)
	db, err := enode.OpenDB("")
	if err != nil {
		panic(err)
	}
	ln := enode.NewLocalNode(db, key)
	ln.SetStaticIP(o.ip)
	ln.SetFallbackUDP(o.port)
	ln.Set(portalwire.Tag)
	if o.versions != nil {
		ln.Set(pvEntry(o.versions))
	}
	disc, err := discover.ListenV5(conn, ln, discover.Config{PrivateKey: key})
	if err != nil {
		panic(err)
	}
	utp := portalwire.NewZenEthUtp(context.Background(), conf, disc, conn)
	queue := make(chan *portalwire.ContentElement, o.queueCap)
	vc := cache.NewCache[*enode.Node, uint8]().WithMaxKeys(4096).WithTTL(time.Hour)
	if o.proto == nil {
		o.proto = portalwire.History
	}
	p, err := portalwire.NewPortalProtocol(conf, o.proto, key, conn, ln, disc, utp, o.store, queue, vc,
		portalwire.WithDisableTableInitCheckOption(!o.initCheck))
	if err != nil {
		panic(err)
	}
	if o.noWorkers {
		err = p.VerifStartNoWorkers()
	} else {
		err = p.Start()
	}
	if err != nil {
		panic(err)
	}
	// wait for the table's initial refresh to finish (init check disabled: immediate)
	time.Sleep(5 * time.Millisecond)
	return &realNode{p: p, disc: disc, ln: ln, store: o.store, queue: queue, ip: o.ip, port: o.port}
}

func (n *realNode) stop() {
	n.p.Stop()
	n.disc.Close()
}

func (n *realNode) udpAddr() *net.UDPAddr { return &net.UDPAddr{IP: n.ip, Port: n.port} }

// scriptedPeer: a plain discv5 node on the in-memory link whose talk handler for one portal sub-protocol answers with
// whatever bytes the run scripted - a peer that speaks the transport correctly and the protocol as it pleases.
type scriptedPeer struct {
	disc  *discover.UDPv5
	ln    *enode.LocalNode
	reply func(req []byte) []byte
}

func startScriptedPeer(mn *memNet, r *rand.Rand, ip net.IP, port int, proto portalwire.ProtocolId) *scriptedPeer {
	key := keyFromSeed(r)
	conn := mn.listen(ip, port)
	db, err := enode.OpenDB("")
	if err != nil {
		panic(err)
	}
	ln := enode.NewLocalNode(db, key)
	ln.SetStaticIP(ip)
	ln.SetFallbackUDP(port)
	ln.Set(portalwire.Tag)
	disc, err := discover.ListenV5(conn, ln, discover.Config{PrivateKey: key})
	if err != nil {
		panic(err)
	}
	sp := &scriptedPeer{disc: disc, ln: ln}
	disc.RegisterTalkHandler(string(proto), func(_ *enode.Node, _ *net.UDPAddr, msg []byte) []byte {
		if sp.reply == nil {
			return nil
		}
		return sp.reply(msg)
	})
	return sp
}

func (sp *scriptedPeer) node() *enode.Node { return sp.ln.Node() }
func (sp *scriptedPeer) stop()             { sp.disc.Close() }
