//go:build verif

package main

// C02, end to end: two REAL PortalProtocol instances (real discv5, real uTP, real table loop) joined by an in-memory
// packet switch. Node B is wired exactly as portal/node.go wires a history node: its HistoryValidator consults a
// ValidationOracle whose JSON-RPC client ends in B's own `portal_historyGetContent` (RecursiveFindContent), which looks
// the header up on the network. Node A is the only peer and serves whatever the case put into its store — genuine
// content, forged content, headers of other blocks. The block getters of B are the code under test.

import (
	"bytes"
	"context"
	"fmt"
	"github.com/holiman/uint256"
	"math/rand"
	"net"
	"net/netip"
	"os"
	"sync"
	"time"

	"github.com/ethereum/go-ethereum/p2p/discover"
	"github.com/ethereum/go-ethereum/p2p/enode"
	"github.com/ethereum/go-ethereum/rpc"
	cache "github.com/go-pkgz/expirable-cache/v3"
	"github.com/zen-eth/shisui/history"
	"github.com/zen-eth/shisui/portalwire"
	"github.com/zen-eth/shisui/storage"
	ht "github.com/zen-eth/shisui/types/history"
	"github.com/zen-eth/shisui/validation"
)

type c02Packet struct {
	data []byte
	from netip.AddrPort
}

type c02Switch struct {
	mu    sync.Mutex
	conns map[uint16]*c02Conn
}

type c02Conn struct {
	sw     *c02Switch
	addr   netip.AddrPort
	in     chan c02Packet
	closed chan struct{}
	once   sync.Once
}

func (s *c02Switch) listen(port uint16) *c02Conn {
	c := &c02Conn{sw: s, addr: netip.AddrPortFrom(netip.AddrFrom4([4]byte{127, 0, 0, 1}), port), in: make(chan c02Packet, 4096), closed: make(chan struct{})}
	s.mu.Lock()
	s.conns[port] = c
	s.mu.Unlock()
	return c
}

func (c *c02Conn) ReadFromUDPAddrPort(b []byte) (int, netip.AddrPort, error) {
	select {
	case p := <-c.in:
		return copy(b, p.data), p.from, nil
	case <-c.closed:
		return 0, netip.AddrPort{}, net.ErrClosed
	}
}

func (c *c02Conn) WriteToUDPAddrPort(b []byte, addr netip.AddrPort) (int, error) {
	c.sw.mu.Lock()
	dst := c.sw.conns[addr.Port()]
	c.sw.mu.Unlock()
	if dst != nil {
		select {
		case dst.in <- c02Packet{append([]byte{}, b...), c.addr}:
		default: // queue full: the datagram is lost, as on a real link
		}
	}
	return len(b), nil
}

func (c *c02Conn) Close() error {
	c.once.Do(func() { close(c.closed) })
	return nil
}

func (c *c02Conn) LocalAddr() net.Addr {
	return &net.UDPAddr{IP: net.IP{127, 0, 0, 1}, Port: int(c.addr.Port())}
}

type netNode struct {
	p    *portalwire.PortalProtocol
	st   *recStore
	conn *c02Conn
	disc *discover.UDPv5
}

func newNetNode(r *rand.Rand, sw *c02Switch, port uint16) *netNode {
	conn := sw.listen(port)
	key := keyFromSeed(r)
	db, _ := enode.OpenDB("")
	ln := enode.NewLocalNode(db, key)
	ln.SetFallbackIP(net.IP{127, 0, 0, 1})
	ln.SetFallbackUDP(int(port))
	ln.Set(portalwire.Tag)
	disc, err := discover.ListenV5(conn, ln, discover.Config{PrivateKey: key})
	if err != nil {
		panic(err)
	}
	conf := portalwire.DefaultPortalProtocolConfig()
	conf.ListenAddr = fmt.Sprintf("127.0.0.1:%d", port)
	utp := portalwire.NewZenEthUtp(context.Background(), conf, disc, conn)
	vc := cache.NewCache[*enode.Node, uint8]().WithMaxKeys(1000).WithTTL(time.Hour)
	st := &recStore{MockStorage: storage.MockStorage{Db: map[string][]byte{}}}
	p, err := portalwire.NewPortalProtocol(conf, portalwire.History, key, conn, ln, disc, utp, st, make(chan *portalwire.ContentElement, 50), vc,
		portalwire.WithDisableTableInitCheckOption(true))
	if err != nil {
		panic(err)
	}
	if err := p.Start(); err != nil {
		panic(err)
	}
	return &netNode{p: p, st: st, conn: conn, disc: disc}
}

// beaconOnly: the summaries provider of B's header validator asks `portal_beaconGetContent`; the history methods of the
// same namespace are B's real API
type beaconOnly struct{ sums []byte }

func (b *beaconOnly) BeaconGetContent(keyHex string) (*ContentInfo, error) {
	return &ContentInfo{Content: "0x" + fmt.Sprintf("%x", b.sums)}, nil
}

func runNet(o *Out, r *rand.Rand, rg *rig, thorough bool) {
	w := rg.w
	sw := &c02Switch{conns: map[uint16]*c02Conn{}}
	a := newNetNode(r, sw, 31001)
	b := newNetNode(r, sw, 31002)
	b.p.AddEnr(a.p.Self())
	a.p.AddEnr(b.p.Self())

	srv := rpc.NewServer()
	if err := srv.RegisterName("portal", history.NewHistoryNetworkAPI(portalwire.NewPortalAPI(b.p))); err != nil {
		panic(err)
	}
	if err := srv.RegisterName("portal", &beaconOnly{w.sumBytes}); err != nil {
		panic(err)
	}
	oracle := validation.NewOracle(rpc.DialInProc(srv))
	hn := history.NewHistoryNetwork(b.p, history.NewHistoryValidator(oracle))

	// warm-up: one lookup so that the discv5 session exists
	_, _, _ = b.p.ContentLookup([]byte{0xff}, b.p.ToContentId([]byte{0xff}))

	// Content above the inline limit (1175 bytes) travels over uTP. Over the in-memory link about one small uTP transfer in
	// five stalls for 5 s inside utp-go; when that happens to the header lookup it outlasts the oracle's 4 s RPC timeout and
	// the verdict becomes a (legitimate, but schedule-dependent) error. Transfers are C08/C09's subject, not this
	// property's, so by default every case is drawn from blocks whose header and content fit one packet; VERIF_C02_UTP=<n>
	// admits up to n cases that need uTP (their timing, and rarely their verdict, depends on the stall).
	n, utpBudget := 400, envInt("VERIF_C02_UTP", 0)
	if thorough {
		n = 4000
	}
	const inline = 1100
	serve := func(key, content []byte) { _ = a.st.MockStorage.Put(key, a.p.ToContentId(key), content) }
	kinds := []byte{byte(ht.BlockHeaderType), byte(ht.BlockBodyType), byte(ht.ReceiptsType)}
	var pool []*block
	for _, bl := range w.blocks {
		if bl.hasBody && bl.hasRcpt {
			pool = append(pool, bl)
		}
	}
	// per key type, the blocks whose content of that type and whose header both fit one packet
	small := map[byte][]*block{}
	for _, t := range kinds {
		for _, bl := range w.blocks {
			if c, ok := bl.contentOf(t); ok && len(c) <= inline && len(bl.hwp) <= inline {
				small[t] = append(small[t], bl)
			}
		}
	}
	for i := 0; i < n; i++ {
		a.st.reset()
		b.st.reset()
		t := kinds[r.Intn(len(kinds))]
		cands := small[t]
		if utpBudget > 0 && r.Intn(3) == 0 {
			cands = w.blocks
		}
		bl := cands[r.Intn(len(cands))]
		genuine, ok := bl.contentOf(t)
		if !ok {
			t = byte(ht.BlockHeaderType)
			genuine = bl.hwp
		}
		key := typedKey(t, bl.hash)
		// what the peer serves under the requested key
		content := genuine
		desc := "genuine"
		switch r.Intn(6) {
		case 0:
			m := byteMutations(r, genuine, 1)[0]
			content, desc = m.data, m.name
		case 1:
			var fm []mutation
			switch ht.ContentType(t) {
			case ht.BlockHeaderType:
				fm = w.headerFieldMutations(r, bl)
			case ht.BlockBodyType:
				fm = w.bodyFieldMutations(r, genuine)
			default:
				fm = w.receiptFieldMutations(r, genuine)
			}
			if len(fm) > 0 {
				m := fm[r.Intn(len(fm))]
				content, desc = m.data, m.name
			}
		case 2:
			ob := pool[r.Intn(len(pool))]
			if oc, ok := ob.contentOf(t); ok && !bytes.Equal(ob.hash, bl.hash) {
				content, desc = oc, "cross"
			}
		}
		mode := "remote"
		switch r.Intn(8) {
		case 0:
			mode = "local"
		case 1:
			mode = "absent"
		}
		// what the peer serves as the block's header (the header source of B's validator)
		sk := "honest"
		hdrContent := bl.hwp
		if t != byte(ht.BlockHeaderType) {
			switch r.Intn(5) {
			case 0:
				if fh, ok := forgedHeaderFor(bl, t, content); ok {
					_, proof, _ := decodeHWP(bl.hwp)
					hdrContent, sk = reencodeHWP(fh, proof), "forged"
				}
			case 1:
				ob := pool[r.Intn(len(pool))]
				hdrContent, sk = ob.hwp, "other"
				if desc == "cross" {
					// the header of the block the served content really belongs to
					for _, x := range pool {
						if oc, ok := x.contentOf(t); ok && bytes.Equal(oc, content) {
							hdrContent, sk = x.hwp, "matching-other"
						}
					}
				}
			case 2:
				hdrContent, sk = nil, "absent"
			}
		}
		needsUtp := (mode == "remote" && len(content) > inline) || (t != byte(ht.BlockHeaderType) && len(hdrContent) > inline)
		if needsUtp {
			if utpBudget == 0 {
				i--
				continue
			}
			utpBudget--
		}
		hdrKey := typedKey(byte(ht.BlockHeaderType), bl.hash)
		if t != byte(ht.BlockHeaderType) && hdrContent != nil {
			serve(hdrKey, hdrContent)
		}
		local, remote := 0, 0
		switch mode {
		case "remote":
			serve(key, content)
			remote = 1
		case "local":
			_ = b.st.MockStorage.Put(key, b.p.ToContentId(key), content)
			local = 1
		}
		// observations: the far end of the oracle is the peer's store
		src := resp{err: true}
		if t != byte(ht.BlockHeaderType) && hdrContent != nil {
			src = okResp(hdrContent)
		}
		rg.far.set(map[string]resp{fmt.Sprintf("%x", hdrKey): src}, nil)
		obs := rg.obsLine(key, content)
		lo, ro := "-", "-"
		if local == 1 {
			lo = obs
		}
		if remote == 1 {
			ro = obs
		}
		// a third of the look-ups are made by a node whose database has filled up: it advertises a tiny radius, which decides what
		// it KEEPS, not what it believes
		b.st.radius = nil
		if i%3 == 2 {
			b.st.radius = uint256.NewInt(1)
		}
		t0 := time.Now()
		call := func() (s string) {
			defer func() {
				if e := recover(); e != nil {
					s = "panic"
				}
			}()
			var err error
			switch ht.ContentType(t) {
			case ht.BlockHeaderType:
				_, err = hn.GetBlockHeader(bl.hash)
			case ht.BlockBodyType:
				_, err = hn.GetBlockBody(bl.hash)
			default:
				_, err = hn.GetReceipts(bl.hash)
			}
			if err != nil {
				return "err"
			}
			return "ok"
		}
		// an error may be a lost datagram or a discv5 timeout on a loaded machine rather than a verdict: errors (only errors)
		// are asked again, twice; an acceptance or a panic is reported the first time it happens
		ret := call()
		for attempt := 0; attempt < 2 && ret == "err" && remote == 1; attempt++ {
			ret = call()
		}
		if os.Getenv("VERIF_C02_TIMING") != "" {
			fmt.Fprintf(os.Stderr, "%4d %8.1fms kind=%s mode=%s sk=%s mut=%s size=%d ret=%s\n", i, float64(time.Since(t0).Microseconds())/1000, ktName(t), mode, sk, desc, len(content), ret)
		}
		put := "0"
		if len(b.st.puts) == 1 && bytes.Equal(b.st.puts[0].key, key) && bytes.Equal(b.st.puts[0].val, content) && remote == 1 {
			put = "1"
		} else if len(b.st.puts) > 0 {
			put = "?"
		}
		via := "inline"
		if needsUtp {
			via = "utp"
		}
		o.Case(fmt.Sprintf("get kind=%s local=%d remote=%d vec=%s mut=%s sk=%s via=%s ; %s ; %s", ktName(t), local, remote, bl.name, desc, sk, via, lo, ro),
			fmt.Sprintf("ret=%s put=%s", ret, put))
	}
	a.p.Stop()
	b.p.Stop()
}
