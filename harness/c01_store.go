//go:build verif

package main

// C01, second part: the storage adapters, the validators and the trie traversal, called directly with
// peer-chosen keys and content (see c01.go for the line format and the outcome classes).

import (
	"bytes"
	"encoding/binary"
	"encoding/hex"
	"encoding/json"
	"errors"
	"fmt"
	"math/big"
	"math/rand"
	"os"
	"path/filepath"
	"regexp"
	"sort"
	"strconv"
	"strings"

	"github.com/ethereum/go-ethereum/common"
	"github.com/ethereum/go-ethereum/core/types"
	"github.com/ethereum/go-ethereum/crypto"
	"github.com/ethereum/go-ethereum/p2p/enode"
	"github.com/ethereum/go-ethereum/rlp"
	"github.com/ethereum/go-ethereum/trie"
	"github.com/protolambda/zrnt/eth2/beacon/capella"
	zcommon "github.com/protolambda/zrnt/eth2/beacon/common"
	"github.com/protolambda/zrnt/eth2/configs"
	"github.com/protolambda/ztyp/codec"
	"github.com/zen-eth/shisui/beacon"
	"github.com/zen-eth/shisui/history"
	pingext "github.com/zen-eth/shisui/portalwire/ping_ext"
	"github.com/zen-eth/shisui/state"
	strie "github.com/zen-eth/shisui/state/trie"
	"github.com/zen-eth/shisui/storage"
	tbeacon "github.com/zen-eth/shisui/types/beacon"
	thistory "github.com/zen-eth/shisui/types/history"
	"github.com/zen-eth/shisui/validation"
)

// ---------------------------------------------------------------- the repo's own test vectors

type kv struct{ key, val []byte }

type stateVec struct{ header, key, offer, retrieval []byte }

type vectors struct {
	beacon    []kv       // beacon/testdata/types/*.json
	summaries kv         // beacon/testdata/types/historical_summaries_with_proof.yaml
	sumRoot   []byte     // its beacon_state_root
	history   [][]kv     // history/testdata/validation/*.yaml, one group per block
	state     []stateVec // state/testdata/*.yaml
}

func c01_unhex0x(s string) []byte {
	b, err := hex.DecodeString(strings.TrimPrefix(s, "0x"))
	if err != nil {
		panic(err)
	}
	return b
}

var yamlField = regexp.MustCompile(`(?m)^[\s-]*([a-z_]+):\s*['"]?(0x[0-9a-fA-F]*)`)

func yamlFields(path string) [][2]string {
	data, err := os.ReadFile(path)
	if err != nil {
		panic(err)
	}
	var out [][2]string
	for _, m := range yamlField.FindAllStringSubmatch(string(data), -1) {
		out = append(out, [2]string{m[1], m[2]})
	}
	return out
}

func c01_loadVectors() *vectors {
	repo := os.Getenv("VERIF_REPO")
	if repo == "" {
		repo = "/repo"
	}
	v := &vectors{}
	files, _ := filepath.Glob(filepath.Join(repo, "beacon/testdata/types/*.json"))
	sort.Strings(files)
	for _, f := range files {
		data, err := os.ReadFile(f)
		if err != nil {
			panic(err)
		}
		var m map[string]map[string]string
		if err := json.Unmarshal(data, &m); err != nil {
			panic(err)
		}
		names := make([]string, 0, len(m))
		for k := range m {
			names = append(names, k)
		}
		sort.Strings(names)
		for _, k := range names {
			v.beacon = append(v.beacon, kv{c01_unhex0x(m[k]["content_key"]), c01_unhex0x(m[k]["content_value"])})
		}
	}
	for _, f := range yamlFields(filepath.Join(repo, "beacon/testdata/types/historical_summaries_with_proof.yaml")) {
		switch f[0] {
		case "content_key":
			v.summaries.key = c01_unhex0x(f[1])
		case "content_value":
			v.summaries.val = c01_unhex0x(f[1])
		case "beacon_state_root":
			v.sumRoot = c01_unhex0x(f[1])
		}
	}
	files, _ = filepath.Glob(filepath.Join(repo, "history/testdata/validation/*.yaml"))
	sort.Strings(files)
	for _, f := range files {
		var grp []kv
		var cur kv
		for _, fl := range yamlFields(f) {
			switch fl[0] {
			case "content_key":
				cur = kv{key: c01_unhex0x(fl[1])}
			case "content_value":
				cur.val = c01_unhex0x(fl[1])
				grp = append(grp, cur)
			}
		}
		v.history = append(v.history, grp)
	}
	for _, name := range []string{"account_trie_node.yaml", "contract_bytecode.yaml", "contract_storage_trie_node.yaml"} {
		var cur stateVec
		for _, fl := range yamlFields(filepath.Join(repo, "state/testdata", name)) {
			switch fl[0] {
			case "block_header":
				cur = stateVec{header: c01_unhex0x(fl[1])}
			case "content_key":
				cur.key = c01_unhex0x(fl[1])
			case "content_value_offer":
				cur.offer = c01_unhex0x(fl[1])
			case "content_value_retrieval":
				cur.retrieval = c01_unhex0x(fl[1])
				v.state = append(v.state, cur)
			}
		}
	}
	if len(v.beacon) < 4 || len(v.history) < 4 || len(v.state) < 6 || len(v.summaries.val) == 0 {
		panic(fmt.Sprintf("test vectors not found under %s: beacon=%d history=%d state=%d", repo, len(v.beacon), len(v.history), len(v.state)))
	}
	return v
}

// ---------------------------------------------------------------- small helpers used by c01.go

func pingextClientInfo(radius []byte) ([]byte, error) {
	return pingext.NewClientInfoAndCapabilitiesPayload(radius, []uint16{0, 2, 65535}).MarshalSSZ()
}

func enrBytes(n *enode.Node) []byte {
	b, err := rlp.EncodeToBytes(n.Record())
	if err != nil {
		panic(err)
	}
	return b
}

func beaconFinSlot(val []byte) uint64 {
	u := new(tbeacon.ForkedLightClientFinalityUpdate)
	if err := u.Deserialize(configs.Mainnet, codec.NewDecodingReader(bytes.NewReader(val), uint64(len(val)))); err != nil {
		panic(err)
	}
	return u.GetBeaconSlot()
}

func beaconOptSlot(val []byte) uint64 {
	u := new(tbeacon.ForkedLightClientOptimisticUpdate)
	if err := u.Deserialize(configs.Mainnet, codec.NewDecodingReader(bytes.NewReader(val), uint64(len(val)))); err != nil {
		panic(err)
	}
	return u.GetSignatureSlot()
}

// beaconUpdateLens: serialized length of every update of a LightClientUpdateRange value (what Put stores per period).
func beaconUpdateLens(val []byte) []int {
	rg := new(tbeacon.LightClientUpdateRange)
	if err := rg.Deserialize(configs.Mainnet, codec.NewDecodingReader(bytes.NewReader(val), uint64(len(val)))); err != nil {
		panic(err)
	}
	var out []int
	for _, u := range *rg {
		out = append(out, len(ser(func(w *codec.EncodingWriter) error { return u.Serialize(configs.Mainnet, w) })))
	}
	return out
}

func contentTerm(b []byte) string {
	if len(b) > 600 {
		return canon(b) // too long to be useful to the model: shape-driven or monitor-only cases
	}
	return bt(b)
}

// ---------------------------------------------------------------- get / put: the three adapters

func bareNode(netw string, r *rand.Rand) *c01Node {
	var id enode.ID
	r.Read(id[:])
	n := &c01Node{net: netw, fin: "-", opt: "-"}
	n.store, n.inner, n.db = newStore(netw, id)
	return n
}

func getClass(b []byte, err error) string {
	switch {
	case err == nil && b == nil:
		return "nilnil"
	case err == nil:
		return "found:" + strconv.Itoa(len(b))
	case errors.Is(err, storage.ErrContentNotFound):
		return "notfound"
	default:
		return "err"
	}
}

func (n *c01Node) doGet(o *Out, key []byte) {
	key = exact(key)
	env := n.env()
	out := guarded(callTimeout, func() string { return getClass(n.store.Get(key, sha(key))) })
	o.Case(fmt.Sprintf("get net=%s %s key=%s", n.net, env, bt(key)), out)
	checkAbort()
}

func (n *c01Node) doPut(o *Out, key, content []byte, shape string) string {
	key, content = exact(key), exact(content)
	env := n.env()
	out := guarded(callTimeout, func() string { return errClass(n.store.Put(key, sha(key), content)) })
	o.Case(fmt.Sprintf("put net=%s %s shape=%s key=%s content=%s", n.net, env, shape, bt(key), contentTerm(content)), out)
	checkAbort()
	// keep the description of what the store holds up to date (items retrievable by the id of their key)
	if out == "ok" && ((n.net == "h" && (len(key) == 0 || key[0] != 5)) || (n.net == "b" && len(key) > 0 && key[0] == 0x10)) {
		n.setHave(key, len(content))
	}
	return out
}

func (n *c01Node) setHave(key []byte, size int) {
	for i := range n.have {
		if bytes.Equal(n.have[i].key, key) {
			n.have[i].n = size
			return
		}
	}
	n.have = append(n.have, haveItem{append([]byte{}, key...), size})
}

func ser(f func(w *codec.EncodingWriter) error) []byte {
	var buf bytes.Buffer
	if err := f(codec.NewEncodingWriter(&buf)); err != nil {
		panic(err)
	}
	return buf.Bytes()
}

func toNodes(bs [][]byte) state.TrieProof {
	p := state.TrieProof{}
	for _, b := range bs {
		p = append(p, state.EncodedTrieNode(b))
	}
	return p
}

func c01_b32(b []byte) (out zcommon.Bytes32) { copy(out[:], b); return }

func accountKey(path []byte, nodeHash []byte) []byte {
	k := &state.AccountTrieNodeKey{Path: state.Nibbles{Nibbles: path}, NodeHash: c01_b32(nodeHash)}
	return cat([]byte{state.AccountTrieNodeType}, ser(k.Serialize))
}

func accountContent(proof [][]byte, blockHash []byte) []byte {
	c := &state.AccountTrieNodeWithProof{Proof: toNodes(proof), BlockHash: c01_b32(blockHash)}
	return ser(c.Serialize)
}

func storageKey(addr []byte, path []byte, nodeHash []byte) []byte {
	k := &state.ContractStorageTrieNodeKey{AddressHash: c01_b32(addr), Path: state.Nibbles{Nibbles: path}, NodeHash: c01_b32(nodeHash)}
	return cat([]byte{state.ContractStorageTrieNodeType}, ser(k.Serialize))
}

func storageContent(sproof, aproof [][]byte, blockHash []byte) []byte {
	c := &state.ContractStorageTrieNodeWithProof{StorageProof: toNodes(sproof), AccountProof: toNodes(aproof), BlockHash: c01_b32(blockHash)}
	return ser(c.Serialize)
}

func runAdapters(o *Out, r *rand.Rand, scale int, vec *vectors) {
	rnd := func(k int) []byte { b := make([]byte, k); r.Read(b); return b }
	// ---- history: routing on contentKey[0] into the eternal / ephemeral store
	h := bareNode("h", r)
	populate(h, r, vec)
	h.doGet(o, nil)
	h.doPut(o, nil, rnd(10), "raw")
	for typ := 0; typ < 256; typ++ {
		h.doGet(o, []byte{byte(typ)})
		if typ < 8 {
			h.doGet(o, cat([]byte{byte(typ)}, rnd(32)))
			h.doGet(o, cat([]byte{byte(typ)}, rnd(33)))
			h.doPut(o, []byte{byte(typ)}, rnd(r.Intn(40)), "raw")
			h.doPut(o, cat([]byte{byte(typ)}, rnd(32)), rnd(r.Intn(40)), "raw")
		}
	}
	for i := 0; i < 150*scale; i++ {
		h.doGet(o, h.genKey(r))
		if i%3 == 0 {
			h.doPut(o, h.genKey(r), rnd(r.Intn(100)), "raw")
		}
	}
	// an ephemeral-typed item a peer could have us store, then ask for through the ephemeral Get
	ek := cat([]byte{5}, rnd(31))
	h.doPut(o, ek, u64le(7), "raw")
	h.doGet(o, cat([]byte{5}, ek, []byte{3}))
	h.doGet(o, cat([]byte{5}, rnd(32), []byte{255}))

	// ---- state: Get is a plain lookup by id, Put decodes key and content and indexes the proof
	s := bareNode("s", r)
	populate(s, r, vec)
	s.doGet(o, nil)
	s.doPut(o, nil, rnd(10), "raw")
	for typ := 0; typ < 256; typ++ {
		s.doGet(o, []byte{byte(typ)})
		s.doPut(o, []byte{byte(typ)}, rnd(r.Intn(8)), "raw")
	}
	for _, v := range vec.state {
		s.doPut(o, v.key, v.offer, "vec")
		s.doPut(o, v.key, v.retrieval, "raw")
		if r.Intn(2) == 0 {
			s.doPut(o, c01_mutate(r, v.key), v.offer, "raw")
		}
		s.doPut(o, v.key, c01_mutate(r, v.offer), "raw")
	}
	leaf := func() []byte { return c01_rlpList(c01_rlpStr(compact([]byte{1, 2, 3}, true)), c01_rlpStr(rnd(40))) }
	for i := 0; i < 60*scale; i++ {
		np := []int{0, 0, 1, 2, 3}[r.Intn(5)]
		proof := make([][]byte, np)
		for k := range proof {
			proof[k] = leaf()
		}
		hm := r.Intn(2)
		nh := rnd(32)
		if np > 0 && hm == 1 {
			nh = crypto.Keccak256(proof[np-1])
		}
		if np == 0 {
			hm = 0
		}
		path := rnd(r.Intn(9))
		for k := range path {
			path[k] &= 15
		}
		switch r.Intn(3) {
		case 0:
			s.doPut(o, accountKey(path, nh), accountContent(proof, rnd(32)), fmt.Sprintf("acc:np=%d:hm=%d", np, hm))
		case 1:
			ap := [][]byte{leaf()}
			if r.Intn(3) == 0 {
				ap = nil
			}
			s.doPut(o, storageKey(rnd(32), path, nh), storageContent(proof, ap, rnd(32)), fmt.Sprintf("con:np=%d:hm=%d", np, hm))
		default:
			code := rnd(r.Intn(60))
			ch := rnd(32)
			if hm == 1 {
				ch = crypto.Keccak256(code)
			} else {
				hm = 0
			}
			k := &state.ContractBytecodeKey{AddressHash: c01_b32(rnd(32)), CodeHash: c01_b32(ch)}
			c := &state.ContractBytecodeWithProof{Code: code, AccountProof: toNodes(proof), BlockHash: c01_b32(rnd(32))}
			s.doPut(o, cat([]byte{state.ContractByteCodeType}, ser(k.Serialize)), ser(c.Serialize), fmt.Sprintf("code:hm=%d", hm))
		}
	}
	for i := 0; i < 100*scale; i++ {
		s.doGet(o, s.genKey(r))
		s.doPut(o, s.genKey(r), rnd(r.Intn(120)), "raw")
	}

	// ---- beacon: five key types, historical summaries compared through reverseCompare
	b := bareNode("b", r)
	b.doGet(o, nil)
	b.doPut(o, nil, rnd(10), "raw")
	for typ := 0; typ < 256; typ++ {
		b.doGet(o, []byte{byte(typ)})
		if typ != 0x14 { // summaries histories are exercised on fresh stores below
			b.doPut(o, []byte{byte(typ)}, nil, "raw")
		}
	}
	populate(b, r, vec)         // the repo's vectors through Put
	scratch := bareNode("b", r) // mutated values may replace cached updates: they go to a store nobody reads
	for _, v := range vec.beacon {
		b.doGet(o, v.key)
		b.doPut(o, v.key, v.val, "vec")
		for k := 0; k < 3; k++ {
			scratch.doPut(o, v.key, c01_mutate(r, v.val), "raw")
			scratch.doPut(o, c01_mutate(r, v.key), v.val, "raw")
		}
	}
	for i := 0; i < 200*scale; i++ {
		b.doGet(o, b.genKey(r))
	}
	// look-ups leave nothing behind: after them every vector can be put again and read back (a look-up path that keeps a
	// lock or a handle would wedge the next writer - and every reader queued behind it)
	for round := 0; round < 2; round++ {
		for _, v := range vec.beacon {
			b.doPut(o, v.key, v.val, "vec")
			b.doGet(o, v.key)
			if len(v.key) == 9 && (v.key[0] == 0x12 || v.key[0] == 0x13) {
				slot := binary.LittleEndian.Uint64(v.key[1:])
				b.doGet(o, cat([]byte{v.key[0]}, u64le(slot+1)))
				b.doGet(o, cat([]byte{v.key[0]}, u64le(slot-1)))
			}
		}
	}
	// histories of summaries puts and gets on fresh stores: short keys, long keys, short stored values
	for hcase := 0; hcase < 25*scale; hcase++ {
		fb := bareNode("b", r)
		for step := 0; step < 8; step++ {
			kl := []int{0, 1, 7, 8, 8, 8, 9, 12}[r.Intn(8)]
			key := cat([]byte{0x14}, rnd(kl))
			if kl == 8 && r.Intn(2) == 0 {
				key = cat([]byte{0x14}, u64le(uint64(r.Intn(4))))
			}
			if r.Intn(2) == 0 {
				fb.doGet(o, key)
			} else {
				fb.doPut(o, key, rnd([]int{0, 0, 3, 8, 30}[r.Intn(5)]), "sum")
			}
		}
		fb.db.Close()
	}
}

// ---------------------------------------------------------------- val: the three validators

// lyingOracle is the header source of the validators; the property quantifies over its answers too.
type lyingOracle struct {
	header *types.Header
	herr   error
	root   []byte
	summ   capella.HistoricalSummaries
}

func (l *lyingOracle) GetHistoricalSummaries(epoch uint64) (capella.HistoricalSummaries, error) {
	if l.summ == nil {
		return nil, errors.New("no summaries")
	}
	return l.summ, nil
}
func (l *lyingOracle) GetBlockHeaderByHash(hash []byte) (*types.Header, error) {
	if l.herr != nil || l.header == nil {
		return nil, errors.New("header not found")
	}
	return l.header, nil
}
func (l *lyingOracle) GetFinalizedStateRoot() ([]byte, error) {
	if l.root == nil {
		return nil, errors.New("no root")
	}
	return l.root, nil
}

var _ validation.Oracle = &lyingOracle{}

func c01_valCase(o *Out, netw string, v validation.Validator, shape string, key, content []byte, extra string) {
	key, content = exact(key), exact(content)
	out := guarded(callTimeout, func() string { return errClass(v.ValidateContent(key, content)) })
	if extra != "" {
		extra = " " + extra
	}
	o.Case(fmt.Sprintf("val net=%s shape=%s%s key=%s content=%s", netw, shape, extra, bt(key), contentTerm(content)), out)
	checkAbort()
}

func foldBranch(leaf []byte, branch [][]byte, index uint64) []byte {
	v := leaf
	for i, sib := range branch {
		if (index>>uint(i))&1 == 1 {
			v = sha(cat(sib, v))
		} else {
			v = sha(cat(v, sib))
		}
	}
	return v
}

func headerWithProof(headerRLP, proof []byte) []byte {
	b, err := (&thistory.BlockHeaderWithProof{Header: headerRLP, Proof: proof}).MarshalSSZ()
	if err != nil {
		panic(err)
	}
	return b
}

func runValidators(o *Out, r *rand.Rand, scale int, vec *vectors) {
	rnd := func(k int) []byte { b := make([]byte, k); r.Read(b); return b }
	rndRoots := func(k int) [][]byte {
		out := make([][]byte, k)
		for i := range out {
			out[i] = rnd(32)
		}
		return out
	}
	nRoots := len(validation.DefaultHistoricalRootsAccumulator().HistoricalRoots)

	// ---- history
	orc := &lyingOracle{}
	hv := history.NewHistoryValidator(orc)
	c01_valCase(o, "h", hv, "empty", nil, rnd(20), "")
	c01_valCase(o, "h", hv, "empty", nil, nil, "")
	for typ := 0; typ < 256; typ++ {
		if typ < 8 || typ%16 == 0 {
			c01_valCase(o, "h", hv, "raw", []byte{byte(typ)}, rnd(r.Intn(30)), "")
			c01_valCase(o, "h", hv, "raw", cat([]byte{byte(typ)}, rnd(32)), rnd(r.Intn(30)), "")
		}
	}
	for _, grp := range vec.history {
		for _, e := range grp { // the header of the group answers the body / receipts look-ups
			if e.key[0] == 0 {
				hw, _ := thistory.DecodeBlockHeaderWithProof(e.val)
				orc.header, _ = thistory.DecodeBlockHeader(hw.Header)
			}
		}
		for _, e := range grp {
			c01_valCase(o, "h", hv, "vec", e.key, e.val, "")
			for k := 0; k < 6*scale; k++ {
				c01_valCase(o, "h", hv, "raw", e.key, c01_mutate(r, e.val), "")
			}
			c01_valCase(o, "h", hv, "raw", c01_mutate(r, e.key), e.val, "")
			c01_valCase(o, "h", hv, "raw", e.key[:1], e.val, "")
		}
		orc.herr = errors.New("x")
		for _, e := range grp {
			c01_valCase(o, "h", hv, "raw", e.key, e.val, "")
		}
		orc.herr = nil
	}
	// headers of the merge..capella era with a forged (internally consistent) execution-block branch: the slot,
	// chosen by the peer, indexes the historical-roots table
	for i := 0; i < 40*scale; i++ {
		num := thistory.MergeBlockNumber + uint64(r.Intn(int(thistory.ShanghaiBlockNumber-thistory.MergeBlockNumber)))
		hd := &types.Header{Number: new(big.Int).SetUint64(num), Difficulty: big.NewInt(0), GasLimit: 30000000, Time: uint64(r.Int63n(1 << 32)), Extra: rnd(r.Intn(8))}
		hrlp, _ := rlp.EncodeToBytes(hd)
		hash := hd.Hash().Bytes()
		el := rndRoots(11)
		root := foldBranch(hash, el, 3228)
		exec := 1
		if r.Intn(4) == 0 {
			exec = 0
			el[r.Intn(11)][r.Intn(32)] ^= 1
		}
		slot := []uint64{0, 1, 8191, 8192, uint64(nRoots)*8192 - 1, uint64(nRoots) * 8192, uint64(nRoots)*8192 + 1, uint64(r.Int63()), ^uint64(0), uint64(r.Intn(nRoots * 8192))}[r.Intn(10)]
		pr := &thistory.BlockProofHistoricalRoots{BeaconBlockProof: rndRoots(14), BeaconBlockRoot: root, ExecutionBlockProof: el, Slot: slot}
		pb, err := pr.MarshalSSZ()
		if err != nil {
			panic(err)
		}
		key := cat([]byte{0}, hash)
		if r.Intn(3) == 0 {
			key = cat([]byte{3}, u64le(num))
		}
		c01_valCase(o, "h", hv, fmt.Sprintf("roots:exec=%d:slot=%d:nroots=%d", exec, slot, nRoots), key, headerWithProof(hrlp, pb), "")
	}
	// bodies: legacy / shanghai encodings against headers with and without a withdrawals root
	for i := 0; i < 30*scale; i++ {
		hw, bw, wm := r.Intn(2), r.Intn(2), r.Intn(2)
		var ws types.Withdrawals
		for k := r.Intn(3); k > 0; k-- {
			ws = append(ws, &types.Withdrawal{Index: uint64(r.Intn(100)), Validator: uint64(r.Intn(100)), Address: common.BytesToAddress(rnd(20)), Amount: uint64(r.Intn(1000))})
		}
		hd := &types.Header{Number: big.NewInt(17000000), Difficulty: big.NewInt(0), UncleHash: types.EmptyUncleHash, TxHash: types.EmptyTxsHash}
		if hw == 1 {
			wh := types.DeriveSha(ws, trie.NewStackTrie(nil))
			if wm == 0 {
				wh[3] ^= 1
			}
			hd.WithdrawalsHash = &wh
		}
		var body []byte
		if bw == 1 {
			enc := make([][]byte, 0)
			for _, w := range ws {
				wb, _ := rlp.EncodeToBytes(w)
				enc = append(enc, wb)
			}
			body, _ = (&history.PortalBlockBodyShanghai{Transactions: [][]byte{}, Uncles: []byte{0xc0}, Withdrawals: enc}).MarshalSSZ()
		} else {
			body, _ = (&history.BlockBodyLegacy{Transactions: [][]byte{}, Uncles: []byte{0xc0}}).MarshalSSZ()
		}
		orc.header = hd
		c01_valCase(o, "h", hv, fmt.Sprintf("body:hw=%d:bw=%d:wm=%d", hw, bw, wm), cat([]byte{1}, rnd(32)), body, "")
		// the same body carrying transactions (so that all three fields have an extent of their own), intact and with its
		// offset table and bytes disturbed: whatever the header says, the answer is an error or an acceptance, never a panic
		var txs [][]byte
		for k := 1 + r.Intn(3); k > 0; k-- {
			txs = append(txs, rnd(10+r.Intn(90)))
		}
		var full []byte
		if bw == 1 {
			enc := make([][]byte, 0)
			for _, w := range ws {
				wb, _ := rlp.EncodeToBytes(w)
				enc = append(enc, wb)
			}
			full, _ = (&history.PortalBlockBodyShanghai{Transactions: txs, Uncles: []byte{0xc0}, Withdrawals: enc}).MarshalSSZ()
		} else {
			full, _ = (&history.BlockBodyLegacy{Transactions: txs, Uncles: []byte{0xc0}}).MarshalSSZ()
		}
		c01_valCase(o, "h", hv, "raw", cat([]byte{1}, rnd(32)), full, "")
		for k := 0; k < 24; k++ {
			c01_valCase(o, "h", hv, "raw", cat([]byte{1}, rnd(32)), c01_mutate(r, full), "")
		}
	}
	for i := 0; i < 60*scale; i++ {
		c01_valCase(o, "h", hv, "raw", cat([]byte{byte(r.Intn(4))}, rnd([]int{0, 8, 32, 33}[r.Intn(4)])), rnd(r.Intn(300)), "")
	}

	// ---- state
	so := &lyingOracle{}
	sv := state.NewStateValidator(so)
	c01_valCase(o, "s", sv, "empty", nil, rnd(20), "")
	for typ := 0; typ < 256; typ++ {
		if typ >= 0x1e && typ < 0x26 || typ%32 == 0 {
			c01_valCase(o, "s", sv, "raw", []byte{byte(typ)}, rnd(r.Intn(30)), "")
			c01_valCase(o, "s", sv, "raw", cat([]byte{byte(typ)}, rnd(65)), rnd(r.Intn(90)), "")
		}
	}
	for _, v := range vec.state {
		so.header, _ = thistory.DecodeBlockHeader(v.header)
		c01_valCase(o, "s", sv, "vec", v.key, v.offer, "")
		for k := 0; k < 4*scale; k++ {
			c01_valCase(o, "s", sv, "raw", v.key, c01_mutate(r, v.offer), "")
			c01_valCase(o, "s", sv, "raw", c01_mutate(r, v.key), v.offer, "")
		}
		c01_valCase(o, "s", sv, "raw", v.key, v.retrieval, "")
	}
	// two-node proofs built bottom-up: node1 (hashing to the root the header source reports) references node2;
	// the peer chooses the path
	for i := 0; i < 150*scale; i++ {
		node2 := c01_rlpList(c01_rlpStr(compact([]byte{byte(r.Intn(16)), byte(r.Intn(16))}, true)), c01_rlpStr(rnd(40)))
		h2 := crypto.Keccak256(node2)
		var node1 []byte
		var good []byte // a path that walks node1 to its reference
		switch r.Intn(6) {
		case 0, 1: // extension
			k := rnd(1 + r.Intn(6))
			for j := range k {
				k[j] &= 15
			}
			node1, good = c01_rlpList(c01_rlpStr(compact(k, false)), c01_rlpStr(h2)), k
		case 2: // full node with one child
			idx := r.Intn(16)
			items := make([][]byte, 17)
			for j := range items {
				items[j] = c01_rlpStr(nil)
			}
			items[idx] = c01_rlpStr(h2)
			node1, good = c01_rlpList(items...), []byte{byte(idx)}
		case 3: // short node whose compact key decodes to the empty key
			node1, good = c01_rlpList(c01_rlpStr([]byte{}), c01_rlpStr(h2)), nil
		case 4:
			node1, good = c01_rlpList(c01_rlpStr([]byte{0x00}), c01_rlpStr(h2)), nil
		default: // leaf whose value is the reference
			k := rnd(1 + r.Intn(4))
			for j := range k {
				k[j] &= 15
			}
			node1, good = c01_rlpList(c01_rlpStr(compact(k, true)), c01_rlpStr(h2)), k
		}
		path := append([]byte{}, good...)
		switch r.Intn(6) {
		case 0:
			if len(path) > 0 {
				path = path[:r.Intn(len(path))] // shorter than the node's key
			}
		case 1:
			path = append(path, byte(r.Intn(16)))
		case 2:
			if len(path) > 0 {
				path[r.Intn(len(path))] ^= 1 + byte(r.Intn(15))&15
				for j := range path {
					path[j] &= 15
				}
			}
		case 3:
			path = nil
		}
		link, nh := 1, 1
		if r.Intn(6) == 0 {
			link = 0
			node2 = append([]byte{}, node2...)
			node2[len(node2)-1] ^= 1
		}
		nodeHash := crypto.Keccak256(node2)
		if r.Intn(6) == 0 {
			nh = 0
			nodeHash = rnd(32)
		}
		so.header = &types.Header{Number: big.NewInt(1), Difficulty: big.NewInt(0), Root: common.BytesToHash(crypto.Keccak256(node1))}
		dump := "!"
		if dn, err := strie.DecodeTrieNode(nil, node1); err == nil {
			dump = strie.VerifDump(dn)
		}
		c01_valCase(o, "s", sv, "acct2", accountKey(path, nodeHash), accountContent([][]byte{node1, node2}, rnd(32)),
			fmt.Sprintf("n1=%s path=%s link=%d nh=%d", dump, nibbleStr(path), link, nh))
	}
	for i := 0; i < 60*scale; i++ {
		c01_valCase(o, "s", sv, "raw", cat([]byte{byte(0x20 + r.Intn(3))}, rnd(r.Intn(80))), rnd(r.Intn(200)), "")
	}

	// ---- beacon
	bo := &lyingOracle{root: vec.sumRoot}
	bv := beacon.NewBeaconValidator(bo, configs.Mainnet)
	c01_valCase(o, "b", bv, "empty", nil, rnd(20), "")
	for typ := 0; typ < 256; typ++ {
		if typ >= 0x0e && typ < 0x18 || typ%32 == 0 {
			c01_valCase(o, "b", bv, "raw", []byte{byte(typ)}, rnd(r.Intn(30)), "")
			c01_valCase(o, "b", bv, "raw", cat([]byte{byte(typ)}, rnd(8)), rnd(r.Intn(90)), "")
		}
	}
	all := append(append([]kv{}, vec.beacon...), vec.summaries)
	for _, v := range all {
		c01_valCase(o, "b", bv, "raw", v.key, v.val, "")
		c01_valCase(o, "b", bv, "raw", v.key[:1], v.val, "")
		for k := 0; k < 5*scale; k++ {
			c01_valCase(o, "b", bv, "raw", v.key, c01_mutate(r, v.val), "")
			c01_valCase(o, "b", bv, "raw", c01_mutate(r, v.key), v.val, "")
		}
		for _, cut := range []int{0, 1, 3, 4, 5, 8, 100} {
			if cut < len(v.val) {
				c01_valCase(o, "b", bv, "raw", v.key, v.val[:cut], "")
			}
		}
	}
	bo.root = nil
	c01_valCase(o, "b", bv, "raw", vec.summaries.key, vec.summaries.val, "")
}

// ---------------------------------------------------------------- trav: TraverseTrieNode on decoded nodes

func c01_rlpStr(b []byte) []byte {
	out, err := rlp.EncodeToBytes(b)
	if err != nil {
		panic(err)
	}
	return out
}

func c01_rlpList(items ...[]byte) []byte {
	raw := make([]rlp.RawValue, len(items))
	for i, it := range items {
		raw[i] = it
	}
	out, err := rlp.EncodeToBytes(raw)
	if err != nil {
		panic(err)
	}
	return out
}

// compact is the hex-prefix encoding of a nibble key.
func compact(nibbles []byte, term bool) []byte {
	flag := byte(0)
	if term {
		flag = 2
	}
	var out []byte
	if len(nibbles)%2 == 1 {
		out = append(out, (flag|1)<<4|nibbles[0])
		nibbles = nibbles[1:]
	} else {
		out = append(out, flag<<4)
	}
	for i := 0; i+1 < len(nibbles); i += 2 {
		out = append(out, nibbles[i]<<4|nibbles[i+1])
	}
	return out
}

func nibbleStr(p []byte) string {
	if len(p) == 0 {
		return "-"
	}
	s := make([]string, len(p))
	for i, x := range p {
		s[i] = strconv.Itoa(int(x))
	}
	return strings.Join(s, ".")
}

// genTrieNode builds the RLP of a random node: short (leaf / extension, every compact-key oddity), full (children
// empty, hashes or small embedded nodes) — the shapes DecodeTrieNode accepts, and some it rejects.
func genTrieNode(r *rand.Rand, depth int) []byte {
	rnd := func(k int) []byte { b := make([]byte, k); r.Read(b); return b }
	ref := func() []byte {
		switch r.Intn(4) {
		case 0:
			return c01_rlpStr(nil)
		case 1:
			if depth < 2 {
				if e := genTrieNode(r, depth+1); len(e) < 32 {
					return e // embedded node
				}
			}
			return c01_rlpStr(rnd(32))
		default:
			return c01_rlpStr(rnd(32))
		}
	}
	switch r.Intn(5) {
	case 0, 1: // short node
		var kbuf []byte
		switch r.Intn(6) {
		case 0:
			kbuf = nil // decodes to the empty key
		case 1:
			kbuf = []byte{byte(r.Intn(4)) << 4} // flag nibble only
		case 2:
			kbuf = rnd(1 + r.Intn(3)) // arbitrary flag nibble
		default:
			k := rnd(r.Intn(5))
			for j := range k {
				k[j] &= 15
			}
			kbuf = compact(k, r.Intn(2) == 0)
		}
		if len(kbuf) > 0 && kbuf[0]&0x20 != 0 {
			return c01_rlpList(c01_rlpStr(kbuf), c01_rlpStr(rnd(r.Intn(6))))
		}
		return c01_rlpList(c01_rlpStr(kbuf), ref())
	case 2, 3:
		items := make([][]byte, 17)
		for j := 0; j < 16; j++ {
			items[j] = ref()
		}
		items[16] = c01_rlpStr(rnd(r.Intn(3)))
		return c01_rlpList(items...)
	default:
		return c01_rlpList(c01_rlpStr(rnd(r.Intn(3))), c01_rlpStr(rnd(r.Intn(3))), c01_rlpStr(nil))[:1+r.Intn(3)]
	}
}

func c01_runTraverse(o *Out, r *rand.Rand, scale int) {
	n := 0
	for n < 600*scale {
		enc := genTrieNode(r, 0)
		node, err := strie.DecodeTrieNode(nil, enc)
		if err != nil {
			continue
		}
		dump := strie.VerifDump(node)
		for k := 0; k < 3; k++ {
			path := make([]byte, []int{0, 1, 2, 3, 5, 8}[r.Intn(6)])
			for j := range path {
				path[j] = byte(r.Intn(16))
			}
			if r.Intn(2) == 0 { // follow the node's own key for a while
				path = append(keyPrefix(dump, r), path...)
			}
			out := guarded(callTimeout, func() string {
				ref, rest, err := strie.TraverseTrieNode(node, path)
				if err != nil {
					return "err"
				}
				return fmt.Sprintf("ok:%s:%s", hx(ref), nibbleStr(rest))
			})
			o.Case(fmt.Sprintf("trav node=%s path=%s", dump, nibbleStr(path)), out)
			checkAbort()
			n++
		}
	}
}

// keyPrefix extracts (a prefix of) the top-level short node's key from its dump, without the terminator.
func keyPrefix(dump string, r *rand.Rand) []byte {
	if !strings.HasPrefix(dump, "S(") {
		return nil
	}
	ks := dump[2:strings.Index(dump, "|")]
	if ks == "" {
		return nil
	}
	var out []byte
	for _, s := range strings.Split(ks, ".") {
		v, _ := strconv.Atoi(s)
		if v < 16 {
			out = append(out, byte(v))
		}
	}
	if len(out) > 0 && r.Intn(3) == 0 {
		out = out[:r.Intn(len(out))]
	}
	return out
}
