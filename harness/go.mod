module verifharness

go 1.24.2

require (
	github.com/OffchainLabs/go-bitfield v0.0.0-20250408211841-ad7364de91a5
	github.com/cockroachdb/pebble v1.1.5
	github.com/ethereum/go-ethereum v1.15.8
	github.com/go-pkgz/expirable-cache/v3 v3.0.0
	github.com/holiman/uint256 v1.3.2
	github.com/kilic/bls12-381 v0.1.0
	github.com/protolambda/bls12-381-util v0.1.0
	github.com/protolambda/zrnt v0.34.1
	github.com/protolambda/ztyp v0.2.2
	github.com/zen-eth/shisui v0.0.0
)

require (
	github.com/DataDog/zstd v1.5.6 // indirect
	github.com/VictoriaMetrics/fastcache v1.12.4 // indirect
	github.com/beorn7/perks v1.0.1 // indirect
	github.com/bits-and-blooms/bitset v1.20.0 // indirect
	github.com/cespare/xxhash/v2 v2.3.0 // indirect
	github.com/cockroachdb/errors v1.11.3 // indirect
	github.com/cockroachdb/fifo v0.0.0-20240816210425-c5d0cb0b6fc0 // indirect
	github.com/cockroachdb/logtags v0.0.0-20230118201751-21c54148d20b // indirect
	github.com/cockroachdb/redact v1.1.5 // indirect
	github.com/cockroachdb/tokenbucket v0.0.0-20230807174530-cc333fc44b06 // indirect
	github.com/consensys/bavard v0.1.27 // indirect
	github.com/consensys/gnark-crypto v0.16.0 // indirect
	github.com/crate-crypto/go-eth-kzg v1.3.0 // indirect
	github.com/crate-crypto/go-ipa v0.0.0-20240724233137-53bbb0ceb27a // indirect
	github.com/deckarep/golang-set/v2 v2.6.0 // indirect
	github.com/emicklei/dot v1.6.3 // indirect
	github.com/ethereum/go-verkle v0.2.2 // indirect
	github.com/ferranbt/fastssz v0.1.4 // indirect
	github.com/getsentry/sentry-go v0.29.1 // indirect
	github.com/gofrs/flock v0.8.1 // indirect
	github.com/gofrs/flock v0.8.1 // indirect
	github.com/gogo/protobuf v1.3.2 // indirect
	github.com/golang/snappy v1.0.0 // indirect
	github.com/google/btree v1.1.3 // indirect
	github.com/gorilla/websocket v1.5.0 // indirect
	github.com/huin/goupnp v1.3.0 // indirect
	github.com/jackpal/go-nat-pmp v1.0.2 // indirect
	github.com/klauspost/cpuid/v2 v2.2.9 // indirect
	github.com/kr/pretty v0.3.1 // indirect
	github.com/kr/text v0.2.0 // indirect
	github.com/mattn/go-runewidth v0.0.15 // indirect
	github.com/mattn/go-runewidth v0.0.15 // indirect
	github.com/minio/sha256-simd v1.0.1 // indirect
	github.com/mitchellh/mapstructure v1.5.0 // indirect
	github.com/mmcloughlin/addchain v0.4.0 // indirect
	github.com/munnerz/goautoneg v0.0.0-20191010083416-a7dc8b61c822 // indirect
	github.com/olekukonko/tablewriter v0.0.5 // indirect
	github.com/olekukonko/tablewriter v0.0.5 // indirect
	github.com/panjf2000/ants/v2 v2.11.3 // indirect
	github.com/panjf2000/gnet/v2 v2.8.0 // indirect
	github.com/pion/dtls/v2 v2.2.12 // indirect
	github.com/pion/logging v0.2.2 // indirect
	github.com/pion/stun/v2 v2.0.0 // indirect
	github.com/pion/transport/v2 v2.2.4 // indirect
	github.com/pion/transport/v3 v3.0.1 // indirect
	github.com/pkg/errors v0.9.1 // indirect
	github.com/prometheus/client_golang v1.20.5 // indirect
	github.com/prometheus/client_model v0.6.1 // indirect
	github.com/prometheus/common v0.60.1 // indirect
	github.com/prometheus/procfs v0.15.1 // indirect
	github.com/rivo/uniseg v0.2.0 // indirect
	github.com/rivo/uniseg v0.2.0 // indirect
	github.com/rogpeppe/go-internal v1.13.1 // indirect
	github.com/shirou/gopsutil v3.21.4-0.20210419000835-c7a38de76ee5+incompatible // indirect
	github.com/syndtr/goleveldb v1.0.1-0.20210819022825-2ae1ddf74ef7 // indirect
	github.com/tetratelabs/wabin v0.0.0-20230304001439-f6f874872834 // indirect
	github.com/tklauser/go-sysconf v0.3.14 // indirect
	github.com/tklauser/numcpus v0.9.0 // indirect
	github.com/valyala/fastrand v1.1.0 // indirect
	github.com/zen-eth/utp-go v0.0.0-20250517113239-5d962dd66394 // indirect
	go.uber.org/multierr v1.11.0 // indirect
	go.uber.org/zap v1.27.0 // indirect
	golang.org/x/crypto v0.36.0 // indirect
	golang.org/x/exp v0.0.0-20250408133849-7e4ce0ab07d0 // indirect
	golang.org/x/net v0.38.0 // indirect
	golang.org/x/sync v0.14.0 // indirect
	golang.org/x/sys v0.33.0 // indirect
	golang.org/x/text v0.25.0 // indirect
	google.golang.org/protobuf v1.35.2 // indirect
	gopkg.in/natefinch/lumberjack.v2 v2.2.1 // indirect
	gopkg.in/yaml.v2 v2.4.0 // indirect
	gopkg.in/yaml.v3 v3.0.1 // indirect
	rsc.io/tmplfunc v0.0.3 // indirect
)

replace github.com/zen-eth/shisui => /repo

replace github.com/protolambda/zrnt v0.34.1 => github.com/optimism-java/zrnt v0.32.4-0.20250528142456-bc543d07ddb2

replace github.com/ethereum/go-ethereum => github.com/optimism-java/shisui v1.14.6-0.20250516133529-e5d979e5825f
