//go:build verif

package main

import (
	"crypto/ecdsa"
	"fmt"
	"math/rand"
	"net"
	"sort"
	"strconv"
	"strings"
	"sync"
	"sync/atomic"

	"github.com/ethereum/go-ethereum/p2p/enode"
	"github.com/ethereum/go-ethereum/p2p/enr"
	"github.com/ethereum/go-ethereum/p2p/netutil"
	"github.com/ethereum/go-ethereum/rlp"
	"github.com/zen-eth/shisui/portalwire"
)

func init() {
	runners["findnodes"] = runFindNodes
	runners["nodesresp"] = runNodesResp
}

type padEntry []byte

func (padEntry) ENRKey() string { return "pad" }

func ipClass(ip net.IP) string {
	switch {
	case ip == nil:
		return "none"
	case ip.IsLoopback():
		return "loopback"
	case netutil.IsSpecialNetwork(ip):
		return "special"
	case netutil.IsLAN(ip):
		return "lan"
	default:
		return "public"
	}
}

// signRecPv: a record of the given identity and sequence number advertising the given protocol versions (nil = no pv entry)
func signRecPv(key *ecdsa.PrivateKey, ip net.IP, port int, seq uint64, versions []uint8) *enode.Node {
	var r enr.Record
	r.Set(enr.IP(ip))
	r.Set(enr.UDP(uint16(port)))
	r.Set(portalwire.Tag)
	if versions != nil {
		r.Set(pvEntry(versions))
	}
	r.SetSeq(seq)
	if err := enode.SignV4(&r, key); err != nil {
		panic(err)
	}
	n, err := enode.New(enode.ValidSchemes, &r)
	if err != nil {
		panic(err)
	}
	return n
}

func signRecPad(key *ecdsa.PrivateKey, ip net.IP, port int, seq uint64, pad int) *enode.Node {
	for {
		var r enr.Record
		r.Set(enr.IP(ip))
		r.Set(enr.UDP(uint16(port)))
		if pad > 0 {
			r.Set(padEntry(make([]byte, pad)))
		}
		r.SetSeq(seq)
		if err := enode.SignV4(&r, key); err != nil {
			if pad > 0 { // over the 300-byte record limit: shrink the padding
				pad -= 4
				continue
			}
			panic(err)
		}
		n, err := enode.New(enode.ValidSchemes, &r)
		if err != nil {
			panic(err)
		}
		return n
	}
}

func enrSize(n *enode.Node) int {
	b, _ := rlp.EncodeToBytes(n.Record())
	return len(b)
}

// craftedIP returns addresses of every relay class; public ones are all in different /24s.
func craftedIP(r *rand.Rand, i int) net.IP {
	switch r.Intn(10) {
	case 0:
		return net.IP{192, 168, byte(i / 200), byte(1 + i%200)}
	case 1:
		return net.IP{127, 0, byte(i / 200), byte(1 + i%200)}
	case 2:
		return net.IP{192, 0, 2, byte(1 + i%200)} // TEST-NET-1: special purpose
	case 3:
		return net.IP{10, byte(i / 200), byte(i % 200), 7}
	default:
		return net.IP{byte(20 + i/250%100), byte(1 + i%250), byte(r.Intn(250)), byte(1 + r.Intn(250))}
	}
}

type tabNode struct {
	node *enode.Node
	cls  string
	size int
}

// fillTable adds crafted records to a real node's table and returns them indexed by id.
func fillTable(n *realNode, r *rand.Rand, count int, bigPad bool) map[enode.ID]*tabNode {
	out := map[enode.ID]*tabNode{}
	tab := n.p.VerifTable()
	for i := 0; i < count; i++ {
		key := keyFromSeed(r)
		ip := craftedIP(r, i)
		pad := 0
		switch r.Intn(4) {
		case 0:
			pad = r.Intn(60)
		case 1:
			if bigPad {
				pad = 140 + r.Intn(60) // close to the 300-byte record limit
			}
		}
		nd := signRecPad(key, ip, 2000+r.Intn(30000), 1, pad)
		if tab.VerifAddNode(nd, false, r.Intn(4) != 0) {
			out[nd.ID()] = &tabNode{nd, ipClass(ip), enrSize(nd)}
		}
	}
	return out
}

type tabView struct {
	desc  string
	index map[enode.ID]int
}

// viewTable snapshots the table: per entry bucket index, verified flag, address class, record size.
func viewTable(n *realNode, known map[enode.ID]*tabNode) tabView {
	s := n.p.VerifTable().VerifSnapshot()
	var parts []string
	idx := map[enode.ID]int{}
	k := 1
	for bi, b := range s.Buckets {
		for _, e := range b.Entries {
			tn := known[e.Node.ID()]
			cls, size := ipClass(e.Node.IP()), enrSize(e.Node)
			if tn != nil {
				cls, size = tn.cls, tn.size
			}
			idx[e.Node.ID()] = k
			parts = append(parts, fmt.Sprintf("%d:%d:%d:%s:%d", k, bi, b2i(e.Live), cls, size))
			k++
		}
	}
	if len(parts) == 0 {
		return tabView{"-", idx}
	}
	return tabView{strings.Join(parts, ","), idx}
}

func runFindNodes(o *Out, r *rand.Rand, thorough bool, _ []string) {
	findNodesWhileSeeding(o, r)
	rounds, perRound := 4, shorter(250, thorough)
	if thorough {
		rounds, perRound = 40, 400
	}
	for round := 0; round < rounds; round++ {
		mn := newMemNet()
		selfIP := []net.IP{{34, 50, 60, 70}, {192, 168, 7, 7}, {127, 0, 0, 1}}[round%3]
		nd := startNode(mn, r, nodeOpts{ip: selfIP, port: 9000 + round, utpLimit: 10})
		known := fillTable(nd, r, 60+r.Intn(200), round%2 == 1)
		selfCls := ipClass(selfIP)
		askers := []net.IP{{192, 168, 1, 5}, {127, 0, 0, 1}, {34, 9, 9, 9}, {10, 1, 1, 1}}
		for c := 0; c < perRound; c++ {
			asker := askers[r.Intn(len(askers))]
			var dists []uint
			switch r.Intn(12) {
			case 0: // every distance once
				for d := 0; d <= 256; d++ {
					dists = append(dists, uint(d))
				}
				r.Shuffle(len(dists), func(i, j int) { dists[i], dists[j] = dists[j], dists[i] })
				dists = dists[:256]
			case 1: // empty list
			default:
				pool := []uint{0, 100, 239, 240, 241, 250, 252, 253, 254, 255, 256, 256, 255, 257, 300, 65535}
				for j := 0; j < 1+r.Intn(6); j++ {
					dists = append(dists, pool[r.Intn(len(pool))])
				}
			}
			enc := make([][2]byte, len(dists))
			var ds []string
			for i, d := range dists {
				enc[i][0], enc[i][1] = byte(d), byte(d>>8)
				ds = append(ds, strconv.Itoa(int(uint16(d))))
			}
			if len(ds) == 0 {
				ds = []string{"-"}
			}
			before := viewTable(nd, known)
			mn.resetSizes()
			resp, err := nd.p.VerifHandleFindNodes(&net.UDPAddr{IP: asker, Port: 4000}, &portalwire.FindNodes{Distances: enc})
			after := viewTable(nd, known)
			if before.desc != after.desc {
				continue // revalidation changed the table during the call
			}
			input := fmt.Sprintf("findnodes asker=%s self=%s:%d dists=%s tab=%s", ipClass(asker), selfCls, enrSize(nd.p.Self()), strings.Join(ds, ","), before.desc)
			if err != nil || len(resp) == 0 {
				o.Case(input, "error")
				continue
			}
			msg := &portalwire.Nodes{}
			if resp[0] != portalwire.NODES || msg.UnmarshalSSZ(resp[1:]) != nil {
				o.Case(input, "undecodable")
				continue
			}
			var ids []string
			bad := false
			for _, e := range msg.Enrs {
				rec := &enr.Record{}
				if rlp.DecodeBytes(e, rec) != nil {
					bad = true
					break
				}
				n2, err := enode.New(enode.ValidSchemes, rec)
				if err != nil {
					bad = true
					break
				}
				if n2.ID() == nd.p.Self().ID() {
					ids = append(ids, "0")
				} else if k, ok := before.index[n2.ID()]; ok {
					ids = append(ids, strconv.Itoa(k))
				} else {
					ids = append(ids, "999999") // a record that is not in the table
				}
			}
			if bad {
				o.Case(input, "badrecord")
				continue
			}
			if len(ids) == 0 {
				ids = []string{"-"}
			}
			o.Case(input, fmt.Sprintf("len=%d total=%d ids=%s", len(resp), msg.Total, strings.Join(ids, ",")))
		}
		// several askers at once (discv5 runs every TALKREQ in a goroutine of its own), each asking for ONE distance of its own:
		// every record of every reply lies at the distance that reply was asked for
		{
			wantDists := []uint{256, 255, 254, 253, 252, 0}
			reps := 150
			if thorough {
				reps = 2000
			}
			var badRecs, badReplies int64
			var wg sync.WaitGroup
			selfID := nd.p.Self().ID()
			for _, d := range wantDists {
				wg.Add(1)
				go func(d uint) {
					defer wg.Done()
					req := &portalwire.FindNodes{Distances: [][2]byte{{byte(d), byte(d >> 8)}}}
					for k := 0; k < reps; k++ {
						resp, err := nd.p.VerifHandleFindNodes(&net.UDPAddr{IP: net.IP{192, 168, 1, 5}, Port: 4000}, req)
						msg := &portalwire.Nodes{}
						if err != nil || len(resp) == 0 || resp[0] != portalwire.NODES || msg.UnmarshalSSZ(resp[1:]) != nil {
							atomic.AddInt64(&badReplies, 1)
							continue
						}
						for _, e := range msg.Enrs {
							rec := &enr.Record{}
							if rlp.DecodeBytes(e, rec) != nil {
								atomic.AddInt64(&badRecs, 1)
								continue
							}
							n2, err := enode.New(enode.ValidSchemes, rec)
							if err != nil || uint(enode.LogDist(selfID, n2.ID())) != d {
								atomic.AddInt64(&badRecs, 1)
							}
						}
					}
				}(d)
			}
			wg.Wait()
			o.Case(fmt.Sprintf("concfindnodes workers=%d reps=%d", len(wantDists), reps), fmt.Sprintf("badreplies=%d badrecords=%d", badReplies, badRecs))
		}
		nd.stop()
	}
}

// findNodesWhileSeeding: a node as it starts in production - init check on, configured with boot nodes that are slow to answer
// (here: silent), so its first refresh takes seconds. In that phase its table already holds the boot nodes, none of them
// liveness-checked: asked for their distances it offers none of them.
func findNodesWhileSeeding(o *Out, r *rand.Rand) {
	mn := newMemNet()
	var boot []*enode.Node
	for i := 0; i < 3; i++ {
		boot = append(boot, signRecPad(keyFromSeed(r), net.IP{34, byte(60 + i), 9, 9}, 7700+i, 1, 0))
	}
	nd := startNode(mn, r, nodeOpts{ip: net.IP{34, 50, 61, 1}, port: 9170, utpLimit: 10, initCheck: true, boot: boot})
	defer nd.stop()
	self := nd.p.Self().ID()
	inTable := 0
	for _, n := range nd.p.VerifTable().VerifNodeList() {
		for _, b := range boot {
			if n.ID() == b.ID() {
				inTable++
			}
		}
	}
	offered := 0
	for _, b := range boot {
		d := uint(enode.LogDist(self, b.ID()))
		resp, err := nd.p.VerifHandleFindNodes(&net.UDPAddr{IP: net.IP{34, 9, 9, 9}, Port: 4000}, &portalwire.FindNodes{Distances: [][2]byte{{byte(d), byte(d >> 8)}}})
		msg := &portalwire.Nodes{}
		if err != nil || len(resp) == 0 || resp[0] != portalwire.NODES || msg.UnmarshalSSZ(resp[1:]) != nil {
			continue
		}
		offered += len(msg.Enrs)
	}
	o.Case(fmt.Sprintf("fnseeding boot=%d intable=%d", len(boot), inTable), fmt.Sprintf("offered=%d", offered))
}

// runNodesResp: the asking side. NODES replies carrying valid, unsigned, wrong-distance, duplicate, low-port,
// unrelayable and undecodable records go through the real processNodes.
func runNodesResp(o *Out, r *rand.Rand, thorough bool, _ []string) {
	rounds, perRound := 3, shorter(300, thorough)
	if thorough {
		rounds, perRound = 30, 600
	}
	for round := 0; round < rounds; round++ {
		mn := newMemNet()
		// every other round the node runs with an allow-list that contains the loopback and LAN ranges and half of the public
		// addresses: being on the list must not excuse a record from the relay check (or from anything else)
		restrict := ""
		if round%2 == 1 {
			restrict = "127.0.0.0/8,192.168.0.0/16,10.0.0.0/8,34.0.0.0/8,0.0.0.0/2"
		}
		var allow *netutil.Netlist
		if restrict != "" {
			allow, _ = netutil.ParseNetlist(restrict)
		}
		nd := startNode(mn, r, nodeOpts{ip: net.IP{34, 50, 60, byte(70 + round)}, port: 9100 + round, utpLimit: 10, restrict: restrict})
		senderIPs := []net.IP{{34, 77, 1, 1}, {192, 168, 3, 3}, {127, 0, 0, 9}}
		// one peer per round really is on the network: a third of the cases go through the whole round trip (the request is
		// encoded and sent, the scripted NODES message comes back over discv5) instead of handing the reply to the filter
		wirePeer := startScriptedPeer(mn, r, net.IP{34, 78, 2, byte(1 + round)}, 9150+round, portalwire.History)
		for c := 0; c < perRound; c++ {
			sip := senderIPs[r.Intn(len(senderIPs))]
			sender := signRecPad(keyFromSeed(r), sip, 3000+r.Intn(100), 1, 0)
			viaWire := r.Intn(3) == 0
			if viaWire {
				sender = wirePeer.node()
			}
			// requested distances
			req := []uint{} // non-nil: an empty list is a request for zero distances, not "no constraint"
			pool := []uint{0, 253, 254, 255, 256}
			nReq := 1 + r.Intn(3)
			if r.Intn(10) == 0 {
				nReq = 0
			}
			for j := 0; j < nReq; j++ {
				req = append(req, pool[r.Intn(len(pool))])
				if r.Intn(5) == 0 {
					req = append(req, req[len(req)-1]) // the same distance twice in a row
				}
			}
			var recs [][]byte
			var desc []string
			var made []*enode.Node
			nRecs := r.Intn(9)
			for j := 0; j < nRecs; j++ {
				var n2 *enode.Node
				signed := 1
				switch k := r.Intn(12); {
				case k == 0 && len(made) > 0: // duplicate of an earlier record
					n2 = made[r.Intn(len(made))]
				case k == 1: // the sender's own record (distance 0)
					n2 = sender
				default:
					ip := craftedIP(r, j+c)
					port := 1025 + r.Intn(30000)
					if r.Intn(6) == 0 {
						port = []int{0, 1, 80, 1023, 1024, 1025}[r.Intn(6)]
					}
					n2 = signRecPad(keyFromSeed(r), ip, port, 1, 0)
					if r.Intn(8) == 0 {
						// a dual-stack record: an IPv4 and an IPv6 endpoint with ports of their own, one of them privileged. What
						// counts is the port of the endpoint the record is reached at (Node.UDP()), reported below as usual
						ip6 := net.ParseIP([]string{"2001:4860:4860::8888", "fd00::1234", "2606:4700::1111"}[r.Intn(3)])
						p4, p6 := 1025+r.Intn(30000), []int{0, 80, 443, 1024}[r.Intn(4)]
						if r.Intn(2) == 0 {
							p4, p6 = p6, p4
						}
						var rec enr.Record
						rec.Set(enr.IPv4(ip.To4()))
						rec.Set(enr.UDP(uint16(p4)))
						rec.Set(enr.IPv6(ip6))
						rec.Set(enr.UDP6(uint16(p6)))
						rec.SetSeq(1)
						if enode.SignV4(&rec, keyFromSeed(r)) == nil {
							if nn, err := enode.New(enode.ValidSchemes, &rec); err == nil {
								n2 = nn
							}
						}
					}
				}
				b, _ := rlp.EncodeToBytes(n2.Record())
				switch r.Intn(12) {
				case 0: // break the signature: flip a byte inside the signature item
					b = append([]byte{}, b...)
					b[10] ^= 0x40
					signed = 0
				case 1: // not RLP at all
					b = []byte{0xc1}
					signed = 0
				}
				made = append(made, n2)
				recs = append(recs, b)
				dist := enode.LogDist(sender.ID(), n2.ID())
				relay := b2i(netutil.CheckRelayIP(sender.IP(), n2.IP()) == nil)
				// id index: position of first record with the same id
				idIdx := j
				for q := 0; q < j; q++ {
					if made[q].ID() == n2.ID() {
						idIdx = q
						break
					}
				}
				onList := 1
				if allow != nil && !allow.Contains(n2.IP()) {
					onList = 0
				}
				desc = append(desc, fmt.Sprintf("%d:%d:%d:%d:%s:%s:%d:%d", idIdx, signed, dist, n2.UDP(), ipClass(n2.IP()), ipClass(sender.IP()), relay, onList))
			}
			msg := &portalwire.Nodes{Total: 1, Enrs: recs}
			body, err := msg.MarshalSSZ()
			if err != nil {
				continue
			}
			resp := append([]byte{portalwire.NODES}, body...)
			rq := []string{}
			for _, d := range req {
				rq = append(rq, strconv.Itoa(int(d)))
			}
			if len(rq) == 0 {
				rq = []string{"-"}
			}
			if len(desc) == 0 {
				desc = []string{"-"}
			}
			var got []*enode.Node
			if len(resp) > 1100 {
				viaWire = false // more than one discv5 packet carries: this reply can only be handed over directly
			}
			if viaWire {
				wirePeer.reply = func([]byte) []byte { return resp }
				got, err = nd.p.VerifFindNodes(sender, req)
			} else {
				got, err = nd.p.VerifProcessNodes(sender, resp, req)
			}
			input := fmt.Sprintf("nodesresp req=%s recs=%s", strings.Join(rq, ","), strings.Join(desc, ","))
			if err != nil {
				o.Case(input, "error")
				continue
			}
			var acc []string
			for _, g := range got {
				for q, m := range made {
					if m.ID() == g.ID() {
						acc = append(acc, strconv.Itoa(q))
						break
					}
				}
			}
			if len(acc) == 0 {
				acc = []string{"-"}
			}
			o.Case(input, "accepted="+strings.Join(acc, ","))
		}
		wirePeer.stop()
		nd.stop()
	}
}

var _ = sort.Ints
