//go:build verif

package main

// C12 — light client: VerifyGenericUpdate / ApplyGenericUpdate / bootstrap on synthetic 512-member committees
// with REAL BLS keys and signatures.
//
// What the harness computes itself (independently of the code under test) and sends to the Lean driver:
//   - the raw header fields, branches, committee roots, fork version and genesis root of every update (the driver
//     recomputes header roots, Merkle folds, domain and signing root with its own SHA-256);
//   - `signed`: the signing root the harness REALLY signed (own SHA-256 implementation of header root / fork data /
//     domain / signing data, cross-checked once against zrnt at start-up);
//   - `intact`: whether the signature bytes are the ones produced by signing;
//   - `pkcur` / `pknext`: whether the keys of the store's current / next committee selected by the update's bits
//     are, as a multiset, the keys that signed (byte comparison);
//   - `bits`: own popcount of the participation bitmap.
// BLS itself is trusted: a signature is taken to be valid iff intact ∧ signed = signing root ∧ key sets equal.
//
// Lines:
//   boot  … | ok <store> / err=<class>          real bootstrap() through a fake ConsensusAPI
//   store … | ok                                 the harness installs a synthetic store directly
//   upd   … | verify=<err> <store after>         VerifyGenericUpdate (+ ApplyGenericUpdate when apply=1)

import (
	"bytes"
	"crypto/sha256"
	"encoding/binary"
	"encoding/hex"
	"errors"
	"fmt"
	"math/rand"
	"os"
	"sort"
	"strings"
	"sync"
	"time"

	"github.com/ethereum/go-ethereum/log"
	kbls "github.com/kilic/bls12-381"
	blsu "github.com/protolambda/bls12-381-util"
	"github.com/protolambda/zrnt/eth2/beacon/altair"
	"github.com/protolambda/zrnt/eth2/beacon/capella"
	"github.com/protolambda/zrnt/eth2/beacon/common"
	"github.com/protolambda/zrnt/eth2/beacon/deneb"
	"github.com/protolambda/zrnt/eth2/beacon/electra"
	"github.com/protolambda/zrnt/eth2/configs"
	"github.com/protolambda/ztyp/tree"
	"github.com/protolambda/ztyp/view"
	"github.com/zen-eth/shisui/beacon"
)

func init() { runners["C12"] = runC12 }

const lcSlotsPerPeriod = 32 * 256

type h32 = [32]byte

// ---------------------------------------------------------------- own SHA-256 Merkle helpers

func lcH2(a, b h32) h32 {
	var buf [64]byte
	copy(buf[:32], a[:])
	copy(buf[32:], b[:])
	return sha256.Sum256(buf[:])
}

func lcU64(v uint64) (out h32) {
	binary.LittleEndian.PutUint64(out[:8], v)
	return
}

// hash_tree_root(BeaconBlockHeader): 5 fields padded to 8 leaves
func lcHdrRoot(h *common.BeaconBlockHeader) h32 {
	var z h32
	a := lcH2(lcH2(lcU64(uint64(h.Slot)), lcU64(uint64(h.ProposerIndex))), lcH2(h32(h.ParentRoot), h32(h.StateRoot)))
	b := lcH2(lcH2(h32(h.BodyRoot), z), lcH2(z, z))
	return lcH2(a, b)
}

// compute_signing_root(header, compute_domain(DOMAIN_SYNC_COMMITTEE, fork_version, genesis_validators_root))
func lcSigningRoot(hdrRoot h32, fv [4]byte, gvr h32) h32 {
	var v h32
	copy(v[:4], fv[:])
	forkData := lcH2(v, gvr)
	var domain h32
	domain[0] = 7
	copy(domain[4:], forkData[:28])
	return lcH2(hdrRoot, domain)
}

// The part of an (Altair..Deneb) beacon state tree that the three branches touch.
//
//	finalized_checkpoint.root  gindex 105 (depth 6, index 41)
//	current_sync_committee     gindex 54  (depth 5, index 22)
//	next_sync_committee        gindex 55  (depth 5, index 23)
type lcState struct {
	n104, n105, n53, n54, n55, n12, n7, n2 h32
}

func lcRandState(r *rand.Rand) *lcState {
	s := &lcState{}
	for _, p := range []*h32{&s.n104, &s.n105, &s.n53, &s.n54, &s.n55, &s.n12, &s.n7, &s.n2} {
		r.Read(p[:])
	}
	return s
}

func (s *lcState) root() h32 {
	n52 := lcH2(s.n104, s.n105)
	n26 := lcH2(n52, s.n53)
	n27 := lcH2(s.n54, s.n55)
	n13 := lcH2(n26, n27)
	n6 := lcH2(s.n12, n13)
	n3 := lcH2(n6, s.n7)
	return lcH2(s.n2, n3)
}
func (s *lcState) finBranch() (b altair.FinalizedRootProofBranch) {
	n27 := lcH2(s.n54, s.n55)
	for i, x := range []h32{s.n104, s.n53, n27, s.n12, s.n7, s.n2} {
		b[i] = common.Root(x)
	}
	return
}
func (s *lcState) nextBranch() (b altair.SyncCommitteeProofBranch) {
	n26 := lcH2(lcH2(s.n104, s.n105), s.n53)
	for i, x := range []h32{s.n54, n26, s.n12, s.n7, s.n2} {
		b[i] = common.Root(x)
	}
	return
}
func (s *lcState) curBranch() (b [5]common.Root) {
	n26 := lcH2(lcH2(s.n104, s.n105), s.n53)
	for i, x := range []h32{s.n55, n26, s.n12, s.n7, s.n2} {
		b[i] = common.Root(x)
	}
	return
}

// ---------------------------------------------------------------- committees with real BLS keys

type lcComm struct {
	sks  []kbls.Fr
	sc   *common.SyncCommittee
	root common.Root // hash_tree_root by zrnt (SSZ hashing of 512 keys is trusted)
}

func lcCommID(root common.Root) string { return hex.EncodeToString(root[:8]) }

func lcMakeComms(r *rand.Rand, n int) []*lcComm {
	comms := make([]*lcComm, n)
	seeds := make([][]byte, n*512)
	for i := range seeds {
		seeds[i] = make([]byte, 64)
		r.Read(seeds[i])
	}
	for k := 0; k < n; k++ {
		comms[k] = &lcComm{sks: make([]kbls.Fr, 512), sc: &common.SyncCommittee{Pubkeys: make([]common.BLSPubkey, 512)}}
	}
	var wg sync.WaitGroup
	for w := 0; w < 16; w++ {
		wg.Add(1)
		go func(w int) {
			defer wg.Done()
			for i := w; i < n*512; i += 16 {
				c := comms[i/512]
				sk := &c.sks[i%512]
				if _, err := sk.Rand(bytes.NewReader(seeds[i])); err != nil || sk.IsZero() {
					sk.One()
				}
				pk, _ := blsu.SkToPk((*blsu.SecretKey)(sk))
				c.sc.Pubkeys[i%512] = common.BLSPubkey(pk.Serialize())
			}
		}(w)
	}
	wg.Wait()
	// seats are sampled with replacement: a validator can hold several seats of one committee. Every committee here has a few
	// shared seats (each seat still counts, and signs, for itself)
	for _, c := range comms {
		for _, pr := range [][2]int{{7, 300}, {10, 11}, {100, 101}, {100, 102}, {511, 0}} {
			c.sks[pr[1]] = c.sks[pr[0]]
			c.sc.Pubkeys[pr[1]] = c.sc.Pubkeys[pr[0]]
		}
	}
	for _, c := range comms {
		var sum kbls.Fr
		sum.Zero()
		for i := range c.sks {
			sum.Add(&sum, &c.sks[i])
		}
		agg, _ := blsu.SkToPk((*blsu.SecretKey)(&sum))
		c.sc.AggregatePubkey = common.BLSPubkey(agg.Serialize())
		c.root = c.sc.HashTreeRoot(configs.Mainnet, tree.GetHashFn())
	}
	return comms
}

// aggregate signature of the members at the set positions: (Σ sk_i)·H(m) — one scalar multiplication
func (c *lcComm) sign(bits []byte, msg h32) common.BLSSignature {
	var sum kbls.Fr
	sum.Zero()
	n := 0
	for i := 0; i < 512; i++ {
		if bits[i/8]>>(uint(i)%8)&1 == 1 {
			sum.Add(&sum, &c.sks[i])
			n++
		}
	}
	if n == 0 || sum.IsZero() {
		// nobody signed: the canonical "infinity" signature
		var s common.BLSSignature
		s[0] = 0xc0
		return s
	}
	sig := blsu.Sign((*blsu.SecretKey)(&sum), msg[:])
	return common.BLSSignature(sig.Serialize())
}

func lcPopcount(bits []byte) int {
	n := 0
	for i := 0; i < 512 && i/8 < len(bits); i++ {
		if bits[i/8]>>(uint(i)%8)&1 == 1 {
			n++
		}
	}
	return n
}

func lcKeysAt(sc *common.SyncCommittee, bits []byte) []string {
	var out []string
	if sc == nil {
		return nil
	}
	for i := 0; i < 512 && i < len(sc.Pubkeys); i++ {
		if bits[i/8]>>(uint(i)%8)&1 == 1 {
			out = append(out, string(sc.Pubkeys[i][:]))
		}
	}
	sort.Strings(out)
	return out
}

func lcSameKeys(a, b []string) bool {
	if len(a) != len(b) || len(a) == 0 {
		return false
	}
	for i := range a {
		if a[i] != b[i] {
			return false
		}
	}
	return true
}

// participation bitmap with exactly n bits set
func lcBits(r *rand.Rand, n int) altair.SyncCommitteeBits {
	b := make(altair.SyncCommitteeBits, 64)
	if n >= 512 {
		for i := range b {
			b[i] = 0xff
		}
		return b
	}
	perm := r.Perm(512)
	for _, i := range perm[:n] {
		b[i/8] |= 1 << (uint(i) % 8)
	}
	return b
}

// ---------------------------------------------------------------- the client under test

type lcAPI struct {
	boot common.SpecObj
	err  error
}

func (a *lcAPI) GetBootstrap(common.Root) (common.SpecObj, error)    { return a.boot, a.err }
func (a *lcAPI) GetUpdates(uint64, uint64) ([]common.SpecObj, error) { return nil, errors.New("none") }
func (a *lcAPI) GetFinalityUpdate() (common.SpecObj, error)          { return nil, errors.New("none") }
func (a *lcAPI) GetOptimisticUpdate() (common.SpecObj, error)        { return nil, errors.New("none") }
func (a *lcAPI) ChainID() uint64                                     { return 1 }
func (a *lcAPI) Name() string                                        { return "verif" }

func lcNewClient(api *lcAPI, checkpoint common.Root) *beacon.ConsensusLightClient {
	cfg := &beacon.Config{Chain: beacon.Mainnet().Chain, Spec: configs.Mainnet, MaxCheckpointAge: 1_209_600}
	c, _ := beacon.NewConsensusLightClient(api, cfg, checkpoint, log.New())
	return c
}

// pin the wall clock of the client to the middle of slot `now`
func lcPin(c *beacon.ConsensusLightClient, now uint64) {
	c.Config.Chain.GenesisTime = uint64(time.Now().Unix()) - now*12 - 4
}

func lcErrName(err error) string {
	switch {
	case err == nil:
		return "ok"
	case errors.Is(err, beacon.ErrInsufficientParticipation):
		return "insufficientParticipation"
	case errors.Is(err, beacon.ErrInvalidTimestamp):
		return "invalidTimestamp"
	case errors.Is(err, beacon.ErrInvalidPeriod):
		return "invalidPeriod"
	case errors.Is(err, beacon.ErrNotRelevant):
		return "notRelevant"
	case errors.Is(err, beacon.ErrInvalidFinalityProof):
		return "invalidFinalityProof"
	case errors.Is(err, beacon.ErrInvalidNextSyncCommitteeProof):
		return "invalidNextSyncCommitteeProof"
	case errors.Is(err, beacon.ErrInvalidSignature):
		return "invalidSignature"
	}
	return "decodeError" // a public key or the signature is not a curve point
}

func lcHdrStr(h *common.BeaconBlockHeader) string {
	if h == nil {
		return "-"
	}
	return fmt.Sprintf("%d:%d:%x:%x:%x", uint64(h.Slot), uint64(h.ProposerIndex), h.ParentRoot[:], h.StateRoot[:], h.BodyRoot[:])
}

func lcRootsStr(rs []common.Root) string {
	s := make([]string, len(rs))
	for i, x := range rs {
		s[i] = hex.EncodeToString(x[:])
	}
	return strings.Join(s, ",")
}

func lcStoreStr(c *beacon.ConsensusLightClient) (s string) {
	defer func() {
		if e := recover(); e != nil {
			s = "store-unreadable"
		}
	}()
	st := &c.Store
	next := "0"
	if st.NextSyncCommittee != nil {
		next = lcCommID(st.NextSyncCommittee.HashTreeRoot(configs.Mainnet, tree.GetHashFn()))
	}
	cur := "0"
	if st.CurrentSyncCommittee != nil {
		cur = lcCommID(st.CurrentSyncCommittee.HashTreeRoot(configs.Mainnet, tree.GetHashFn()))
	}
	fr, or := lcHdrRoot(st.FinalizedHeader), lcHdrRoot(st.OptimisticHeader)
	return fmt.Sprintf("fin=%d opt=%d cur=%s next=%s prevMax=%d curMax=%d finroot=%x optroot=%x",
		uint64(st.FinalizedHeader.Slot), uint64(st.OptimisticHeader.Slot), cur, next,
		uint64(st.PreviousMaxActiveParticipants), uint64(st.CurrentMaxActiveParticipants), fr[:8], or[:8])
}

// ---------------------------------------------------------------- update construction

type lcUpd struct {
	kind, flavor, corrupt string
	att                   common.BeaconBlockHeader
	fin                   *common.BeaconBlockHeader
	finBr                 *altair.FinalizedRootProofBranch
	next                  *common.SyncCommittee
	nextRoot              common.Root
	nextBr                *altair.SyncCommitteeProofBranch
	bits                  altair.SyncCommitteeBits
	sig                   common.BLSSignature
	sigSlot               uint64
	now                   uint64
	fv                    [4]byte
	gvr                   common.Root
	// ground truth about the signature
	signed  h32
	intact  bool
	signers []string
}

// the update as the SSZ object of its kind and fork, converted by the repo's own From* functions
func (u *lcUpd) generic() (*beacon.GenericUpdate, common.SpecObj, error) {
	agg := altair.SyncAggregate{SyncCommitteeBits: u.bits, SyncCommitteeSignature: u.sig}
	switch u.kind {
	case "gen":
		return &beacon.GenericUpdate{AttestedHeader: &u.att, SyncAggregate: &agg, SignatureSlot: common.Slot(u.sigSlot),
			NextSyncCommittee: u.next, NextSyncCommitteeBranch: u.nextBr, FinalizedHeader: u.fin, FinalityBranch: u.finBr}, nil, nil
	case "full":
		var obj common.SpecObj
		switch u.flavor {
		case "deneb":
			o := &deneb.LightClientUpdate{NextSyncCommittee: *u.next, NextSyncCommitteeBranch: *u.nextBr, FinalityBranch: *u.finBr, SyncAggregate: agg, SignatureSlot: common.Slot(u.sigSlot)}
			o.AttestedHeader.Beacon, o.FinalizedHeader.Beacon = u.att, *u.fin
			obj = o
		case "capella":
			o := &capella.LightClientUpdate{NextSyncCommittee: *u.next, NextSyncCommitteeBranch: *u.nextBr, FinalityBranch: *u.finBr, SyncAggregate: agg, SignatureSlot: common.Slot(u.sigSlot)}
			o.AttestedHeader.Beacon, o.FinalizedHeader.Beacon = u.att, *u.fin
			obj = o
		default:
			o := &altair.LightClientUpdate{NextSyncCommittee: *u.next, NextSyncCommitteeBranch: *u.nextBr, FinalityBranch: *u.finBr, SyncAggregate: agg, SignatureSlot: common.Slot(u.sigSlot)}
			o.AttestedHeader.Beacon, o.FinalizedHeader.Beacon = u.att, *u.fin
			obj = o
		}
		g, err := beacon.FromLightClientUpdate(obj)
		return g, obj, err
	case "fin":
		var obj common.SpecObj
		switch u.flavor {
		case "deneb":
			o := &deneb.LightClientFinalityUpdate{FinalityBranch: *u.finBr, SyncAggregate: agg, SignatureSlot: common.Slot(u.sigSlot)}
			o.AttestedHeader.Beacon, o.FinalizedHeader.Beacon = u.att, *u.fin
			obj = o
		case "capella":
			o := &capella.LightClientFinalityUpdate{FinalityBranch: *u.finBr, SyncAggregate: agg, SignatureSlot: common.Slot(u.sigSlot)}
			o.AttestedHeader.Beacon, o.FinalizedHeader.Beacon = u.att, *u.fin
			obj = o
		default:
			o := &altair.LightClientFinalityUpdate{FinalityBranch: *u.finBr, SyncAggregate: agg, SignatureSlot: common.Slot(u.sigSlot)}
			o.AttestedHeader.Beacon, o.FinalizedHeader = u.att, *u.fin
			obj = o
		}
		g, err := beacon.FromLightClientFinalityUpdate(obj)
		return g, obj, err
	default: // "opt"
		var obj common.SpecObj
		switch u.flavor {
		case "deneb":
			o := &deneb.LightClientOptimisticUpdate{SyncAggregate: agg, SignatureSlot: common.Slot(u.sigSlot)}
			o.AttestedHeader.Beacon = u.att
			obj = o
		case "capella":
			o := &capella.LightClientOptimisticUpdate{SyncAggregate: agg, SignatureSlot: common.Slot(u.sigSlot)}
			o.AttestedHeader.Beacon = u.att
			obj = o
		default:
			o := &altair.LightClientOptimisticUpdate{SyncAggregate: agg, SignatureSlot: common.Slot(u.sigSlot)}
			o.AttestedHeader.Beacon = u.att
			obj = o
		}
		g, err := beacon.FromLightClientOptimisticUpdate(obj)
		return g, obj, err
	}
}

type lcGen struct {
	comms []*lcComm
	roots map[*common.SyncCommittee]common.Root
	mu    sync.Mutex
}

func (g *lcGen) rootOf(sc *common.SyncCommittee) common.Root {
	g.mu.Lock()
	defer g.mu.Unlock()
	if x, ok := g.roots[sc]; ok {
		return x
	}
	x := sc.HashTreeRoot(configs.Mainnet, tree.GetHashFn())
	g.roots[sc] = x
	return x
}

func (g *lcGen) commByRoot(root common.Root) *lcComm {
	for _, c := range g.comms {
		if c.root == root {
			return c
		}
	}
	return nil
}

func lcRandRoot(r *rand.Rand) (x common.Root) { r.Read(x[:]); return }

var lcBitClasses = []int{0, 1, 1, 2, 3, 5, 8, 170, 171, 256, 340, 341, 342, 342, 343, 400, 511, 512}

func lcPeriod(slot uint64) uint64 { return slot / lcSlotsPerPeriod }

func lcPick(r *rand.Rand, xs ...uint64) uint64 { return xs[r.Intn(len(xs))] }

func sub(a, b uint64) uint64 {
	if b > a {
		return 0
	}
	return a - b
}

// genUpdate builds one update against the client's present store. `honesty` is the probability with which each
// individual choice is made the way an honest, in-sync server would make it.
func (g *lcGen) genUpdate(r *rand.Rand, c *beacon.ConsensusLightClient, honesty float64, cheap bool, wrapper bool, attHint uint64) *lcUpd {
	st := &c.Store
	S := uint64(st.FinalizedHeader.Slot)
	P := lcPeriod(S)
	honest := func() bool { return r.Float64() < honesty }
	u := &lcUpd{}
	switch x := r.Intn(100); {
	case x < 40:
		u.kind = "full"
	case x < 65:
		u.kind = "fin"
	case x < 85:
		u.kind = "opt"
	default:
		u.kind = "gen"
	}
	if wrapper && u.kind == "gen" {
		u.kind = "full"
	}
	if st.NextSyncCommittee == nil && honesty > 0.9 && r.Intn(2) == 0 {
		u.kind = "full" // an in-sync server first supplies the missing next committee
	}
	u.flavor = []string{"deneb", "deneb", "capella", "altair"}[r.Intn(4)]
	// --- slots
	var att uint64
	if attHint != 0 {
		att = attHint
	} else if honest() {
		room := (P+1)*lcSlotsPerPeriod - 1 - S // slots left in the store's period
		maxStep := uint64(3000)
		if cheap {
			maxStep = 1500
		}
		switch {
		case st.NextSyncCommittee == nil && room > 6:
			// an in-sync server stays inside the period until the store knows the next committee
			// (keep 4 slots of margin so that the signature slot does not cross either)
			att = S + 1 + uint64(r.Intn(int(min(room-5, maxStep))))
		case room < 300 || r.Intn(6) == 0:
			att = S + 1 + uint64(r.Intn(int(maxStep))) // may cross into the next period
		default:
			att = S + 1 + uint64(r.Intn(int(min(room, maxStep))))
		}
	} else {
		att = lcPick(r, S, sub(S, 1), sub(S, uint64(r.Intn(300))), (P+1)*lcSlotsPerPeriod-1, (P+1)*lcSlotsPerPeriod,
			(P+1)*lcSlotsPerPeriod+uint64(r.Intn(lcSlotsPerPeriod)), (P+2)*lcSlotsPerPeriod+uint64(r.Intn(100)), S+1, sub(P*lcSlotsPerPeriod, 1))
	}
	var sig uint64
	if honest() {
		sig = att + 1 + uint64(r.Intn(3))
	} else {
		sig = lcPick(r, att, sub(att, 1), att+1+uint64(r.Intn(64)), (lcPeriod(att)+1)*lcSlotsPerPeriod, (lcPeriod(att)+1)*lcSlotsPerPeriod-1,
			(P+1)*lcSlotsPerPeriod, (P+2)*lcSlotsPerPeriod, att+lcSlotsPerPeriod)
	}
	var finSlot uint64
	if honest() {
		if att > S+1 && r.Intn(5) != 0 {
			finSlot = S + 1 + uint64(r.Intn(int(att-S))) // newer than the store, not after the attested header
		} else {
			finSlot = sub(att, 64+uint64(r.Intn(64)))
		}
	} else {
		finSlot = lcPick(r, att, att+1, S, S+1, sub(S, 1), sub(P*lcSlotsPerPeriod, 1+uint64(r.Intn(50))), 0, (P+1)*lcSlotsPerPeriod, sub(att, 1),
			att+1+uint64(r.Intn(100)), uint64(st.OptimisticHeader.Slot)+1+uint64(r.Intn(50)), uint64(st.OptimisticHeader.Slot))
	}
	if honest() {
		u.now = sig + uint64(r.Intn(3))
	} else {
		u.now = lcPick(r, sub(sig, 1), sig, sig+10000, sub(sig, 2))
	}
	u.sigSlot = sig
	// --- parts present
	hasFin, hasFinBr, hasNext, hasNextBr := false, false, false, false
	switch u.kind {
	case "full":
		hasFin, hasFinBr, hasNext, hasNextBr = true, true, true, true
	case "fin":
		hasFin, hasFinBr = true, true
	case "gen":
		hasFin, hasFinBr, hasNext, hasNextBr = r.Intn(2) == 0, r.Intn(2) == 0, r.Intn(2) == 0, r.Intn(2) == 0
	}
	state := lcRandState(r)
	if st.CurrentSyncCommittee != nil {
		state.n54 = h32(g.rootOf(st.CurrentSyncCommittee))
	}
	if hasFin || hasFinBr {
		fh := &common.BeaconBlockHeader{Slot: common.Slot(finSlot), ProposerIndex: common.ValidatorIndex(r.Intn(1 << 20)), ParentRoot: lcRandRoot(r), StateRoot: lcRandRoot(r), BodyRoot: lcRandRoot(r)}
		state.n105 = lcHdrRoot(fh)
		if hasFin {
			u.fin = fh
		}
	}
	var nextC *lcComm
	if hasNext || hasNextBr {
		nextC = g.comms[r.Intn(len(g.comms))]
		if honest() {
			nextC = g.comms[int(lcPeriod(att)+1)%len(g.comms)]
		}
		state.n55 = h32(nextC.root)
		if hasNext {
			u.next, u.nextRoot = nextC.sc, nextC.root
		}
	}
	if hasFinBr {
		b := state.finBranch()
		u.finBr = &b
	}
	if hasNextBr {
		b := state.nextBranch()
		u.nextBr = &b
	}
	u.att = common.BeaconBlockHeader{Slot: common.Slot(att), ProposerIndex: common.ValidatorIndex(r.Intn(1 << 20)), ParentRoot: lcRandRoot(r), StateRoot: common.Root(state.root()), BodyRoot: lcRandRoot(r)}
	// --- participation
	nbits := lcBitClasses[r.Intn(len(lcBitClasses))]
	if honest() {
		nbits = []int{342, 342, 343, 400, 512, 341, 300, 171}[r.Intn(8)]
	}
	if cheap && nbits > 8 && r.Intn(4) != 0 {
		nbits = 1 + r.Intn(8) // keep most signature checks cheap (cost is linear in the number of keys)
	}
	u.bits = lcBits(r, nbits)
	// --- who signs, over what
	u.fv = [4]byte{byte(r.Intn(6)), 0, 0, 0}
	u.gvr = c.Config.Chain.GenesisRoot
	if r.Intn(4) == 0 {
		u.gvr = lcRandRoot(r)
	}
	if wrapper {
		// VerifyUpdate & co. take the fork version from the (dependency's) fork schedule and the configured genesis root
		u.fv = [4]byte(c.Config.Spec.ForkVersion(common.Slot(sig)))
		u.gvr = c.Config.Chain.GenesisRoot
	}
	expected := st.CurrentSyncCommittee
	if lcPeriod(sig) != P && st.NextSyncCommittee != nil {
		expected = st.NextSyncCommittee
	}
	signer := g.commByRoot(g.rootOf(expected))
	if signer == nil || !honest() {
		signer = g.comms[r.Intn(len(g.comms))]
		// often the store's OTHER committee: a genuine signature of the committee of the wrong period
		if r.Intn(2) == 0 {
			other := st.NextSyncCommittee
			if expected == st.NextSyncCommittee {
				other = st.CurrentSyncCommittee
			}
			if other != nil {
				if o2 := g.commByRoot(g.rootOf(other)); o2 != nil {
					signer = o2
				}
			}
		}
	}
	u.signed = lcSigningRoot(lcHdrRoot(&u.att), u.fv, h32(u.gvr))
	u.sig = signer.sign(u.bits, u.signed)
	u.intact = nbits > 0
	u.signers = lcKeysAt(signer.sc, u.bits)
	u.corrupt = "none"
	return u
}

// corrupt applies exactly one corruption of the kinds the property lists
func (g *lcGen) corrupt(r *rand.Rand, c *beacon.ConsensusLightClient, u *lcUpd, allowStoreKey bool) {
	// a genuine signature of the same signers over the same header, but under the domain of ANOTHER fork of the schedule:
	// the fork in force at the attested slot when that differs from the one at the signature slot, else a neighbouring one
	otherFork := func() bool {
		if len(u.signers) == 0 {
			return false
		}
		cur := [4]byte(c.Config.Spec.ForkVersion(common.Slot(u.sigSlot)))
		alt := [4]byte(c.Config.Spec.ForkVersion(u.att.Slot))
		if alt == cur || r.Intn(4) == 0 {
			alt = cur
			if alt[0] > 0 && r.Intn(2) == 0 {
				alt[0]--
			} else {
				alt[0]++
			}
		}
		if alt == u.fv {
			return false
		}
		msg := lcSigningRoot(lcHdrRoot(&u.att), alt, h32(u.gvr))
		for _, cm := range g.comms {
			if lcSameKeys(lcKeysAt(cm.sc, u.bits), u.signers) {
				u.sig = cm.sign(u.bits, msg)
				u.signed = msg
				u.corrupt = "domain-other-fork"
				return true
			}
		}
		return false
	}
	// two participating seats hold the same key, and that key signed ONCE: the aggregate is short of one contribution
	sharedSeatOnce := func() bool {
		if len(u.signers) == 0 {
			return false
		}
		for _, cm := range g.comms {
			if !lcSameKeys(lcKeysAt(cm.sc, u.bits), u.signers) {
				continue
			}
			first := map[common.BLSPubkey]int{}
			var pairs [][2]int
			for i, pk := range cm.sc.Pubkeys {
				if j, ok := first[pk]; ok {
					pairs = append(pairs, [2]int{j, i})
				} else {
					first[pk] = i
				}
			}
			if len(pairs) == 0 {
				return false
			}
			pr := pairs[r.Intn(len(pairs))]
			bits := append(altair.SyncCommitteeBits(nil), u.bits...)
			bits[pr[0]/8] |= 1 << (uint(pr[0]) % 8)
			bits[pr[1]/8] |= 1 << (uint(pr[1]) % 8)
			signedBy := append(altair.SyncCommitteeBits(nil), bits...)
			signedBy[pr[1]/8] &^= 1 << (uint(pr[1]) % 8)
			u.bits = bits
			u.sig = cm.sign(signedBy, u.signed)
			u.signers = lcKeysAt(cm.sc, signedBy)
			u.corrupt = "shared-seat-signed-once"
			return true
		}
		return false
	}
	if r.Intn(9) == 0 && sharedSeatOnce() {
		return
	}
	if r.Intn(25) == 0 && u.sigSlot >= 1 {
		// a configuration, not a forgery: genesis lies in the future, so the current slot is 0 and every signature slot from 1 on
		// is in the future
		u.now = 0
		u.corrupt = "pre-genesis"
		return
	}
	straddles := c.Config.Spec.ForkVersion(common.Slot(u.sigSlot)) != c.Config.Spec.ForkVersion(u.att.Slot)
	if (straddles && r.Intn(2) == 0 || r.Intn(14) == 0) && otherFork() {
		return
	}
	for try := 0; try < 8; try++ {
		switch r.Intn(11) {
		case 0: // signature: flip one bit (almost surely no longer a curve point)
			u.sig[r.Intn(96)] ^= 1 << uint(r.Intn(8))
			u.intact = false
			u.corrupt = "sig-bit"
		case 1: // signature: a genuine signature of the same signers over another message
			if len(u.signers) == 0 {
				continue
			}
			other := lcSigningRoot(lcRandRoot(r), u.fv, h32(u.gvr))
			for _, cm := range g.comms {
				if lcSameKeys(lcKeysAt(cm.sc, u.bits), u.signers) {
					u.sig = cm.sign(u.bits, other)
					u.signed = other
					u.corrupt = "sig-other-message"
				}
			}
			if u.corrupt == "none" {
				continue
			}
		case 2: // one participation bit flipped after signing
			u.bits = append(altair.SyncCommitteeBits(nil), u.bits...)
			i := r.Intn(512)
			u.bits[i/8] ^= 1 << (uint(i) % 8)
			u.corrupt = "bit"
		case 3: // one node of the finality branch
			if u.finBr == nil {
				continue
			}
			b := *u.finBr
			if r.Intn(4) == 0 { // the whole branch zeroed (what an "absent" branch looks like on the wire)
				for i := range b {
					b[i] = [32]byte{}
				}
				u.finBr = &b
				u.corrupt = "fin-branch-zero"
				break
			}
			b[r.Intn(6)][r.Intn(32)] ^= 1 << uint(r.Intn(8))
			u.finBr = &b
			u.corrupt = "fin-branch"
		case 4: // one node of the next-committee branch
			if u.nextBr == nil {
				continue
			}
			b := *u.nextBr
			if r.Intn(4) == 0 {
				for i := range b {
					b[i] = [32]byte{}
				}
				u.nextBr = &b
				u.corrupt = "next-branch-zero"
				break
			}
			b[r.Intn(5)][r.Intn(32)] ^= 1 << uint(r.Intn(8))
			u.nextBr = &b
			u.corrupt = "next-branch"
		case 5: // a field of the attested header (after signing)
			switch r.Intn(5) {
			case 0:
				u.att.ProposerIndex++
			case 1:
				u.att.ParentRoot[r.Intn(32)] ^= 1
			case 2:
				u.att.StateRoot[r.Intn(32)] ^= 1
			case 3:
				u.att.BodyRoot[r.Intn(32)] ^= 1
			default:
				u.att.Slot ^= 1
			}
			u.corrupt = "att-field"
		case 6: // a field of the finalized header (after the proof was built)
			if u.fin == nil {
				continue
			}
			f := *u.fin
			switch r.Intn(4) {
			case 0:
				f.ProposerIndex++
			case 1:
				f.ParentRoot[r.Intn(32)] ^= 1
			case 2:
				f.StateRoot[r.Intn(32)] ^= 1
			default:
				f.Slot++
			}
			u.fin = &f
			u.corrupt = "fin-field"
		case 7: // the next committee replaced by another one (the branch proves the original)
			if u.next == nil {
				continue
			}
			o := g.comms[r.Intn(len(g.comms))]
			if o.root == u.nextRoot {
				continue
			}
			u.next, u.nextRoot = o.sc, o.root
			u.corrupt = "next-committee"
		case 8: // one key of the committee the store holds (current or next) replaced by a key of another committee
			if !allowStoreKey {
				continue
			}
			st := &c.Store
			which := &st.CurrentSyncCommittee
			if st.NextSyncCommittee != nil && r.Intn(2) == 0 {
				which = &st.NextSyncCommittee
			}
			if *which == nil {
				continue
			}
			cp := &common.SyncCommittee{Pubkeys: append(common.SyncCommitteePubkeys(nil), (*which).Pubkeys...), AggregatePubkey: (*which).AggregatePubkey}
			i := r.Intn(512)
			if r.Intn(3) == 0 {
				r.Read(cp.Pubkeys[i][:]) // not a curve point
			} else {
				cp.Pubkeys[i] = g.comms[r.Intn(len(g.comms))].sc.Pubkeys[(i+1)%512]
			}
			*which = cp
			u.corrupt = "store-key"
		case 9: // signed under another fork version / genesis root than the one verification uses
			if r.Intn(2) == 0 {
				u.fv[r.Intn(4)] ^= 1 << uint(r.Intn(8))
			} else {
				u.gvr[r.Intn(32)] ^= 1
			}
			u.corrupt = "domain"
		default: // signature of a single member presented with the full bitmap
			if len(u.signers) < 2 {
				continue
			}
			one := make(altair.SyncCommitteeBits, 64)
			for i := 0; i < 512; i++ {
				if u.bits[i/8]>>(uint(i)%8)&1 == 1 {
					one[i/8] |= 1 << (uint(i) % 8)
					break
				}
			}
			for _, cm := range g.comms {
				if lcSameKeys(lcKeysAt(cm.sc, u.bits), u.signers) {
					u.sig = cm.sign(one, u.signed)
					u.signers = lcKeysAt(cm.sc, one)
					u.corrupt = "sig-subset"
				}
			}
			if u.corrupt == "none" {
				continue
			}
		}
		return
	}
}

func b01(b bool) string {
	if b {
		return "1"
	}
	return "0"
}

// run one update through the real code and render the case line
func (g *lcGen) runUpdate(c *beacon.ConsensusLightClient, u *lcUpd, seq int, applyAlways bool, viaWrapper bool) (string, string) {
	gu, obj, convErr := u.generic()
	pkcur := lcSameKeys(lcKeysAt(c.Store.CurrentSyncCommittee, u.bits), u.signers)
	pknext := lcSameKeys(lcKeysAt(c.Store.NextSyncCommittee, u.bits), u.signers)
	fv, gvr := u.fv, u.gvr
	if viaWrapper && obj != nil {
		// what VerifyUpdate & co. pass down: the dependency's fork schedule at the signature slot, the configured root
		fv, gvr = [4]byte(c.Config.Spec.ForkVersion(common.Slot(u.sigSlot))), c.Config.Chain.GenesisRoot
	}
	lcPin(c, u.now)
	if u.corrupt == "pre-genesis" {
		// the chain this client is configured for has not started yet: its clock says slot 0, whatever the wall clock reads
		c.Config.Chain.GenesisTime = uint64(time.Now().Unix()) + 100000
	}
	var sb strings.Builder
	via := "generic"
	if viaWrapper && obj != nil {
		via = "wrapper"
	}
	fmt.Fprintf(&sb, "upd seq=%d kind=%s flavor=%s via=%s corrupt=%s now=%d sig=%d att=%s fin=%s", seq, u.kind, u.flavor, via, u.corrupt, u.now, u.sigSlot, lcHdrStr(&u.att), lcHdrStr(u.fin))
	if u.finBr != nil {
		fmt.Fprintf(&sb, " finbr=%s", lcRootsStr(u.finBr[:]))
	} else {
		sb.WriteString(" finbr=-")
	}
	if u.next != nil {
		fmt.Fprintf(&sb, " nextroot=%x", u.nextRoot[:])
	} else {
		sb.WriteString(" nextroot=-")
	}
	if u.nextBr != nil {
		fmt.Fprintf(&sb, " nextbr=%s", lcRootsStr(u.nextBr[:]))
	} else {
		sb.WriteString(" nextbr=-")
	}
	fmt.Fprintf(&sb, " bits=%d fv=%x gvr=%x signed=%x intact=%s pkcur=%s pknext=%s", lcPopcount(u.bits), fv[:], gvr[:], u.signed[:], b01(u.intact), b01(pkcur), b01(pknext))
	if convErr != nil {
		return sb.String() + " apply=0", "verify=convert-error " + lcStoreStr(c)
	}
	verdict := func() (res string) {
		defer func() {
			if e := recover(); e != nil {
				res = "panic"
			}
		}()
		if via == "wrapper" {
			switch u.kind {
			case "full":
				return lcErrName(c.VerifyUpdate(obj))
			case "fin":
				return lcErrName(c.VerifyFinalityUpdate(obj))
			default:
				return lcErrName(c.VerifyOptimisticUpdate(obj))
			}
		}
		return lcErrName(c.VerifyGenericUpdate(&c.Store, gu, uint64(c.VerifExpectedCurrentSlot()), gvr, fv))
	}()
	doApply := applyAlways || verdict == "ok"
	if doApply {
		func() {
			defer func() {
				if e := recover(); e != nil {
					verdict += "+apply-panic"
				}
			}()
			if via == "wrapper" {
				var err error
				switch u.kind {
				case "full":
					err = c.ApplyUpdate(obj)
				case "fin":
					err = c.ApplyFinalityUpdate(obj)
				default:
					err = c.ApplyOptimisticUpdate(obj)
				}
				if err != nil {
					verdict += "+apply-error"
				}
				return
			}
			c.ApplyGenericUpdate(gu)
		}()
	}
	fmt.Fprintf(&sb, " apply=%s", b01(doApply))
	return sb.String(), "verify=" + verdict + " " + lcStoreStr(c)
}

// ---------------------------------------------------------------- bootstrap

type lcBoot struct {
	hdr      deneb.LightClientHeader
	comm     *common.SyncCommittee
	commRoot common.Root
	branch   electra.CurrentSyncCommitteeBranch
	cp       common.Root
	typ      string
	corrupt  string
}

func lcContainerRoot(h *deneb.LightClientHeader) h32 {
	var z h32
	ex := h.Execution.HashTreeRoot(tree.GetHashFn())
	eb := h.ExecutionBranch.HashTreeRoot(tree.GetHashFn())
	return lcH2(lcH2(lcHdrRoot(&h.Beacon), h32(ex)), lcH2(h32(eb), z))
}

func (g *lcGen) genBoot(r *rand.Rand, slot uint64, cm *lcComm) *lcBoot {
	b := &lcBoot{comm: cm.sc, commRoot: cm.root, typ: "electra", corrupt: "none"}
	state := lcRandState(r)
	state.n54 = h32(cm.root)
	b.hdr.Beacon = common.BeaconBlockHeader{Slot: common.Slot(slot), ProposerIndex: common.ValidatorIndex(r.Intn(1 << 20)), ParentRoot: lcRandRoot(r), StateRoot: common.Root(state.root()), BodyRoot: lcRandRoot(r)}
	b.hdr.Execution.BlockNumber = view.Uint64View(r.Intn(1 << 24))
	r.Read(b.hdr.Execution.BlockHash[:])
	for i := range b.hdr.ExecutionBranch {
		r.Read(b.hdr.ExecutionBranch[i][:])
	}
	cb := state.curBranch()
	copy(b.branch[:5], cb[:])
	b.branch[5] = lcRandRoot(r) // the sixth node of the Electra-sized vector is never read by the depth-5 check
	return b
}

func (g *lcGen) runBoot(b *lcBoot, seq int) (*beacon.ConsensusLightClient, string, string) {
	var obj common.SpecObj
	if b.typ == "electra" {
		obj = &electra.LightClientBootstrap{Header: b.hdr, CurrentSyncCommittee: *b.comm, CurrentSyncCommitteeBranch: b.branch}
	} else {
		o := &capella.LightClientBootstrap{CurrentSyncCommittee: *b.comm}
		o.Header.Beacon = b.hdr.Beacon
		obj = o
	}
	c := lcNewClient(&lcAPI{boot: obj}, b.cp)
	lcPin(c, uint64(b.hdr.Beacon.Slot)+100)
	ex := b.hdr.Execution.HashTreeRoot(tree.GetHashFn())
	eb := b.hdr.ExecutionBranch.HashTreeRoot(tree.GetHashFn())
	in := fmt.Sprintf("boot seq=%d typ=%s corrupt=%s cp=%x hdr=%s execroot=%x exbrroot=%x commroot=%x branch=%s", seq, b.typ, b.corrupt,
		b.cp[:], lcHdrStr(&b.hdr.Beacon), ex[:], eb[:], b.commRoot[:], lcRootsStr(b.branch[:]))
	res := func() (res string) {
		defer func() {
			if e := recover(); e != nil {
				res = "panic"
			}
		}()
		err := c.VerifBootstrap()
		switch {
		case err == nil:
			return "ok " + lcStoreStr(c)
		}
		// which of several reasons a rejected bootstrap reports, and in what words, is not compared
		return "err=rejected"
	}()
	return c, in, res
}

// ---------------------------------------------------------------- runs

func lcSelfCheck(g *lcGen, r *rand.Rand) {
	// the harness's own SHA-256 SSZ formulas against zrnt, once
	h := &common.BeaconBlockHeader{Slot: 123456789, ProposerIndex: 77, ParentRoot: lcRandRoot(r), StateRoot: lcRandRoot(r), BodyRoot: lcRandRoot(r)}
	if common.Root(lcHdrRoot(h)) != h.HashTreeRoot(tree.GetHashFn()) {
		fmt.Fprintln(os.Stderr, "C12 harness self-check: header root formula differs from zrnt")
		os.Exit(3)
	}
	fv, gvr := [4]byte{4, 0, 0, 0}, lcRandRoot(r)
	want := common.ComputeSigningRoot(h.HashTreeRoot(tree.GetHashFn()), common.ComputeDomain(common.DOMAIN_SYNC_COMMITTEE, common.Version(fv), gvr))
	if common.Root(lcSigningRoot(lcHdrRoot(h), fv, h32(gvr))) != want {
		fmt.Fprintln(os.Stderr, "C12 harness self-check: signing root formula differs from zrnt")
		os.Exit(3)
	}
	b := g.genBoot(r, 5000, g.comms[0])
	if common.Root(lcContainerRoot(&b.hdr)) != b.hdr.HashTreeRoot(tree.GetHashFn()) {
		fmt.Fprintln(os.Stderr, "C12 harness self-check: light-client header container root formula differs from zrnt")
		os.Exit(3)
	}
	// a signature made through the secret-key sum verifies against the participating public keys
	bits := lcBits(r, 5)
	sig := g.comms[0].sign(bits, h32(want))
	var pks []*blsu.Pubkey
	for i := 0; i < 512; i++ {
		if bits[i/8]>>(uint(i)%8)&1 == 1 {
			pk, _ := g.comms[0].sc.Pubkeys[i].Pubkey()
			pks = append(pks, pk)
		}
	}
	s, err := sig.Signature()
	if err != nil || !blsu.FastAggregateVerify(pks, want[:], s) {
		fmt.Fprintln(os.Stderr, "C12 harness self-check: aggregate signature by key sum does not verify")
		os.Exit(3)
	}
}

type lcTask struct {
	seed  int64
	lines [][2]string
}

func runC12(o *Out, r *rand.Rand, thorough bool, _ []string) {
	nComm, nSingle, nSeq, seqLen, nBoot := 4, 1400, 48, 36, 320
	if thorough {
		nComm, nSingle, nSeq, seqLen, nBoot = 6, 24000, 600, 48, 3000
	}
	nSingle = envInt("VERIF_C12_SINGLE", nSingle)
	nSeq = envInt("VERIF_C12_SEQ", nSeq)
	g := &lcGen{comms: lcMakeComms(r, nComm), roots: map[*common.SyncCommittee]common.Root{}}
	for _, c := range g.comms {
		g.roots[c.sc] = c.root
	}
	lcSelfCheck(g, r)
	o.Comment(fmt.Sprintf("committees=%d single=%d sequences=%d x %d bootstraps=%d", nComm, nSingle, nSeq, seqLen, nBoot))

	var tasks []*lcTask
	var fns []func(t *lcTask, r *rand.Rand)
	add := func(fn func(t *lcTask, r *rand.Rand)) {
		tasks = append(tasks, &lcTask{seed: r.Int63()})
		fns = append(fns, fn)
	}
	seqNo := 0
	nextSeq := func() int { seqNo++; return seqNo }

	// (a) bootstrap cases: honest and one corruption each, checkpoint given as block root / container root / other
	for i := 0; i < nBoot/8; i++ {
		id := nextSeq()
		add(func(t *lcTask, r *rand.Rand) {
			for k := 0; k < 8; k++ {
				slot := uint64(1000+r.Intn(200))*lcSlotsPerPeriod + uint64(r.Intn(lcSlotsPerPeriod))
				b := g.genBoot(r, slot, g.comms[r.Intn(len(g.comms))])
				switch r.Intn(5) {
				case 0, 1:
					b.cp = common.Root(lcHdrRoot(&b.hdr.Beacon))
				case 2, 3:
					b.cp = common.Root(lcContainerRoot(&b.hdr))
				default:
					b.cp = lcRandRoot(r)
					b.corrupt = "checkpoint-random"
				}
				if r.Intn(2) == 0 {
					switch r.Intn(7) {
					case 0:
						b.hdr.Beacon.StateRoot[r.Intn(32)] ^= 1
						b.corrupt = "hdr-state-root"
					case 1:
						b.hdr.Beacon.Slot++
						b.corrupt = "hdr-slot"
					case 2:
						cp := &common.SyncCommittee{Pubkeys: append(common.SyncCommitteePubkeys(nil), b.comm.Pubkeys...), AggregatePubkey: b.comm.AggregatePubkey}
						cp.Pubkeys[r.Intn(512)] = g.comms[r.Intn(len(g.comms))].sc.Pubkeys[r.Intn(512)]
						b.comm, b.commRoot = cp, cp.HashTreeRoot(configs.Mainnet, tree.GetHashFn())
						b.corrupt = "committee-key"
					case 3:
						b.branch[r.Intn(5)][r.Intn(32)] ^= 1
						b.corrupt = "branch-node"
					case 4:
						b.branch[5][r.Intn(32)] ^= 1
						b.corrupt = "branch-node-unused"
					case 5:
						b.cp[r.Intn(32)] ^= 1
						b.corrupt = "checkpoint-bit"
					default:
						b.typ = "capella"
						b.corrupt = "wrong-type"
					}
				}
				_, in, res := g.runBoot(b, id)
				t.lines = append(t.lines, [2]string{in, res})
			}
		})
	}

	// (b) single cases: a synthetic store, one update, always applied (decision logic in isolation)
	const chunk = 25
	for i := 0; i < nSingle/chunk; i++ {
		id := nextSeq()
		add(func(t *lcTask, r *rand.Rand) {
			for k := 0; k < chunk; k++ {
				c := lcNewClient(&lcAPI{}, common.Root{})
				P := uint64(1000 + r.Intn(200))
				fin := P*lcSlotsPerPeriod + lcPick(r, 0, 1, uint64(r.Intn(lcSlotsPerPeriod)), lcSlotsPerPeriod-1, lcSlotsPerPeriod-2, uint64(r.Intn(lcSlotsPerPeriod)))
				opt := fin + lcPick(r, 0, 0, 1, uint64(r.Intn(100)), uint64(r.Intn(3000)))
				fh := &common.BeaconBlockHeader{Slot: common.Slot(fin), ParentRoot: lcRandRoot(r), StateRoot: lcRandRoot(r), BodyRoot: lcRandRoot(r)}
				oh := fh
				if opt != fin {
					oh = &common.BeaconBlockHeader{Slot: common.Slot(opt), ParentRoot: lcRandRoot(r), StateRoot: lcRandRoot(r), BodyRoot: lcRandRoot(r)}
				}
				maxes := []uint64{0, 0, 1, 10, 300, 342, 512, uint64(r.Intn(513))}
				c.Store = beacon.LightClientStore{FinalizedHeader: fh, OptimisticHeader: oh, CurrentSyncCommittee: g.comms[int(P)%len(g.comms)].sc,
					PreviousMaxActiveParticipants: view.Uint64View(maxes[r.Intn(len(maxes))]), CurrentMaxActiveParticipants: view.Uint64View(maxes[r.Intn(len(maxes))])}
				if r.Intn(2) == 0 {
					c.Store.NextSyncCommittee = g.comms[int(P+1)%len(g.comms)].sc
				}
				u := g.genUpdate(r, c, 0.8, true, false, 0)
				if r.Intn(100) < 35 {
					g.corrupt(r, c, u, true)
				}
				// the store line comes after the corruption step: "store-key" edits a committee of the store
				t.lines = append(t.lines, [2]string{fmt.Sprintf("store seq=%d %s", id, lcStoreStr(c)), "ok"})
				in, res := g.runUpdate(c, u, id, true, false)
				t.lines = append(t.lines, [2]string{in, res})
			}
		})
	}

	// (c) sequences from a bootstrapped store across period boundaries; an update is applied iff it verified
	for i := 0; i < nSeq; i++ {
		id := nextSeq()
		add(func(t *lcTask, r *rand.Rand) {
			P := uint64(1000 + r.Intn(200))
			slot := P*lcSlotsPerPeriod + uint64(r.Intn(lcSlotsPerPeriod))
			forkEnd := uint64(0)
			if r.Intn(4) == 0 {
				// the last period of a fork: the sequence walks across a fork activation (mainnet: Altair, Bellatrix, Capella and
				// Deneb all start with a period), so attested and signature slots fall into different forks
				P = []uint64{289, 565, 757, 1052}[r.Intn(4)]
				slot = (P+1)*lcSlotsPerPeriod - uint64(10+r.Intn(300))
				forkEnd = (P + 1) * lcSlotsPerPeriod
			}
			b := g.genBoot(r, slot, g.comms[int(P)%len(g.comms)])
			b.cp = common.Root(lcHdrRoot(&b.hdr.Beacon)) // what the consensus spec compares
			c, in, res := g.runBoot(b, id)
			t.lines = append(t.lines, [2]string{in, res})
			if !strings.HasPrefix(res, "ok") {
				b.cp = common.Root(lcContainerRoot(&b.hdr)) // what bootstrap() compares today
				c, in, res = g.runBoot(b, id)
				t.lines = append(t.lines, [2]string{in, res})
			}
			if !strings.HasPrefix(res, "ok") {
				// still run the sequence: install what bootstrap would have stored
				h := b.hdr.Beacon
				c.Store = beacon.LightClientStore{FinalizedHeader: &h, OptimisticHeader: &h, CurrentSyncCommittee: b.comm}
				t.lines = append(t.lines, [2]string{fmt.Sprintf("store seq=%d %s", id, lcStoreStr(c)), "ok"})
			}
			for k := 0; k < seqLen; k++ {
				wrapper := r.Intn(3) == 0
				// walk towards and across the period boundary: now and then an update near the end of the period
				hint := uint64(0)
				if r.Intn(4) == 0 {
					S := uint64(c.Store.FinalizedHeader.Slot)
					end := (lcPeriod(S) + 1) * lcSlotsPerPeriod
					if end-S > 200 {
						hint = end - uint64(1+r.Intn(100))
					}
				}
				if S := uint64(c.Store.FinalizedHeader.Slot); forkEnd != 0 && S+4 < forkEnd && c.Store.NextSyncCommittee != nil && r.Intn(2) == 0 {
					// attested in the last slots of the old fork, signed in the first slots of the new one
					hint = forkEnd - 1 - uint64(r.Intn(2))
					wrapper = r.Intn(3) != 0
				}
				u := g.genUpdate(r, c, 0.93, false, wrapper, hint)
				crossesFork := c.Config.Spec.ForkVersion(common.Slot(u.sigSlot)) != c.Config.Spec.ForkVersion(u.att.Slot)
				if r.Intn(100) < 15 || crossesFork && r.Intn(3) == 0 {
					g.corrupt(r, c, u, false)
				}
				in, res := g.runUpdate(c, u, id, false, wrapper)
				t.lines = append(t.lines, [2]string{in, res})
			}
		})
	}

	// run the tasks on all cores; output order and content depend only on the seed
	var wg sync.WaitGroup
	sem := make(chan struct{}, 16)
	for i := range tasks {
		wg.Add(1)
		sem <- struct{}{}
		go func(i int) {
			defer wg.Done()
			defer func() { <-sem }()
			defer func() {
				if e := recover(); e != nil {
					tasks[i].lines = append(tasks[i].lines, [2]string{fmt.Sprintf("harness-panic task=%d", i), fmt.Sprint(e)})
				}
			}()
			fns[i](tasks[i], rand.New(rand.NewSource(tasks[i].seed)))
		}(i)
	}
	wg.Wait()
	for _, t := range tasks {
		for _, l := range t.lines {
			o.Case(l[0], l[1])
		}
	}
}
