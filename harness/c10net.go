//go:build verif

package main

import (
	"bytes"
	"crypto/sha256"
	"fmt"
	"math/rand"
	"net"
	"time"
)

func init() { runners["contentlookup"] = runContentLookup }

// runContentLookup: the real ContentLookup over small networks of real protocol instances (in-memory link): the asker
// knows a few peers, these know further peers; zero, one or several peers hold the content (possibly different bytes under
// the same key); the result must be bytes that some peer supplied, or not-found when nobody holds it; the call returns.
func runContentLookup(o *Out, r *rand.Rand, thorough bool, _ []string) {
	rounds := 6
	if thorough {
		rounds = 60
	}
	for round := 0; round < rounds; round++ {
		mn := newMemNet()
		n := 4 + r.Intn(4)
		nodes := make([]*realNode, n)
		for i := range nodes {
			nodes[i] = startNode(mn, r, nodeOpts{ip: net.IP{34, 20, byte(round), byte(1 + i)}, port: 9900 + i, utpLimit: 50})
		}
		asker := nodes[0]
		// a chain/tree: asker knows 1..2 peers, every node knows the next one or two
		for i := 0; i < n; i++ {
			for _, j := range []int{i + 1, i + 2} {
				if j < n && (j == i+1 || r.Intn(2) == 0) {
					nodes[i].p.AddEnr(nodes[j].p.Self())
				}
			}
		}
		for c := 0; c < 3; c++ {
			key := []byte(fmt.Sprintf("cl-%d-%d", round, c))
			idh := sha256.Sum256(key)
			var supplied [][]byte
			holders := r.Intn(3) // 0, 1 or 2 peers hold it
			size := []int{10, 900, 1175, 3000}[r.Intn(4)]
			for h := 0; h < holders; h++ {
				who := 1 + r.Intn(n-1)
				val := genBytes(size, h+round)
				_ = nodes[who].store.Put(key, idh[:], val)
				supplied = append(supplied, val)
			}
			type res struct {
				data []byte
				err  error
			}
			ch := make(chan res, 1)
			go func() {
				defer func() {
					if rec := recover(); rec != nil {
						ch <- res{nil, fmt.Errorf("panic: %v", rec)}
					}
				}()
				d, _, err := asker.p.ContentLookup(key, idh[:])
				ch <- res{d, err}
			}()
			var out string
			select {
			case x := <-ch:
				switch {
				case x.err != nil && len(supplied) == 0:
					out = "notfound"
				case x.err != nil:
					out = "notfound" // content exists but the lookup did not reach a holder: allowed, see model
				default:
					ok := false
					for _, s := range supplied {
						if bytes.Equal(s, x.data) {
							ok = true
						}
					}
					out = fmt.Sprintf("found genuine=%d", b2i(ok))
				}
			case <-time.After(60 * time.Second):
				out = "wedged"
			}
			o.Case(fmt.Sprintf("clookup holders=%d size=%d nodes=%d", holders, size, n), out)
		}
		for _, nd := range nodes {
			nd.stop()
		}
	}
}
