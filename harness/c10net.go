//go:build verif

package main

import (
	"bytes"
	"crypto/ecdsa"
	"crypto/sha256"
	"fmt"
	"github.com/ethereum/go-ethereum/p2p/enode"
	"github.com/zen-eth/shisui/portalwire"
	"math/rand"
	"net"
	"sort"
	"time"
)

func init() { runners["contentlookup"] = runContentLookup }

// runContentLookup: the real ContentLookup over small networks of real protocol instances (in-memory link): the asker
// knows a few peers, these know further peers; zero, one or several peers hold the content (possibly different bytes under
// the same key); the result must be bytes that some peer supplied, or not-found when nobody holds it; the call returns.
func runContentLookup(o *Out, r *rand.Rand, thorough bool, _ []string) {
	rounds := 6
	if thorough {
		rounds = 60
	}
	for round := 0; round < rounds; round++ {
		mn := newMemNet()
		n := 4 + r.Intn(4)
		nodes := make([]*realNode, n)
		for i := range nodes {
			nodes[i] = startNode(mn, r, nodeOpts{ip: net.IP{34, 20, byte(round), byte(1 + i)}, port: 9900 + i, utpLimit: 50})
		}
		asker := nodes[0]
		// a chain/tree: asker knows 1..2 peers, every node knows the next one or two
		for i := 0; i < n; i++ {
			for _, j := range []int{i + 1, i + 2} {
				if j < n && (j == i+1 || r.Intn(2) == 0) {
					nodes[i].p.AddEnr(nodes[j].p.Self())
				}
			}
		}
		for c := 0; c < 3; c++ {
			key := []byte(fmt.Sprintf("cl-%d-%d", round, c))
			idh := sha256.Sum256(key)
			var supplied [][]byte
			holders := r.Intn(3) // 0, 1 or 2 peers hold it
			size := []int{10, 900, 1175, 3000}[r.Intn(4)]
			for h := 0; h < holders; h++ {
				who := 1 + r.Intn(n-1)
				val := genBytes(size, h+round)
				_ = nodes[who].store.Put(key, idh[:], val)
				supplied = append(supplied, val)
			}
			type res struct {
				data []byte
				err  error
			}
			ch := make(chan res, 1)
			go func() {
				defer func() {
					if rec := recover(); rec != nil {
						ch <- res{nil, fmt.Errorf("panic: %v", rec)}
					}
				}()
				d, _, err := asker.p.ContentLookup(key, idh[:])
				ch <- res{d, err}
			}()
			var out string
			select {
			case x := <-ch:
				switch {
				case x.err != nil && len(supplied) == 0:
					out = "notfound"
				case x.err != nil:
					out = "notfound" // content exists but the lookup did not reach a holder: allowed, see model
				default:
					ok := false
					for _, s := range supplied {
						if bytes.Equal(s, x.data) {
							ok = true
						}
					}
					out = fmt.Sprintf("found genuine=%d", b2i(ok))
				}
			case <-time.After(60 * time.Second):
				out = "wedged"
			}
			o.Case(fmt.Sprintf("clookup holders=%d size=%d nodes=%d", holders, size, n), out)
		}
		for _, nd := range nodes {
			nd.stop()
		}
	}
	// a node as it starts in production: the table's init check is on, there are no boot nodes and no stored nodes. Its
	// first refresh runs lookups on the empty table; a content lookup issued at once has to come back (not found) as well.
	{
		mn := newMemNet()
		lone := startNode(mn, r, nodeOpts{ip: net.IP{34, 22, 1, 1}, port: 9940, utpLimit: 10, initCheck: true})
		key := []byte("cl-empty-table")
		idh := sha256.Sum256(key)
		ch := make(chan error, 1)
		go func() {
			defer func() {
				if rec := recover(); rec != nil {
					ch <- fmt.Errorf("panic: %v", rec)
				}
			}()
			_, _, err := lone.p.ContentLookup(key, idh[:])
			ch <- err
		}()
		out := "wedged"
		select {
		case err := <-ch:
			out = "notfound"
			if err == nil {
				out = "found genuine=0"
			}
		case <-time.After(25 * time.Second):
		}
		o.Case("clookup holders=0 size=0 nodes=1 emptytable=1", out)
		lone.stop()
	}
	// a wide network: far more peers answer than a result holds. The asker knows the 16 peers FARTHEST from the content;
	// only the three farthest of those (asked last) name the closer peers; the closest of all holds the content.
	wide := 1
	if thorough {
		wide = 6
	}
	for wr := 0; wr < wide; wr++ {
		mn := newMemNet()
		key := []byte(fmt.Sprintf("cl-wide-%d-%d", wr, r.Intn(1000)))
		idh := sha256.Sum256(key)
		n := 31 // the asker, 16 far peers, 14 closer ones: well above the 16 a result holds even if a few queries time out
		nodes := make([]*realNode, n)
		for i := range nodes {
			nodes[i] = startNode(mn, r, nodeOpts{ip: net.IP{34, byte(100 + i), byte(wr), 1}, port: 9950 + i, utpLimit: 50})
		}
		asker := nodes[0]
		peers := append([]*realNode{}, nodes[1:]...)
		sort.Slice(peers, func(a, b int) bool { // farthest from the content first
			return enode.DistCmp(enode.ID(idh), peers[a].p.Self().ID(), peers[b].p.Self().ID()) > 0
		})
		for _, p := range peers[:16] {
			asker.p.AddEnr(p.p.Self())
		}
		for _, p := range peers[:3] {
			for _, q := range peers[16:] {
				p.p.AddEnr(q.p.Self())
			}
		}
		val := genBytes(900, wr)
		_ = peers[len(peers)-1].store.Put(key, idh[:], val)
		type res struct {
			data []byte
			err  error
		}
		ch := make(chan res, 1)
		go func() {
			defer func() {
				if rec := recover(); rec != nil {
					ch <- res{nil, fmt.Errorf("panic: %v", rec)}
				}
			}()
			d, _, err := asker.p.ContentLookup(key, idh[:])
			ch <- res{d, err}
		}()
		var out string
		select {
		case x := <-ch:
			if x.err != nil {
				out = "notfound"
			} else {
				out = fmt.Sprintf("found genuine=%d", b2i(bytes.Equal(x.data, val)))
			}
		case <-time.After(60 * time.Second):
			out = "wedged"
		}
		o.Case(fmt.Sprintf("clookup holders=1 size=900 nodes=%d wide=1", n), out)
		for _, nd := range nodes {
			nd.stop()
		}
	}
	runNodeLookupNet(o, r, thorough)
}

// runNodeLookupNet: the real node lookup (PortalProtocol.Lookup, FINDNODES over the wire) in the situation where the asker's
// own routing table has no room for what it hears: asker A knows a real peer B and silent nodes that fill the bucket B is
// in (and, in some rounds, its replacement list as well); B knows X, which belongs in that same bucket of A. A looks up X.
// Whatever A's table does with X, B named it, so the lookup has seen it, and nothing is closer to X than X.
func runNodeLookupNet(o *Out, r *rand.Rand, thorough bool) {
	rounds := 3
	if thorough {
		rounds = 12
	}
	for round := 0; round < rounds; round++ {
		mn := newMemNet()
		ka := keyFromSeed(r)
		aID := enode.PubkeyToIDV4(&ka.PublicKey)
		// B and X in A's farthest bucket
		farKey := func(cond func(id enode.ID) bool) *ecdsa.PrivateKey {
			for {
				k := keyFromSeed(r)
				id := enode.PubkeyToIDV4(&k.PublicKey)
				if enode.LogDist(aID, id) == 256 && cond(id) {
					return k
				}
			}
		}
		kb := farKey(func(enode.ID) bool { return true })
		bID := enode.PubkeyToIDV4(&kb.PublicKey)
		kx := farKey(func(id enode.ID) bool { return id != bID })
		x := signRec(kx, net.IP{34, 31, byte(round), 9}, 9990, 1)
		xID := x.ID()
		a := startNode(mn, r, nodeOpts{ip: net.IP{34, 30, byte(round), 1}, port: 9980, utpLimit: 10, key: ka})
		b := startNode(mn, r, nodeOpts{ip: net.IP{34, 30, byte(round), 2}, port: 9981, utpLimit: 10, key: kb})
		bNode := b.p.Self()
		b.p.VerifTable().VerifAddFoundNode(x, true)
		a.p.VerifTable().VerifAddFoundNode(bNode, true)
		// fillers: 0 (room left), 15 (bucket exactly full) or 25 (replacement list full too); all farther from X than B is, so
		// that B is among the first asked
		nFill := []int{15, 25, 0}[round%3]
		for i := 0; i < nFill; i++ {
			kf := farKey(func(id enode.ID) bool { return enode.DistCmp(xID, bID, id) < 0 })
			f := signRec(kf, net.IP{35, byte(round), byte(i), 7}, 9000+i, 1)
			a.p.VerifTable().VerifAddFoundNode(f, false)
		}
		named := 0
		if ans, err := a.p.VerifFindNodes(bNode, portalwire.VerifLookupDistances(xID, bID)); err == nil {
			for _, n := range ans {
				if n.ID() == xID {
					named = 1
				}
			}
		}
		inTable := 0
		for _, n := range a.p.VerifTable().VerifNodeList() {
			if n.ID() == xID {
				inTable = 1
			}
		}
		done := make(chan []*enode.Node, 1)
		go func() {
			defer func() {
				if rec := recover(); rec != nil {
					done <- nil
				}
			}()
			done <- a.p.Lookup(xID)
		}()
		out := "wedged"
		select {
		case res := <-done:
			sorted, distinct, self, first := 1, 1, 0, 0
			seen := map[enode.ID]bool{}
			for i, n := range res {
				if i > 0 && enode.DistCmp(xID, res[i-1].ID(), n.ID()) > 0 {
					sorted = 0
				}
				if seen[n.ID()] {
					distinct = 0
				}
				seen[n.ID()] = true
				if n.ID() == aID {
					self = 1
				}
			}
			if len(res) > 0 && res[0].ID() == xID {
				first = 1
			}
			out = fmt.Sprintf("n=%d sorted=%d distinct=%d self=%d target_first=%d", len(res), sorted, distinct, self, first)
		case <-time.After(90 * time.Second):
		}
		o.Case(fmt.Sprintf("nlookup fillers=%d named=%d known_before=%d", nFill, named, inTable), out)
		a.stop()
		b.stop()
	}
}
