#!/bin/bash
# usage: neutralregress.sh [jobs]  — every kept behaviour-preserving refactoring again, against the CURRENT machinery: scratch
# worktree with neutral/<tag>/patch.diff applied, the quick checks listed in its meta.json from a scratch copy of /verif.
# Prints one line per (tag, check); anything but rc=0 is a false alarm to investigate.
jobs=${1:-6}
one() {
  tag=$1
  props=$(python3 -c "import json;print(' '.join(json.load(open('/verif/neutral/$tag/meta.json'))['checks_run']))")
  wt=/tmp/wt/neu-$tag; vs=/tmp/vs/neu-$tag
  rm -rf $wt $vs; git -C /repo worktree add -q --detach $wt HEAD 2>/dev/null || { echo "$tag worktree-failed"; return; }
  if ! git -C $wt apply /verif/neutral/$tag/patch.diff 2>/dev/null; then
    if ! git -C $wt apply --3way /verif/neutral/$tag/patch.diff 2>/dev/null; then echo "$tag noapply"; git -C /repo worktree remove --force $wt; return; fi
  fi
  mkdir -p $vs; rsync -a --exclude .git --exclude /build --exclude '/replays/*' --exclude /harness/bin --exclude /seeded --exclude /neutral /verif/ $vs/ 2>/dev/null
  sed -i "s#^replace github.com/zen-eth/shisui => /repo#replace github.com/zen-eth/shisui => $wt#" $vs/harness/go.mod
  for p in $props; do
    ( cd $vs && VERIF_REPO=$wt ./check $p --tier quick > /tmp/neu_${tag}_$p.out 2>&1 ); rc=$?
    echo "$tag $p rc=$rc $(grep -c '^VIOLATION' /tmp/neu_${tag}_$p.out)"
  done
  rm -rf $vs; git -C /repo worktree remove --force $wt
}
export -f one
ls /verif/neutral | xargs -P $jobs -I{} bash -c 'one {}'
