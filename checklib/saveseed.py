#!/usr/bin/env python3
"""saveseed.py <tag> <property> <pkgdir> <caught_by> <needs...>  — moves /tmp/seedout/<tag> into /verif/seeded/<tag> and removes the worktree"""
import sys, os, json, shutil, subprocess
tag, prop, pkg, caught = sys.argv[1:5]
needs = ' '.join(sys.argv[5:])
src = f'/tmp/seedout/{tag}'; dst = f'/verif/seeded/{tag}'
os.makedirs(dst, exist_ok=True)
for f in ('patch.diff', 'verif_seed_test.go', 'notes.md'):
    if os.path.exists(os.path.join(src, f)):
        shutil.copy(os.path.join(src, f), os.path.join(dst, f))
meta = {'property': prop, 'demo_package': pkg, 'needs_to_manifest': needs, 'detected_by': caught,
        'confirmed': 'demo test fails with the patch and passes without it (checklib/seedconfirm.sh in a scratch worktree); existing tests of the touched package pass with the patch; '
                     'checks run with checklib/seedtest.sh (git apply to /repo, ./check, git checkout)',
        'origin': 'written by a sub-agent that was given only the property text and a scratch worktree'}
json.dump(meta, open(os.path.join(dst, 'meta.json'), 'w'), indent=1)
subprocess.run(['git', '-C', '/repo', 'worktree', 'remove', '--force', f'/tmp/wt/{tag}'])
print('saved', dst)
