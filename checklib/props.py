"""Per-property configuration of ./check: Lean targets, harness runs, driver mode, texts for the evidence."""
import os

HASHES = 'SHA-256/Keccak-256/BLS are modelled (executable Lean hashes in the driver; soundness theorems are stated up to an explicit collision), not verified'

# C01: unguarded accesses on peer-controlled data still present in /repo (DESIGN section 6 rows 1-8), by field name of Dp.Quirks.
# Each is a REAL defect reported by ./check C01 as clause no_panic@<site>; delete the name once the corresponding guard is committed.
C01_QUIRKS = []

PROPS = {
    'C15': {
        'lean_targets': ['Shisui.Props.C15'],
        'min_obligations': 6,
        'runs': [{'name': 'framing', 'harness': ['C15'], 'driver': ['C15']}],
        'rule': 'cases: encode of generated item lists (0..65 items, lengths at the varint boundaries), implementation-side '
                'round trips, truncations of valid streams at random cut points, bit/byte/insert/delete mutations, edge varints, '
                'random byte strings biased to continuation bytes, v0/v1/v2 single-content framing; a case is non-trivial when the '
                'list has >1 item or the byte string >1 byte; distinct = distinct input lines (hashed) among those'
                ' Retention: the stream returned by the previous join / uTP encode is compared again after the next one. Decoders get exact-capacity inputs; a panic is an outcome.'
                ' hugeenc: lists [2^28], [3, 2^28], [2^28-1] (thorough also [2^28, 2^28+1], [2^28, 0, 5]) of all-zero items: stream size and every length prefix are compared with Fr.streamLen / Leb of the lengths, value positions and the round trip are checked by the harness (about 1.3 GB peak).'
                ' concframing: 8 goroutines join and split their own lists at once (300 rounds; thorough 5000): every result is what the same call gives alone.'
                ' Lists of 60..71 items; 63, 64, 65, 66 and 100 well-formed items followed by four malformed tails through every decoder.',
        'trusted': ['wabin leb128 (Go dependency) is re-modelled in Lean (Fr.enc/Fr.dec) and compared on every run'],
        'assumptions': ['Go slices are modelled as List Nat with every element < 256', 'item lengths < 2^32 (Go truncates uint32(len))'],
        'explanation': 'theorems over Fr.encContents/decContents/utpEnc/utpDec for all lists and all byte strings; '
                       'correspondence: step equality of the Lean functions with encodeContents/decodeContents/decodeSingleContent/'
                       'encodeUtpContent/decodeUtpContent on every generated case',
    },
    'C04': {
        'lean_targets': ['Shisui.Props.C04', 'Shisui.Inst.C04'],
        'min_obligations': 6,
        'runs': [{'name': 'store', 'harness': ['store'], 'driver': ['store', 'C04']}],
        'rule': 'random put/get/overwrite/reopen histories on the real pebble store over an in-memory file system (random and zero node '
                'ids; ids fresh, repeated, differing in one bit / first byte / last byte; value sizes 0 .. >capacity); every slice returned '
                'by Get is kept and re-compared at the end of the history and after cache churn; non-trivial = the store was non-empty '
                'when the operation ran; distinct = distinct operation lines'
                ' Corpus histories replayed first (ids of one repeated byte, zero node id): a second prune that must empty the store after the radius has shrunk; one id put again and again, pruned, flushed and reopened; refused puts between accepted puts that land at, above and below the capacity; the counter at exactly 95 % of the capacity at a reopen; exactly at the capacity.'
                ' A twentieth of the puts address the id at distance 1 (last or first byte) from the node id, and a quarter of the gets ask for it; clause pruned_item_stays_pruned: the number of retained items grows only by an accepted put.'
                ' Clause refused_put_changes_nothing: an accepted put that prunes nothing adds exactly its size to the persisted figure; a deviation with refused puts in between is attributed to them.',
        'trusted': ['pebble (ordered map, atomic batches) is modelled as a sorted association list'],
        'assumptions': ['content ids are 32 bytes and differ from the node id (as the property states)'],
        'explanation': 'refinement theorems (Sv.put_refines and its lift to every history) + step equality of get/put results with the '
                       'executable model StX + monitors get_only_put, returned_bytes_stable evaluated on the real store',
    },
    'C05': {
        'lean_targets': ['Shisui.Props.C05'],
        'min_obligations': 6,
        'runs': [{'name': 'store', 'harness': ['store'], 'driver': ['store', 'C05']}],
        'rule': 'same histories as C04 (capacities 1..5 MB, item sizes 0, exactly 5% of capacity, 5% - k, random, larger than the '
                'capacity; one third of the histories contain over-size items); after every put the harness lists the database: item '
                'count, bytes held, persisted counter, farthest kept key, dropped keys; plus two forced two-put interleavings through '
                'the yield hook; non-trivial = the store was non-empty; distinct = distinct operation lines'
                ' Forced schedule concprune: put A goes over capacity and waits in the fsync of its pruning batch (the log file sync is held back by the file system wrapper); put B of a near item runs meanwhile and, if it comes to prune too, is held at prune.beforeSubtract until A has returned; persisted and held are read at the end.'
                ' Corpus histories replayed first (ids of one repeated byte, zero node id): a second prune that must empty the store after the radius has shrunk; one id put again and again, pruned, flushed and reopened; refused puts between accepted puts that land at, above and below the capacity; the counter at exactly 95 % of the capacity at a reopen; exactly at the capacity.'
                ' A tiny-item history (1 MB capacity, 2600 far items of 0..8 bytes, then 40 near items of 20..49 kB) makes single pruning passes delete well over a thousand items.'
                " The database is also observed INSIDE three pruning puts (yield point between the put's commit and the pruning batch) and while a put waits in the fsync of its pruning batch: clause counter_ge_held_inside_pruning_put.",
        'trusted': ['pebble (ordered iteration, atomic batch) modelled as a sorted list', 'float64(cap)*0.05 modelled as cap/20 (exact for capacities that are multiples of 1 MB below 2^53; compared on every put)'],
        'assumptions': ['32-byte content ids'],
        'explanation': 'invariant theorems over all sequential put histories (St.run_inv, run_bounded) + exact step equality with the '
                       'executable model + monitors counter_ge_held, held_le_cap, prune_frees_5pct, farthest_first on the real store; the '
                       'concurrent clause is refuted by theorem and reproduced on the real store (known finding)',
    },
    'C06': {
        'lean_targets': ['Shisui.Props.C06'],
        'min_obligations': 7,
        'runs': [{'name': 'store', 'harness': ['store'], 'driver': ['store', 'C06']},
                 {'name': 'inrange', 'harness': ['inrange'], 'driver': ['inrange']},
                 # the third site the statement names (gossip targets): the relation of C20 on the real GossipAndReturnPeers
                 {'name': 'gossipsite', 'harness': ['gossip'], 'driver': ['C20']},
                 # the first site the statement names (offer filtering): the verdicts of the real handleOffer, both wire versions,
                 # nodes with no slots / plenty / a full validation queue (the relation of C09)
                 {'name': 'offersite', 'harness': ['offer'], 'driver': ['C09']}],
        'rule': 'store histories as C04/C05 with adversarial ids (tiny distance in one byte order, huge in the other); in-range triples: '
                'random, window of +-2 around the distance, around every power of two, radii below 600 and the maximum; non-trivial = '
                'non-empty store / every triple; distinct = distinct lines'
                ' Two stores in one process: B holds 5 small items, A is filled until it prunes; B is unchanged, still accepts, and a store opened afterwards starts at the maximum radius.'
                ' Corpus histories replayed first (ids of one repeated byte, zero node id): a second prune that must empty the store after the radius has shrunk; one id put again and again, pruned, flushed and reopened; refused puts between accepted puts that land at, above and below the capacity; the counter at exactly 95 % of the capacity at a reopen; exactly at the capacity.'
                ' Clause pruned_item_stays_pruned on every put and reopen (see C04).'
                ' The offer-filter site runs here as well (the offer scenario of C09: verdicts of the real handleOffer for both wire versions on nodes with no slots / plenty / a full validation queue).'
                ' Clause refused_although_below_radius_in_both_byte_orders: a refusal while the radius is at its maximum.',
        'trusted': ['uint256 arithmetic modelled by Nat'],
        'assumptions': ['32-byte content ids'],
        'explanation': 'theorems about the ideal (big-endian) model over all histories; the real store is compared exactly with the '
                       'executable model with the little-endian switch ON (the known finding), so any other divergence is reported',
    },
    'C19': {
        'lean_targets': ['Shisui.Props.C19', 'Shisui.Inst.C19'],
        'min_obligations': 7,
        'runs': [{'name': 'versions', 'harness': ['C19'], 'driver': ['C19']},
                 {'name': 'transfer', 'harness': ['transfer', 'framing'], 'driver': ['C08'], 'timeout': 1200},
                 {'name': 'offerafterfail', 'harness': ['offerafterfail'], 'driver': ['C19'], 'timeout': 600}],
        'rule': 'findBiggestSameNumber on ALL pairs of lists of length 0..3 over {0,1,2} (1600 pairs, exhaustive for that domain) and random '
                'lists over 0..255; getOrStoreHighestVersion call histories of 1..3 calls on a fresh cache for every own-list x peer '
                'advertisement (every short list, missing entry, undecodable entry) and random ones; non-trivial = both lists non-empty; '
                'distinct = distinct lines'
                ' Framing: for the versions 0..3 placed in the cache, encodeUtpContent then decodeUtpContent of 0 / 1 / 127 / 128 / 1000 / 2000 / 70000 bytes must give the bytes back (which framing a version above 1 uses is left open).'
                ' 20 cases of a peer the node already knows by an older table record (sequence 1, other version list) presenting a newer record.'
                ' The uTP transfers of C08 (sizes 1177 and 4000, the self-framed values, stale-record and slow-log-sink pairings) run here as well: the negotiated version frames real streams.'
                ' offerafterfail: node a (two slots) is handed offers for four peers it shares no version with (another version, an empty list, an undecodable entry, two unknown versions), then gossips one item to a peer advertising {0,1}, {0} or {1}: the item arrives.',
        'trusted': ['go-pkgz expirable cache modelled as Option (one peer); ENR entry decoding (rlp) trusted'],
        'assumptions': ['own version list non-empty (currentVersions[0] is read unguarded)'],
        'explanation': 'theorems about the ideal negotiation for all lists and all call histories; the code is compared with the model '
                       'with the store-on-error switch ON (known finding, pinned by TestGetOrStoreHighestVersion)',
    },
    'C07': {
        'lean_targets': ['Shisui.Props.C07', 'Shisui.Inst.C07'],
        'min_obligations': 4,
        'runs': [{'name': 'table', 'harness': ['table'], 'driver': ['table', 'C07']},
                 {'name': 'tableconc', 'harness': ['tableconc'], 'driver': ['table', 'C07']},
                 {'name': 'table-metrics', 'harness': ['table'], 'driver': ['table', 'C07'], 'env': {'VERIF_METRICS': '1'}}],
        'rule': 'operation sequences (add found/inbound/forced-live, delete, revalidation timer, revalidation answers delivered in any order (dead / alive / alive with a new record), lookup feedback incl. runs of consecutive failures) against the real portalwire.Table with a fake transport and a simulated clock; node ids from pools of 34/90 keys so that buckets fill and ids repeat; addresses from three public /24s (one crowded in every fourth sequence), LAN, loopback and missing; sequence numbers 1..3; after every operation the full snapshot (entries with record/credit/verified flag/list, replacement order, per-bucket and table-wide /24 counters, fast/slow lists, active requests) must equal the model; non-trivial = the table held at least 8 entries; distinct = distinct operation lines among those'
                ' A quarter of the records of known ids keep the address of the previous record and move only the port or only the sequence number.'
                ' A seventh of the public addresses are announced in the v4-mapped IPv6 form (another address, /24 = ::/24), a third of the address-keeping updates switch between the two forms; a ninth of the records carry sequence numbers from {0, 2^32, 2^63-1, 2^63, 2^64-2, 2^64-1}. A second, shorter pass runs with go-ethereum metrics enabled.'
                " Every third sequence runs a table configured with 1..4 boot nodes (a third of them the local node's own record): op loadseeds = the seed-loading step at construction and, with probability 1/25 per operation, of a refresh."
                ' One record in fourteen carries no UDP port (port 0).',
        'trusted': ['enode.LogDist, netutil.DistinctNetSet/AddrIsLAN (re-modelled; compared on every snapshot)', 'operations are applied serially through the same handlers the table loop calls'],
        'assumptions': ['a revalidation answer carries a record of the node that was asked (the transport filters distance 0)'],
        'explanation': 'Tb.inv_reachable2: invariant by induction over all operation lists; snapshots of the real table equal the model after every operation; '
                       'the invariant and the revalidation-list agreement are evaluated on every real snapshot',
    },
    'C18': {
        'lean_targets': ['Shisui.Props.C18', 'Shisui.Inst.C07'],
        'min_obligations': 6,
        'runs': [{'name': 'table', 'harness': ['table'], 'driver': ['table', 'C18']}],
        'rule': 'operation sequences (add found/inbound/forced-live, delete, revalidation timer, revalidation answers delivered in any order (dead / alive / alive with a new record), lookup feedback incl. runs of consecutive failures) against the real portalwire.Table with a fake transport and a simulated clock; node ids from pools of 34/90 keys so that buckets fill and ids repeat; addresses from three public /24s (one crowded in every fourth sequence), LAN, loopback and missing; sequence numbers 1..3; after every operation the full snapshot (entries with record/credit/verified flag/list, replacement order, per-bucket and table-wide /24 counters, fast/slow lists, active requests) must equal the model; non-trivial = the table held at least 8 entries; distinct = distinct operation lines among those'
                ' A quarter of the records of known ids keep the address of the previous record and move only the port or only the sequence number.'
                " Revalidation answers are described to the model by the SCRIPTED ping outcome; the implementation's own didRespond is an observation (reported=)."
                ' Histories include v4-mapped addresses and sequence numbers at the ends of the 64-bit range (see C07).'
                ' Every seventh sequence begins with a node that collects 5..7 fruitless queries in a bucket of one, sees the bucket grow to five, and then answers a query: it stays.',
        'trusted': ['as C07'],
        'assumptions': ['as C07'],
        'explanation': 'per-step policy theorems (entry_leaves_only_if over all five operation kinds, successor, full_bucket_newcomer, record_change, credit_rule); '
                       'the same clauses are evaluated on consecutive snapshots of the real table',
    },
    'C10': {
        'lean_targets': ['Shisui.Props.C10', 'Shisui.Inst.C10'],
        'min_obligations': 5,
        'goexperiment': 'synctest',
        'runs': [{'name': 'lookup', 'harness': ['lookup'], 'driver': ['lookup']},
                 {'name': 'contentlookup', 'harness': ['contentlookup'], 'driver': ['lookup'], 'timeout': 1800}],
        'rule': 'the real lookup (newLookup.run) over a caller-supplied query function, inside a synctest bubble: every query blocks on a gate; '
                'after each quiescence (synctest.Wait) the PRNG releases one outstanding query, cancels, or does both at once; universes of '
                '0..64 peers (100..200 in thorough), 0..5 seed nodes or a full table, answers with duplicates, nil entries, the asker, the local '
                'node, cycles, empty answers and failing peers; the set of newly started queries after every release and the final result must '
                'equal the model; plus the real ContentLookup over networks of 4..7 real protocol instances (chain/tree topologies, 0/1/2 holders, sizes 10..3000): found bytes must be bytes a peer supplied, not-found when nobody holds it, the call returns; non-trivial = at least two queries were in flight when the event happened / every content lookup; distinct = distinct event lines'
                ' One (thorough 6) wide network of 31 real instances: the asker knows the 16 peers farthest from the content, only the three farthest of those name the 14 closer ones, the closest holds the content.'
                " Three (thorough 12) real node lookups over the wire: asker A knows real peer B and 0 / 15 / 25 silent records that fill B's bucket (and its replacement list); B knows X of the same bucket; Lookup(X) must return at most 16 distinct sorted nodes, never A, and X first whenever B's FINDNODES answer names it (clause no_closer_seen_node_omitted)."
                ' In the synctest lookups a third of the named records are handed out as NEWER records of the same node (sequence numbers 1..4 depending on the answering peer).',
        'trusted': ['enode.DistCmp modelled as comparison of XOR distances (Nat)', 'Go select/goroutine scheduling controlled by testing/synctest'],
        'assumptions': ['after a simultaneous release+cancel the order in which the lookup sees them is not controlled: only the monitors apply from there on'],
        'explanation': 'theorems over all schedules and all answer functions (invariant, termination measure, result = closest 16 of seen); '
                       'step equality on recorded schedules; monitors inflight_le_alpha, asked_once, never_ask_self, drained_at_return, terminates, '
                       'result_sorted_distinct_le16, result_only_seen on the real run',
    },
    'C11': {
        'lean_targets': ['Shisui.Props.C11', 'Shisui.Inst.C08'],
        'min_obligations': 5,
        'runs': [{'name': 'findnodes', 'harness': ['findnodes'], 'driver': ['C11']},
                 {'name': 'nodesresp', 'harness': ['nodesresp'], 'driver': ['C11']},
                 {'name': 'findnodes-metrics', 'harness': ['findnodes'], 'driver': ['C11'], 'env': {'VERIF_METRICS': '1'}},
                 {'name': 'nodesresp-metrics', 'harness': ['nodesresp'], 'driver': ['C11'], 'env': {'VERIF_METRICS': '1'}}],
        'rule': 'responder: real handleFindNodes on a started node whose table holds 60..260 crafted signed records (all bucket distances '
                '240..256 by chance of the keys, 1 in 4 unverified, address classes public/LAN/loopback/special-purpose, record sizes up to the '
                '300-byte limit), askers on LAN/loopback/public addresses, distance lists: empty, all 257 values shuffled, 1..6 values from '
                '{0,100,239..257,300,65535} with repeats; the decoded reply must satisfy the Allowed relation (segments per requested distance, '
                'liveness, relay-safety by class, size budget, maximality); asker: real processNodes on NODES replies with valid, unsigned, undecodable, '
                'duplicate, own-record, low-port (0,1,80,1023,1024,1025), unrelayable records and distance filters; non-trivial = non-empty reply / '
                '>=2 records; distinct = distinct lines'
                ' Every other asker round runs with a NetRestrict allow-list containing the loopback and LAN ranges and half of the public addresses; each record is described with whether it is on the list.'
                ' A third of the NODES cases go through the whole round trip (real findNodes: request encoded, sent over discv5 to a scripted peer that answers with the crafted message); request lists repeat a distance in a row with probability 1/5 per entry. Both scenarios run a second pass with metrics enabled.'
                ' After each responder round six goroutines ask at once, each for ONE distance of its own (150 requests each; thorough 2000): every record of every reply lies at the distance that reply was asked for.'
                ' fnseeding: a node with the init check on and three silent boot nodes is asked for their distances while its first refresh is still under way - nothing is offered.',
        'trusted': ['enode.New (signature check), enode.LogDist, netutil.CheckRelayIP (rendered by address class and compared with the real function on every record), rlp, v5wire packet framing (size model Pk)'],
        'assumptions': ['request ids are at most 8 bytes (discv5)', 'NetRestrict is nil in the harness (the model keeps the clause)'],
        'explanation': 'theorems: nodes_rule, nodes_fits (datagram <= 1280 from the RLP size arithmetic), accept_only_if; the responder is checked as a '
                       'decidable relation because buckets are shuffled, the asker by step equality',
    },
    'C08': {
        'lean_targets': ['Shisui.Props.C08', 'Shisui.Inst.C08'],
        'min_obligations': 4,
        'runs': [{'name': 'findcontent', 'harness': ['findcontent'], 'driver': ['C08']},
                 {'name': 'transfer', 'harness': ['transfer'], 'driver': ['C08'], 'timeout': 1200},
                 {'name': 'findcontent-metrics', 'harness': ['findcontent'], 'driver': ['C08'], 'env': {'VERIF_METRICS': '1'}}],
        'rule': 'responder: real handleFindContent on a started node (table of 0..260 crafted records up to the 300-byte limit), content absent or '
                'stored with sizes {0,1,2,500,1000,1173..1178,1300,5000}, asker = one of the 32 closest, another table node, or a stranger; reply kind, '
                'inline bytes and record list must equal the model given the real sort order, and the sort itself is checked against the table '
                '(non-decreasing log distance, the 32 closest, table records only); end to end: two real protocol instances (real discv5 and uTP over '
                'an in-memory link), sizes {0,1,1174..1177,4000} (thorough: up to 100000), the four version pairings of {0},{0,1}; bytes received must '
                'equal bytes stored and no datagram may exceed 1280; non-trivial = table with more than 2 entries / every transfer; distinct = distinct lines'
                ' Transfers where the serving side holds an OLDER record of the asker (sequence number 1) advertising another version list than the asker now does.'
                " Transfers also carry values that look like a framed stream (varint length + that many bytes, once and twice nested), and two pairings serve through a slow log sink (300 ms on the line before the uTP accept is registered), so that the asker's SYN arrives first. The responder scenario runs a second, shorter pass with metrics enabled."
                " Pinned stream ids: for ids 0, 1, 0xffff and a random one the harness plays the serving half (accept on recv=id+1/send=id, frame, write, close) and the asker's real reply processing takes the CONTENT message announcing that id."
                " Two stalled transfers (the serving node's datagrams stop after twenty full ones) whose asker is shut down two seconds later: an error or the stored bytes, never other bytes. Pinned stream ids use a node pair of their own.",
        'trusted': ['utp-go (reliable ordered stream), v5wire framing; enode.LogDist; sort.Slice order among ties is taken from the implementation'],
        'assumptions': ['no packet loss in the quick tier'],
        'explanation': 'theorems found_small, found_large (with C19 symmetry and C15 framing), not_found, one_packet; step equality of the reply with the '
                       'model; monitors on the real reply and on real transfers',
    },
    'C09': {
        'lean_targets': ['Shisui.Props.C09', 'Shisui.Inst.C09'],
        'min_obligations': 7,
        'runs': [{'name': 'offer', 'harness': ['offer'], 'driver': ['C09']},
                 {'name': 'offer2', 'harness': ['offer2'], 'driver': ['C09'], 'timeout': 1200},
                 {'name': 'offer-metrics', 'harness': ['offer'], 'driver': ['C09'], 'env': {'VERIF_METRICS': '1'}},
                 {'name': 'offer2-metrics', 'harness': ['offer2'], 'driver': ['C09'], 'timeout': 1200, 'env': {'VERIF_METRICS': '1'}}],
        'rule': 'real handleOffer on started nodes: wire version 0/1 per case, 0..6 (1 in 25: 60..64) fresh keys, each in or out of a 2^255 radius, '
                'stored or not, marked in flight or not; a node with no transfer slots, one with plenty, one with a full validation queue; an '
                'unsupported version; the decoded ACCEPT (verdict list + connection id present) must equal the model; end to end: offers of 1..6 '
                'items (sizes 0..3000, some keys already stored at the receiver) between two real instances for three version pairings, the '
                'element arriving on the receiver\'s validation queue is compared; handleOfferedContents on streams with other item counts and '
                'truncated streams; non-trivial = at least one key / one accepted item; distinct = distinct lines'
                ' Life cycle of the in-flight mark: 40 (thorough 600) histories of 3-5 version-1 offers over a pool of 4 fresh in-range keys, each offer either from a peer that never connects (keys stay in flight) or from a real instance whose transfer ends at once (it dials the announced connection id and sends one item too many); every verdict is compared with the Ofl model.'
                ' End-to-end offers name a key twice with probability 1/5 per position (other content); life-cycle histories mix version-0 and version-1 offers.'
                ' Both scenarios run a second, shorter pass with go-ethereum metrics enabled (every `if metrics.Enabled()` branch live).'
                ' Every fifth count case offers 64 keys (all accepted) with 63, 64, 65, 71 or 128 items in the stream.',
        'trusted': ['utp-go stream; go-bitfield and fastssz codecs of ACCEPT (C14); semaphore for slots'],
        'assumptions': ['overlapping offers are exercised back to back (second offer right behind the first reply), not truly in parallel'],
        'explanation': 'theorems verdict_count, accepted_only_if, connid_iff, pairing (+ codec round trips), count_mismatch_dropped; step equality of the '
                       'decoded ACCEPT; the same clauses as monitors on the real reply; queue contents of real transfers',
    },
    'C20': {
        'lean_targets': ['Shisui.Props.C20', 'Shisui.Inst.C20'],
        'min_obligations': 3,
        'runs': [{'name': 'gossip', 'harness': ['gossip'], 'driver': ['C20']},
                 {'name': 'radius', 'harness': ['radius'], 'driver': ['C20']},
                 {'name': 'gossip-metrics', 'harness': ['gossip'], 'driver': ['C20'], 'env': {'VERIF_METRICS': '1'}}],
        'rule': 'real GossipAndReturnPeers on started nodes without offer workers (queued offers observable), tables of 0/3/20/62/140/272 nodes, the '
                'radius cache rewritten per call with densities from "nobody known" to "everybody covers", source absent / a table node / a stranger; '
                'the returned peers must satisfy the Allowed relation and equal the number of queued offers, the source must not be queued; radius '
                'cache: sequences of 1..6 ping/pong reports per peer (types ClientInfo, BasicRadius, HistoryRadius, unknown 7, Error; truncated '
                'payloads) on a history node and a state node, for table entries, replacements and strangers, processed in order; after each event '
                'the cache must equal the model; plus pings through the real asynchronous handler (polled); non-trivial = at least one covered '
                'node / every event; distinct = distinct lines'
                ' One ping in eight announces a newer record than the one held and the record request then fails.'
                " Content ids are scripted through the protocol's key-to-id function: a fifth are the bitwise complement of a table node's id (or differ from it in the last bit); an eighth of the cached radii equal the distance, an eighth are one above; 'covers' is computed by the harness from the XOR distance (not by the code's inRange). The gossip scenario runs a second pass with metrics enabled."
                ' Radius histories run on a third node whose buckets have room, and take a further event: a FINDCONTENT answer of the closer-nodes kind from the peer (it may enter the table by it; the cache entry stays what it was).'
                ' Every twelfth sequence of a member begins with a well-formed ClientInfo ping announcing a newer record (forced, not left to chance), another twelfth with a liveness ping of ours that the silent peer does not answer (event rpingfail: the cache entry stays).',
        'trusted': ['fastcache as a map (no eviction at these sizes); in-range test (C06) as observed by the real function'],
        'assumptions': ['ping payloads are processed in the order given (the handler processes them in fresh goroutines)'],
        'explanation': 'theorems gossip_rule (from the Allowed relation), radius_is_last_report (all report sequences), unknown_never_target; relation check on '
                       'real gossip calls; step equality of the radius cache',
    },
    'C16': {
        'lean_targets': ['Shisui.Props.C16', 'Shisui.Inst.C16'],
        'min_obligations': 3,
        'runs': [{'name': 'permits', 'harness': ['permits'], 'driver': ['C16'], 'timeout': 1200},
                 {'name': 'permits-metrics', 'harness': ['permits'], 'driver': ['C16'], 'timeout': 1200, 'env': {'VERIF_METRICS': '1'}}],
        'rule': 'slot controller: random acquire-inbound / acquire-outbound / release / repeated-release sequences at limits 0..5 (step equality of every '
                'grant and of the slots obtainable afterwards); real processOffer with a real outbound permit against scripted replies (empty, wrong code, '
                'undecodable, wrong count all declined, wrong count with an accepting verdict, short count accepting, all declined, truncated) for both '
                'ACCEPT encodings; offer() to a silent peer (RPC timeout); gossip with a free and with a full offer queue; 8 real gossip-initiated '
                'transfers through 3 slots between two real instances; after each, the number of slots obtainable once activity has ceased must equal '
                'the limit; non-trivial = sequences of more than 3 operations / every scripted outcome; distinct = distinct lines'
                ' Inbound: two accepted offers (v0 and v1) hold two of three slots while the node waits; all slots are back after the 15 s connect timeout of peers that never connect, after Stop() while waiting, and after an offer that arrives after Stop().'
                " permitops lines are also judged by an exactly-once accounting on the implementation's own answers (a grant while `limit` are out, free + out != limit)."
                ' Offers that cannot be sent (65-67 keys, a 2049+-byte key, no keys) and an accepting reply processed after Stop().'
                " gossiprace: 4 callers x 1500 (thorough 20000) GossipAndReturnPeers next to one goroutine that keeps the offer queue full and one that keeps emptying it (slot limit 3000 > queue capacity); when all have stopped and the queue is empty every slot is free. Expected free-slot counts of every scripted outcome come from the model's exit table (Pm.outCalls / inCalls). A second pass runs with metrics enabled."
                ' accepted_dial_unanswered: ACCEPTs naming connection ids 0, 1, 0xffff and a random one whose dial nobody answers - the slot is back when the sending goroutine gives up.'
                ' Twelve gossips to silent peers on a node with running workers (slot limit 96), the peers deleted from the table at once: every slot is back within 30 s.',
        'trusted': ['golang.org/x/sync/semaphore as a counter; utp-go'],
        'assumptions': ['RPC-initiated offers use NoPermit by design and are outside the bound', 'dial/read failures after an accepted offer wait for 15 s timeouts and are exercised in the thorough tier only'],
        'explanation': 'theorems held_le_limit, conservation, quiescent_full over all interleavings; step equality for the controller; "slot returned" monitors per outcome on the real code',
    },
    'C12': {
        'lean_targets': ['Shisui.Props.C12'],
        'min_obligations': 15,
        # driver argument list: ['C12'] = bootstrap compared as the code does today (container root: the deviation the
        # monitor reports as clause bootstrap_binds_checkpoint_root); ['C12', 'ideal'] once light_client.go:251 hashes header.beacon
        'runs': [{'name': 'lightclient', 'harness': ['C12'], 'driver': ['C12']}],
        'rule': 'synthetic 512-member committees with REAL BLS keys (4 sets; 6 in thorough), aggregate signatures made with the sum of the '
                'participating secret keys; (a) bootstraps through the real bootstrap() over a fake ConsensusAPI: checkpoint given as beacon block '
                'root / LightClientHeader container root / other, one corruption (header field, committee key, branch node, checkpoint bit, wrong '
                'fork type); (b) single cases: a synthetic store (slot anywhere in the period incl. first/last slot, next committee known or not, '
                'participation maxima 0..512) and one update of kind full / finality / optimistic (deneb, capella, altair objects through the '
                'repo\'s From* converters) or a raw GenericUpdate with every presence combination, slots around the store slot, the period '
                'boundaries and the clock, participation 0/1/2/170/171/256/340..343/400/511/512, optionally ONE corruption (signature bit, genuine '
                'signature over another message, signature of a subset, participation bit, finality / next-committee branch node, attested / '
                'finalized header field, substituted next committee, one key of the store\'s committee, fork version / genesis root); verified AND '
                'applied unconditionally; (c) 48 sequences of 36 updates (600 x 48 in thorough) from a bootstrapped store, mostly honest, walking across '
                'period boundaries, a third of them through VerifyUpdate/VerifyFinalityUpdate/VerifyOptimisticUpdate + Apply*, applied iff '
                'verified. non-trivial = the update passes the participation/time/period/relevance tests (so proofs and signature decide) or '
                'changes the store, and every bootstrap; distinct = distinct input lines among those'
                ' A quarter of the branch corruptions zero the whole finality / next-committee branch.'
                ' A quarter of the sequences start in the last 300 slots of periods 289, 565, 757 or 1052 and walk across the Altair / Bellatrix / Capella / Deneb activation (half of their updates are attested in the last two slots of the old fork and signed in the new one); corruption kind domain-other-fork: a genuine signature of the same signers under the fork version of the attested slot or of a neighbouring fork.'
                ' Every committee has seats that share a key ({7,300},{10,11},{100,101,102},{511,0}); corruption shared-seat-signed-once: two participating seats share a key and the aggregate counts it once.'
                ' One update in 25 is checked under a configuration whose genesis lies in the future (current slot 0).',
        'trusted': ['BLS12-381 (kilic via blsu) — as an abstraction: a signature is taken to be valid iff its bytes are intact, the signed message is the signing root '
                    'of the attested header under the fork version and genesis root given to verification, and the keys selected by the bits are the keys that signed',
                    'SSZ hash_tree_root of SyncCommittee (512 keys), ExecutionPayloadHeader and ExecutionBranch by zrnt; header roots, Merkle folds, domain and signing '
                    'root are recomputed in Lean with an executable SHA-256',
                    'zrnt Spec.ForkVersion (fork schedule) on the VerifyUpdate/… wrapper path', 'time.Now pinned through Config.Chain.GenesisTime to the middle of the chosen slot'],
        'assumptions': ['SYNC_COMMITTEE_SIZE = 512, 32 slots per epoch, 256 epochs per period (mainnet spec)',
                        'branches have their SSZ vector lengths (6 / 5 nodes); slots below 2^40'],
        'explanation': 'theorems: verify accepts only with all seven conditions (Lc.verify_sound) and refuses with a violated one (verify_complete); the branch checks pin the '
                       'leaf in every opening of the state root up to an explicit collision (Mk.sound); apply is monotone, keeps optimistic >= finalized, needs 2/3 to '
                       'change finalized header/committees, rotates only to the stored next committee, installs the next committee of the right period — per step and over ALL '
                       'sequences from a bootstrapped store; ideal bootstrap binds the block root. Correspondence: the error of VerifyGenericUpdate must be ok exactly when the '
                       'model has no violated condition and otherwise a member of the violated set; the store after ApplyGenericUpdate (slots, header identities, committee '
                       'identities, participation maxima) must equal the model\'s exactly; all property clauses are evaluated on the implementation\'s own before/after stores',
    },
    'C17': {
        'lean_targets': ['Shisui.Props.C17'],
        'min_obligations': 6,
        'runs': [{'name': 'crash', 'harness': ['crash'], 'driver': ['crash'], 'timeout': 1800},
                 {'name': 'reopen-corpus', 'harness': ['store', 'corpus'], 'driver': ['store', 'C17']}],
        'rule': 'put histories of 12..17 puts (items 60..120 KB or tiny, one in six an overwrite; capacity 1 MB so that a prune and the >95% state occur) on '
                'the real pebble store over errorfs(StrictMem): for every cut point k (every k-th mutating file-system call: create, write, sync, rename, '
                'remove, link, mkdir; up to 45 sampled per history in the quick tier, 400 in thorough) the k-th call and all later ones block forever; the '
                'file system is cloned as it is (unsynced data kept) and after ResetToSyncedState (unsynced data dropped); a fresh pebble + NewStorage is '
                'opened on each clone; the observation (reopen ok, items with value digests, counter record, bytes present, radius) must equal '
                'StX.reopen of the image after SOME prefix of the committed batches of the model; non-trivial = the explaining prefix is non-empty; '
                'distinct = distinct lines'
                ' Torn writes: for every cut that is a write to a write-ahead log file, 5 (thorough 9) further images in which only a prefix of the bytes of that write reached the file (unsynced data kept); every log write is among the cuts.'
                ' Corpus histories replayed first (ids of one repeated byte, zero node id): a second prune that must empty the store after the radius has shrunk; one id put again and again, pruned, flushed and reopened; refused puts between accepted puts that land at, above and below the capacity; the counter at exactly 95 % of the capacity at a reopen; exactly at the capacity.'
                ' The corpus run ends with the tiny-item history (single pruning passes of more than a thousand deletions) followed by a reopen.'
                ' corpusHugeCapacity: capacities 194176253409, 388352506817, 9126283910179, 18446744073709, 970881267037 and 2^40 MB, 2 MB of items, a restart: the radius is the maximum.',
        'trusted': ['pebble: atomic batches, loss of at most a suffix of unsynced batches (checked by the prefix relation on every run, not proved)', 'vfs.StrictMem gives the two extremes per cut (all unsynced kept / all dropped), not per-file mixtures'],
        'assumptions': ['sequential histories (one writer)', '32-byte ids'],
        'explanation': 'theorems: every image after every batch is consistent (crash_images_ok), reopen on a consistent image gives a store satisfying the full invariant, prunes when '
                       'over capacity, radius rule (ideal); correspondence: prefix relation against the real reopen; monitors reopen_succeeds, items_genuine, counter_ge_held, '
                       'open_prunes_overcap, open_radius_is_farthest (known finding inherited from C06), image_is_a_batch_prefix',
    },
    'C03': {
        'lean_targets': ['Shisui.Props.C03'],
        'min_obligations': 20,
        'runs': [{'name': 'headerproof', 'harness': ['C03'], 'driver': ['C03']}],
        'rule': 'the real HeaderValidator (ValidateHeaderAndProof and the four era validators) over caller-supplied accumulators: '
                '(a) the repository\'s mainnet vectors of all four eras against the embedded accumulators with every single-node corruption '
                '(15 / 14+1+11 / 13+1+11 / 13+1+12 nodes), header-hash flips, slot shifts (+-1, +-8192, 2^20, 2^40, 2^63, wrap-around, first slot '
                'beyond each table), malformed lengths and the other eras\' entry points; (b) synthetic pre-merge chains of 1..3 epochs (lengths 1, 2, 3, '
                'random <=512, 511, 512, 8191, 8192, 8193, 2*8192+5; thorough: 6 full epochs and every record index of one epoch) whose roots come from the '
                'real history.Accumulator and whose proofs come from the real history.BuildProof: first/last/middle/random records, first and last record of '
                'every epoch, zero-padded positions beyond the chain, epochs beyond the table, another header at the same number, the proof of another '
                'position, the merge boundary inside the embedded accumulator; (c) synthetic post-merge eras: real zrnt BeaconBlocks (Bellatrix/Capella/Deneb '
                'layouts) around synthetic headers at the first and last block number of each era, real HistoricalBatch / block-roots roots over 8192 arbitrary '
                'roots (random, repeated as for skipped slots, zero), positions 0, 1, 4096, 8191 and random, batches in tables of 1..4 entries and installed at the '
                'first/last/random index of the embedded historical_roots and of the 643-entry summaries fixture, every single-node corruption, slot and era '
                'tampering (same-size and re-laid-out containers across every boundary), slots beyond the tables and before the Capella start, summaries '
                'supplied by an oracle (empty/short cache, long/short/failing/absent oracle). Non-trivial = the case reached a Merkle comparison or an unchecked '
                'table access (not a mere length error); distinct = distinct case lines among those'
                " After copying a proof it was handed, the harness overwrites every node of it; the implementation's own proof is folded by the model's validator (clause honest_proof_verifies)."
                ' Lagging oracle: the validator trusts the full summaries list, a rightly rejected proof beyond every summary makes it ask an oracle that knows fewer, the honest proofs are checked again.'
                ' embeddedagain: the embedded accumulator tables are loaded three more times and must equal what the first call returned.',
        'trusted': ['SHA-256 is an executable Lean function in the driver (lean/Shisui/Sha256.lean) compared against crypto/sha256, fastssz and zrnt through every root and verdict of the run',
                    'go-ethereum Header.Hash (keccak of the RLP) is taken from the implementation: the model works on (block number, header hash)',
                    'fastssz VerifyProof / zrnt VerifyMerkleBranch are re-modelled as Mk.fold; fastssz/ztyp merkleisation as Mk.build (compared on every accumulator of the run)',
                    HASHES],
        'assumptions': ['block numbers and slots below 2^64 (Go reads header.Number.Uint64())',
                        'table entries are 32-byte chunks',
                        'theorems are about the decoded proof (15 siblings / fixed-size containers); the byte-level slicing is part of the executable model and is covered by the correspondence run, not by a round-trip theorem'],
        'explanation': 'theorems for every hash function, all tables, headers and positions: honest proofs verify in all four eras (prover = Mk.prove), accepted => committed leaf '
                       'under every opening of the trusted root or an explicit collision / leaf pre-image (no injectivity axiom), at most one (hash, proof) accepted per position, '
                       'accepted size = era size, verdict depends only on the era\'s own accumulator, out-of-range => error and no panic for the ideal model, panic for the code as it is. '
                       'Correspondence: step equality of verdict class and provider cache size with Hp.validate over the Lean SHA-256, of every accumulator root and every honest proof with '
                       'the model prover; monitors honest_proof_verifies, only_committed_leaf_verifies, out_of_range_is_error_<table>, no_panic, prover_builds_header_with_proof evaluated on '
                       'the real code against a specification verdict computed from the committed structures themselves (not from the verifier model)',
    },
    'C02': {
        'lean_targets': ['Shisui.Props.C02'],
        'min_obligations': 20,
        # The switches name the deviations of the code AS IT IS (Hc.Quirks); the theorems are about the model with none of them.
        # Remove a switch when its fix: commit lands (the run then compares that site with the ideal model); leaving a stale
        # switch in makes the run fail with MISMATCH lines at exactly the repaired site. The monitors never read the switches.
        'runs': [{'name': 'history', 'harness': ['C02'],
                  'driver': ['C02', 'ideal']},
                 {'name': 'net', 'harness': ['C02', 'net'],
                  'driver': ['C02', 'ideal']}],
        'rule': 'vc: the real HistoryValidator behind the real ValidationOracle over in-process JSON-RPC (only the far end, '
                'portal_historyGetContent / portal_beaconGetContent, is scripted). Vectors: every header-with-proof, body and receipt '
                'vector of history/testdata, types/history/testdata and validation/testdata (27 mainnet blocks; accepted header proofs of '
                'all four eras; the merge-to-Capella ones rebuilt from validation/testdata/block_proofs_bellatrix) plus synthetic blocks '
                '(legacy / Shanghai / empty-withdrawals bodies, 0..200 transactions, uncles, empty and non-empty receipts, numbers around '
                'every fork boundary). Per (block, key type): the genuine pair; single-bit, byte, truncation, extension, insertion, deletion, '
                'SSZ-offset, empty and random mutations; field mutations through re-encoding (header number/roots/extra/time, proof '
                'length/other block\'s proof/slot +1,+8192,+2^20,+2^40,-1,0; transactions dropped/duplicated/swapped/added, uncles, '
                'withdrawals stripped/added/changed; receipts dropped/duplicated/swapped/status/gas); ten header sources (honest, another '
                'block\'s header, a header forged to carry the content\'s roots, garbage, truncated, RPC error, bad hex, empty, undecodable '
                'header, genuine header without proof) x genuine/mutated/foreign content; key mutations (bit, truncation, extension, all '
                'selectors, empty); EVERY single-bit flip and EVERY truncation of one accepted pre-merge header, one synthetic body and its receipts (thorough: of one accepted header per era under both header keys and of twelve bodies / receipt lists); all same-type and sampled other-type cross-pairings. orc: GetBlockHeaderByHash for genuine, one-bit-off, '
                'short, long, random and empty hashes x the ten sources. gate: Network.validateContents over a recording store, 1..5 '
                'items from the same pool incl. repeated and pre-stored keys. net: the three block getters of a real node whose only peer '
                '(real discv5 + uTP over an in-memory link) serves genuine/mutated/foreign content and honest/forged/foreign/no headers. '
                'non-trivial = the content decodes (vc), the source answered with a decodable header (orc), something was stored or '
                'refused (gate), content was present locally or remotely (get); distinct = distinct input lines among those'
                " Content is judged by an independent decoding (generated SSZ container, then go-ethereum rlp / UnmarshalBinary per field), never by the repository's Decode* helpers; field mutations include uncles / transaction / withdrawal / receipt fields that are not valid RLP at all and every single-bit flip of a short uncles field."
                " Keys with bytes slipped in between selector and hash, hashes with a prefix, and a header source that serves this block's header whatever key is asked."
                ' Synthetic blocks contain blob transactions; mutation f-tx-pool-form re-encodes a blob transaction of the body in its transaction-pool form (with an empty or a one-blob sidecar).'
                ' Every value is also offered re-framed (all leading offsets raised by n = 1, 4, 32 with n stray bytes after the offset table); the oracle splits header-with-proof itself (first offset exactly 8) instead of with the generated decoder.'
                ' A third of the getter look-ups are made by a node whose store advertises radius 1 (what it keeps, not what it believes).',
        'trusted': ['go-ethereum rlp / Header.Hash / DeriveSha / CalcUncleHash, the fastssz containers and the header-proof check of C03 are '
                    'parameters of the model (Hc.Env); the harness evaluates them once per case, outside the validator, and sends the results',
                    HASHES],
        'assumptions': ['header.Number < 2^64 (the code compares Number.Uint64())',
                        'bound = some decodable header with the key\'s recomputed hash carries the content\'s roots; uniqueness of that '
                        'header is keccak collision resistance (stated as an explicit alternative in accepted_body_matches_the_header)',
                        'historical summaries served by portal_beaconGetContent are the trusted ones (validated by the beacon network, C12)'],
        'explanation': 'theorems for every decoding environment, key, content and lying header source: accepted => bound (per key type), not '
                       'bound => error and never a panic, the oracle only returns a header with the requested hash, every Put of '
                       'validateContents / every value returned or stored by a getter is bound, the store stays clean over every history; '
                       'verdict equality of the real validator, oracle, gate and getters with the model on every generated case; the '
                       'clauses accepted=>bound and no-panic are evaluated on the code\'s own verdicts',
    },
    'C13': {
        'lean_targets': ['Shisui.Props.C13'],
        'min_obligations': 25,
        'runs': [{'name': 'stateproof', 'harness': ['C13'], 'driver': ['C13']}],
        'rule': 'account tries of 1..100 leaves (thorough: ..500) built with go-ethereum\'s trie over key sets with shared prefixes (a third of the keys '
                'copy a short or a 60..63-nibble prefix of an earlier key: extension nodes, deep branches), storage tries under the contract accounts '
                '(32-byte keys, and 1..4-byte keys for embedded leaves and embedded branches), bytecode of 0..32768 bytes; EVERY hashed node on every '
                'path is the claimed target once (proof from Trie.Prove, consumed path from an independent walker) and is then mutated: 25 kinds on '
                'the node side (path nibble flipped / dropped / appended, node hash bit, unknown block hash, block hash of another header, header source '
                'returning another root, adjacent nodes swapped, first / middle / last node dropped, last node duplicated, junk / the genuine child '
                'appended, bit flip / truncation / extension / emptying / replacement of a node, empty proof, proof of another key, 66 nodes, 1025-byte '
                'node, 65 nibbles, unknown selector) and 10 on the account side (address hash bit, the same proof mutations on the account proof, proof of '
                'another account), plus code / code-hash mutations; the 9 mainnet vectors of state/testdata with all mutations; hand-made chains under a '
                'header source that vouches for them (empty-key short node c28080, extension longer than the path, compact flags 4..15, value slot, '
                'embedded extension, oversized embedded node, trailing bytes, a leaf VALUE equal to the hash of a foreign node, an account proof that '
                'stops at a branch whose child hash parses as an account, slim / odd account encodings); 3000 DecodeTrieNode+TraverseTrieNode cases on '
                'generated and damaged nodes, 1500 types.FullAccount cases, Keccak-256 at the block boundaries. Thorough: 20 worlds, account and storage tries to 500 leaves, 8 '
                'mutations per target. Non-trivial = at least two proof nodes (one link walked); distinct = distinct input lines among those'
                " A third of the storage-node items are also offered under an account that has no storage (empty storage root) with that account's genuine proof."
                " Mutation last-short-slice: the claimed node is a 1..31-byte slice of its parent's encoding (a third of the time its tail) and the key names the slice's hash."
                ' Account tries with 31-, 30- and 16-byte keys: the proof for such a key offered (bytecode and storage-node items) for a 32-byte address hash that begins with it.'
                ' concval: up to 600 sampled items are validated again by eight goroutines on ONE validator over a header source that sleeps 20 us: every verdict is the one the item got alone.',
        'trusted': [HASHES,
                    'ztyp SSZ decoding of key and value is not re-modelled: the harness serialises structured items with the repo\'s own Serialize methods; the '
                    'model takes the fields and the decoders\' limits (64 nibbles, 65 nodes, 1024-byte nodes, 32768-byte code)',
                    'go-ethereum rlp (raw.go split functions, stream decoding of the 4-field account) and the hex-prefix key decoding are re-modelled in Lean and '
                    'compared on every run, including on ~4500 direct decoder cases'],
        'assumptions': ['the header source returns a header or an error (never nil, nil)', 'content keys are non-empty (the empty key is C01\'s finding)',
                        'the underlying ContentStorage.Put succeeds (its error is logged and swallowed by state Storage.Put)'],
        'explanation': 'theorems for every hash function and every decoder: ValidateContent = ok <=> hash-linked chain from the named header\'s state root along '
                       'the key\'s path (each link a child REFERENCE), path used up, final hash = key hash (account / storage / bytecode variants); Put stores '
                       'exactly the final node / the code; wrong root, broken link, wrong path, unused path, surplus, missing nodes => error; no panics (ideal '
                       'model). The code is compared exactly with the model (verdict, stored bytes) under some setting of the three deviation switches, and '
                       'every answer of the code is judged against the IDEAL specification: a panic, an acceptance the specification refuses, or a stored '
                       'value other than the final node is a monitor failure naming the clause',
    },
    'C14': {
        'lean_targets': ['Shisui.Props.C14'],
        'min_obligations': 25,
        # driver argument list: ['C14'] = the decoders as they are today (three deviations modelled by switches and reported
        # by the monitor clauses canonical_zero_offset_empty_list, canonical_trailing_bytes_ignored,
        # roundtrip_empty_list_rejected); ['C14', 'ideal'] = all switches off
        'runs': [{'name': 'ssz', 'harness': ['C14'], 'driver': ['C14', 'noguard']}],
        'rule': '49 types with a Lean codec (11 portalwire messages, 5 ping payloads, 9 types/history, 7 history, 5 beacon content keys, 12 state types) and '
                '8 beacon containers checked Go-side (4 fork-tagged light-client wrappers over 4 forks, LightClientUpdateRange, HistoricalSummariesProof, '
                '(Forked)HistoricalSummariesWithProof). VALUES through the real MarshalSSZ/Serialize then UnmarshalSSZ/Deserialize into a fresh object: every field '
                'within, at (max-1, max) and just beyond (max+1, max+k) its declared limit, one field beyond at a time; fixed-size fields one byte short/long, '
                'vectors with an item missing/extra/mis-sized; bit lists of 0..64 bits, 65+ bits, 10..64 bytes, >64 bytes, no sentinel, zero last byte; a '
                'deterministic sweep puts every limit of every type at max and max+1 (16384-item lists included); when the encoder refuses, the image such a value '
                'would have is written by the harness and handed to the decoder. BYTE STRINGS through the real decoder then the real encoder of the result: '
                'valid encodings, bit flips, byte replacements, truncations, trailing bytes, deletions, insertions, every offset (container slots and list '
                'tables) rewritten to +-1, +-4, 0, len, len+1, 2^32-1, equal to / swapped with a neighbour (overlapping, decreasing) or shifted with padding, '
                'random strings around the fixed size, and ALL tails of <= 2 offset words (+ <= 2 bytes) resp. <= 3 bytes over a 4-symbol alphabet after the '
                'minimal fixed part (thorough: 3 words / 6 bytes, all counts x20); go-bitfield bit lists of 0..80 bits; the pre-built error payload table; the '
                'repository\'s portal-spec-test vectors for the beacon wrappers. Not crossed: 16 MiB per transaction, 128 MiB per receipt, 2^24 historical summaries. '
                'non-trivial = a value case, or a byte string that decodes; distinct = distinct input lines among those'
                ' Retention: after each decode (and each encode) of a type, the object (bytes) produced by the PREVIOUS decode (encode) of that type is read again and must be unchanged.'
                ' The four fork-tagged wrappers (2 values per fork) and LightClientUpdateRange (n = 0,1,2,3,5,128,129) are also run under configs.Minimal (sync committees of 32 keys).'
                ' Byte-list limits of the history containers crossed with real values: one transaction of 2^24 / 2^24+1 bytes (legacy and Shanghai bodies), uncles of 2^17 / 2^17+1, one receipt of 2^24, 2^24+1, 20 MiB (thorough: 2^27, 2^27+1).'
                ' appendenc: every generated value is also encoded with MarshalSSZTo behind a three-byte prefix; what is appended must equal MarshalSSZ and the prefix must stay.',
        'trusted': ['fastssz helpers (DecodeDynamicLength, UnmarshalDynamic, DivideInt2, ValidateBitlist) and ztyp codec (Container, FixedLenContainer, List, '
                    'ByteList) are re-modelled in Lean from their source for the shapes shisui uses and compared with the real code on every case',
                    'the schemas in lean/Shisui/Ssz/Schemas.lean are transcribed by hand from struct tags and Marshal/Unmarshal bodies (no extractor in this '
                    'framework): a wrong or changed limit shows as a model/implementation mismatch at the boundary cases of the sweep',
                    'zrnt light-client containers (inner codec of the Forked* wrappers) are exercised through the wrappers, not modelled',
                    'the compiled driver evaluates Sz.decodeDyn through a sequential slicing function proved equal to it (csimp lemma Sz.decodeDyn_eq_fast)'],
        'assumptions': ['encodings shorter than 2^32 bytes (Go writes offsets with uint32(offset)); discharged from the schema for 46 of the 49 types',
                        'decoders are given a fresh object (UnmarshalSSZ appends to slices already present)',
                        'state path nibbles are below 16 (the encoder does not check; FromUnpackedNibbles does)'],
        'explanation': 'theorems for EVERY schema with consistent limits and either setting of the deviation switches: roundtrip (+ roundtrip_bounded without side '
                       'conditions), overlimit, limits_enforced (+ the declared numbers per wire message, + every ping payload fits PING, + go-bitfield verdict lists are valid ACCEPT bit lists iff <= 64 bits), canonical for the ideal '
                       'codec and, as implemented, for 38 of the 49 types; canonical_partial + three decided witnesses for the other 11. Correspondence: step '
                       'equality in both directions (value -> bytes -> value and bytes -> value -> bytes) for 49 types, zero tolerance; the property clauses '
                       '(roundtrip, overlimit_rejected, limits_enforced, canonical re-encoding, error table = struct) are evaluated on the implementation output '
                       'independently of the model. Beacon containers: Go-side round-trip, digest->type dispatch, slot accessors, limit and canonicity facts per '
                       'wrapper and fork, without a Lean codec',
    },
    'C01': {
        'lean_targets': ['Shisui.Props.C01'],
        'min_obligations': 20,
        # driver argument: the unguarded sites still present in /repo (fields of Dp.Quirks). With a site listed the model predicts the
        # panic there exactly (so everything else still compares) and the monitor reports it as clause no_panic@<site>; remove a name
        # when its `fix:` lands — the model then predicts what the guard returns (see C01_QUIRKS above).
        'runs': [{'name': 'all', 'harness': ['C01'], 'driver': ['C01'] + (['q=' + ','.join(C01_QUIRKS)] if C01_QUIRKS else []), 'timeout': 2400}],
        'rule': 'every case calls the real code under recover() and a 10 s watchdog and yields an outcome class (reply:<code>[.<selector>] | empty | ok | '
                'found:<len> | notfound | err | panic@<function>:<kind> | timeout | died@...); byte strings are handed over with capacity = length, as decoded '
                'packets are, so that a read past the end faults. talk: handleTalkRequest on started nodes of the history, '
                'beacon and state networks with their REAL adapters (history.NewHistoryStorage over pebble + ephemeral store, beacon.NewBeaconStorage, '
                'state.NewStateStorage; in-memory pebble) holding content of sizes 0/1/1175/1176/5000, the repo\'s beacon vectors and (second phase) '
                'historical summaries; senders negotiating version 0, 1 and none; messages: empty, all 256 codes alone, 2-3 bytes, every request type at '
                'fixed-size-1 / fixed size / limit / limit+1 (PING payload 1100/1101, 256/257 distances, key 2048/2049, 64/65 keys), EVERY prefix of a valid message of '
                'each type, offset games, valid '
                'encodings with keys chosen per adapter (empty, one byte, every type byte, well-formed, short, long, stored; update ranges with count 0, '
                '2^64-1, wrap-around; summaries keys of 0..12 bytes) and their bit/byte/truncate/extend/offset/delete/duplicate mutations, random bytes, '
                'all 256 codes before valid bodies. resp: processPong/Nodes/Content/Offer on empty, every code, every selector, valid replies of both ACCEPT '
                'encodings, every prefix of them, mutations, 32/33 records, 2048/2049-byte items, connection-id replies (real dial). oc: handleOfferedContents on framed '
                'streams (boundary varints, wrong counts, mutations, random). get/put: the three adapters directly (all 256 type bytes, vectors, structured '
                'state proofs with 0..3 nodes, summaries put/get histories on fresh stores with 0..12-byte keys). val: the three validators over a lying '
                'header source (repo vectors + mutations, forged-but-consistent execution branches with slots around the 758-entry roots table, legacy / '
                'Shanghai bodies against headers with / without withdrawals root, two-node trie proofs built bottom-up with peer-chosen paths). trav: '
                'TraverseTrieNode on 600 decoded random nodes. In child processes (a panic in a talk goroutine cannot be recovered): 300 uTP packets '
                '(truncated, every type/version nibble, extension chains) into the uTP talk handler directly and over the wire followed by a real 40 kB uTP '
                'transfer; ~40 TALKREQs per network sent over the in-memory discv5 link, each followed by a ping. thorough: x20. non-trivial = the byte '
                'string has more than 2 bytes (talk/resp/oc), the key more than 1 byte (get/put/val), a non-empty path (trav); distinct = distinct lines'
                ' After the look-ups every beacon vector is put again and read back twice, with look-ups of slot+1 / slot-1 in between (a look-up path that keeps a lock wedges the next writer).'
                ' Group utpbody: looked-up items over a uTP stream a second real instance really serves, framed honestly, raw where the asker expects the version-1 frame (decode error after a complete read), framed where it expects raw bytes.'
                " Validator cases also take synthetic bodies WITH transactions (legacy and Shanghai) and 24 disturbed copies of each; the byte mutator rewrites entries of the leading offset table with values taken from the table's own geometry (just before / at another field's start, inside the preceding fields, first+1, len, len+1)."
                " pongseq: a peer of our table answers our PING with a PONG announcing a newer record; our FINDNODES for distance 0 is answered with its new record, nothing, somebody else's record, a record with a broken signature, the record twice: the PING comes back fine, nothing panics.",
        'trusted': ['rlp, ztyp/zrnt SSZ containers, ping-extension payloads, ENR verification, Merkle/Keccak checks, pebble and utp-go are dependencies: not modelled '
                    'byte for byte (model outcome `handled` = value or error), assumed panic-free and sampled by the correspondence run',
                    'fastssz helpers (ReadOffset, DecodeDynamicLength, UnmarshalDynamic, DivideInt2, ValidateBitlist) and go-bitfield Len/BitIndices are re-modelled in Lean',
                    'panic sites are named from the Go stack trace (function + kind of run-time error), not by line'],
        'assumptions': ['the validation queue is not full (v0 offers) and content ids are sha256(key) (all three networks use the default)',
                        'the ephemeral history store is empty (nothing a validated offer stores is retrievable through its Get)',
                        'stored historical summaries were written by Put (invariant SumWf, proved to be kept by the ideal Put)',
                        'nobody accepts the uTP connections the harness makes the node dial'],
        'explanation': 'theorems about the model with every unguarded access guarded: the talk handler never panics and answers empty or with the response code '
                       'of the request, for every network / store content / version / byte string; the four response processors, the stream-body handler, the '
                       'adapters\' Get and Put, the validators (by shape) and the trie traversal end in a value or an error; the peer-bounded update-range loop '
                       'makes at most stored+1 look-ups; plus one decided witness per unguarded site (Findings). Correspondence: outcome-class equality of the '
                       'real code with the model in which the sites listed in C01_QUIRKS are switched on; monitors no_panic@<site>, no_remote_kill@<site>, '
                       'call_returns, reply_or_empty, reply_code_matches_request, node_alive_after, utp_* on the implementation\'s own output',
    },
}
