"""Per-property configuration of ./check: Lean targets, harness runs, driver mode, texts for the evidence."""

HASHES = 'SHA-256/Keccak-256/BLS are modelled (executable Lean hashes in the driver; soundness theorems are stated up to an explicit collision), not verified'

PROPS = {
    'C15': {
        'lean_targets': ['Shisui.Props.C15'],
        'min_obligations': 6,
        'runs': [{'name': 'framing', 'harness': ['C15'], 'driver': ['C15']}],
        'rule': 'cases: encode of generated item lists (0..65 items, lengths at the varint boundaries), implementation-side '
                'round trips, truncations of valid streams at random cut points, bit/byte/insert/delete mutations, edge varints, '
                'random byte strings biased to continuation bytes, v0/v1/v2 single-content framing; a case is non-trivial when the '
                'list has >1 item or the byte string >1 byte; distinct = distinct input lines (hashed) among those',
        'trusted': ['wabin leb128 (Go dependency) is re-modelled in Lean (Fr.enc/Fr.dec) and compared on every run'],
        'assumptions': ['Go slices are modelled as List Nat with every element < 256', 'item lengths < 2^32 (Go truncates uint32(len))'],
        'explanation': 'theorems over Fr.encContents/decContents/utpEnc/utpDec for all lists and all byte strings; '
                       'correspondence: step equality of the Lean functions with encodeContents/decodeContents/decodeSingleContent/'
                       'encodeUtpContent/decodeUtpContent on every generated case',
    },
}
