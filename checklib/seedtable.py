#!/usr/bin/env python3
"""prints the markdown table of seeded defects from seeded/*/meta.json (pasted into DESIGN.md section 0.7)"""
import json, glob, os
rows = []
for d in sorted(glob.glob(os.path.join(os.path.dirname(__file__), '..', 'seeded', '*'))):
    m = json.load(open(os.path.join(d, 'meta.json')))
    files = [l[6:].strip() for l in open(os.path.join(d, 'patch.diff')) if l.startswith('+++ b/')]
    rows.append((os.path.basename(d), m['property'], ', '.join(files), m['needs_to_manifest'], m['detected_by']))
print('| seed | property | site | needs in order to manifest | detected by |')
print('|---|---|---|---|---|')
for r in rows:
    print('| ' + ' | '.join(x.replace('|', '/') for x in r) + ' |')
