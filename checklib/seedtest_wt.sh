#!/bin/bash
# usage: seedtest_wt.sh <tag> <prop> [<prop>...]  — runs the given checks against the scratch worktree /tmp/wt/<tag> (which has
# the seeded patch applied) from a scratch copy of /verif, so that /repo and /verif stay untouched and several seeds can be
# tried at the same time. The kept results of record still come from checklib/seedtest.sh (patch applied to /repo itself).
tag=$1; shift
wt=/tmp/wt/$tag; vs=/tmp/vs/$tag
[ -d "$wt" ] || { echo "no worktree $wt"; exit 2; }
( cd $wt && git apply -R --check /tmp/seedout/$tag/patch.diff 2>/dev/null ) || { echo "patch not applied in $wt"; exit 2; }
# a hook commit made in /repo after the worktree was created: move the worktree to /repo's HEAD (its local change is carried over)
[ "$(git -C $wt rev-parse HEAD)" = "$(git -C /repo rev-parse HEAD)" ] || git -C $wt checkout -q --detach "$(git -C /repo rev-parse HEAD)" || { echo "cannot move $wt to /repo HEAD"; exit 2; }
rm -rf $vs; mkdir -p $vs
rsync -a --exclude .git --exclude /build --exclude '/replays/*' --exclude /harness/bin --exclude /seeded /verif/ $vs/
sed -i "s#^replace github.com/zen-eth/shisui => /repo#replace github.com/zen-eth/shisui => $wt#" $vs/harness/go.mod
cd $vs
for p in "$@"; do
  VERIF_REPO=$wt ./check "$p" --tier ${TIER:-quick} > /tmp/seedtest_${tag}_$p.out 2>&1; rc=$?
  echo "== $tag on $p (worktree): rc=$rc"; grep -E "VIOLATION|theorems" /tmp/seedtest_${tag}_$p.out | cut -c1-300
  grep -o "clause=[a-zA-Z_@.:<>-]*" replays/$p-${TIER:-quick}-${VERIF_SEED:-1}.txt 2>/dev/null | sort | uniq -c | sort -rn | head -6
  cp replays/$p-${TIER:-quick}-${VERIF_SEED:-1}.txt /tmp/seedtest_${tag}_$p.replay 2>/dev/null
done
cd /; rm -rf $vs
