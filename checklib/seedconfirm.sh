#!/bin/bash
# usage: seedconfirm.sh <tag> <pkgdir> [skipexisting]  — in worktree /tmp/wt/<tag>: demo fails with change, passes without; package tests pass with change
tag=$1; pkg=$2
cd /tmp/wt/$tag || exit 2
export GOFLAGS=-mod=mod GOPROXY=off
P=/tmp/seedout/$tag/patch.diff
git apply -R --check $P 2>/dev/null || { git checkout -q -- . ; git apply $P || exit 2; }
echo "--- with change: demo (expect FAIL)"; go test -vet=off -count=1 ./$pkg -run 'Seed' 2>&1 | grep -E "^(--- FAIL|FAIL|ok|PASS)" | head -5
if [ -z "$3" ]; then
echo "--- with change: existing tests of $pkg (expect ok, except the two known failures in portalwire)"; go test -vet=off -count=1 ./$pkg -skip 'Seed' 2>&1 | grep -E "^(--- FAIL|FAIL|ok)" | head -8
fi
git apply -R $P
echo "--- without change: demo (expect ok)"; go test -vet=off -count=1 ./$pkg -run 'Seed' 2>&1 | grep -E "^(--- FAIL|FAIL|ok|PASS)" | head -5
git apply $P
git status --porcelain | head
