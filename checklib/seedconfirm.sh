#!/bin/bash
# usage: seedconfirm.sh <tag> <pkgdir>  — in worktree /tmp/wt/<tag>: demo fails with change, passes without; package tests pass with change
tag=$1; pkg=$2
cd /tmp/wt/$tag || exit 2
export GOFLAGS=-mod=mod GOPROXY=off
files=$(grep '^+++ b/' /tmp/seedout/$tag/patch.diff | sed 's#+++ b/##')
echo "--- with change: demo (expect FAIL)"; go test -vet=off -count=1 ./$pkg -run 'VerifSeed' 2>&1 | grep -E "^(--- FAIL|FAIL|ok|PASS)" | head -5
echo "--- with change: existing tests of $pkg (expect ok, except the two known failures in portalwire)"; go test -vet=off -count=1 ./$pkg -skip 'VerifSeed' 2>&1 | grep -E "^(--- FAIL|FAIL|ok)" | head -8
git stash push -q -- $files
echo "--- without change: demo (expect ok)"; go test -vet=off -count=1 ./$pkg -run 'VerifSeed' 2>&1 | grep -E "^(--- FAIL|FAIL|ok|PASS)" | head -5
git stash pop -q
git status --porcelain | head
