#!/bin/bash
# usage: seedtest.sh <tag> <prop> [<prop>...]   — applies /tmp/seedout/<tag>/patch.diff (or /verif/seeded/<tag>/patch.diff) to /repo,
# runs the given checks, and restores /repo.
tag=$1; shift
patch=/verif/seeded/$tag/patch.diff
[ -f "$patch" ] || patch=/tmp/seedout/$tag/patch.diff
cd /repo || exit 2
if [ -n "$(git status --porcelain)" ]; then echo "/repo not clean"; exit 2; fi
git apply "$patch" || { echo "patch does not apply"; exit 2; }
cd /verif
for p in "$@"; do
  ./check "$p" --tier ${TIER:-quick} > /tmp/seedtest_$tag_$p.out 2>&1; rc=$?
  echo "== $tag on $p: rc=$rc"; grep -E "VIOLATION|KNOWN|theorems" /tmp/seedtest_$tag_$p.out | cut -c1-300
done
git -C /repo checkout -- . ; git -C /verif checkout -- evidence/ 2>/dev/null; git -C /repo status --porcelain | head -3
