#!/usr/bin/env python3
"""Regenerates MANIFEST.json from checklib/props.py and checklib/claims.py (kept valid at all times)."""
import json, os, sys
sys.path.insert(0, os.path.dirname(os.path.abspath(__file__)))
import props, claims

ROOT = os.path.dirname(os.path.dirname(os.path.abspath(__file__)))
allids = [json.loads(l)['id'] for l in open(os.path.join(ROOT, 'properties.jsonl'))]
checks = []
for pid in allids:
    if pid not in props.PROPS or pid not in claims.CLAIMS:
        continue
    c = claims.CLAIMS[pid]
    checks.append({
        'property_id': pid,
        'quick_cmd': f'./check {pid} --tier quick',
        'thorough_cmd': f'./check {pid} --tier thorough',
        'evidence_file': f'evidence/{pid}.json',
        'replay_cmd_template': f'./check {pid} --replay {{path}}',
        'engine': 'lean4-proof+correspondence',
        'level_claimed': {'category': 'proof', 'text': c['text'], 'design_ref': c.get('design_ref', 'DESIGN.md section 5, ' + pid)},
        'level_note': c['note'],
        'technique': c['technique'],
    })
na = [{'property_id': pid, 'reason': claims.NOT_APPLICABLE.get(pid, 'check not built yet; no claim is made for this property')}
      for pid in allids if pid not in [c['property_id'] for c in checks]]
m = {
    'version': 1,
    'setup_cmd': './setup.sh',
    'hooks': {
        'guard': 'verif',
        'enable': 'go build -tags verif (harness module /verif/harness with replace github.com/zen-eth/shisui => /repo)',
        'baseline_off_cmd': 'cd /repo && GOFLAGS=-mod=mod GOPROXY=off go test -vet=off -count=1 -timeout 25m ./...',
        'source_commits': claims.HOOK_COMMITS,
        'add_only': True,
    },
    'engines': [{
        'name': 'lean4-proof+correspondence', 'path': 'lean/ harness/ extract/ check',
        'serves_properties': [c['property_id'] for c in checks],
        'kind_free_text': 'Lean 4 theorems about executable models (lean/Shisui), tied to /repo on every run by (a) regenerated constants/'
                          'expressions/facts (extract/ -> lean/Shisui/Gen, discharged in lean/Shisui/Inst) and (b) a correspondence run: the Go '
                          'harness executes the real code with -tags verif and the compiled Lean driver recomputes every case with the model',
    }],
    'checks': checks,
    'not_applicable': na,
    'notes': 'See DESIGN.md. known_findings.json lists recorded defects (status known) and repaired ones (status fixed).',
}
json.dump(m, open(os.path.join(ROOT, 'MANIFEST.json'), 'w'), indent=1)
print('MANIFEST.json:', len(checks), 'checks,', len(na), 'not claimed')
