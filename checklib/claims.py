"""Texts of the claims made in MANIFEST.json, per property."""
HOOK_COMMITS = ['78ce041', '65be38d', '036e882', '4be9113', '00cc1df', '2389819', 'c7d762f', '404f48f', '5da2c46', '7460cba','24853a3']

NOT_APPLICABLE = {}

TB = ('Trusted: Lean 4.33.0 kernel; axioms propext/Classical.choice/Quot.sound only (audited on every run, no sorry/native_decide); '
      'the Go harness + Lean driver (differential correspondence, bounded by generator quality); ')

CLAIMS = {
    'C15': {
        'text': 'Machine-checked Lean 4 theorems (all item lists, all byte strings, no size bound) about an executable model of the '
                'LEB128 framing: round trip, truncation never re-splits, over-long prefix and 32-bit varint overflow rejected, exact '
                'single-item framing. The model is tied to the Go code on every run by step equality on ~20k generated cases '
                '(encoders and decoders both directions, edge varints, mutations).',
        'note': TB + 'wabin leb128 and Go slice semantics are modelled (re-implemented in Lean) and validated by the correspondence run.',
        'technique': 'Lean 4 proof (induction over lists / strong induction on the varint value) + differential correspondence',
    },
    'C04': {
        'text': 'Refinement theorems in Lean 4: for every put/overwrite history the store model refines "latest accepted put per id" '
                '(get returns exactly that value or nothing after pruning; refused puts are no-ops; xor keys are injective and hit the reserved '
                'key only for the node id). Tied to the real pebble store by exact step equality on random histories and by re-comparing every '
                'slice Get ever returned (buffer lifetime).',
        'note': TB + 'pebble is modelled as a sorted map with atomic batches; buffer recycling inside pebble is outside the model and is '
                'covered only by the retained-slice comparison; reopen is NewStorage on the same open database.',
        'technique': 'Lean 4 refinement proof (abstraction to a map, induction over histories) + differential correspondence',
    },
    'C05': {
        'text': 'Invariant theorems in Lean 4 over all sequential put histories (any sizes, capacities, keys): a prune frees >= cap/20 or '
                'everything, drops a farthest-first suffix, held <= tracked = persisted, held <= cap when items <= 5%. The executable model is '
                'proved equal to the theorem model and matches the real store field-for-field after every put. The concurrent clause is '
                'refuted by a decided schedule that is replayed on the real store (known finding).',
        'note': TB + 'concurrency is modelled at the granularity of the atomic steps the code has (Add, commit); finer interleavings and '
                'data races are not exhibited. float64(cap)*0.05 = cap/20 is assumed and compared on every run.',
        'technique': 'Lean 4 invariant proof by induction over operation lists + differential correspondence + forced-schedule replay',
    },
    'C06': {
        'text': 'Theorems in Lean 4 for the ideal big-endian XOR metric over all put histories (retained <= radius, refusal iff not below '
                'radius, radius antitone, in-range iff xor < radius, bytewise key order = big-endian order) and decided counter-examples for '
                'the two deviations found. The real store is compared exactly against the model with the little-endian switch on (known '
                'finding, pinned by a baseline test); inRange was repaired and is compared with the ideal rule.',
        'note': TB + 'uint256 modelled by Nat; the known little-endian finding means the ideal theorems do not describe today\'s store, '
                'which is exactly what the KNOWN-FINDING line reports.',
        'technique': 'Lean 4 invariant proof + quirk-switch model + differential correspondence',
    },
    'C19': {
        'text': 'Theorems in Lean 4 for all version lists and all call histories: result = highest common version, symmetric, base version '
                'when none advertised, error on every call when none is common (ideal), cached value stable, same version on both sides inverts '
                'the uTP framing. The code is compared with the model exhaustively over short lists on {0,1,2} and on random lists; the cached-error '
                'deviation is a decided counter-example and a known finding.',
        'note': TB + 'the version cache is modelled per peer as an Option; TTL expiry and LRU eviction are not modelled. Real two-node transfers per pairing are exercised under C08/C09.',
        'technique': 'Lean 4 proof (fold invariant, induction over call histories) + exhaustive/differential correspondence',
    },
    'C07': {
        'text': 'Lean 4 invariant theorem over ALL finite sequences of table operations (add found/inbound, delete, revalidation answers, lookup '
                'feedback; every random pick): <=16 entries, <=10 replacements, ids unique table-wide, self absent, placement by bucket map, '
                '/24 limits 2 per bucket and 10 per table. The model reproduces the real Table snapshot field-for-field after every operation of '
                'generated histories, including revalidation lists and active requests.',
        'note': TB + 'serial application of operations (the loop serialises them); the deleteNode/revalidation.run data race and the panics guarding '
                'the revalidation slices are outside the theorem and covered only by the per-snapshot monitor; concurrent drive is not modelled.',
        'technique': 'Lean 4 invariant proof by induction over operation lists + differential correspondence (snapshot equality)',
    },
    'C18': {
        'text': 'Lean 4 per-step theorems from every table state: additions never remove an entry; an entry leaves only by explicit delete, a failed '
                'check with credit/3 = 0, or >=5 consecutive failures with >=4 entries; a removed entry is succeeded by a replacement when one exists; '
                'full-bucket newcomers only become the first replacement (<=10); records change only to a higher seq or on inbound contact and an '
                'endpoint change clears the verified flag; credit /3 and +1. Tied to the real table by snapshot equality and by the same clauses '
                'evaluated on consecutive real snapshots.',
        'note': TB + 'as C07.',
        'technique': 'Lean 4 decision-logic theorems per operation + differential correspondence',
    },
    'C10': {
        'text': 'Lean 4 theorems over every schedule (order of completion of outstanding queries) and every answer function: <=3 in flight, nobody '
                'asked twice, self never asked, at most 2|U|+3 replies (termination), result = first 16 of the sorted list of everything seen, '
                'cancellation drains without asking; content lookup = first supplied content or not-found. The real lookup is replayed under '
                'testing/synctest with PRNG-chosen release orders and cancellations and must start exactly the queries the model starts.',
        'note': TB + 'ContentLookup is modelled at the level of the CAS on the result flag; its channel/close protocol is exercised on small real networks (relation: genuine bytes / not-found / returns). '
                'Needs GOEXPERIMENT=synctest (go1.24.2, offline).',
        'technique': 'Lean 4 invariant + well-founded measure proofs + schedule-controlled differential correspondence (synctest)',
    },
    'C11': {
        'text': 'Lean 4 theorems: the collected nodes are self (distance 0) or verified entries, all relay-safe, at most 32; any list passed through '
                'truncateNodes with the code\'s budget gives a TALKRESP datagram <= 1280 bytes (RLP length arithmetic, tight at 1177); the asker keeps a '
                'record only if signed, at a requested distance, first occurrence, UDP > 1024, relay-safe. The real handleFindNodes is checked against a '
                'decidable relation (bucket shuffle) and the real processNodes by step equality.',
        'note': TB + 'signature validity, log distance and address class are observations from go-ethereum; the size model of the discv5 packet is trusted (measured end to end under C08).',
        'technique': 'Lean 4 decision-logic and arithmetic proofs + relation/step correspondence on real protocol instances',
    },
    'C08': {
        'text': 'Lean 4 theorems: content of at most 1175 bytes is answered inline and is exactly the stored bytes; larger content goes by connection id and '
                'the uTP framing is inverted for the version both sides compute; the ENR reply is a sublist of any log-distance-sorted table order, '
                'non-decreasing, without the asker, within 1175 bytes; every reply gives a datagram <= 1280. The real handler is compared on ~750 requests '
                'and 28 end-to-end transfers between real instances (all version pairings, boundary sizes).',
        'note': TB + 'uTP loss recovery is a dependency: the model assumes an intact ordered stream; the quick tier runs without packet loss.',
        'technique': 'Lean 4 decision-logic/arithmetic proofs + differential correspondence on real instances + end-to-end transfers',
    },
    'C09': {
        'text': 'Lean 4 theorems about the offer decision model: one verdict per key in order; accepted only if in range, not stored, (v1) not in '
                'flight, and a slot was obtained; connection id announced iff some key accepted and then the node waits for exactly those keys; '
                'offerer-side and receiver-side selections pair contents with keys; a stream with another item count is dropped. The real handleOffer is '
                'compared on ~700 offers with every verdict kind, and real end-to-end offers are checked on the validation queue.',
        'note': TB + 'concurrent overlapping offers (in-flight mark set in the receive goroutine after the reply) are not exhibited by this check; uTP is trusted.',
        'technique': 'Lean 4 decision-logic proofs + differential correspondence on real instances + end-to-end transfers',
    },
    'C20': {
        'text': 'Lean 4 theorems: any result allowed by the selection relation has at most 8 targets, all among the closest table nodes with a known '
                'covering radius, never the source, and includes the 4 closest covered; after any sequence of ping/pong reports the cached radius is that of '
                'the last report that applies (member, supported type, decodable); unknown peers are never targets. The real GossipAndReturnPeers is '
                'checked against the decidable relation on 450 calls and the radius cache by step equality on ~350 events through the real handlers.',
        'note': TB + 'the asynchronous processing of ping payloads (goroutine per ping) can reorder two reports of one peer; the model takes the order as given (partial).',
        'technique': 'Lean 4 proofs (relation => property; fold invariant) + relation/step correspondence on real instances',
    },
    'C16': {
        'text': 'Lean 4 theorems over every interleaving of acquisitions, exits and repeated releases: held <= limit, free + held = limit, and all slots '
                'free once every permit was released. The real controller is compared step by step; that every outcome of an offer really releases is '
                'established on the real code by scripted outcomes (8 reply kinds x 2 encodings, silent peer, full queue, real transfers) and by counting the '
                'slots obtainable after quiescence.',
        'note': TB + 'which exits release is dynamic evidence (scripted outcomes), not a static exit table; stop-at-any-point and post-accept dial/read failures are thorough-tier only.',
        'technique': 'Lean 4 invariant proof over interleavings + differential correspondence + scripted-fault enumeration on real instances',
    },
    'C12': {
        'text': 'Lean 4 theorems over every store, update and clock: VerifyGenericUpdate accepts only if >=1 member signed, now >= signature slot > '
                'attested slot >= finalized slot, the signature period is the store period (or the next one when a next committee is held), the update is '
                'relevant, both Merkle branches verify (and then pin the leaf at gindex 105 / 55 in every opening of the attested state root, up to an '
                'explicit SHA-256 collision) and the signature is valid for the committee the store holds for that period; ApplyGenericUpdate never moves '
                'either header backwards, keeps optimistic >= finalized, changes finalized header/committees only with >= 2/3 participation, rotates only to the '
                'stored next committee and installs a next committee of the right period — per step and for ALL update sequences from a bootstrapped store. '
                'The model is tied to the Go code on every run: real BLS signatures over 512-key committees, one corruption at a time, verdict and resulting '
                'store compared on ~2.6k updates incl. sequences across period boundaries; the driver recomputes header roots, Merkle folds, domain and signing root '
                'with its own SHA-256. The bootstrap clause is false of the code today (checkpoint compared with the LightClientHeader container root instead of the '
                'beacon block root): decided witness + monitor clause bootstrap_binds_checkpoint_root.',
        'note': TB + 'BLS and the SSZ hashing of committees/execution headers are trusted; the fork schedule (zrnt Spec.ForkVersion, shifted by one fork in the pinned zrnt fork, '
                'and taken at the signature slot rather than slot-1) is outside the statement: VerifyGenericUpdate takes the fork version as an argument. Electra-sized branches '
                '(depth 6/7) are not handled by the code (bootstrap reads 5 of 6 nodes; Electra updates are "unknown update type"): liveness only, noted.',
        'technique': 'Lean 4 decision-logic + invariant proofs (induction over update sequences, Merkle soundness without injectivity axiom) + differential correspondence with real BLS',
    },
    'C17': {
        'text': 'Lean 4 theorems: along every put history every committed batch leaves a consistent image (ascending keys, no reserved key, counter >= bytes present); '
                'reopening any consistent image yields a store satisfying the full invariant, prunes an over-capacity store by >= 5%, and sets the radius to the '
                'farthest key above 95% and to the maximum otherwise (ideal reading). The real pebble store is cut at every mutating file-system call (both keeping and '
                'dropping unsynced data), reopened, and must equal the model reopen of some batch prefix.',
        'note': TB + 'pebble\'s atomic-batch / prefix-durability contract is an assumption that the correspondence validates, not a theorem; the radius clause inherits the C06 little-endian known finding.',
        'technique': 'Lean 4 invariant proof over batch prefixes + crash-point enumeration on the real store (correspondence as a prefix relation)',
    },
    'C03': {
        'text': 'Lean 4 theorems about an executable model of ValidateHeaderAndProof for EVERY hash function, every set of trusted accumulators, '
                'header hash, block number, slot and proof: honest proofs (model of history.BuildProof; any opening of a historical root / summary) verify in all '
                'four eras; an accepted proof implies that the header hash is the leaf committed at the position fixed by the block number / the slot under every '
                'opening of the trusted root, or else an explicit hash collision or leaf pre-image is constructed; at most one (hash, sibling list) is accepted per '
                'position (altered sibling / other header => collision); accepted size = size of the number\'s era and only that era\'s accumulator matters; '
                'out-of-range positions give an error and never a panic in the bounds-checked model, and provably a panic in the code as it is. The model is tied '
                'to the Go code on every run by step equality on ~3.5k cases over the real validator, accumulator, prover and zrnt beacon structures with a Lean SHA-256.',
        'note': TB + 'SHA-256 collision resistance is not assumed (binding form); keccak/RLP of the header is outside the model (it sees number and hash); '
                'byte-level slicing of the proof containers is executable model code covered by correspondence only; the oracle is a fixed answer per table set-up.',
        'technique': 'Lean 4 proof (induction over Merkle branches and trees, decision logic of the dispatcher) + differential correspondence with spec-side verdicts',
    },
    'C02': {
        'text': 'Lean 4 theorems about a model of HistoryValidator.ValidateContent behind ValidationOracle.GetBlockHeaderByHash, for EVERY '
                'decoding environment (rlp, keccak, trie roots, SSZ containers and the header-proof check are parameters), every key, every '
                'content and every header source however it lies: accepted => the header has the key\'s hash/number and a verifying proof, '
                'resp. the body\'s tx/uncle/withdrawal roots and the receipt root are those of a decodable header with the key\'s hash (or two '
                'headers with one hash are exhibited); anything else is rejected with an error, never a panic; the oracle returns only a '
                'header with the requested hash; validateContents and the three getters store and return bound content only, over every '
                'history. The real validator, oracle, gate and getters (the latter over a real two-node discv5/uTP link) agree with the '
                'model on ~35k generated cases per quick run (~525k thorough); five deviations of today\'s code are modelled as switches with decided witnesses and '
                'are reported by the monitors on the real code.',
        'note': TB + 'go-ethereum (rlp, Header.Hash, DeriveSha, CalcUncleHash), fastssz decoding and the C03 proof check are parameters of '
                'the model and are evaluated by the harness, not re-implemented in Lean; collision resistance is not assumed (explicit '
                'alternative in the theorem). The getters\' local path returns stored content unvalidated: covered by the store invariant '
                '(everything stored went through the gate), not by a re-check.',
        'technique': 'Lean 4 decision-logic proof (case analysis; induction over item lists and histories) + quirk-switch model + '
                     'differential correspondence incl. a two-node end-to-end run',
    },
    'C13': {
        'text': 'Lean 4 theorems over an abstract hash function and abstract node/account decoders (so nothing is assumed about Keccak-256): '
                'ValidateContent of the ideal model accepts an account-trie node, a storage-trie node or bytecode IF AND ONLY IF the named header is known, '
                'the proof is a chain whose first node hashes to its state root and whose every next node hashes to the child reference reached by walking '
                'the previous node along the key\'s path (inductive walk relation, proved equivalent to TraverseTrieNode in both directions), the path is used '
                'up, and the final node / the proven leaf account\'s code hash equals the key\'s hash; Put stores exactly the final node / the code and only '
                'when it hashes to the key; wrong root, broken link, wrong path, unused path, surplus nodes, missing (empty / dropped last) nodes, unknown header '
                'are each rejected with an error and never a panic. Four decided witnesses show where the code as it is deviates (index panics, leaf value taken '
                'for a child reference, child reference taken for the account, Put on an empty proof). The model is tied to the Go code on every run by exact '
                'comparison of verdict and stored bytes on ~7.6k proof cases (every node of every generated trie as target x mutations, mainnet vectors, '
                'hand-made chains) and ~4.5k decoder cases, all recomputed from raw bytes with a Lean RLP decoder and a Lean Keccak-256.',
        'note': TB + 'ztyp SSZ decoding is represented by its limits only; go-ethereum rlp and hex-prefix decoding are re-modelled and compared; the header source is a '
                'parameter (its honesty is C02). Soundness is relative to the hash function: the specification is hash equations, collisions are not excluded.',
        'technique': 'Lean 4 proof (functional induction on the traversal, induction over the proof list, iff with an inductive chain specification) + quirk-switch model + differential correspondence',
    },
    'C14': {
        'text': 'Lean 4 theorems about a schema-driven SSZ codec (raw and little-endian fixed slots, chunk vectors, byte lists, fixed-item lists, offset-table '
                'lists, bit lists, packed nibble paths, over the generic container layer), for EVERY schema with consistent limits: the encoding of an in-limit '
                'value decodes to it (no side condition for 46 of the 49 schemas of the repository); a value beyond a limit is refused by the encoder or its '
                'encoding is refused by the decoder; whatever a decoder accepts is within the declared limits (64 keys, 2048-byte keys and ENRs, 32 ENRs, 256 '
                'distances, 1100-byte payload, 2-byte connection id: one corollary per wire message; every ping payload fits PING); whatever the ideal decoder '
                'accepts re-encodes to the same bytes, and so does whatever today\'s decoders accept for 38 of the 49 types. The two ways today\'s decoders are '
                'not canonical (00000000 taken for an empty list by fastssz; trailing bytes ignored by fixed-size ztyp containers) are switches of the model with '
                'decided witnesses, reported as known findings; the third deviation found (the empty PortalReceipts / EphemeralHeaderPayload refused by its own '
                'decoder) was repaired in /repo (308affd) and the run compares with that switch off. The model is tied '
                'to the Go code on every run by step equality in both directions on ~26k generated values and byte strings for 49 types (history, beacon keys and '
                'state included), every limit probed at max and max+1; the fork-tagged beacon containers are checked Go-side.',
        'note': TB + 'schemas are transcribed by hand (no extractor); fastssz/ztyp helpers are re-modelled; the zrnt light-client objects inside the beacon wrappers '
                'are exercised (round trip, digest dispatch, limits, canonical re-encoding), not modelled; values of 4 GiB and more are outside the theorems.',
        'technique': 'Lean 4 proof (generic container round-trip/canonicity + field codecs, induction over slot lists, size bounds) + differential correspondence in both directions',
    },
    'C01': {
        'text': 'Lean 4 theorems about an outcome-class model (reply | empty | value | error | panic@site) of every peer-reachable entry point: '
                'handleTalkRequest with the four request decoders and the history / beacon / state storage adapters behind FINDCONTENT and OFFER, the four '
                'response processors, handleOfferedContents, the adapters\' Get/Put, the three validators (by input shape) and TraverseTrieNode. With a '
                'length / nil guard at each of the 16 unguarded accesses found, no input of any length reaches panic, the talk handler answers empty or '
                'with the response code of the request, and the only peer-bounded loop makes at most stored+1 look-ups; for each unguarded access a decided '
                'witness input reaches panic at the named site. The real code is compared by outcome class on ~14k generated inputs per run (168k in the thorough tier) (boundary '
                'lengths, all codes/selectors, mutations, random) against real adapters over pebble, and attacked over the in-memory discv5 link in child '
                'processes (empty TALKREQ, empty keys, short summaries keys, which killed the node before the repairs; uTP packet fuzz followed by a real transfer). '
                'All 16 accesses are now guarded in /repo (fix commits in known_findings.json): the run compares the real code with the model with every switch '
                'off, and any panic, wedge or dead child process is a violation.',
        'note': TB + 'partial: panics or blocking inside dependencies (rlp, zrnt/ztyp, blst, pebble, utp-go) are only sampled; validators and the state adapter\'s Put are '
                'modelled by shape, not byte for byte; blocking of the uTP talk handler on a full 1024-slot channel and send-on-closed-channel after Stop are not exhibited. '
                'On the unrepaired tree the check fails with one clause per site (no_panic@<function>:<kind>, no_remote_kill@...), which is the finding.',
        'technique': 'Lean 4 decision-logic proofs with explicit panic outcomes and quirk switches + differential correspondence (outcome classes) + in-process and over-the-wire attack harness',
    },
}
