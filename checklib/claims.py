"""Texts of the claims made in MANIFEST.json, per property."""
HOOK_COMMITS = ['78ce041']

NOT_APPLICABLE = {}

TB = ('Trusted: Lean 4.33.0 kernel; axioms propext/Classical.choice/Quot.sound only (audited on every run, no sorry/native_decide); '
      'the Go harness + Lean driver (differential correspondence, bounded by generator quality); ')

CLAIMS = {
    'C15': {
        'text': 'Machine-checked Lean 4 theorems (all item lists, all byte strings, no size bound) about an executable model of the '
                'LEB128 framing: round trip, truncation never re-splits, over-long prefix and 32-bit varint overflow rejected, exact '
                'single-item framing. The model is tied to the Go code on every run by step equality on ~20k generated cases '
                '(encoders and decoders both directions, edge varints, mutations).',
        'note': TB + 'wabin leb128 and Go slice semantics are modelled (re-implemented in Lean) and validated by the correspondence run.',
        'technique': 'Lean 4 proof (induction over lists / strong induction on the varint value) + differential correspondence',
    },
}
