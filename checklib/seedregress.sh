#!/bin/bash
# usage: seedregress.sh [jobs]  — every kept seeded defect again, against the CURRENT machinery: a scratch worktree of /repo's HEAD
# per seed with seeded/<tag>/patch.diff applied, the quick check of the seed's property from a scratch copy of /verif
# (as checklib/seedtest_wt.sh does). Prints one line per seed; a seed that is no longer caught shows rc=0.
jobs=${1:-6}
one() {
  tag=$1
  prop=$(python3 -c "import json;print(json.load(open('/verif/seeded/$tag/meta.json'))['property'])")
  tier=quick; grep -q "THOROUGH" /verif/seeded/$tag/meta.json && tier=thorough   # a seed only the thorough tier catches
  wt=/tmp/wt/reg-$tag; vs=/tmp/vs/reg-$tag
  rm -rf $wt $vs; git -C /repo worktree add -q --detach $wt HEAD 2>/dev/null || { echo "$tag $prop worktree-failed"; return; }
  if ! git -C $wt apply /verif/seeded/$tag/patch.diff 2>/dev/null; then
    if ! git -C $wt apply --3way /verif/seeded/$tag/patch.diff 2>/dev/null; then echo "$tag $prop noapply"; git -C /repo worktree remove --force $wt; return; fi
  fi
  mkdir -p $vs; rsync -a --exclude .git --exclude /build --exclude '/replays/*' --exclude /harness/bin --exclude /seeded --exclude /neutral /verif/ $vs/ 2>/dev/null
  sed -i "s#^replace github.com/zen-eth/shisui => /repo#replace github.com/zen-eth/shisui => $wt#" $vs/harness/go.mod
  ( cd $vs && VERIF_REPO=$wt ./check $prop --tier $tier > /tmp/reg_$tag.out 2>&1 ); rc=$?
  v=$(grep -c "^VIOLATION" /tmp/reg_$tag.out); nf=$(grep -c "no-failing-input-found" /tmp/reg_$tag.out)
  cl=$(grep -o "clause=[a-zA-Z_@.:0-9]*" $vs/replays/$prop-$tier-1.txt 2>/dev/null | sort | uniq -c | sort -rn | head -1 | awk '{print $2}')
  echo "$tag $prop $tier rc=$rc violation=$v nofailinginput=$nf $cl"
  rm -rf $vs; git -C /repo worktree remove --force $wt
}
export -f one
ls /verif/seeded | xargs -P $jobs -I{} bash -c 'one {}'
