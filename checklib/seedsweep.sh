#!/bin/bash
# usage: seedsweep.sh "<seeds>" [props...]  — quick tier of every claimed property for several VERIF_SEED values on the
# UNCHANGED tree; prints only runs that exit non-zero (false alarms to investigate). Restores evidence/ afterwards.
seeds=$1; shift
props="$@"
[ -z "$props" ] && props=$(python3 -c "import json;print(' '.join(c['property_id'] for c in json.load(open('/verif/MANIFEST.json'))['checks']))")
cd /verif
for s in $seeds; do
  for p in $props; do
    out=$(VERIF_SEED=$s ./check $p --tier quick 2>&1); rc=$?
    if [ $rc -ne 0 ]; then echo "== seed=$s $p rc=$rc"; echo "$out" | tail -4 | cut -c1-400; cp replays/$p-quick-$s.txt /tmp/falsealarm-$p-$s.txt 2>/dev/null; fi
  done
done
git checkout -- evidence/ 2>/dev/null
echo "sweep done: seeds=[$seeds]"
