#!/usr/bin/env python3
"""Rewrites the seeded-defects table of DESIGN.md section 0.7 from seeded/*/meta.json (via seedtable.py)."""
import subprocess, re
t = subprocess.run(['python3', '/verif/checklib/seedtable.py'], capture_output=True, text=True, check=True).stdout.rstrip('\n') + '\n'
s = open('/verif/DESIGN.md').read()
i = s.index('| seed | property | site |')
j = s.index('Four further agent results')
open('/verif/DESIGN.md', 'w').write(s[:i] + t + s[j:])
print('DESIGN.md 0.7 table:', len(t.splitlines()) - 2, 'seeds')
