#!/bin/sh
# T1: regenerate lean/Shisui/Gen/Consts.lean from the current /repo working tree (constants through the verif hooks,
# i.e. exactly the values the Go compiler uses). Called by ./check before the Lean build.
set -e
cd "$(dirname "$0")/.."
export GOFLAGS=-mod=mod GOPROXY=off
unset GOSUMDB GOTOOLCHAIN || true
REPO=${VERIF_REPO:-/repo}
cp "$REPO/go.sum" harness/go.sum
rm -f lean/Shisui/Gen/Consts.lean
(cd harness && go build -tags verif -o bin/harness-consts . )
./harness/bin/harness-consts consts | grep -v '^# ' > lean/Shisui/Gen/Consts.lean
echo "regenerated lean/Shisui/Gen/Consts.lean ($(grep -c '^def' lean/Shisui/Gen/Consts.lean) constants)"
