/-! C02 prototype: history content validation as decision logic over abstract observations. -/
namespace Hv

structure Hdr where
  hash : Nat
  number : Nat
  txRoot : Nat
  uncleRoot : Nat
  wdRoot : Option Nat          -- header.WithdrawalsHash (nil before Shanghai)
  receiptRoot : Nat
deriving DecidableEq, Repr

structure Body where           -- roots recomputed from the decoded body
  txRoot : Nat
  uncleRoot : Nat
  wdRoot : Option Nat          -- none: legacy encoding (no withdrawals list)
deriving DecidableEq, Repr

inductive Key where
  | headerByHash (h : Nat) | headerByNumber (n : Nat) | body (h : Nat) | receipts (h : Nat)
deriving DecidableEq, Repr

inductive Content where
  | header (h : Hdr) (proofOk : Bool)      -- decoded header + verdict of the C03 proof check
  | body (b : Body)
  | receipts (root : Nat) (empty : Bool)   -- recomputed receipt root; whether the content bytes are empty
  | undecodable
deriving DecidableEq, Repr

structure Quirks where
  oracleUnbound : Bool := false            -- looked-up header not compared with the requested hash
  legacyBodySkipsWithdrawals : Bool := false
  nilWithdrawalsHashDeref : Bool := false  -- C01: Shanghai body under a pre-Shanghai header panics

inductive Out | ok | err | panic
deriving DecidableEq, Repr

def emptyReceiptRoot : Nat := 0

/-- header source as the validator sees it -/
def lookup (q : Quirks) (oracle : Nat → Option Hdr) (h : Nat) : Option Hdr :=
  match oracle h with
  | some hd => if q.oracleUnbound || hd.hash = h then some hd else none
  | none => none

def validate (q : Quirks) (oracle : Nat → Option Hdr) : Key → Content → Out
  | .headerByHash h, .header hd ok => if hd.hash = h ∧ ok then .ok else .err
  | .headerByNumber n, .header hd ok => if hd.number = n ∧ ok then .ok else .err
  | .body h, .body b =>
    match lookup q oracle h with
    | none => .err
    | some hd =>
      if b.uncleRoot ≠ hd.uncleRoot then .err
      else if b.txRoot ≠ hd.txRoot then .err
      else match b.wdRoot, hd.wdRoot with
        | none, none => .ok
        | none, some _ => if q.legacyBodySkipsWithdrawals then .ok else .err
        | some _, none => if q.nilWithdrawalsHashDeref then .panic else .err
        | some w, some w' => if w = w' then .ok else .err
  | .receipts h, .receipts root empty =>
    match lookup q oracle h with
    | none => .err
    | some hd =>
      if hd.receiptRoot = emptyReceiptRoot then (if empty then .ok else .err)
      else if root = hd.receiptRoot then .ok else .err
  | _, _ => .err

/-- what "bound to its key" means: relative to *a header whose hash is the key's* -/
def Bound (key : Key) (c : Content) : Prop :=
  match key, c with
  | .headerByHash h, .header hd ok => hd.hash = h ∧ ok = true
  | .headerByNumber n, .header hd ok => hd.number = n ∧ ok = true
  | .body h, .body b => ∃ hd : Hdr, hd.hash = h ∧ b.txRoot = hd.txRoot ∧ b.uncleRoot = hd.uncleRoot ∧ b.wdRoot = hd.wdRoot
  | .receipts h, .receipts root empty =>
      ∃ hd : Hdr, hd.hash = h ∧ (if hd.receiptRoot = emptyReceiptRoot then empty = true else root = hd.receiptRoot)
  | _, _ => False

theorem lookup_bound (oracle : Nat → Option Hdr) (h : Nat) (hd : Hdr) (hl : lookup {} oracle h = some hd) : hd.hash = h := by
  unfold lookup at hl
  split at hl
  · rename_i hd' _
    split at hl
    · rename_i hc
      simp only [Option.some.injEq] at hl
      subst hl
      simpa using hc
    · simp at hl
  · simp at hl

/-- C01 for this validator (ideal model): no input makes it panic -/
theorem never_panics (oracle : Nat → Option Hdr) (key : Key) (c : Content) :
    validate {} oracle key c ≠ .panic := by
  cases key <;> cases c <;> simp only [validate] <;> (repeat' split) <;> simp_all

/-- C02 (ideal model): accepted ⇒ bound, for every header source however it lies -/
theorem accept_sound (oracle : Nat → Option Hdr) (key : Key) (c : Content)
    (hv : validate {} oracle key c = .ok) : Bound key c := by
  cases key with
  | headerByHash h =>
    cases c <;> simp only [validate] at hv <;> try (simp at hv)
    rename_i hd ok
    simp only [Bound]
    exact hv
  | headerByNumber n =>
    cases c <;> simp only [validate] at hv <;> try (simp at hv)
    rename_i hd ok
    simp only [Bound]
    exact hv
  | body h =>
    cases c <;> simp only [validate] at hv <;> try (simp at hv)
    rename_i b
    simp only [Bound]
    cases hl : lookup {} oracle h with
    | none => simp [hl] at hv
    | some hd =>
      have hb := lookup_bound oracle h hd hl
      simp only [hl] at hv
      by_cases hu : b.uncleRoot = hd.uncleRoot
      · by_cases ht : b.txRoot = hd.txRoot
        · refine ⟨hd, hb, ht, hu, ?_⟩
          simp only [hu, ht, ne_eq, not_true_eq_false, if_false] at hv
          cases hbw : b.wdRoot <;> cases hhw : hd.wdRoot <;> simp [hbw, hhw] at hv ⊢
          exact hv
        · simp [hu, ht] at hv
      · simp [hu] at hv
  | receipts h =>
    cases c <;> simp only [validate] at hv <;> try (simp at hv)
    rename_i root empty
    simp only [Bound]
    cases hl : lookup {} oracle h with
    | none => simp [hl] at hv
    | some hd =>
      have hb := lookup_bound oracle h hd hl
      simp only [hl] at hv
      refine ⟨hd, hb, ?_⟩
      split at hv
      · rename_i he; simp only [he, if_true]; split at hv <;> simp_all
      · rename_i he; simp only [he, if_false]; split at hv <;> simp_all

/-- as implemented: a lying header source gets a forged body accepted -/
theorem quirk_oracle_unbound_breaks_C02 :
    let forged : Hdr := { hash := 999, number := 1, txRoot := 7, uncleRoot := 8, wdRoot := none, receiptRoot := 9 }
    validate { oracleUnbound := true } (fun _ => some forged) (.body 42) (.body { txRoot := 7, uncleRoot := 8, wdRoot := none }) = .ok := by
  decide

/-- as implemented: a body without its withdrawals is accepted for a header that commits to them -/
theorem quirk_legacy_body_breaks_C02 :
    let hd : Hdr := { hash := 42, number := 18000000, txRoot := 7, uncleRoot := 8, wdRoot := some 5, receiptRoot := 9 }
    validate { legacyBodySkipsWithdrawals := true } (fun _ => some hd) (.body 42) (.body { txRoot := 7, uncleRoot := 8, wdRoot := none }) = .ok := by
  decide

#print axioms accept_sound
#print axioms never_panics
end Hv
