import Shisui.Trie.ValidateThm
/-! A tiny environment for the non-vacuity examples and the quirk witnesses of `Props/C13.lean`:
    identity "hash", four nodes given by a table. -/
namespace Spv.Witness
open Spv Tr

/-- a tiny environment for the witnesses: identity "hash", three nodes given by a table -/
def toy : Env :=
  { hashOf := id,
    decodeN := fun e =>
      if e = [1] then some (.short [5, 6, 16] (.value [2]))         -- leaf 5,6 ↦ value [2]
      else if e = [2] then some (.short [5, 6] (.hash [3]))          -- extension 5,6 → [3]
      else if e = [4] then some (.full [.empty, .empty, .empty, .hash [1]])   -- branch: nibble 3 → [1]
      else if e = [7] then some (.short [] .empty)                   -- c2 80 80
      else none,
    decodeAcct := fun b => if b = [1] then some { nonce := 0, balance := 0, root := [], codeHash := [] } else none,
    emptyRoot := [0], emptyCode := [0] }

def toyOracle : Bytes → Option Bytes := fun bh => if bh = [9] then some [4] else none

/-- non-vacuity: an honest two-node proof (branch → leaf) is accepted and its final node stored -/
def honestItem : Item :=
  { keyType := 0x20, path := [3], nodeHash := [1], addrHash := [], proof := [[4], [1]], acctProof := [], code := [],
    blockHash := [9] }

/-! evaluation of the traversal on the toy nodes -/
theorem ext_nil : traverseT (.short [5, 6] (.hash [3])) [] = .panic := by
  rw [Tr.traverseT_short_ext _ _ _ 6 rfl (by decide)]; rfl
theorem ext_ok : traverseT (.short [5, 6] (.hash [3])) [5, 6] = .ok .ref [3] [] := by
  have := Tr.traverseT_ext [5, 6] (.hash [3]) [] (by simp) (by simp)
  simp only [List.append_nil] at this
  rw [this]; simp [traverseT]
theorem leaf_ok : traverseT (.short [5, 6, 16] (.value [2])) [5, 6] = .ok .val [2] [5, 6] :=
  Tr.traverseT_leaf [5, 6] [2] (by simp)
theorem branch_ok : traverseT (.full [.empty, .empty, .empty, .hash [1]]) [3, 0] = .ok .ref [1] [0] := by
  simp [traverseT]


theorem toy_topLevel : TopLevel toy := by
  intro e n h x hx
  subst hx
  simp only [toy] at h
  repeat' (split at h)
  all_goals simp at h

/-- the honest two-node proof branch [4] → leaf [1] along path [3] -/
theorem honest_chain : Spv.validateTrieProof toy ideal [4] [3] ([[4]] ++ [[1]]) = .ok ([1], []) := by
  simp [Spv.validateTrieProof, chainGo, link, toy, traverseT]

end Spv.Witness
