import Shisui.Trie.Sound
namespace Tr

/-! `validateTrieProof` (state/validation.go:111-151) over abstract encoded nodes. -/

variable {Enc : Type} (hashOf : Enc → List Nat) (decodeN : Enc → Option Node)

inductive Res (α : Type) where
  | ok (a : α)
  | err
  | panic

/-- the loop: `node` is the current (already hash-checked) encoded node -/
def go (node : Enc) (path : List Nat) : List Enc → Res (Enc × List Nat)
  | [] => .ok (node, path)
  | next :: rest =>
    match decodeN node with
    | none => .err
    | some n =>
      match traverse n path with
      | .ok ref p => if hashOf next ≠ ref then .err else go next p rest
      | .err => .err
      | .panic => .panic

def validateTrieProof (root : List Nat) (path : List Nat) : List Enc → Res (Enc × List Nat)
  | [] => .err                                        -- "proof should not be empty"
  | first :: rest => if hashOf first ≠ root then .err else go hashOf decodeN first path rest

/-- specification: a chain of nodes, the first hashing to `root`, each next one being the reference
    reached by walking the previous one along the (remaining) path -/
inductive Linked : List Nat → List Nat → List Enc → Enc → List Nat → Prop where
  | single (root path e) : hashOf e = root → Linked root path [e] e path
  | cons (root path e n ref p e' more last rest) :
      hashOf e = root → decodeN e = some n → Reach n path ref p →
      Linked ref p (e' :: more) last rest → Linked root path (e :: e' :: more) last rest

theorem go_sound (node : Enc) (path : List Nat) (proof : List Enc) (last : Enc) (rest : List Nat)
    (hroot : List Nat) (hh : hashOf node = hroot)
    (h : go hashOf decodeN node path proof = .ok (last, rest)) :
    Linked hashOf decodeN hroot path (node :: proof) last rest := by
  induction proof generalizing node path hroot with
  | nil =>
    simp only [go, Res.ok.injEq, Prod.mk.injEq] at h
    obtain ⟨rfl, rfl⟩ := h
    exact .single _ _ _ hh
  | cons next more ih =>
    simp only [go] at h
    cases hd : decodeN node with
    | none => simp [hd] at h
    | some n =>
      simp only [hd] at h
      cases ht : traverse n path with
      | err => simp [ht] at h
      | panic => simp [ht] at h
      | ok ref p =>
        simp only [ht] at h
        split at h
        · simp at h
        · rename_i hne
          have hne' : hashOf next = ref := by simpa using hne
          exact .cons _ _ _ n ref p next more last rest hh hd (traverse_sound n path ref p ht)
            (ih next p ref hne' h)

theorem go_complete (root path : List Nat) (proof : List Enc) (last : Enc) (rest : List Nat)
    (h : Linked hashOf decodeN root path proof last rest) :
    ∃ node more, proof = node :: more ∧ hashOf node = root ∧ go hashOf decodeN node path more = .ok (last, rest) := by
  induction h with
  | single root path e he => exact ⟨e, [], rfl, he, by simp [go]⟩
  | cons root path e n ref p e' more last rest he hd hr _ ih =>
    obtain ⟨node, more', hp, hh, hg⟩ := ih
    simp only [List.cons.injEq] at hp
    obtain ⟨rfl, rfl⟩ := hp
    refine ⟨e, e' :: more, rfl, he, ?_⟩
    simp only [go, hd, traverse_complete n path ref p hr, hh, ne_eq, not_true_eq_false, if_false]
    exact hg

/-- C13: the proof check succeeds exactly for hash-linked chains from the state root along the path -/
theorem validateTrieProof_iff (root path : List Nat) (proof : List Enc) (last : Enc) (rest : List Nat) :
    validateTrieProof hashOf decodeN root path proof = .ok (last, rest) ↔
      Linked hashOf decodeN root path proof last rest := by
  constructor
  · intro h
    cases proof with
    | nil => simp [validateTrieProof] at h
    | cons first more =>
      simp only [validateTrieProof] at h
      split at h
      · simp at h
      · rename_i hne
        exact go_sound hashOf decodeN first path more last rest root (by simpa using hne) h
  · intro h
    obtain ⟨node, more, rfl, hh, hg⟩ := go_complete hashOf decodeN root path proof last rest h
    simp only [validateTrieProof, hh, ne_eq, not_true_eq_false, if_false]
    exact hg

#print axioms validateTrieProof_iff
end Tr
