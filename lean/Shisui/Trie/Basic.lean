/-! Prototype of `state/trie/utils.go: TraverseTrieNode` with Go's unchecked accesses as `panic`,
    and an inductive specification of "walking the node along the path reaches this reference". -/
namespace Tr

inductive Node where
  | full (children : List Node)          -- 17 slots in Go; slot 16 is the value slot
  | short (key : List Nat) (val : Node)  -- hex key, last nibble 16 = terminator (leaf)
  | hash (h : List Nat)
  | value (v : List Nat)
  | empty                                -- Go nil child

inductive Outcome where
  | ok (ref : List Nat) (rest : List Nat)
  | err
  | panic
deriving DecidableEq, Repr

/-- the `for index, key := range v.Key { if path[index] != key ...}` loop -/
def matchKey : List Nat → List Nat → Outcome
  | [], path => .ok [] path
  | _ :: _, [] => .panic                      -- path[index] out of range
  | k :: ks, p :: ps => if p ≠ k then .err else matchKey ks ps

theorem matchKey_ok (key path : List Nat) (r rest : List Nat) (h : matchKey key path = .ok r rest) :
    path = key ++ rest ∧ r = [] := by
  induction key generalizing path with
  | nil => simp [matchKey] at h; exact ⟨by simp [h.2], h.1⟩
  | cons k ks ih =>
    cases path with
    | nil => simp [matchKey] at h
    | cons p ps =>
      simp only [matchKey] at h
      split at h
      · simp at h
      · rename_i hpk
        have hpk' : p = k := by simpa using hpk
        obtain ⟨h1, h2⟩ := ih ps h
        exact ⟨by simp [hpk', h1], h2⟩

theorem matchKey_append (key rest : List Nat) : matchKey key (key ++ rest) = .ok [] rest := by
  induction key with
  | nil => rfl
  | cons k ks ih => simp [matchKey, ih]

def traverse (n : Node) (path : List Nat) : Outcome :=
  match n, path with
  | .full _, [] => .err
  | .full cs, p :: ps =>
    match cs[p]? with
    | none => .panic
    | some c => traverse c ps
  | .short key val, path =>
    match hg : key.getLast? with
    | none => .panic                                   -- v.Key[length-1] with length 0
    | some last =>
      if last = 16 then
        if key.dropLast = [] then .err
        else if key.dropLast ≠ path then .err
        else match val with
          | .value v => .ok v path
          | _ => .panic                                -- (v.Val).(valueNode)
      else
        match hm : matchKey key path with
        | .ok _ rest => traverse val rest
        | .err => .err
        | .panic => .panic
  | .hash h, path => .ok h path
  | .value _, _ => .err
  | .empty, _ => .err
termination_by path.length
decreasing_by
  · simp
  · have := matchKey_ok key path _ rest hm
    have hk : key ≠ [] := by
      intro h; subst h; simp at hg
    have : 0 < key.length := List.length_pos_iff.mpr hk
    rw [‹path = key ++ rest ∧ _›.1]
    simp; omega

/-- specification: walking `n` along `path` ends at reference `ref` with `rest` of the path unconsumed -/
inductive Reach : Node → List Nat → List Nat → List Nat → Prop where
  | hash (h path) : Reach (.hash h) path h path
  | full (cs p ps c ref rest) : cs[p]? = some c → Reach c ps ref rest → Reach (.full cs) (p :: ps) ref rest
  | ext (key val rest' ref rest) : key ≠ [] → key.getLast? ≠ some 16 →
      Reach val rest' ref rest → Reach (.short key val) (key ++ rest') ref rest
  | leaf (pre v) : pre ≠ [] → Reach (.short (pre ++ [16]) (.value v)) pre v pre

end Tr
