import Shisui.Trie.Sound
/-! `TraverseTrieNode` returns one `[]byte` both for a child reference (`hashNode`) and for a leaf value
    (`valueNode`). The property distinguishes them ("each following node is the child the previous one
    references"), so this file repeats the traversal with the kind of the hit made explicit, proves that
    forgetting the kind gives back `Tr.traverse` (the function validated against the Go code), and
    characterises it by a tagged walk relation. -/
namespace Tr

inductive Hit where
  | ref   -- a 32-byte child reference (Go `hashNode`)
  | val   -- the value of a leaf (Go `valueNode`)
deriving DecidableEq, Repr

inductive OutT where
  | ok (k : Hit) (bytes : List Nat) (rest : List Nat)
  | err
  | panic
deriving DecidableEq, Repr

def OutT.erase : OutT → Outcome
  | .ok _ b r => .ok b r
  | .err => .err
  | .panic => .panic

def traverseT (n : Node) (path : List Nat) : OutT :=
  match n, path with
  | .full _, [] => .err
  | .full cs, p :: ps =>
    match cs[p]? with
    | none => .panic
    | some c => traverseT c ps
  | .short key val, path =>
    match hg : key.getLast? with
    | none => .panic                                   -- v.Key[length-1] with length 0
    | some last =>
      if last = 16 then
        if key.dropLast = [] then .err
        else if key.dropLast ≠ path then .err
        else match val with
          | .value v => .ok .val v path
          | _ => .panic                                -- (v.Val).(valueNode)
      else
        match hm : matchKey key path with
        | .ok _ rest => traverseT val rest
        | .err => .err
        | .panic => .panic                             -- path[index] beyond the end of the path
  | .hash h, path => .ok .ref h path
  | .value _, _ => .err
  | .empty, _ => .err
termination_by path.length
decreasing_by
  · simp
  · have := matchKey_ok key path _ rest hm
    have hk : key ≠ [] := by
      intro h; subst h; simp at hg
    have : 0 < key.length := List.length_pos_iff.mpr hk
    rw [‹path = key ++ rest ∧ _›.1]
    simp; omega

/-- forgetting the kind of the hit gives the function that was compared with `TraverseTrieNode` -/
theorem traverseT_erase (n : Node) (path : List Nat) : (traverseT n path).erase = traverse n path := by
  fun_induction traverseT n path with
  | case1 => simp [traverse, OutT.erase]
  | case2 cs p ps hc => rw [traverse.eq_def]; simp [hc, OutT.erase]
  | case3 cs p ps c hc ih => rw [traverse.eq_def]; simp [hc, ih]
  | case4 key val path hg => rw [traverse.eq_def]; simp only; split <;> simp_all [OutT.erase]
  | case5 key val path hd hg =>
    rw [traverse.eq_def]; simp only; split
    · simp_all
    · rename_i last hl; simp_all [OutT.erase]
  | case6 key val path hd hne hg =>
    rw [traverse.eq_def]; simp only; split
    · simp_all
    · rename_i last hl; simp_all [OutT.erase]
  | case7 key path hd hne v hg =>
    rw [traverse.eq_def]; simp only; split
    · simp_all
    · rename_i last hl; simp_all [OutT.erase]
  | case8 key val path hd hne hv hg =>
    rw [traverse.eq_def]; simp only; split
    · simp_all
    · rename_i last hl
      have : last = 16 := by simp_all
      subst this
      simp only [if_true, hd, hne, if_false]
      first
        | rfl
        | (split
           · rename_i v; exact absurd rfl (hv v)
           · simp [OutT.erase])
  | case9 key val path last hg hl r rest' hm ih =>
    rw [traverse.eq_def]; simp only; split
    · simp_all
    · rename_i last' hl'
      have : last' = last := by simp_all
      subst this
      simp only [hl, if_false]
      split
      · rename_i r2 rest2 hm2
        rw [hm] at hm2
        simp only [Outcome.ok.injEq] at hm2
        rw [← hm2.2]; exact ih
      · rename_i hm2; rw [hm] at hm2; simp at hm2
      · rename_i hm2; rw [hm] at hm2; simp at hm2
  | case10 key val path last hg hl hm =>
    rw [traverse.eq_def]; simp only; split
    · simp_all
    · rename_i last' hl'
      have : last' = last := by simp_all
      subst this
      simp only [hl, if_false]
      split
      · rename_i r2 rest2 hm2; rw [hm] at hm2; simp at hm2
      · simp [OutT.erase]
      · rename_i hm2; rw [hm] at hm2; simp at hm2
  | case11 key val path last hg hl hm =>
    rw [traverse.eq_def]; simp only; split
    · simp_all
    · rename_i last' hl'
      have : last' = last := by simp_all
      subst this
      simp only [hl, if_false]
      split
      · rename_i r2 rest2 hm2; rw [hm] at hm2; simp at hm2
      · rename_i hm2; rw [hm] at hm2; simp at hm2
      · simp [OutT.erase]
  | case12 hh path => simp [traverse, OutT.erase]
  | case13 => simp [traverse, OutT.erase]
  | case14 => simp [traverse, OutT.erase]

/-- tagged walk: `ReachT n path k bytes rest` — walking `n` along `path` ends at a child reference (`k = ref`) with
    `rest` unconsumed, or at the value of a leaf whose key is exactly the remaining path (`k = val`; Go returns that
    remaining path unchanged) -/
inductive ReachT : Node → List Nat → Hit → List Nat → List Nat → Prop where
  | hash (h path) : ReachT (.hash h) path .ref h path
  | full (cs p ps c k b rest) : cs[p]? = some c → ReachT c ps k b rest → ReachT (.full cs) (p :: ps) k b rest
  | ext (key val rest' k b rest) : key ≠ [] → key.getLast? ≠ some 16 →
      ReachT val rest' k b rest → ReachT (.short key val) (key ++ rest') k b rest
  | leaf (pre v) : pre ≠ [] → ReachT (.short (pre ++ [16]) (.value v)) pre .val v pre

theorem traverseT_sound (n : Node) (path : List Nat) (k : Hit) (b rest : List Nat) :
    traverseT n path = .ok k b rest → ReachT n path k b rest := by
  fun_induction traverseT n path with
  | case1 => intro h; simp at h
  | case2 cs p ps hc => intro h; simp at h
  | case3 cs p ps c hc ih => intro h; exact .full cs p ps c k b rest hc (ih h)
  | case4 key val path hg => intro h; simp at h
  | case5 key val path hd hg => intro h; simp at h
  | case6 key val path hd hne hg => intro h; simp at h
  | case7 key path hd hne v hg =>
    intro h
    simp only [OutT.ok.injEq] at h
    obtain ⟨rfl, rfl, rfl⟩ := h
    have hne' : key.dropLast = path := by simpa using hne
    obtain ⟨ys, rfl⟩ := List.getLast?_eq_some_iff.mp hg
    simp only [List.dropLast_concat] at hne' hd
    subst hne'
    exact .leaf ys v hd
  | case8 key val path hd hne hv hg => intro h; simp at h
  | case9 key val path last hg hl r rest' hm ih =>
    intro h
    obtain ⟨hp, _⟩ := matchKey_ok key path r rest' hm
    rw [hp]
    refine .ext key val rest' k b rest ?_ ?_ (ih h)
    · intro hk; subst hk; simp at hg
    · rw [hg]; simpa using hl
  | case10 => intro h; simp at h
  | case11 => intro h; simp at h
  | case12 hh path => intro h; simp only [OutT.ok.injEq] at h; obtain ⟨rfl, rfl, rfl⟩ := h; exact .hash _ _
  | case13 => intro h; simp at h
  | case14 => intro h; simp at h

theorem traverseT_ext (key : List Nat) (val : Node) (rest' : List Nat) (hk : key ≠ [])
    (hl : key.getLast? ≠ some 16) : traverseT (.short key val) (key ++ rest') = traverseT val rest' := by
  rw [traverseT.eq_def]
  simp only
  split
  · rename_i hg; simp at hg; exact absurd hg hk
  · rename_i last hg
    have hne : last ≠ 16 := by intro h; subst h; exact hl hg
    simp only [hne, if_false]
    split
    · rename_i r rs hm
      rw [matchKey_append] at hm
      simp only [Outcome.ok.injEq] at hm
      rw [← hm.2]
    · rename_i hm; rw [matchKey_append] at hm; simp at hm
    · rename_i hm; rw [matchKey_append] at hm; simp at hm

theorem traverseT_leaf (pre v : List Nat) (hp : pre ≠ []) :
    traverseT (.short (pre ++ [16]) (.value v)) pre = .ok .val v pre := by
  rw [traverseT]
  split
  · rename_i hg; simp at hg
  · rename_i last hg
    have : last = 16 := by simpa using hg.symm
    subst this
    simp [hp]

theorem traverseT_complete (n : Node) (path : List Nat) (k : Hit) (b rest : List Nat)
    (h : ReachT n path k b rest) : traverseT n path = .ok k b rest := by
  induction h with
  | hash h path => simp [traverseT]
  | full cs p ps c k b rest hc _ ih => rw [traverseT]; simp [hc, ih]
  | ext key val rest' k b rest hk hl _ ih => rw [traverseT_ext key val rest' hk hl]; exact ih
  | leaf pre v hp => exact traverseT_leaf pre v hp

theorem traverseT_iff (n : Node) (path : List Nat) (k : Hit) (b rest : List Nat) :
    traverseT n path = .ok k b rest ↔ ReachT n path k b rest :=
  ⟨traverseT_sound n path k b rest, traverseT_complete n path k b rest⟩

/-- a walk that ends at a child reference leaves a suffix of the path -/
theorem ReachT_suffix {n : Node} {path : List Nat} {k : Hit} {b rest : List Nat} (h : ReachT n path k b rest) :
    ∃ pre, path = pre ++ rest := by
  induction h with
  | hash h path => exact ⟨[], rfl⟩
  | full cs p ps c k b rest _ _ ih => obtain ⟨pre, hp⟩ := ih; exact ⟨p :: pre, by simp [hp]⟩
  | ext key val rest' k b rest _ _ _ ih => obtain ⟨pre, hp⟩ := ih; exact ⟨key ++ pre, by simp [hp]⟩
  | leaf pre v _ => exact ⟨[], rfl⟩

/-- from a branch or short node, reaching a child REFERENCE consumes at least one nibble -/
theorem ReachT_ref_consumes {n : Node} {path : List Nat} {b rest : List Nat} (h : ReachT n path .ref b rest)
    (hn : ∀ x, n ≠ .hash x) : rest.length < path.length := by
  cases h with
  | hash h path => exact absurd rfl (hn _)
  | full cs p ps c k b rest hc h' =>
    obtain ⟨pre, hp⟩ := ReachT_suffix h'
    simp [hp]; omega
  | ext key val rest' k b rest hk hl h' =>
    obtain ⟨pre, hp⟩ := ReachT_suffix h'
    have : 0 < key.length := List.length_pos_iff.mpr hk
    simp [hp]; omega

theorem ReachT_nil_is_hash {n : Node} {path : List Nat} {k : Hit} {b rest : List Nat} (h : ReachT n path k b rest)
    (hp : path = []) : ∃ x, n = .hash x := by
  cases h with
  | hash h path => exact ⟨_, rfl⟩
  | full cs p ps c k b rest hc h' => simp at hp
  | ext key val rest' k b rest hk hl h' => simp at hp; exact absurd hp.1 hk
  | leaf pre v hne => exact absurd hp hne

/-- with nothing left of the path no branch or short node yields anything: `TraverseTrieNode(n, [])` is never ok -/
theorem traverseT_nil_not_ok (n : Node) (hn : ∀ x, n ≠ .hash x) (k : Hit) (b rest : List Nat) :
    traverseT n [] ≠ .ok k b rest := by
  intro h
  obtain ⟨x, hx⟩ := ReachT_nil_is_hash (traverseT_sound n [] k b rest h) rfl
  exact hn x hx

/-- a short node with an empty hex key: `v.Key[length-1]` with length 0 -/
theorem traverseT_empty_key (val : Node) (path : List Nat) : traverseT (.short [] val) path = .panic := by
  rw [traverseT.eq_def]
  simp only
  split
  · rfl
  · rename_i last hg; simp at hg

/-- an extension node (key not ending in the terminator): the result is decided by the key-matching loop -/
theorem traverseT_short_ext (key : List Nat) (val : Node) (path : List Nat) (last : Nat)
    (hg : key.getLast? = some last) (hl : last ≠ 16) :
    traverseT (.short key val) path =
      match matchKey key path with
      | .ok _ rest => traverseT val rest
      | .err => .err
      | .panic => .panic := by
  rw [traverseT.eq_def]
  simp only
  split
  · rename_i hn; rw [hg] at hn; simp at hn
  · rename_i last' hg'
    have : last' = last := by rw [hg] at hg'; simpa using hg'.symm
    subst this
    simp only [hl, if_false]
    split <;> rename_i hm <;> simp [hm]

#print axioms traverseT_erase
#print axioms traverseT_iff
end Tr
