import Shisui.Trie.Basic
/-! Executable model of the byte-level decoders the state validator runs on peer-supplied proof nodes:
    go-ethereum `rlp/raw.go` (`readKind`, `readSize`, `Split`, `SplitString`, `SplitList`, `CountValues`),
    `state/trie/encoding.go: compactToHex`, `state/trie/node.go: decodeNodeUnsafe / decodeShort / decodeFull / decodeRef`,
    and `types.FullAccount` (rlp stream decoding of the four-field slim account). Bytes are `Nat`s < 256.
    Errors are `none`; only ok/error is observable through the validator. -/
namespace Tr

inductive Kind where
  | byte | str | list
deriving DecidableEq, Repr

/-- big-endian value of a byte string -/
def beNat (l : List Nat) : Nat := l.foldl (fun a b => a * 256 + b) 0

/-- `rlp.readSize`: `slen` size bytes follow the tag; sizes below 56 and sizes with a leading zero byte are rejected -/
def readSize (b : List Nat) (slen : Nat) : Option Nat :=
  if slen > b.length then none
  else if beNat (b.take slen) < 56 || b.head? == some 0 then none
  else some (beNat (b.take slen))

/-- tag-dependent part of `rlp.readKind`: (kind, tagsize, contentsize) -/
def readTag (b : Nat) (tl : List Nat) : Option (Kind × Nat × Nat) :=
  if b < 0x80 then some (.byte, 0, 1)
  else if b < 0xB8 then
    if b - 0x80 == 1 && (match tl with | c :: _ => decide (c < 128) | [] => false) then none
    else some (.str, 1, b - 0x80)
  else if b < 0xC0 then (readSize tl (b - 0xB7)).map fun s => (Kind.str, b - 0xB7 + 1, s)
  else if b < 0xF8 then some (.list, 1, b - 0xC0)
  else (readSize tl (b - 0xF7)).map fun s => (Kind.list, b - 0xF7 + 1, s)

/-- `rlp.readKind`, including "Reject values larger than the input slice" -/
def readKind (buf : List Nat) : Option (Kind × Nat × Nat) :=
  match buf with
  | [] => none
  | b :: tl =>
    match readTag b tl with
    | none => none
    | some r => if r.2.2 > buf.length - r.2.1 then none else some r

/-- `rlp.Split`: (kind, content, rest) -/
def split (buf : List Nat) : Option (Kind × List Nat × List Nat) :=
  match readKind buf with
  | none => none
  | some r => some (r.1, (buf.drop r.2.1).take r.2.2, buf.drop (r.2.1 + r.2.2))

def splitString (buf : List Nat) : Option (List Nat × List Nat) :=
  match split buf with
  | some (k, c, rest) => if k == .list then none else some (c, rest)
  | none => none

def splitList (buf : List Nat) : Option (List Nat × List Nat) :=
  match split buf with
  | some (k, c, rest) => if k == .list then some (c, rest) else none
  | none => none

/-- `rlp.CountValues` (fuel = number of bytes; every value takes at least one byte) -/
def countValues : Nat → List Nat → Option Nat
  | _, [] => some 0
  | 0, _ :: _ => none
  | fuel + 1, b =>
    match readKind b with
    | none => none
    | some r => (countValues fuel (b.drop (r.2.1 + r.2.2))).map (· + 1)

def keybytesToHex (s : List Nat) : List Nat := s.flatMap (fun b => [b / 16, b % 16]) ++ [16]

/-- `compactToHex`: flag nibble < 2 drops the terminator, odd flag keeps one more nibble; flag values 4..15 are not
    rejected (they behave like 2/3) -/
def compactToHex (c : List Nat) : List Nat :=
  match c with
  | [] => []
  | c0 :: _ =>
    let base := keybytesToHex c
    let base := if c0 / 16 < 2 then base.dropLast else base
    base.drop (2 - (c0 / 16) % 2)

def hasTerm (k : List Nat) : Bool := k.getLast? == some 16

mutual
/-- `decodeNodeUnsafe` (bytes after the outer list are ignored, as in Go) -/
def decodeNodeF : Nat → List Nat → Option Node
  | 0, _ => none
  | fuel + 1, buf =>
    if buf.isEmpty then none else
    match splitList buf with
    | none => none
    | some (elems, _) =>
      match countValues elems.length elems with
      | some 2 =>
        match splitString elems with
        | none => none
        | some (kbuf, rest) =>
          if hasTerm (compactToHex kbuf) then
            match splitString rest with
            | some (v, _) => some (.short (compactToHex kbuf) (.value v))
            | none => none
          else
            match decodeRefF fuel rest with
            | some (r, _) => some (.short (compactToHex kbuf) r)
            | none => none
      | some 17 =>
        match decodeRefsF fuel 16 elems with
        | none => none
        | some (cs, rest) =>
          match splitString rest with
          | none => none
          | some (v, _) => some (.full (cs ++ [if v.isEmpty then .empty else .value v]))
      | _ => none
/-- `decodeRef`: embedded node (at most 32 bytes including its tag), empty string, or 32-byte hash -/
def decodeRefF : Nat → List Nat → Option (Node × List Nat)
  | 0, _ => none
  | fuel + 1, buf =>
    match split buf with
    | none => none
    | some (k, v, rest) =>
      if k == .list then
        if buf.length - rest.length > 32 then none
        else match decodeNodeF fuel buf with
          | some n => some (n, rest)
          | none => none
      else if k == .str && v.length == 0 then some (.empty, rest)
      else if k == .str && v.length == 32 then some (.hash v, rest)
      else none
/-- the `for i := 0; i < 16; i++ { decodeRef }` loop of `decodeFull` -/
def decodeRefsF : Nat → Nat → List Nat → Option (List Node × List Nat)
  | 0, _, _ => none
  | _ + 1, 0, buf => some ([], buf)
  | fuel + 1, n + 1, buf =>
    match decodeRefF fuel buf with
    | none => none
    | some (c, rest) =>
      match decodeRefsF fuel n rest with
      | some (cs, rest') => some (c :: cs, rest')
      | none => none
end

/-- `trie.DecodeTrieNode(nil, buf)`; the fuel bounds the nesting depth and the 16-step loop -/
def decodeNode (buf : List Nat) : Option Node := decodeNodeF (2 * buf.length + 40) buf

/-! ### `types.FullAccount`: rlp stream decoding of `SlimAccount{Nonce uint64; Balance *uint256.Int; Root, CodeHash []byte}` -/

structure Account where
  nonce : Nat
  balance : Nat
  root : List Nat       -- slim: as decoded (any length)
  codeHash : List Nat   -- slim: as decoded (any length)
deriving DecidableEq, Repr

/-- canonical unsigned integer of at most `maxBytes` bytes (`Stream.uint`, `Stream.ReadUint256`) -/
def uintItem (maxBytes : Nat) (k : Kind) (c : List Nat) : Option Nat :=
  if k == .list then none
  else if c.length > maxBytes then none
  else if c.head? == some 0 then none
  else some (beNat c)

/-- next element of a list payload: (kind, content, rest); `none` at the end of the list or on a malformed tag -/
def nextItem (payload : List Nat) : Option (Kind × List Nat × List Nat) := split payload

def decodeAccount (data : List Nat) : Option Account :=
  match readKind data with
  | some (.list, ts, cs) =>
    if ts + cs ≠ data.length then none else     -- ErrMoreThanOneValue
    match nextItem ((data.drop ts).take cs) with
    | none => none
    | some (k1, c1, r1) =>
      match uintItem 8 k1 c1, nextItem r1 with
      | some nonce, some (k2, c2, r2) =>
        match uintItem 32 k2 c2, nextItem r2 with
        | some bal, some (k3, c3, r3) =>
          if k3 == .list then none else
          match nextItem r3 with
          | some (k4, c4, r4) =>
            if k4 == .list then none
            else if r4 ≠ [] then none             -- "input list has too many elements"
            else some { nonce := nonce, balance := bal, root := c3, codeHash := c4 }
          | none => none
        | _, _ => none
      | _, _ => none
  | _ => none

/-- `common.BytesToHash`: keep the last 32 bytes, left-pad with zeros -/
def bytesToHash (b : List Nat) : List Nat :=
  let c := b.drop (b.length - 32)
  List.replicate (32 - c.length) 0 ++ c

end Tr
