import Shisui.Trie.Rlp
/-! Facts about the node decoder that the rejection theorems need. -/
namespace Tr

/-- `decodeNodeUnsafe` returns a short node or a full node, never a bare reference -/
theorem decodeNodeF_top (fuel : Nat) (buf : List Nat) (n : Node) (h : decodeNodeF fuel buf = some n) :
    (∃ k v, n = .short k v) ∨ (∃ cs, n = .full cs) := by
  cases fuel with
  | zero => simp [decodeNodeF] at h
  | succ f =>
    unfold decodeNodeF at h
    repeat' (split at h)
    all_goals first
      | (simp at h; done)
      | (simp only [Option.some.injEq] at h; subst h; exact .inl ⟨_, _, rfl⟩)
      | (simp only [Option.some.injEq] at h; subst h; exact .inr ⟨_, rfl⟩)

theorem decodeNode_top (buf : List Nat) (n : Node) (h : decodeNode buf = some n) : ∀ x, n ≠ .hash x := by
  intro x hx
  rcases decodeNodeF_top _ buf n h with ⟨k, v, rfl⟩ | ⟨cs, rfl⟩ <;> simp at hx

end Tr
