import Shisui.Trie.Validate
/-! Theorems about the state-validation model `Spv` (any hash function, any node/account decoder):
    acceptance ⇔ hash-linked chain specification, what `Put` stores, the rejection clauses, absence of panics in
    the ideal model. -/
namespace Spv
open Tr

/-! ### outcomes -/

theorem res_err_of {α : Type} (r : Res α) (hp : r ≠ .panic) (ho : ∀ a, r ≠ .ok a) : r = .err := by
  cases r with
  | ok a => exact absurd rfl (ho a)
  | err => rfl
  | panic => exact absurd rfl hp

/-! ### one link -/

/-- an admissible link: the node decodes, and walking it along what is left of the path reaches the child reference
    `r` with `rest` left over (with the `leafAsRef` switch also: reaches a leaf whose value is `r`) -/
def LinkRel (E : Env) (q : Quirks) (e : Bytes) (path : Path) (r : Bytes) (rest : Path) : Prop :=
  ∃ n, E.decodeN e = some n ∧ (ReachT n path .ref r rest ∨ (q.leafAsRef = true ∧ ReachT n path .val r rest))

theorem link_ok_iff (E : Env) (q : Quirks) (e : Bytes) (path : Path) (r : Bytes) (rest : Path) :
    link E q e path = .ok (r, rest) ↔ LinkRel E q e path r rest := by
  unfold link LinkRel
  cases hd : E.decodeN e with
  | none => simp
  | some n =>
    simp only [Option.some.injEq, exists_eq_left']
    cases ht : traverseT n path with
    | err =>
      simp only [false_iff, reduceCtorEq]
      rintro (h | ⟨_, h⟩) <;> (rw [traverseT_complete _ _ _ _ _ h] at ht; simp at ht)
    | panic =>
      have : (if q.panics = true then (Res.panic : Res (Bytes × Path)) else .err) ≠ .ok (r, rest) := by
        split <;> simp
      simp only [this, false_iff]
      rintro (h | ⟨_, h⟩) <;> (rw [traverseT_complete _ _ _ _ _ h] at ht; simp at ht)
    | ok k b rs =>
      have hr := traverseT_sound n path k b rs ht
      cases k with
      | ref =>
        simp only [Res.ok.injEq, Prod.mk.injEq]
        constructor
        · rintro ⟨rfl, rfl⟩; exact .inl hr
        · rintro (h | ⟨_, h⟩)
          · rw [traverseT_complete _ _ _ _ _ h] at ht
            simp only [OutT.ok.injEq, true_and] at ht
            exact ⟨ht.1.symm, ht.2.symm⟩
          · rw [traverseT_complete _ _ _ _ _ h] at ht; simp at ht
      | val =>
        dsimp only
        constructor
        · intro h
          split at h
          · rename_i hq
            simp only [Res.ok.injEq, Prod.mk.injEq] at h
            obtain ⟨rfl, rfl⟩ := h
            exact .inr ⟨hq, hr⟩
          · simp at h
        · rintro (h | ⟨hq, h⟩)
          · rw [traverseT_complete _ _ _ _ _ h] at ht; simp at ht
          · rw [traverseT_complete _ _ _ _ _ h] at ht
            simp only [OutT.ok.injEq, true_and] at ht
            simp [hq, ht.1, ht.2]

theorem link_no_panic (E : Env) (q : Quirks) (hq : q.panics = false) (e : Bytes) (path : Path) :
    link E q e path ≠ .panic := by
  unfold link
  cases E.decodeN e with
  | none => simp
  | some n =>
    simp only
    cases traverseT n path with
    | err => simp
    | panic => simp [hq]
    | ok k b rs => cases k <;> simp <;> split <;> simp

/-! ### the chain -/

/-- hash-linked chain: the first node hashes to `root`; each following node hashes to what the previous one refers to
    along the path; `last` is the final node and `rest` what is left of the path there -/
inductive Chain (E : Env) (q : Quirks) : Bytes → Path → List Bytes → Bytes → Path → Prop where
  | single (root path e) : E.hashOf e = root → Chain E q root path [e] e path
  | cons (root path e r p e' more last rest) :
      E.hashOf e = root → LinkRel E q e path r p →
      Chain E q r p (e' :: more) last rest → Chain E q root path (e :: e' :: more) last rest

theorem chainGo_sound (E : Env) (q : Quirks) (node : Bytes) (path : Path) (proof : List Bytes) (last : Bytes)
    (rest : Path) (root : Bytes) (hh : E.hashOf node = root)
    (h : chainGo E q node path proof = .ok (last, rest)) : Chain E q root path (node :: proof) last rest := by
  induction proof generalizing node path root with
  | nil =>
    simp only [chainGo, Res.ok.injEq, Prod.mk.injEq] at h
    obtain ⟨rfl, rfl⟩ := h
    exact .single _ _ _ hh
  | cons next more ih =>
    simp only [chainGo] at h
    cases hl : link E q node path with
    | err => simp [hl] at h
    | panic => simp [hl] at h
    | ok rp =>
      simp only [hl] at h
      split at h
      · simp at h
      · rename_i hne
        have hne' : E.hashOf next = rp.1 := by simpa using hne
        have hl' : link E q node path = .ok (rp.1, rp.2) := by rw [hl]
        exact .cons _ _ _ rp.1 rp.2 next more last rest hh ((link_ok_iff E q node path rp.1 rp.2).mp hl')
          (ih next rp.2 rp.1 hne' h)

theorem chainGo_complete (E : Env) (q : Quirks) (root : Bytes) (path : Path) (proof : List Bytes) (last : Bytes)
    (rest : Path) (h : Chain E q root path proof last rest) :
    ∃ node more, proof = node :: more ∧ E.hashOf node = root ∧ chainGo E q node path more = .ok (last, rest) := by
  induction h with
  | single root path e he => exact ⟨e, [], rfl, he, by simp [chainGo]⟩
  | cons root path e r p e' more last rest he hl _ ih =>
    obtain ⟨node, more', hp, hh, hg⟩ := ih
    simp only [List.cons.injEq] at hp
    obtain ⟨rfl, rfl⟩ := hp
    refine ⟨e, e' :: more, rfl, he, ?_⟩
    simp only [chainGo, (link_ok_iff E q e path r p).mpr hl, hh, ne_eq, not_true_eq_false, if_false]
    exact hg

/-- `validateTrieProof` succeeds exactly on hash-linked chains from the root along the path -/
theorem validateTrieProof_iff (E : Env) (q : Quirks) (root : Bytes) (path : Path) (proof : List Bytes) (last : Bytes)
    (rest : Path) :
    validateTrieProof E q root path proof = .ok (last, rest) ↔ Chain E q root path proof last rest := by
  constructor
  · intro h
    cases proof with
    | nil => simp [validateTrieProof] at h
    | cons first more =>
      simp only [validateTrieProof] at h
      split at h
      · simp at h
      · rename_i hne
        exact chainGo_sound E q first path more last rest root (by simpa using hne) h
  · intro h
    obtain ⟨node, more, rfl, hh, hg⟩ := chainGo_complete E q root path proof last rest h
    simp only [validateTrieProof, hh, ne_eq, not_true_eq_false, if_false]
    exact hg

theorem chain_last {E : Env} {q : Quirks} {root : Bytes} {path : Path} {proof : List Bytes} {last : Bytes} {rest : Path}
    (h : Chain E q root path proof last rest) : proof.getLast? = some last := by
  induction h with
  | single root path e _ => simp
  | cons root path e r p e' more last rest _ _ _ ih => simpa using ih

theorem chainGo_no_panic (E : Env) (q : Quirks) (hq : q.panics = false) (node : Bytes) (path : Path)
    (proof : List Bytes) : chainGo E q node path proof ≠ .panic := by
  induction proof generalizing node path with
  | nil => simp [chainGo]
  | cons next more ih =>
    simp only [chainGo]
    cases hl : link E q node path with
    | err => simp
    | panic => exact absurd hl (link_no_panic E q hq node path)
    | ok rp =>
      simp only
      split
      · simp
      · exact ih next rp.2

theorem validateTrieProof_no_panic (E : Env) (q : Quirks) (hq : q.panics = false) (root : Bytes) (path : Path)
    (proof : List Bytes) : validateTrieProof E q root path proof ≠ .panic := by
  cases proof with
  | nil => simp [validateTrieProof]
  | cons first more =>
    simp only [validateTrieProof]
    split
    · simp
    · exact chainGo_no_panic E q hq first path more

/-- the loop over a concatenated proof is the loop over the first part continued over the second -/
theorem chainGo_append (E : Env) (q : Quirks) (node : Bytes) (path : Path) (xs ys : List Bytes) :
    chainGo E q node path (xs ++ ys) =
      match chainGo E q node path xs with
      | .ok lp => chainGo E q lp.1 lp.2 ys
      | .err => .err
      | .panic => .panic := by
  induction xs generalizing node path with
  | nil => simp [chainGo]
  | cons x xs ih =>
    simp only [List.cons_append, chainGo]
    cases link E q node path with
    | err => simp
    | panic => simp
    | ok rp =>
      simp only
      split
      · simp
      · exact ih x rp.2

theorem validateTrieProof_append (E : Env) (q : Quirks) (root : Bytes) (path : Path) (xs ys : List Bytes)
    (hx : xs ≠ []) :
    validateTrieProof E q root path (xs ++ ys) =
      match validateTrieProof E q root path xs with
      | .ok lp => chainGo E q lp.1 lp.2 ys
      | .err => .err
      | .panic => .panic := by
  cases xs with
  | nil => exact absurd rfl hx
  | cons first more =>
    simp only [List.cons_append, validateTrieProof]
    split
    · simp
    · exact chainGo_append E q first path more ys

/-! ### trie-node items -/

theorem validateNode_iff (E : Env) (q : Quirks) (root nodeHash : Bytes) (path : Path) (proof : List Bytes) (last : Bytes) :
    validateNode E q root nodeHash path proof = .ok last ↔
      Chain E q root path proof last [] ∧ E.hashOf last = nodeHash := by
  unfold validateNode
  cases hv : validateTrieProof E q root path proof with
  | err =>
    simp only [false_iff, reduceCtorEq]
    rintro ⟨hc, _⟩
    rw [(validateTrieProof_iff E q root path proof last []).mpr hc] at hv; simp at hv
  | panic =>
    simp only [false_iff, reduceCtorEq]
    rintro ⟨hc, _⟩
    rw [(validateTrieProof_iff E q root path proof last []).mpr hc] at hv; simp at hv
  | ok lp =>
    simp only
    constructor
    · intro h
      split at h
      · simp at h
      · rename_i hp
        split at h
        · simp at h
        · rename_i hh
          simp only [Res.ok.injEq] at h
          subst h
          have hp' : lp.2 = [] := by simpa using hp
          have : validateTrieProof E q root path proof = .ok (lp.1, []) := by rw [hv, ← hp']
          exact ⟨(validateTrieProof_iff E q root path proof lp.1 []).mp this, by simpa using hh⟩
    · rintro ⟨hc, hh⟩
      rw [(validateTrieProof_iff E q root path proof last []).mpr hc] at hv
      simp only [Res.ok.injEq] at hv
      subst hv
      simp [hh]

theorem validateNode_no_panic (E : Env) (q : Quirks) (hq : q.panics = false) (root nodeHash : Bytes) (path : Path)
    (proof : List Bytes) : validateNode E q root nodeHash path proof ≠ .panic := by
  unfold validateNode
  cases hv : validateTrieProof E q root path proof with
  | err => simp
  | panic => exact absurd hv (validateTrieProof_no_panic E q hq root path proof)
  | ok lp =>
    simp only
    split
    · simp
    · split <;> simp

/-! ### the proven account -/

/-- the account bytes under the last node of an account proof: the value of the leaf whose key is exactly what is left
    of the address path (with the `leafAsRef` switch also: any child reference reached) -/
def AcctRel (E : Env) (q : Quirks) (e : Bytes) (path : Path) (b : Bytes) : Prop :=
  ∃ n, E.decodeN e = some n ∧
    ((∃ rest, ReachT n path .val b rest) ∨ (q.leafAsRef = true ∧ ∃ rest, ReachT n path .ref b rest))

theorem accountBytes_ok_iff (E : Env) (q : Quirks) (e : Bytes) (path : Path) (b : Bytes) :
    accountBytes E q e path = .ok b ↔ AcctRel E q e path b := by
  unfold accountBytes AcctRel
  cases hd : E.decodeN e with
  | none => simp
  | some n =>
    simp only [Option.some.injEq, exists_eq_left']
    cases ht : traverseT n path with
    | err =>
      simp only [false_iff, reduceCtorEq]
      rintro (⟨rest, h⟩ | ⟨_, rest, h⟩) <;> (rw [traverseT_complete _ _ _ _ _ h] at ht; simp at ht)
    | panic =>
      have : (if q.panics = true then (Res.panic : Res Bytes) else .err) ≠ .ok b := by split <;> simp
      simp only [this, false_iff]
      rintro (⟨rest, h⟩ | ⟨_, rest, h⟩) <;> (rw [traverseT_complete _ _ _ _ _ h] at ht; simp at ht)
    | ok k v rs =>
      have hr := traverseT_sound n path k v rs ht
      cases k with
      | val =>
        simp only [Res.ok.injEq]
        constructor
        · rintro rfl; exact .inl ⟨rs, hr⟩
        · rintro (⟨rest, h⟩ | ⟨_, rest, h⟩)
          · rw [traverseT_complete _ _ _ _ _ h] at ht
            simp only [OutT.ok.injEq, true_and] at ht
            exact ht.1.symm
          · rw [traverseT_complete _ _ _ _ _ h] at ht; simp at ht
      | ref =>
        dsimp only
        constructor
        · intro h
          split at h
          · rename_i hq
            simp only [Res.ok.injEq] at h
            subst h
            exact .inr ⟨hq, rs, hr⟩
          · simp at h
        · rintro (⟨rest, h⟩ | ⟨hq, rest, h⟩)
          · rw [traverseT_complete _ _ _ _ _ h] at ht; simp at ht
          · rw [traverseT_complete _ _ _ _ _ h] at ht
            simp only [OutT.ok.injEq, true_and] at ht
            simp [hq, ht.1]

theorem accountBytes_no_panic (E : Env) (q : Quirks) (hq : q.panics = false) (e : Bytes) (path : Path) :
    accountBytes E q e path ≠ .panic := by
  unfold accountBytes
  cases E.decodeN e with
  | none => simp
  | some n =>
    simp only
    cases traverseT n path with
    | err => simp
    | panic => simp [hq]
    | ok k b rs => cases k <;> simp <;> split <;> simp

/-- the account proven for `addrHash` under `root` -/
def ProvenAccount (E : Env) (q : Quirks) (root addrHash : Bytes) (proof : List Bytes) (a : Account) : Prop :=
  ∃ last p b, Chain E q root (nibblesOf addrHash) proof last p ∧ AcctRel E q last p b ∧ E.decodeAcct b = some a

theorem validateAccountState_iff (E : Env) (q : Quirks) (root addrHash : Bytes) (proof : List Bytes) (a : Account) :
    validateAccountState E q root addrHash proof = .ok a ↔ ProvenAccount E q root addrHash proof a := by
  unfold validateAccountState ProvenAccount
  cases hv : validateTrieProof E q root (nibblesOf addrHash) proof with
  | err =>
    simp only [false_iff, reduceCtorEq]
    rintro ⟨last, p, b, hc, _, _⟩
    rw [(validateTrieProof_iff E q root _ proof last p).mpr hc] at hv; simp at hv
  | panic =>
    simp only [false_iff, reduceCtorEq]
    rintro ⟨last, p, b, hc, _, _⟩
    rw [(validateTrieProof_iff E q root _ proof last p).mpr hc] at hv; simp at hv
  | ok lp =>
    have hc0 : Chain E q root (nibblesOf addrHash) proof lp.1 lp.2 :=
      (validateTrieProof_iff E q root _ proof lp.1 lp.2).mp (by rw [hv])
    simp only
    constructor
    · intro h
      cases hb : accountBytes E q lp.1 lp.2 with
      | err => simp [hb] at h
      | panic => simp [hb] at h
      | ok b =>
        simp only [hb] at h
        cases hda : E.decodeAcct b with
        | none => simp [hda] at h
        | some a' =>
          simp only [hda, Res.ok.injEq] at h
          subst h
          exact ⟨lp.1, lp.2, b, hc0, (accountBytes_ok_iff E q lp.1 lp.2 b).mp hb, hda⟩
    · rintro ⟨last, p, b, hc, hb, hda⟩
      rw [(validateTrieProof_iff E q root _ proof last p).mpr hc] at hv
      simp only [Res.ok.injEq] at hv
      subst hv
      simp [(accountBytes_ok_iff E q _ _ b).mpr hb, hda]

theorem validateAccountState_no_panic (E : Env) (q : Quirks) (hq : q.panics = false) (root addrHash : Bytes)
    (proof : List Bytes) : validateAccountState E q root addrHash proof ≠ .panic := by
  unfold validateAccountState
  cases hv : validateTrieProof E q root (nibblesOf addrHash) proof with
  | err => simp
  | panic => exact absurd hv (validateTrieProof_no_panic E q hq root _ proof)
  | ok lp =>
    simp only
    cases hb : accountBytes E q lp.1 lp.2 with
    | err => simp
    | panic => exact absurd hb (accountBytes_no_panic E q hq lp.1 lp.2)
    | ok b => simp only; cases E.decodeAcct b <;> simp

/-! ### `ValidateContent` -/

theorem unit_ok_iff {α : Type} (r : Res α) : unit r = .ok () ↔ ∃ a, r = .ok a := by
  cases r <;> simp [unit]

theorem unit_no_panic {α : Type} (r : Res α) (h : r ≠ .panic) : unit r ≠ .panic := by
  cases r <;> simp_all [unit]

/-- account trie node (selector 0x20) -/
theorem validateContent_account_iff (E : Env) (q : Quirks) (oracle : Bytes → Option Bytes) (it : Item)
    (ht : it.keyType = 0x20) :
    validateContent E q oracle it = .ok () ↔
      decodes it = true ∧ ∃ root, oracle it.blockHash = some root ∧
        ∃ last, Chain E q root it.path it.proof last [] ∧ E.hashOf last = it.nodeHash := by
  unfold validateContent
  cases hd : decodes it with
  | false => simp
  | true =>
    simp only [Bool.not_true, Bool.false_eq_true, if_false, true_and]
    cases ho : oracle it.blockHash with
    | none => simp
    | some root =>
      simp only [ht, if_true, Option.some.injEq, exists_eq_left', unit_ok_iff]
      constructor
      · rintro ⟨last, h⟩; exact ⟨last, (validateNode_iff E q root _ _ _ last).mp h⟩
      · rintro ⟨last, h⟩; exact ⟨last, (validateNode_iff E q root _ _ _ last).mpr h⟩

/-- contract storage trie node (selector 0x21) -/
theorem validateContent_storage_iff (E : Env) (q : Quirks) (oracle : Bytes → Option Bytes) (it : Item)
    (ht : it.keyType = 0x21) :
    validateContent E q oracle it = .ok () ↔
      decodes it = true ∧ ∃ root, oracle it.blockHash = some root ∧
        ∃ a, ProvenAccount E q root it.addrHash it.acctProof a ∧
          ∃ last, Chain E q (fullRoot E a) it.path it.proof last [] ∧ E.hashOf last = it.nodeHash := by
  unfold validateContent
  cases hd : decodes it with
  | false => simp
  | true =>
    simp only [Bool.not_true, Bool.false_eq_true, if_false, true_and]
    cases ho : oracle it.blockHash with
    | none => simp
    | some root =>
      have h20 : ¬ it.keyType = 0x20 := by omega
      dsimp only
      rw [if_neg h20, if_pos ht]
      simp only [Option.some.injEq, exists_eq_left']
      cases hv : validateAccountState E q root it.addrHash it.acctProof with
      | err =>
        simp only [false_iff, reduceCtorEq]
        rintro ⟨a, ha, _⟩
        rw [(validateAccountState_iff E q root _ _ a).mpr ha] at hv; simp at hv
      | panic =>
        simp only [false_iff, reduceCtorEq]
        rintro ⟨a, ha, _⟩
        rw [(validateAccountState_iff E q root _ _ a).mpr ha] at hv; simp at hv
      | ok a =>
        simp only [unit_ok_iff]
        constructor
        · rintro ⟨last, h⟩
          exact ⟨a, (validateAccountState_iff E q root _ _ a).mp hv, last, (validateNode_iff E q _ _ _ _ last).mp h⟩
        · rintro ⟨a', ha', last, h⟩
          rw [(validateAccountState_iff E q root _ _ a').mpr ha'] at hv
          simp only [Res.ok.injEq] at hv
          subst hv
          exact ⟨last, (validateNode_iff E q _ _ _ _ last).mpr h⟩

/-- contract bytecode (selector 0x22) -/
theorem validateContent_bytecode_iff (E : Env) (q : Quirks) (oracle : Bytes → Option Bytes) (it : Item)
    (ht : it.keyType = 0x22) :
    validateContent E q oracle it = .ok () ↔
      decodes it = true ∧ ∃ root, oracle it.blockHash = some root ∧
        ∃ a, ProvenAccount E q root it.addrHash it.acctProof a ∧ fullCodeHash E a = it.nodeHash := by
  unfold validateContent
  cases hd : decodes it with
  | false => simp
  | true =>
    simp only [Bool.not_true, Bool.false_eq_true, if_false, true_and]
    cases ho : oracle it.blockHash with
    | none => simp
    | some root =>
      have h20 : ¬ it.keyType = 0x20 := by omega
      have h21 : ¬ it.keyType = 0x21 := by omega
      dsimp only
      rw [if_neg h20, if_neg h21]
      simp only [Option.some.injEq, exists_eq_left']
      cases hv : validateAccountState E q root it.addrHash it.acctProof with
      | err =>
        simp only [false_iff, reduceCtorEq]
        rintro ⟨a, ha, _⟩
        rw [(validateAccountState_iff E q root _ _ a).mpr ha] at hv; simp at hv
      | panic =>
        simp only [false_iff, reduceCtorEq]
        rintro ⟨a, ha, _⟩
        rw [(validateAccountState_iff E q root _ _ a).mpr ha] at hv; simp at hv
      | ok a =>
        simp only
        constructor
        · intro h
          split at h
          · simp at h
          · rename_i hc
            exact ⟨a, (validateAccountState_iff E q root _ _ a).mp hv, by simpa using hc⟩
        · rintro ⟨a', ha', hc⟩
          rw [(validateAccountState_iff E q root _ _ a').mpr ha'] at hv
          simp only [Res.ok.injEq] at hv
          subst hv
          simp [hc]

theorem validateContent_no_panic (E : Env) (q : Quirks) (hq : q.panics = false) (oracle : Bytes → Option Bytes)
    (it : Item) : validateContent E q oracle it ≠ .panic := by
  unfold validateContent
  split
  · simp
  · cases oracle it.blockHash with
    | none => simp
    | some root =>
      simp only
      split
      · exact unit_no_panic _ (validateNode_no_panic E q hq _ _ _ _)
      · split
        · cases hv : validateAccountState E q root it.addrHash it.acctProof with
          | err => simp
          | panic => exact absurd hv (validateAccountState_no_panic E q hq _ _ _)
          | ok a => exact unit_no_panic _ (validateNode_no_panic E q hq _ _ _ _)
        · cases hv : validateAccountState E q root it.addrHash it.acctProof with
          | err => simp
          | panic => exact absurd hv (validateAccountState_no_panic E q hq _ _ _)
          | ok a => simp only; split <;> simp

/-! ### `Put` -/

theorem put_node_ok (E : Env) (q : Quirks) (it : Item) (s : Bytes) (ht : it.keyType ≠ 0x22)
    (h : put E q it = .ok s) :
    ∃ last, it.proof.getLast? = some last ∧ s = container last ∧ E.hashOf last = it.nodeHash := by
  unfold put at h
  split at h
  · simp at h
  · try simp only [ht, if_false] at h
    cases hl : it.proof.getLast? with
    | none => simp only [hl] at h; split at h <;> simp at h
    | some last =>
      simp only [hl] at h
      split at h
      · simp at h
      · rename_i hh
        simp only [Res.ok.injEq] at h
        exact ⟨last, rfl, h.symm, by simpa using hh⟩

theorem put_code_ok (E : Env) (q : Quirks) (it : Item) (s : Bytes) (ht : it.keyType = 0x22)
    (h : put E q it = .ok s) : s = container it.code ∧ E.hashOf it.code = it.nodeHash := by
  unfold put at h
  split at h
  · simp at h
  · try simp only [ht, if_true] at h
    split at h
    · simp at h
    · rename_i hh
      simp only [Res.ok.injEq] at h
      exact ⟨h.symm, by simpa using hh⟩

theorem put_no_panic (E : Env) (q : Quirks) (hq : q.putUnguarded = false) (it : Item) : put E q it ≠ .panic := by
  unfold put
  split
  · simp
  · split
    · split <;> simp
    · cases it.proof.getLast? with
      | none => simp [hq]
      | some last => simp only; split <;> simp

/-- an accepted trie-node item is stored as exactly its final node -/
theorem accepted_node_stored (E : Env) (q : Quirks) (it : Item) (root : Bytes) (last : Bytes)
    (hd : decodes it = true) (ht : it.keyType ≠ 0x22)
    (hv : validateNode E q root it.nodeHash it.path it.proof = .ok last) :
    put E q it = .ok (container last) := by
  obtain ⟨hc, hh⟩ := (validateNode_iff E q root _ _ _ last).mp hv
  unfold put
  simp [hd, ht, chain_last hc, hh]

theorem container_injective (a b : Bytes) (h : container a = container b) : a = b := by
  simpa [container] using h

/-! ### rejection clauses -/

/-- node decoders return branch or short nodes, never a bare reference -/
def TopLevel (E : Env) : Prop := ∀ e n, E.decodeN e = some n → ∀ x, n ≠ .hash x

/-- no link leaves a node when nothing is left of the path -/
theorem link_nil_not_ok (E : Env) (q : Quirks) (hE : TopLevel E) (e : Bytes) (rp : Bytes × Path) :
    link E q e [] ≠ .ok rp := by
  intro h
  have h' : link E q e [] = .ok (rp.1, rp.2) := h
  obtain ⟨n, hd, hr⟩ := (link_ok_iff E q e [] rp.1 rp.2).mp h'
  rcases hr with hr | ⟨_, hr⟩
  · exact traverseT_nil_not_ok n (hE e n hd) _ _ _ (traverseT_complete _ _ _ _ _ hr)
  · exact traverseT_nil_not_ok n (hE e n hd) _ _ _ (traverseT_complete _ _ _ _ _ hr)

/-- surplus nodes: once the path is used up no longer proof is accepted -/
theorem surplus_not_ok (E : Env) (q : Quirks) (hE : TopLevel E) (root : Bytes) (path : Path) (proof : List Bytes)
    (last : Bytes) (h : validateTrieProof E q root path proof = .ok (last, [])) (extra : Bytes) (more : List Bytes)
    (lp : Bytes × Path) : validateTrieProof E q root path (proof ++ extra :: more) ≠ .ok lp := by
  have hne : proof ≠ [] := by intro hp; subst hp; simp [validateTrieProof] at h
  rw [validateTrieProof_append E q root path proof _ hne, h]
  simp only [chainGo]
  cases hl : link E q last [] with
  | ok rp => exact absurd hl (link_nil_not_ok E q hE last rp)
  | err => simp
  | panic => simp

/-- a link that reaches a child REFERENCE uses up at least one nibble -/
theorem link_consumes (E : Env) (q : Quirks) (hE : TopLevel E) (hq : q.leafAsRef = false) (e : Bytes) (path : Path)
    (r : Bytes) (rest : Path) (h : link E q e path = .ok (r, rest)) : rest.length < path.length := by
  obtain ⟨n, hd, hr⟩ := (link_ok_iff E q e path r rest).mp h
  rcases hr with hr | ⟨hq', _⟩
  · exact ReachT_ref_consumes hr (hE e n hd)
  · rw [hq] at hq'; simp at hq'

/-- missing last node: if the proof is accepted, the proof without its final node leaves part of the path unused -/
theorem missing_last_not_ok (E : Env) (q : Quirks) (hE : TopLevel E) (hq : q.leafAsRef = false) (root : Bytes)
    (path : Path) (init : List Bytes) (last : Bytes) (hi : init ≠ [])
    (h : validateTrieProof E q root path (init ++ [last]) = .ok (last, [])) (nodeHash : Bytes) (x : Bytes) :
    validateNode E q root nodeHash path init ≠ .ok x := by
  rw [validateTrieProof_append E q root path init _ hi] at h
  unfold validateNode
  cases hv : validateTrieProof E q root path init with
  | err => simp
  | panic => simp
  | ok lp =>
    simp only [hv, chainGo] at h
    cases hl : link E q lp.1 lp.2 with
    | err => simp [hl] at h
    | panic => simp [hl] at h
    | ok rp =>
      simp only [hl] at h
      split at h
      · simp at h
      · simp only [Res.ok.injEq, Prod.mk.injEq] at h
        have hlen := link_consumes E q hE hq lp.1 lp.2 rp.1 rp.2 (by rw [hl])
        have hne : lp.2 ≠ [] := by
          intro h0; rw [h0] at hlen; simp at hlen
        simp [hne]

/-! ### the ideal model: links are child references, accounts are leaf values -/

theorem linkRel_ideal (E : Env) (e : Bytes) (path : Path) (r : Bytes) (rest : Path) :
    LinkRel E ideal e path r rest ↔ ∃ n, E.decodeN e = some n ∧ ReachT n path .ref r rest := by
  unfold LinkRel
  constructor
  · rintro ⟨n, hd, h | ⟨hq, _⟩⟩
    · exact ⟨n, hd, h⟩
    · simp [ideal] at hq
  · rintro ⟨n, hd, h⟩; exact ⟨n, hd, .inl h⟩

theorem provenAccount_ideal (E : Env) (root addrHash : Bytes) (proof : List Bytes) (a : Account) :
    ProvenAccount E ideal root addrHash proof a ↔
      ∃ last p b, Chain E ideal root (nibblesOf addrHash) proof last p ∧
        (∃ n, E.decodeN last = some n ∧ ∃ rest, ReachT n p .val b rest) ∧ E.decodeAcct b = some a := by
  unfold ProvenAccount AcctRel
  constructor
  · rintro ⟨last, p, b, hc, ⟨n, hd, h | ⟨hq, _⟩⟩, ha⟩
    · exact ⟨last, p, b, hc, ⟨n, hd, h⟩, ha⟩
    · simp [ideal] at hq
  · rintro ⟨last, p, b, hc, ⟨n, hd, h⟩, ha⟩
    exact ⟨last, p, b, hc, ⟨n, hd, .inl h⟩, ha⟩

/-! ### the clauses of the property as they are cited in `Props/C13.lean` -/

theorem accepted_node_stored_final (E : Env) (q : Quirks) (it : Item) (root last : Bytes) (hd : decodes it = true)
    (ht : it.keyType ≠ 0x22) (hv : validateNode E q root it.nodeHash it.path it.proof = .ok last) :
    put E q it = .ok (container last) ∧ it.proof.getLast? = some last ∧ E.hashOf last = it.nodeHash := by
  obtain ⟨hc, hh⟩ := (validateNode_iff E q root _ _ _ last).mp hv
  exact ⟨accepted_node_stored E q it root last hd ht hv, chain_last hc, hh⟩

theorem stored_node_last_only (E : Env) (q : Quirks) (it : Item) (s : Bytes) (ht : it.keyType ≠ 0x22)
    (h : put E q it = .ok s) :
    ∃ last, it.proof.getLast? = some last ∧ s = container last ∧ E.hashOf last = it.nodeHash ∧
      ∀ other, container other = s → other = last := by
  obtain ⟨last, hl, hs, hh⟩ := put_node_ok E q it s ht h
  exact ⟨last, hl, hs, hh, fun other ho => container_injective other last (by rw [ho, hs])⟩

theorem accepted_bytecode_bound (E : Env) (oracle : Bytes → Option Bytes) (it : Item) (s : Bytes)
    (ht : it.keyType = 0x22) (hv : validateContent E ideal oracle it = .ok ()) (hp : put E ideal it = .ok s) :
    ∃ root a, oracle it.blockHash = some root ∧ ProvenAccount E ideal root it.addrHash it.acctProof a ∧
      E.hashOf it.code = fullCodeHash E a ∧ s = container it.code := by
  obtain ⟨_, root, ho, a, ha, hc⟩ := (validateContent_bytecode_iff E ideal oracle it ht).mp hv
  obtain ⟨hs, hh⟩ := put_code_ok E ideal it s ht hp
  exact ⟨root, a, ho, ha, by rw [hh, hc], hs⟩

theorem rejected_is_err (E : Env) (oracle : Bytes → Option Bytes) (it : Item)
    (h : validateContent E ideal oracle it ≠ .ok ()) : validateContent E ideal oracle it = .err :=
  res_err_of _ (validateContent_no_panic E ideal rfl oracle it) (fun a => by cases a; exact h)

theorem put_rejected_is_err (E : Env) (it : Item) (h : ∀ s, put E ideal it ≠ .ok s) : put E ideal it = .err :=
  res_err_of _ (put_no_panic E ideal rfl it) h

theorem unknown_block_err (E : Env) (q : Quirks) (oracle : Bytes → Option Bytes) (it : Item)
    (h : oracle it.blockHash = none) : validateContent E q oracle it = .err := by
  unfold validateContent; split <;> simp [h]

theorem wrong_root_err (E : Env) (q : Quirks) (root : Bytes) (path : Path) (first : Bytes) (more : List Bytes)
    (h : E.hashOf first ≠ root) : validateTrieProof E q root path (first :: more) = .err := by
  simp [validateTrieProof, h]

theorem broken_link_err (E : Env) (root : Bytes) (path : Path) (pre : List Bytes) (a b : Bytes) (post : List Bytes)
    (p : Path) (r : Bytes) (p' : Path) (hpre : validateTrieProof E ideal root path (pre ++ [a]) = .ok (a, p))
    (hl : link E ideal a p = .ok (r, p')) (hb : E.hashOf b ≠ r) :
    validateTrieProof E ideal root path (pre ++ a :: b :: post) = .err := by
  have : pre ++ a :: b :: post = (pre ++ [a]) ++ b :: post := by simp
  rw [this, validateTrieProof_append E ideal root path (pre ++ [a]) _ (by simp), hpre]
  simp [chainGo, hl, hb]

theorem wrong_path_err (E : Env) (root : Bytes) (path : Path) (pre : List Bytes) (a b : Bytes) (post : List Bytes)
    (p : Path) (hpre : validateTrieProof E ideal root path (pre ++ [a]) = .ok (a, p))
    (hl : ∀ r p', ¬ LinkRel E ideal a p r p') :
    validateTrieProof E ideal root path (pre ++ a :: b :: post) = .err := by
  have : pre ++ a :: b :: post = (pre ++ [a]) ++ b :: post := by simp
  rw [this, validateTrieProof_append E ideal root path (pre ++ [a]) _ (by simp), hpre]
  simp only [chainGo]
  cases hk : link E ideal a p with
  | err => rfl
  | panic => exact absurd hk (link_no_panic E ideal rfl a p)
  | ok rp => exact absurd ((link_ok_iff E ideal a p rp.1 rp.2).mp (by rw [hk])) (hl rp.1 rp.2)

theorem path_not_consumed_err (E : Env) (q : Quirks) (root nodeHash : Bytes) (path : Path) (proof : List Bytes)
    (last : Bytes) (rest : Path) (h : validateTrieProof E q root path proof = .ok (last, rest)) (hr : rest ≠ []) :
    validateNode E q root nodeHash path proof = .err := by
  simp [validateNode, h, hr]

theorem final_hash_mismatch_err (E : Env) (q : Quirks) (root nodeHash : Bytes) (path : Path) (proof : List Bytes)
    (last : Bytes) (h : validateTrieProof E q root path proof = .ok (last, [])) (hh : E.hashOf last ≠ nodeHash) :
    validateNode E q root nodeHash path proof = .err := by
  simp [validateNode, h, hh]

theorem surplus_err (E : Env) (hE : TopLevel E) (root nodeHash : Bytes) (path : Path) (proof : List Bytes)
    (last : Bytes) (h : validateTrieProof E ideal root path proof = .ok (last, [])) (extra : Bytes) (more : List Bytes) :
    validateNode E ideal root nodeHash path (proof ++ extra :: more) = .err := by
  apply res_err_of _ (validateNode_no_panic E ideal rfl _ _ _ _)
  intro x hx
  obtain ⟨hc, _⟩ := (validateNode_iff E ideal root nodeHash path _ x).mp hx
  exact surplus_not_ok E ideal hE root path proof last h extra more (x, [])
    ((validateTrieProof_iff E ideal root path _ x []).mpr hc)

theorem missing_last_err (E : Env) (hE : TopLevel E) (root : Bytes) (path : Path) (init : List Bytes)
    (last : Bytes) (hi : init ≠ []) (h : validateTrieProof E ideal root path (init ++ [last]) = .ok (last, []))
    (nodeHash : Bytes) : validateNode E ideal root nodeHash path init = .err :=
  res_err_of _ (validateNode_no_panic E ideal rfl _ _ _ _)
    (missing_last_not_ok E ideal hE rfl root path init last hi h nodeHash)

end Spv
