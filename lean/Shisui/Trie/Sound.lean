import Shisui.Trie.Basic
namespace Tr

theorem key_split (key : List Nat) (h : key.getLast? = some 16) : key = key.dropLast ++ [16] := by
  obtain ⟨ys, rfl⟩ := List.getLast?_eq_some_iff.mp h
  simp

/-- soundness: whatever `TraverseTrieNode` returns without error is a genuine walk -/
theorem traverse_sound (n : Node) (path ref rest : List Nat) :
    traverse n path = .ok ref rest → Reach n path ref rest := by
  fun_induction traverse n path with
  | case1 => intro h; simp at h
  | case2 cs p ps hc => intro h; simp at h
  | case3 cs p ps c hc ih => intro h; exact .full cs p ps c ref rest hc (ih h)
  | case4 key val path hg => intro h; simp at h
  | case5 key val path hd hg => intro h; simp at h
  | case6 key val path hd hne hg => intro h; simp at h
  | case7 key path hd hne v hg =>
    intro h
    simp only [Outcome.ok.injEq] at h
    obtain ⟨rfl, rfl⟩ := h
    have hne' : key.dropLast = path := by simpa using hne
    obtain ⟨ys, rfl⟩ := List.getLast?_eq_some_iff.mp hg
    simp only [List.dropLast_concat] at hne' hd
    subst hne'
    exact .leaf ys v hd
  | case8 key val path hd hne hv hg => intro h; simp at h
  | case9 key val path last hg hl r rest' hm ih =>
    intro h
    obtain ⟨hp, _⟩ := matchKey_ok key path r rest' hm
    rw [hp]
    refine .ext key val rest' ref rest ?_ ?_ (ih h)
    · intro hk; subst hk; simp at hg
    · rw [hg]; simpa using hl
  | case10 => intro h; simp at h
  | case11 => intro h; simp at h
  | case12 hh path => intro h; simp only [Outcome.ok.injEq] at h; obtain ⟨rfl, rfl⟩ := h; exact .hash _ _
  | case13 => intro h; simp at h
  | case14 => intro h; simp at h

theorem traverse_ext (key : List Nat) (val : Node) (rest' : List Nat) (hk : key ≠ [])
    (hl : key.getLast? ≠ some 16) : traverse (.short key val) (key ++ rest') = traverse val rest' := by
  rw [traverse.eq_def]
  simp only
  split
  · rename_i hg; simp at hg; exact absurd hg hk
  · rename_i last hg
    have hne : last ≠ 16 := by intro h; subst h; exact hl hg
    simp only [hne, if_false]
    split
    · rename_i r rs hm
      rw [matchKey_append] at hm
      simp only [Outcome.ok.injEq] at hm
      rw [← hm.2]
    · rename_i hm; rw [matchKey_append] at hm; simp at hm
    · rename_i hm; rw [matchKey_append] at hm; simp at hm

theorem traverse_leaf (pre v : List Nat) (hp : pre ≠ []) :
    traverse (.short (pre ++ [16]) (.value v)) pre = .ok v pre := by
  rw [traverse]
  split
  · rename_i hg; simp at hg
  · rename_i last hg
    have : last = 16 := by simpa using hg.symm
    subst this
    simp [hp]

/-- completeness: every genuine walk is what `TraverseTrieNode` returns -/
theorem traverse_complete (n : Node) (path ref rest : List Nat) (h : Reach n path ref rest) :
    traverse n path = .ok ref rest := by
  induction h with
  | hash h path => simp [traverse]
  | full cs p ps c ref rest hc _ ih => rw [traverse]; simp [hc, ih]
  | ext key val rest' ref rest hk hl _ ih => rw [traverse_ext key val rest' hk hl]; exact ih
  | leaf pre v hp => exact traverse_leaf pre v hp

#print axioms traverse_sound
#print axioms traverse_complete
end Tr
