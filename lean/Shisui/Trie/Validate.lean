import Shisui.Trie.Tagged
import Shisui.Trie.Rlp
import Shisui.Trie.Chain
/-! Model of `state/validation.go` (`ValidateContent` and its three branches, `validateTrieProof`,
    `validateNodeTrieProof`, `validateAccountState`) and of `state/storage.go` (`Put` and its three branches),
    over an abstract environment: node hash, node decoder, account decoder (instantiated in the driver with the
    Lean Keccak-256 and the RLP decoders of `Shisui/Trie/Rlp.lean`).

    Deviations of the code from the property are Boolean switches (`Quirks`); all switches off is the ideal
    model the property theorems are about, all on is what the code does today. -/
namespace Spv
open Tr

abbrev Bytes := List Nat
abbrev Path := List Nat

structure Env where
  hashOf : Bytes → Bytes
  decodeN : Bytes → Option Node
  decodeAcct : Bytes → Option Account
  emptyRoot : Bytes      -- types.EmptyRootHash
  emptyCode : Bytes      -- types.EmptyCodeHash

structure Quirks where
  /-- `TraverseTrieNode` reads `v.Key[len-1]` and `path[index]` unguarded (state/trie/utils.go:31,43): a short node
      with an empty key, or an extension key longer than what is left of the path, is a Go panic, not an error -/
  panics : Bool
  /-- `TraverseTrieNode` returns a leaf VALUE and a child REFERENCE through the same `[]byte`: the proof loop accepts a
      leaf value as the reference to the next node, and `validateAccountState` accepts a child reference as the account -/
  leafAsRef : Bool
  /-- `Put` reads `Proof[len-1]` without a length check (state/storage.go:77,113) -/
  putUnguarded : Bool

def ideal : Quirks := { panics := false, leafAsRef := false, putUnguarded := false }
def asImplemented : Quirks := { panics := true, leafAsRef := true, putUnguarded := true }

/-- one iteration of the proof loop up to the hash comparison: decode the current node, walk it along what is left
    of the path; result: (bytes the next node must hash to, remaining path) -/
def link (E : Env) (q : Quirks) (e : Bytes) (path : Path) : Res (Bytes × Path) :=
  match E.decodeN e with
  | none => .err
  | some n =>
    match traverseT n path with
    | .ok .ref h rest => .ok (h, rest)
    | .ok .val v rest => if q.leafAsRef then .ok (v, rest) else .err
    | .err => .err
    | .panic => if q.panics then .panic else .err

/-- the `for _, nextNode := range proof[1:]` loop; `node` is the current (already hash-checked) node -/
def chainGo (E : Env) (q : Quirks) (node : Bytes) (path : Path) : List Bytes → Res (Bytes × Path)
  | [] => .ok (node, path)
  | next :: more =>
    match link E q node path with
    | .ok rp => if E.hashOf next ≠ rp.1 then .err else chainGo E q next rp.2 more
    | .err => .err
    | .panic => .panic

/-- `validateTrieProof` -/
def validateTrieProof (E : Env) (q : Quirks) (root : Bytes) (path : Path) : List Bytes → Res (Bytes × Path)
  | [] => .err                                        -- "proof should not be empty"
  | first :: more => if E.hashOf first ≠ root then .err else chainGo E q first path more

/-- `validateNodeTrieProof`; returns the final node -/
def validateNode (E : Env) (q : Quirks) (root nodeHash : Bytes) (path : Path) (proof : List Bytes) : Res Bytes :=
  match validateTrieProof E q root path proof with
  | .ok lp => if lp.2 ≠ [] then .err                  -- "path is too long"
              else if E.hashOf lp.1 ≠ nodeHash then .err else .ok lp.1
  | .err => .err
  | .panic => .panic

/-- the account bytes under the last node of an account proof (`TraverseTrieNode(n, p)` in `validateAccountState`;
    the remaining path it returns is discarded there) -/
def accountBytes (E : Env) (q : Quirks) (e : Bytes) (path : Path) : Res Bytes :=
  match E.decodeN e with
  | none => .err
  | some n =>
    match traverseT n path with
    | .ok .val v _ => .ok v
    | .ok .ref h _ => if q.leafAsRef then .ok h else .err
    | .err => .err
    | .panic => if q.panics then .panic else .err

def nibblesOf (b : Bytes) : Path := b.flatMap fun x => [x / 16, x % 16]

/-- storage root / code hash of the consensus account as `types.FullAccount` fills them in -/
def fullRoot (E : Env) (a : Account) : Bytes := if a.root = [] then E.emptyRoot else bytesToHash a.root
def fullCodeHash (E : Env) (a : Account) : Bytes := if a.codeHash = [] then E.emptyCode else a.codeHash

/-- `validateAccountState` -/
def validateAccountState (E : Env) (q : Quirks) (root addrHash : Bytes) (proof : List Bytes) : Res Account :=
  match validateTrieProof E q root (nibblesOf addrHash) proof with
  | .ok lp =>
    match accountBytes E q lp.1 lp.2 with
    | .ok b => match E.decodeAcct b with
      | some a => .ok a
      | none => .err
    | .err => .err
    | .panic => .panic
  | .err => .err
  | .panic => .panic

/-- a content item as the SSZ decoders deliver it: key fields and value fields (unused fields are empty) -/
structure Item where
  keyType : Nat
  path : Path               -- key.Path
  nodeHash : Bytes          -- key.NodeHash, or key.CodeHash for bytecode
  addrHash : Bytes          -- key.AddressHash (storage, bytecode)
  proof : List Bytes        -- value.Proof (account trie node) / value.StorageProof
  acctProof : List Bytes    -- value.AccountProof (storage, bytecode)
  code : Bytes              -- value.Code (bytecode)
  blockHash : Bytes

def proofFits (p : List Bytes) : Bool := p.length ≤ 65 && p.all fun e => e.length ≤ 1024

/-- what the SSZ decoders of key and value insist on (`FromUnpackedNibbles`, `MaxTrieProofLength`,
    `MaxTrieNodeLength`, `MaxContractBytecodeLength`) -/
def decodes (it : Item) : Bool :=
  if it.keyType = 0x20 then it.path.length ≤ 64 && proofFits it.proof
  else if it.keyType = 0x21 then it.path.length ≤ 64 && proofFits it.proof && proofFits it.acctProof
  else if it.keyType = 0x22 then it.code.length ≤ 32768 && proofFits it.acctProof
  else false

def unit {α : Type} : Res α → Res Unit
  | .ok _ => .ok ()
  | .err => .err
  | .panic => .panic

/-- `StateValidator.ValidateContent`; `oracle` is the header source: block hash ↦ state root of that header -/
def validateContent (E : Env) (q : Quirks) (oracle : Bytes → Option Bytes) (it : Item) : Res Unit :=
  if !decodes it then .err else
  match oracle it.blockHash with
  | none => .err
  | some root =>
    if it.keyType = 0x20 then unit (validateNode E q root it.nodeHash it.path it.proof)
    else if it.keyType = 0x21 then
      match validateAccountState E q root it.addrHash it.acctProof with
      | .ok a => unit (validateNode E q (fullRoot E a) it.nodeHash it.path it.proof)
      | .err => .err
      | .panic => .panic
    else
      match validateAccountState E q root it.addrHash it.acctProof with
      | .ok a => if fullCodeHash E a ≠ it.nodeHash then .err else .ok ()
      | .err => .err
      | .panic => .panic

/-- SSZ container with one variable-size field: a 4-byte offset (= 4) and the bytes (`TrieNode`, `ContractBytecodeContainer`) -/
def container (b : Bytes) : Bytes := [4, 0, 0, 0] ++ b

/-- `Storage.Put`: the value handed to the underlying store -/
def put (E : Env) (q : Quirks) (it : Item) : Res Bytes :=
  if !decodes it then .err else
  if it.keyType = 0x22 then
    if E.hashOf it.code ≠ it.nodeHash then .err else .ok (container it.code)
  else
    match it.proof.getLast? with
    | none => if q.putUnguarded then .panic else .err
    | some last => if E.hashOf last ≠ it.nodeHash then .err else .ok (container last)

end Spv
