/-! # History content validation (C02) — decision logic of `HistoryValidator.ValidateContent`

Two layers.

* **Observation level** (executable; what the driver runs): the validator's verdict as a function of the parsed key, of
  what the content *decodes to* (header fields + hash, recomputed body/receipt roots, verdict of the C03 proof check) and
  of what the header source answered for the key's block hash. Mirrors `history/validation.go:94-146`,
  `history/history_network.go:250-291,421-433` and `validation/oracle.go:73-94`.
* **Byte level** (the theorems): the same function composed with an arbitrary decoding environment `Env` (go-ethereum's
  rlp/keccak/`DeriveSha`/`CalcUncleHash`, the SSZ containers, the header-proof check of C03 — all parameters, nothing is
  assumed about them) and an arbitrary header source `rpc` (what `portal_historyGetContent` returns: it may lie).

`Quirks` switches the deviations of the code as it is; `{}` is the ideal model the theorems are about. Hashes and roots are
byte strings (`List Nat`); `Hdr.hash` is the hash *computed from the decoded header* (never a claimed one). -/
namespace Hc

abbrev Bytes := List Nat

/-- what the validator reads of a decoded execution header; `hash` = keccak256(rlp(header)) recomputed from it,
    `number` = `header.Number.Uint64()` -/
structure Hdr where
  hash : Bytes
  number : Nat
  txRoot : Bytes
  uncleRoot : Bytes
  wdRoot : Option Bytes          -- header.WithdrawalsHash (nil before Shanghai)
  receiptRoot : Bytes
deriving DecidableEq, Repr

/-- roots recomputed from a decoded body (`DeriveSha`, `CalcUncleHash`) -/
structure Body where
  txRoot : Bytes
  uncleRoot : Bytes
  wdRoot : Option Bytes          -- none: legacy encoding (no withdrawals list)
deriving DecidableEq, Repr

inductive Key where
  | headerByHash (h : Bytes) | headerByNumber (n : Nat) | body (h : Bytes) | receipts (h : Bytes)
deriving DecidableEq, Repr

/-- verdict of the header-proof check (C03, `ValidateHeaderAndProof`) -/
inductive PV | ok | err | panic
deriving DecidableEq, Repr

inductive Content where
  | header (hd : Hdr) (pv : PV)            -- decoded header + verdict of the proof check on it
  | body (b : Body)
  | receipts (root : Bytes) (empty : Bool) -- recomputed receipt root; whether the content bytes are empty
  | undecodable
deriving DecidableEq, Repr

structure Quirks where
  /-- `validation/oracle.go:73-94`: the looked-up header is not compared with the requested hash -/
  oracleUnbound : Bool := false
  /-- `history_network.go:283`: a body without a withdrawals list passes whatever the header commits to -/
  legacyBodySkipsWithdrawals : Bool := false
  /-- `history_network.go:286`: nil `header.WithdrawalsHash` dereferenced for a Shanghai-format body -/
  nilWithdrawalsHashDeref : Bool := false
  /-- `validation/header_validator.go:113` (C03): the proof check itself panics (`HistoricalRoots[slot/8192]`) -/
  headerProofPanics : Bool := false
  /-- `history/validation.go:95`: `contentKey[0]` on an empty key -/
  emptyKeyPanics : Bool := false
deriving DecidableEq, Repr

inductive Out | ok | err | panic
deriving DecidableEq, Repr

/-- keccak256(rlp([])) — `emptyReceiptHash` of history_network.go:36 -/
def emptyReceiptRoot : Bytes :=
  [0x56, 0xe8, 0x1f, 0x17, 0x1b, 0xcc, 0x55, 0xa6, 0xff, 0x83, 0x45, 0xe6, 0x92, 0xc0, 0xf8, 0x6e,
   0x5b, 0x48, 0xe0, 0x1b, 0x99, 0x6c, 0xad, 0xc0, 0x01, 0x62, 0x2f, 0xb5, 0xe3, 0x63, 0xb4, 0x21]

/-- the header source as the validator sees it (`GetBlockHeaderByHash`): `src h` is the header the looked-up content
    decodes to, if any -/
def lookup (q : Quirks) (src : Bytes → Option Hdr) (h : Bytes) : Option Hdr :=
  match src h with
  | some hd => if q.oracleUnbound || hd.hash = h then some hd else none
  | none => none

def proofOut (q : Quirks) : PV → Out
  | .ok => .ok
  | .err => .err
  | .panic => if q.headerProofPanics then .panic else .err

def bodyOut (q : Quirks) (b : Body) (hd : Hdr) : Out :=
  if b.uncleRoot ≠ hd.uncleRoot then .err
  else if b.txRoot ≠ hd.txRoot then .err
  else match b.wdRoot, hd.wdRoot with
    | none, none => .ok
    | none, some _ => if q.legacyBodySkipsWithdrawals then .ok else .err
    | some _, none => if q.nilWithdrawalsHashDeref then .panic else .err
    | some w, some w' => if w = w' then .ok else .err

def receiptsOut (root : Bytes) (empty : Bool) (hd : Hdr) : Out :=
  if hd.receiptRoot = emptyReceiptRoot then (if empty then .ok else .err)
  else if root = hd.receiptRoot then .ok else .err

/-- `ValidateContent` on a parsed key and decoded content -/
def validate (q : Quirks) (src : Bytes → Option Hdr) : Key → Content → Out
  | .headerByHash h, .header hd pv => if hd.hash = h then proofOut q pv else .err
  | .headerByNumber n, .header hd pv => if hd.number = n then proofOut q pv else .err
  | .body h, .body b =>
    match lookup q src h with
    | none => .err
    | some hd => bodyOut q b hd
  | .receipts h, .receipts root empty =>
    match lookup q src h with
    | none => .err
    | some hd => receiptsOut root empty hd
  | _, _ => .err

def leNat : Bytes → Nat
  | [] => 0
  | b :: rest => b + 256 * leNat rest

/-- content key → selector and payload (`types/history/types.go`; number keys: 8 little-endian bytes, a longer payload
    is read up to its eighth byte, as ztyp's `Uint64View.Deserialize` does) -/
def parseKey : Bytes → Option Key
  | [] => none
  | sel :: p =>
    if sel = 0 then some (.headerByHash p)
    else if sel = 1 then some (.body p)
    else if sel = 2 then some (.receipts p)
    else if sel = 3 then (if 8 ≤ p.length then some (.headerByNumber (leNat (p.take 8))) else none)
    else none

/-- `ValidateContent` on key bytes and decoded content -/
def validateKey (q : Quirks) (src : Bytes → Option Hdr) (key : Bytes) (c : Content) : Out :=
  if key = [] then (if q.emptyKeyPanics then .panic else .err)
  else match parseKey key with
    | none => .err
    | some k => validate q src k c

/-- bound to its key, relative to what the header source answered -/
def BoundObs (src : Bytes → Option Hdr) : Key → Content → Prop
  | .headerByHash h, .header hd pv => hd.hash = h ∧ pv = .ok
  | .headerByNumber n, .header hd pv => hd.number = n ∧ pv = .ok
  | .body h, .body b =>
    ∃ hd, src h = some hd ∧ hd.hash = h ∧ b.txRoot = hd.txRoot ∧ b.uncleRoot = hd.uncleRoot ∧ b.wdRoot = hd.wdRoot
  | .receipts h, .receipts root empty =>
    ∃ hd, src h = some hd ∧ hd.hash = h ∧
      (if hd.receiptRoot = emptyReceiptRoot then empty = true else root = hd.receiptRoot)
  | _, _ => False

theorem lookup_ideal (src : Bytes → Option Hdr) (h : Bytes) (hd : Hdr) :
    lookup {} src h = some hd ↔ src h = some hd ∧ hd.hash = h := by
  unfold lookup
  cases hs : src h with
  | none => simp
  | some hd' =>
    by_cases hh : hd'.hash = h
    · simp only [hh, Bool.false_or, decide_true, if_true, Option.some.injEq]
      constructor
      · intro e; subst e; exact ⟨rfl, hh⟩
      · intro e; exact e.1
    · simp only [hh, Bool.false_or, decide_false, Option.some.injEq]
      constructor
      · intro e; simp at e
      · intro e; obtain ⟨e1, e2⟩ := e; subst e1; exact absurd e2 hh

theorem proofOut_ideal (pv : PV) : proofOut {} pv = .ok ↔ pv = .ok := by
  cases pv <;> simp [proofOut]

theorem bodyOut_ideal (b : Body) (hd : Hdr) :
    bodyOut {} b hd = .ok ↔ b.txRoot = hd.txRoot ∧ b.uncleRoot = hd.uncleRoot ∧ b.wdRoot = hd.wdRoot := by
  unfold bodyOut
  by_cases hu : b.uncleRoot = hd.uncleRoot
  · by_cases ht : b.txRoot = hd.txRoot
    · simp only [hu, ht, ne_eq, not_true_eq_false, if_false, true_and]
      cases hb : b.wdRoot <;> cases hh : hd.wdRoot <;> simp
    · simp [hu, ht]
  · simp [hu]

theorem receiptsOut_ideal (root : Bytes) (empty : Bool) (hd : Hdr) :
    receiptsOut root empty hd = .ok ↔
      (if hd.receiptRoot = emptyReceiptRoot then empty = true else root = hd.receiptRoot) := by
  unfold receiptsOut
  by_cases he : hd.receiptRoot = emptyReceiptRoot
  · simp only [he, if_true]; cases empty <;> simp
  · simp only [he, if_false]
    by_cases hr : root = hd.receiptRoot <;> simp [hr]

/-- ideal model, exactly: accepted ⇔ bound (relative to the source's answer, which is hash-checked) -/
theorem validate_ok_iff (src : Bytes → Option Hdr) (k : Key) (c : Content) :
    validate {} src k c = .ok ↔ BoundObs src k c := by
  cases k with
  | headerByHash h =>
    cases c with
    | header hd pv =>
      simp only [validate, BoundObs]
      by_cases hh : hd.hash = h
      · simp [hh, proofOut_ideal]
      · simp [hh]
    | body b => simp [validate, BoundObs]
    | receipts r e => simp [validate, BoundObs]
    | undecodable => simp [validate, BoundObs]
  | headerByNumber n =>
    cases c with
    | header hd pv =>
      simp only [validate, BoundObs]
      by_cases hh : hd.number = n
      · simp [hh, proofOut_ideal]
      · simp [hh]
    | body b => simp [validate, BoundObs]
    | receipts r e => simp [validate, BoundObs]
    | undecodable => simp [validate, BoundObs]
  | body h =>
    cases c with
    | header hd pv => simp [validate, BoundObs]
    | body b =>
      simp only [validate, BoundObs]
      cases hl : lookup {} src h with
      | none =>
        simp only [reduceCtorEq, false_iff]
        intro ⟨hd, h1, h2, _⟩
        have := (lookup_ideal src h hd).2 ⟨h1, h2⟩
        rw [hl] at this; cases this
      | some hd =>
        have hb := (lookup_ideal src h hd).1 hl
        simp only [bodyOut_ideal]
        constructor
        · intro hr; exact ⟨hd, hb.1, hb.2, hr⟩
        · intro ⟨hd', h1, _, hr⟩
          rw [hb.1] at h1; cases h1; exact hr
    | receipts r e => simp [validate, BoundObs]
    | undecodable => simp [validate, BoundObs]
  | receipts h =>
    cases c with
    | header hd pv => simp [validate, BoundObs]
    | body b => simp [validate, BoundObs]
    | receipts root empty =>
      simp only [validate, BoundObs]
      cases hl : lookup {} src h with
      | none =>
        simp only [reduceCtorEq, false_iff]
        intro ⟨hd, h1, h2, _⟩
        have := (lookup_ideal src h hd).2 ⟨h1, h2⟩
        rw [hl] at this; cases this
      | some hd =>
        have hb := (lookup_ideal src h hd).1 hl
        simp only [receiptsOut_ideal]
        constructor
        · intro hr; exact ⟨hd, hb.1, hb.2, hr⟩
        · intro ⟨hd', h1, _, hr⟩
          rw [hb.1] at h1; cases h1; exact hr
    | undecodable => simp [validate, BoundObs]

theorem proofOut_never_panics (pv : PV) : proofOut {} pv ≠ .panic := by
  cases pv <;> simp [proofOut]

theorem bodyOut_never_panics (b : Body) (hd : Hdr) : bodyOut {} b hd ≠ .panic := by
  unfold bodyOut
  by_cases hu : b.uncleRoot = hd.uncleRoot
  · by_cases ht : b.txRoot = hd.txRoot
    · simp only [hu, ht, ne_eq, not_true_eq_false, if_false]
      cases hb : b.wdRoot <;> cases hh : hd.wdRoot <;> simp
      split <;> simp
    · simp [hu, ht]
  · simp [hu]

theorem receiptsOut_never_panics (root : Bytes) (empty : Bool) (hd : Hdr) : receiptsOut root empty hd ≠ .panic := by
  unfold receiptsOut
  split <;> split <;> simp

/-- ideal model: no key, content or source answer makes the validator panic -/
theorem validate_never_panics (src : Bytes → Option Hdr) (k : Key) (c : Content) :
    validate {} src k c ≠ .panic := by
  cases k <;> cases c <;> simp only [validate] <;> try (simp; done)
  · split
    · exact proofOut_never_panics _
    · simp
  · split
    · exact proofOut_never_panics _
    · simp
  · split
    · simp
    · exact bodyOut_never_panics _ _
  · split
    · simp
    · exact receiptsOut_never_panics _ _ _

theorem validateKey_never_panics (src : Bytes → Option Hdr) (key : Bytes) (c : Content) :
    validateKey {} src key c ≠ .panic := by
  unfold validateKey
  split
  · simp
  · split
    · simp
    · exact validate_never_panics _ _ _

theorem out_cases (o : Out) (h1 : o ≠ .ok) (h2 : o ≠ .panic) : o = .err := by
  cases o <;> simp_all

/-! ## Byte level -/

/-- the decoders and hash/root functions the validator calls, as parameters (nothing is assumed about them) -/
structure Env where
  /-- SSZ `BlockHeaderWithProof` → (header rlp, proof bytes) -/
  decodeHWP : Bytes → Option (Bytes × Bytes)
  /-- rlp header → the fields read, with the hash recomputed from the decoded header -/
  decodeHeader : Bytes → Option Hdr
  /-- C03: `HeaderValidator.ValidateHeaderAndProof` against the built-in accumulators -/
  proofCheck : Hdr → Bytes → PV
  /-- `DecodePortalBlockBodyBytes` followed by `DeriveSha`/`CalcUncleHash` on the decoded body -/
  decodeBody : Bytes → Option Body
  /-- `DecodeReceipts` followed by `DeriveSha` -/
  decodeReceipts : Bytes → Option Bytes

/-- the header the content returned by `portal_historyGetContent` for key `00 ‖ h` decodes to
    (`ValidationOracle.GetBlockHeaderByHash` up to, not including, any comparison with `h`) -/
def srcOf (env : Env) (rpc : Bytes → Option Bytes) (h : Bytes) : Option Hdr :=
  match rpc (0 :: h) with
  | none => none
  | some content =>
    match env.decodeHWP content with
    | none => none
    | some hp => env.decodeHeader hp.1

/-- `ValidationOracle.GetBlockHeaderByHash` -/
def oracleLookup (env : Env) (q : Quirks) (rpc : Bytes → Option Bytes) (h : Bytes) : Option Hdr :=
  lookup q (srcOf env rpc) h

def observeHeader (env : Env) (content : Bytes) : Content :=
  match env.decodeHWP content with
  | none => .undecodable
  | some hp =>
    match env.decodeHeader hp.1 with
    | none => .undecodable
    | some hd => .header hd (env.proofCheck hd hp.2)

/-- what the content decodes to under a key of the given type -/
def observe (env : Env) (k : Key) (content : Bytes) : Content :=
  match k with
  | .headerByHash _ => observeHeader env content
  | .headerByNumber _ => observeHeader env content
  | .body _ =>
    match env.decodeBody content with
    | some b => .body b
    | none => .undecodable
  | .receipts _ =>
    if content = [] then .receipts emptyReceiptRoot true
    else match env.decodeReceipts content with
      | some r => .receipts r false
      | none => .undecodable

/-- `HistoryValidator.ValidateContent(contentKey, content)` with the real `ValidationOracle` over the header source `rpc` -/
def validateContent (env : Env) (q : Quirks) (rpc : Bytes → Option Bytes) (key content : Bytes) : Out :=
  if key = [] then (if q.emptyKeyPanics then .panic else .err)
  else match parseKey key with
    | none => .err
    | some k => validate q (srcOf env rpc) k (observe env k content)

/-- the byte-level function is the observation-level function the driver runs, applied to what the content decodes to -/
theorem validateContent_eq_validateKey (env : Env) (q : Quirks) (rpc : Bytes → Option Bytes) (key content : Bytes)
    (k : Key) (hk : parseKey key = some k) :
    validateContent env q rpc key content = validateKey q (srcOf env rpc) key (observe env k content) := by
  unfold validateContent validateKey
  simp only [hk]

/-- "there is a header whose (recomputed) hash is `h`": header bytes that decode to it -/
def HeaderWithHash (env : Env) (h : Bytes) (hd : Hdr) : Prop :=
  (∃ hb, env.decodeHeader hb = some hd) ∧ hd.hash = h

/-- C02's "cryptographically tied to the key": no reference to any header source -/
def Bound (env : Env) (key content : Bytes) : Prop :=
  match parseKey key with
  | none => False
  | some (.headerByHash h) =>
    ∃ hb pf hd, env.decodeHWP content = some (hb, pf) ∧ env.decodeHeader hb = some hd ∧
      hd.hash = h ∧ env.proofCheck hd pf = .ok
  | some (.headerByNumber n) =>
    ∃ hb pf hd, env.decodeHWP content = some (hb, pf) ∧ env.decodeHeader hb = some hd ∧
      hd.number = n ∧ env.proofCheck hd pf = .ok
  | some (.body h) =>
    ∃ b hd, env.decodeBody content = some b ∧ HeaderWithHash env h hd ∧
      b.txRoot = hd.txRoot ∧ b.uncleRoot = hd.uncleRoot ∧ b.wdRoot = hd.wdRoot
  | some (.receipts h) =>
    ∃ hd, HeaderWithHash env h hd ∧
      (if hd.receiptRoot = emptyReceiptRoot then content = []
       else content ≠ [] ∧ env.decodeReceipts content = some hd.receiptRoot)

theorem srcOf_decodes (env : Env) (rpc : Bytes → Option Bytes) (h : Bytes) (hd : Hdr)
    (hs : srcOf env rpc h = some hd) : ∃ hb, env.decodeHeader hb = some hd := by
  unfold srcOf at hs
  split at hs
  · cases hs
  · split at hs
    · cases hs
    · rename_i hp _
      exact ⟨hp.1, hs⟩

/-- the ideal oracle only ever returns a header whose recomputed hash is the requested one -/
theorem oracleLookup_bound (env : Env) (rpc : Bytes → Option Bytes) (h : Bytes) (hd : Hdr)
    (hl : oracleLookup env {} rpc h = some hd) : HeaderWithHash env h hd := by
  have := (lookup_ideal (srcOf env rpc) h hd).1 hl
  exact ⟨srcOf_decodes env rpc h hd this.1, this.2⟩

theorem observeHeader_header (env : Env) (content : Bytes) (hd : Hdr) (pv : PV)
    (ho : observeHeader env content = .header hd pv) :
    ∃ hb pf, env.decodeHWP content = some (hb, pf) ∧ env.decodeHeader hb = some hd ∧ env.proofCheck hd pf = pv := by
  unfold observeHeader at ho
  split at ho
  · cases ho
  · rename_i hp hhp
    split at ho
    · cases ho
    · rename_i hd' hdec
      simp only [Content.header.injEq] at ho
      obtain ⟨e1, e2⟩ := ho
      subst e1
      exact ⟨hp.1, hp.2, by simpa using hhp, hdec, e2⟩

theorem observeHeader_cases (env : Env) (content : Bytes) :
    observeHeader env content = .undecodable ∨ ∃ hd pv, observeHeader env content = .header hd pv := by
  unfold observeHeader
  split
  · exact Or.inl rfl
  · split
    · exact Or.inl rfl
    · exact Or.inr ⟨_, _, rfl⟩

/-- C02 (ideal model), soundness: whatever the header source answers, accepted content is bound to its key -/
theorem accept_sound (env : Env) (rpc : Bytes → Option Bytes) (key content : Bytes)
    (hv : validateContent env {} rpc key content = .ok) : Bound env key content := by
  unfold validateContent at hv
  split at hv
  · simp at hv
  · unfold Bound
    cases hk : parseKey key with
    | none => simp [hk] at hv
    | some k =>
      simp only [hk] at hv
      have hb := (validate_ok_iff _ _ _).1 hv
      cases k with
      | headerByHash h =>
        simp only [observe] at hb
        rcases observeHeader_cases env content with hu | ⟨hd, pv, ho⟩
        · rw [hu] at hb; exact hb.elim
        · rw [ho] at hb
          obtain ⟨hb', pf, h1, h2, h3⟩ := observeHeader_header env content hd pv ho
          simp only [BoundObs] at hb
          exact ⟨hb', pf, hd, h1, h2, hb.1, by rw [h3]; exact hb.2⟩
      | headerByNumber n =>
        simp only [observe] at hb
        rcases observeHeader_cases env content with hu | ⟨hd, pv, ho⟩
        · rw [hu] at hb; exact hb.elim
        · rw [ho] at hb
          obtain ⟨hb', pf, h1, h2, h3⟩ := observeHeader_header env content hd pv ho
          simp only [BoundObs] at hb
          exact ⟨hb', pf, hd, h1, h2, hb.1, by rw [h3]; exact hb.2⟩
      | body h =>
        simp only [observe] at hb
        cases hd : env.decodeBody content with
        | none => rw [hd] at hb; exact hb.elim
        | some b =>
          rw [hd] at hb
          simp only [BoundObs] at hb
          obtain ⟨hdr, h1, h2, h3⟩ := hb
          exact ⟨b, hdr, rfl, ⟨srcOf_decodes env rpc h hdr h1, h2⟩, h3⟩
      | receipts h =>
        simp only [observe] at hb
        by_cases hc : content = []
        · simp only [hc, if_true, BoundObs] at hb
          obtain ⟨hdr, h1, h2, h3⟩ := hb
          refine ⟨hdr, ⟨srcOf_decodes env rpc h hdr h1, h2⟩, ?_⟩
          by_cases he : hdr.receiptRoot = emptyReceiptRoot
          · simp [he, hc]
          · simp only [he, if_false] at h3
            exact absurd h3.symm he
        · simp only [hc, if_false] at hb
          cases hr : env.decodeReceipts content with
          | none => rw [hr] at hb; exact hb.elim
          | some r =>
            rw [hr] at hb
            simp only [BoundObs] at hb
            obtain ⟨hdr, h1, h2, h3⟩ := hb
            refine ⟨hdr, ⟨srcOf_decodes env rpc h hdr h1, h2⟩, ?_⟩
            by_cases he : hdr.receiptRoot = emptyReceiptRoot
            · simp [he] at h3
            · simp only [he, if_false] at h3 ⊢
              exact ⟨hc, by rw [h3]⟩

/-- ideal model: no input makes the validator panic -/
theorem never_panics (env : Env) (rpc : Bytes → Option Bytes) (key content : Bytes) :
    validateContent env {} rpc key content ≠ .panic := by
  unfold validateContent
  split
  · simp
  · split
    · simp
    · exact validate_never_panics _ _ _

/-- C02 (ideal model), "any other byte string under that key is rejected with an error" -/
theorem reject_total (env : Env) (rpc : Bytes → Option Bytes) (key content : Bytes)
    (hn : ¬ Bound env key content) : validateContent env {} rpc key content = .err :=
  out_cases _ (fun h => hn (accept_sound env rpc key content h)) (never_panics env rpc key content)

/-- no two decodable headers share a hash (what collision resistance of keccak256∘rlp gives; a HYPOTHESIS of the
    corollary below only) -/
def HashInjective (env : Env) : Prop :=
  ∀ hb hb' hd hd', env.decodeHeader hb = some hd → env.decodeHeader hb' = some hd' → hd.hash = hd'.hash → hd = hd'

/-- with collision-free header hashes: an accepted body carries the roots of *the* header with the key's hash — or, read
    contrapositively, an accepted body with other roots exhibits two different headers with one hash -/
theorem accepted_body_matches_the_header (env : Env) (rpc : Bytes → Option Bytes) (h content : Bytes)
    (hv : validateContent env {} rpc (1 :: h) content = .ok)
    (hb' : Bytes) (hd' : Hdr) (hdec : env.decodeHeader hb' = some hd') (hh : hd'.hash = h) :
    ∃ b, env.decodeBody content = some b ∧
      ((b.txRoot = hd'.txRoot ∧ b.uncleRoot = hd'.uncleRoot ∧ b.wdRoot = hd'.wdRoot) ∨
       (∃ hb hd, env.decodeHeader hb = some hd ∧ hd.hash = hd'.hash ∧ hd ≠ hd')) := by
  have hbound := accept_sound env rpc (1 :: h) content hv
  simp only [Bound, parseKey] at hbound
  simp only [show (1 : Nat) ≠ 0 by decide, if_false, if_true] at hbound
  obtain ⟨b, hd, h1, ⟨⟨hb, h2⟩, h3⟩, h4⟩ := hbound
  refine ⟨b, h1, ?_⟩
  by_cases he : hd = hd'
  · subst he; exact Or.inl h4
  · exact Or.inr ⟨hb, hd, h2, by rw [h3, hh], he⟩

/-- same for receipts -/
theorem accepted_receipts_match_the_header (env : Env) (rpc : Bytes → Option Bytes) (h content : Bytes)
    (hv : validateContent env {} rpc (2 :: h) content = .ok)
    (hb' : Bytes) (hd' : Hdr) (hdec : env.decodeHeader hb' = some hd') (hh : hd'.hash = h) :
    (if hd'.receiptRoot = emptyReceiptRoot then content = []
     else content ≠ [] ∧ env.decodeReceipts content = some hd'.receiptRoot) ∨
    (∃ hb hd, env.decodeHeader hb = some hd ∧ hd.hash = hd'.hash ∧ hd ≠ hd') := by
  have hbound := accept_sound env rpc (2 :: h) content hv
  simp only [Bound, parseKey] at hbound
  simp only [show (2 : Nat) ≠ 0 by decide, show (2 : Nat) ≠ 1 by decide, if_false, if_true] at hbound
  obtain ⟨hd, ⟨⟨hb, h2⟩, h3⟩, h4⟩ := hbound
  by_cases he : hd = hd'
  · subst he; exact Or.inl h4
  · exact Or.inr ⟨hb, hd, h2, by rw [h3, hh], he⟩

/-! ## The code as it is: decided counter-examples, one per quirk -/

def hx (n : Nat) : Bytes := [n]

/-- as implemented: a lying header source gets a forged body accepted under a key whose hash no served header has -/
theorem quirk_oracle_unbound_breaks_C02 :
    let forged : Hdr := { hash := hx 99, number := 1, txRoot := hx 7, uncleRoot := hx 8, wdRoot := none, receiptRoot := hx 9 }
    let b : Body := { txRoot := hx 7, uncleRoot := hx 8, wdRoot := none }
    validate { oracleUnbound := true } (fun _ => some forged) (.body (hx 42)) (.body b) = .ok ∧
    validate {} (fun _ => some forged) (.body (hx 42)) (.body b) = .err ∧
    ¬ BoundObs (fun _ => some forged) (.body (hx 42)) (.body b) := by
  refine ⟨by decide, by decide, ?_⟩
  intro ⟨hd, h1, h2, _⟩
  simp only [Option.some.injEq] at h1
  subst h1
  exact absurd h2 (by decide)

/-- as implemented: a body without its withdrawals is accepted for a header that commits to them -/
theorem quirk_legacy_body_breaks_C02 :
    let hd : Hdr := { hash := hx 42, number := 18000000, txRoot := hx 7, uncleRoot := hx 8, wdRoot := some (hx 5), receiptRoot := hx 9 }
    let b : Body := { txRoot := hx 7, uncleRoot := hx 8, wdRoot := none }
    validate { legacyBodySkipsWithdrawals := true } (fun _ => some hd) (.body (hx 42)) (.body b) = .ok ∧
    validate {} (fun _ => some hd) (.body (hx 42)) (.body b) = .err := by
  exact ⟨by decide, by decide⟩

/-- as implemented: a Shanghai-format body under a header without a withdrawals root is not rejected with an error -/
theorem quirk_nil_withdrawals_hash_breaks_C02 :
    let hd : Hdr := { hash := hx 42, number := 100, txRoot := hx 7, uncleRoot := hx 8, wdRoot := none, receiptRoot := hx 9 }
    let b : Body := { txRoot := hx 7, uncleRoot := hx 8, wdRoot := some (hx 5) }
    validate { nilWithdrawalsHashDeref := true } (fun _ => some hd) (.body (hx 42)) (.body b) = .panic ∧
    validate {} (fun _ => some hd) (.body (hx 42)) (.body b) = .err := by
  exact ⟨by decide, by decide⟩

/-- as implemented (C03's finding seen from here): a header whose proof check panics is not rejected with an error -/
theorem quirk_header_proof_panics_breaks_C02 :
    let hd : Hdr := { hash := hx 42, number := 15600000, txRoot := hx 7, uncleRoot := hx 8, wdRoot := none, receiptRoot := hx 9 }
    validate { headerProofPanics := true } (fun _ => none) (.headerByHash (hx 42)) (.header hd .panic) = .panic ∧
    validate {} (fun _ => none) (.headerByHash (hx 42)) (.header hd .panic) = .err := by
  exact ⟨by decide, by decide⟩

/-- as implemented: the empty key is not rejected with an error -/
theorem quirk_empty_key_breaks_C02 :
    validateKey { emptyKeyPanics := true } (fun _ => none) [] .undecodable = .panic ∧
    validateKey {} (fun _ => none) [] .undecodable = .err := by
  exact ⟨by decide, by decide⟩

end Hc
