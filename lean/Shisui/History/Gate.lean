import Shisui.History.Content
/-! # The gate in front of the history store and the block getters (C02)

`Network.validateContents` (`history/history_network.go:232-248`) and `GetBlockHeader/GetBlockBody/GetReceipts`
(`:76-201`) over an abstract validator `v : K → C → Out`, an abstract decoder and an abstract store (newest binding first).
The theorems say that nothing reaches the store, and nothing is returned, that the validator did not accept — for every
validator, item list, store content and remote answer. -/
namespace Hg
open Hc (Out)

variable {K C R : Type} [DecidableEq K]

abbrev Store (K C : Type) := List (K × C)

def get (st : Store K C) (k : K) : Option C :=
  match st with
  | [] => none
  | (k', c) :: rest => if k' = k then some c else get rest k

def put (st : Store K C) (k : K) (c : C) : Store K C := (k, c) :: st

theorem get_mem (st : Store K C) (k : K) (c : C) (h : get st k = some c) : (k, c) ∈ st := by
  induction st with
  | nil => simp [get] at h
  | cons p rest ih =>
    obtain ⟨k', c'⟩ := p
    simp only [get] at h
    by_cases hk : k' = k
    · simp only [hk, if_true, Option.some.injEq] at h
      subst hk; subst h; exact List.mem_cons_self ..
    · simp only [hk, if_false] at h
      exact List.mem_cons_of_mem _ (ih h)

/-- `validateContents`: items already stored are skipped, the first rejected item ends the call, accepted items are put.
    Returns the store and the list of puts made (oldest first). -/
def gate (v : K → C → Out) : Store K C → List (K × C) → Store K C × List (K × C) × Out
  | st, [] => (st, [], .ok)
  | st, (k, c) :: rest =>
    match get st k with
    | some _ => gate v st rest
    | none =>
      match v k c with
      | .ok =>
        let r := gate v (put st k c) rest
        (r.1, (k, c) :: r.2.1, r.2.2)
      | .err => (st, [], .err)
      | .panic => (st, [], .panic)

/-- every put made by the gate was accepted by the validator (and was one of the offered items) -/
theorem gate_puts_validated (v : K → C → Out) (items : List (K × C)) :
    ∀ st : Store K C, ∀ p ∈ (gate v st items).2.1, p ∈ items ∧ v p.1 p.2 = .ok := by
  induction items with
  | nil => intro st p hp; simp [gate] at hp
  | cons it rest ih =>
    intro st p hp
    obtain ⟨k, c⟩ := it
    simp only [gate] at hp
    cases hg : get st k with
    | some c0 =>
      simp only [hg] at hp
      have := ih st p hp
      exact ⟨List.mem_cons_of_mem _ this.1, this.2⟩
    | none =>
      simp only [hg] at hp
      cases hv : v k c with
      | ok =>
        simp only [hv, List.mem_cons] at hp
        rcases hp with rfl | hp
        · exact ⟨List.mem_cons_self .., hv⟩
        · have := ih (put st k c) p hp
          exact ⟨List.mem_cons_of_mem _ this.1, this.2⟩
      | err => simp [hv] at hp
      | panic => simp [hv] at hp

/-- the store after the gate holds what it held before plus the puts, nothing else -/
theorem gate_store (v : K → C → Out) (items : List (K × C)) :
    ∀ st : Store K C, ∀ p ∈ (gate v st items).1, p ∈ st ∨ p ∈ (gate v st items).2.1 := by
  induction items with
  | nil => intro st p hp; simp only [gate] at hp; exact Or.inl hp
  | cons it rest ih =>
    intro st p hp
    obtain ⟨k, c⟩ := it
    simp only [gate] at hp ⊢
    cases hg : get st k with
    | some c0 =>
      simp only [hg] at hp ⊢
      exact ih st p hp
    | none =>
      simp only [hg] at hp ⊢
      cases hv : v k c with
      | ok =>
        simp only [hv] at hp ⊢
        rcases ih (put st k c) p hp with h | h
        · simp only [put, List.mem_cons] at h
          rcases h with rfl | h
          · exact Or.inr (List.mem_cons_self ..)
          · exact Or.inl h
        · exact Or.inr (List.mem_cons_of_mem _ h)
      | err => simp only [hv] at hp ⊢; exact Or.inl hp
      | panic => simp only [hv] at hp ⊢; exact Or.inl hp

/-- any predicate implied by acceptance and true of the store stays true of the store: the gate keeps the store clean -/
theorem gate_preserves (v : K → C → Out) (P : K → C → Prop) (hvP : ∀ k c, v k c = .ok → P k c)
    (items : List (K × C)) (st : Store K C) (hst : ∀ p ∈ st, P p.1 p.2) :
    ∀ p ∈ (gate v st items).1, P p.1 p.2 := by
  intro p hp
  rcases gate_store v items st p hp with h | h
  · exact hst p h
  · exact hvP _ _ (gate_puts_validated v items st p h).2

/-- a block getter: the stored content is decoded and returned as is; otherwise the looked-up content must pass the
    validator and decode, is put, and its decoding returned. Result: store, put made, value returned (none = error). -/
def getter (v : K → C → Out) (dec : C → Option R) (st : Store K C) (remote : K → Option C) (k : K) :
    Store K C × Option (K × C) × Option R × Out :=
  match get st k with
  | some c => (st, none, dec c, .ok)
  | none =>
    match remote k with
    | none => (st, none, none, .err)
    | some c =>
      match v k c with
      | .ok =>
        match dec c with
        | some r => (put st k c, some (k, c), some r, .ok)
        | none => (st, none, none, .err)
      | .err => (st, none, none, .err)
      | .panic => (st, none, none, .panic)

/-- whatever a getter returns is the decoding of content that was in the store under that key or that the validator
    accepted under that key in this call -/
theorem getter_returns_validated (v : K → C → Out) (dec : C → Option R) (st : Store K C) (remote : K → Option C) (k : K)
    (r : R) (hr : (getter v dec st remote k).2.2.1 = some r) :
    ∃ c, dec c = some r ∧ ((k, c) ∈ st ∨ (remote k = some c ∧ v k c = .ok)) := by
  unfold getter at hr
  cases hg : get st k with
  | some c =>
    simp only [hg] at hr
    exact ⟨c, hr, Or.inl (get_mem st k c hg)⟩
  | none =>
    simp only [hg] at hr
    cases hrem : remote k with
    | none => simp [hrem] at hr
    | some c =>
      simp only [hrem] at hr
      cases hv : v k c with
      | ok =>
        simp only [hv] at hr
        cases hd : dec c with
        | none => simp [hd] at hr
        | some r' =>
          simp only [hd, Option.some.injEq] at hr
          subst hr
          exact ⟨c, hd, Or.inr ⟨rfl, hv⟩⟩
      | err => simp [hv] at hr
      | panic => simp [hv] at hr

/-- a getter puts only what the validator accepted under the requested key -/
theorem getter_puts_validated (v : K → C → Out) (dec : C → Option R) (st : Store K C) (remote : K → Option C) (k : K)
    (p : K × C) (hp : (getter v dec st remote k).2.1 = some p) : p.1 = k ∧ v p.1 p.2 = .ok := by
  unfold getter at hp
  cases hg : get st k with
  | some c => simp [hg] at hp
  | none =>
    simp only [hg] at hp
    cases hrem : remote k with
    | none => simp [hrem] at hp
    | some c =>
      simp only [hrem] at hp
      cases hv : v k c with
      | ok =>
        simp only [hv] at hp
        cases hd : dec c with
        | none => simp [hd] at hp
        | some r' =>
          simp only [hd, Option.some.injEq] at hp
          subst hp
          exact ⟨rfl, hv⟩
      | err => simp [hv] at hp
      | panic => simp [hv] at hp

theorem getter_store (v : K → C → Out) (dec : C → Option R) (st : Store K C) (remote : K → Option C) (k : K) :
    ∀ p ∈ (getter v dec st remote k).1, p ∈ st ∨ (getter v dec st remote k).2.1 = some p := by
  intro p hp
  unfold getter at hp ⊢
  cases hg : get st k with
  | some c => simp only [hg] at hp ⊢; exact Or.inl hp
  | none =>
    simp only [hg] at hp ⊢
    cases hrem : remote k with
    | none => simp only [hrem] at hp ⊢; exact Or.inl hp
    | some c =>
      simp only [hrem] at hp ⊢
      cases hv : v k c with
      | ok =>
        simp only [hv] at hp ⊢
        cases hd : dec c with
        | none => simp only [hd] at hp ⊢; exact Or.inl hp
        | some r' =>
          simp only [hd, put, List.mem_cons] at hp ⊢
          rcases hp with rfl | hp
          · exact Or.inr rfl
          · exact Or.inl hp
      | err => simp only [hv] at hp ⊢; exact Or.inl hp
      | panic => simp only [hv] at hp ⊢; exact Or.inl hp

/-- one step of the node's life as far as the history store is concerned; every step carries the validator it ran with
    (the header source, and with it the validator's answers, may change from one step to the next) -/
inductive Op (K C : Type) where
  | offered (v : K → C → Out) (items : List (K × C))           -- validateContents on the items of one accepted offer
  | fetch (v : K → C → Out) (remote : K → Option C) (k : K)    -- a block getter

def Op.validator : Op K C → (K → C → Out)
  | .offered v _ => v
  | .fetch v _ _ => v

def step (dec : C → Option R) (st : Store K C) : Op K C → Store K C
  | .offered v items => (gate v st items).1
  | .fetch v remote k => (getter v dec st remote k).1

def run (dec : C → Option R) : Store K C → List (Op K C) → Store K C
  | st, [] => st
  | st, op :: ops => run dec (step dec st op) ops

/-- over every history of offers and fetches, the store only ever holds content some step's validator accepted: any
    predicate implied by acceptance (for every validator used) and true of the initial store is true of the final one -/
theorem run_clean (dec : C → Option R) (P : K → C → Prop) (ops : List (Op K C))
    (hvP : ∀ op ∈ ops, ∀ k c, op.validator k c = .ok → P k c) :
    ∀ st : Store K C, (∀ p ∈ st, P p.1 p.2) → ∀ p ∈ run dec st ops, P p.1 p.2 := by
  induction ops with
  | nil => intro st hst; exact hst
  | cons op rest ih =>
    intro st hst
    apply ih (fun op' h' => hvP op' (List.mem_cons_of_mem _ h'))
    have hop := hvP op (List.mem_cons_self ..)
    cases op with
    | offered v items => exact gate_preserves v P hop items st hst
    | fetch v remote k =>
      intro p hp
      rcases getter_store v dec st remote k p hp with h | h
      · exact hst p h
      · exact hop _ _ (getter_puts_validated v dec st remote k p h).2

end Hg
