/-! C11 prototype: FINDNODES — responder's collection and asker's acceptance as decision logic. -/
namespace Fnn

/-! ### asker side: `verifyResponseNode` / `filterNodes` -/

structure Rec where
  id : Nat
  signed : Bool          -- enode.New succeeded (valid signature under an accepted scheme)
  relayOk : Bool         -- netutil.CheckRelayIP(sender.IP, n.IP) == nil
  inNetrestrict : Bool
  udp : Nat
  dist : Nat             -- LogDist(sender.ID, n.ID)
deriving DecidableEq, Repr

/-- one record against the requested distances (`none` = no distance filter, as for CONTENT/ENRs) and the ids seen so far -/
def acceptable (requested : Option (List Nat)) (seen : List Nat) (r : Rec) : Bool :=
  r.signed && r.relayOk && r.inNetrestrict && decide (r.udp > 1024) &&
  (match requested with | none => true | some ds => decide (r.dist ∈ ds)) && decide (r.id ∉ seen)

def filterNodes (requested : Option (List Nat)) : List Nat → List Rec → List Rec
  | _, [] => []
  | seen, r :: rs =>
    if acceptable requested seen r then r :: filterNodes requested (r.id :: seen) rs
    else filterNodes requested seen rs

theorem filterNodes_spec (requested : Option (List Nat)) (seen : List Nat) (rs : List Rec) :
    (∀ r ∈ filterNodes requested seen rs,
        r ∈ rs ∧ r.signed = true ∧ r.relayOk = true ∧ r.inNetrestrict = true ∧ r.udp > 1024 ∧
        (∀ ds, requested = some ds → r.dist ∈ ds) ∧ r.id ∉ seen) ∧
    ((filterNodes requested seen rs).map (·.id)).Nodup := by
  induction rs generalizing seen with
  | nil => simp [filterNodes]
  | cons r rs ih =>
    simp only [filterNodes]
    split
    · rename_i hacc
      simp only [acceptable, Bool.and_eq_true, decide_eq_true_eq] at hacc
      obtain ⟨⟨⟨⟨⟨h1, h2⟩, h3⟩, h4⟩, h5⟩, h6⟩ := hacc
      obtain ⟨ih1, ih2⟩ := ih (r.id :: seen)
      constructor
      · intro x hx
        simp only [List.mem_cons] at hx
        rcases hx with rfl | hx
        · refine ⟨by simp, h1, h2, h3, h4, ?_, h6⟩
          intro ds hds; subst hds; simpa using h5
        · obtain ⟨a, b, c, d, e, f, g⟩ := ih1 x hx
          refine ⟨by simp [a], b, c, d, e, f, ?_⟩
          intro hm; exact g (List.mem_cons_of_mem _ hm)
      · simp only [List.map_cons, List.nodup_cons]
        refine ⟨?_, ih2⟩
        intro hm
        obtain ⟨x, hx, hid⟩ := List.mem_map.mp hm
        have := (ih1 x hx).2.2.2.2.2.2
        exact this (by rw [hid]; simp)
    · obtain ⟨ih1, ih2⟩ := ih seen
      exact ⟨fun x hx => by obtain ⟨a, rest⟩ := ih1 x hx; exact ⟨by simp [a], rest⟩, ih2⟩

/-- C11 (asker): a record is used only if validly signed, at a requested distance from the responder,
    not a repeat, with a UDP port above 1024, relay-safe and inside the netrestrict list -/
theorem accept_only_if (requested : Option (List Nat)) (rs : List Rec) :
    (∀ r ∈ filterNodes requested [] rs,
        r ∈ rs ∧ r.signed = true ∧ r.relayOk = true ∧ r.inNetrestrict = true ∧ r.udp > 1024 ∧
        (∀ ds, requested = some ds → r.dist ∈ ds)) ∧
    ((filterNodes requested [] rs).map (·.id)).Nodup := by
  obtain ⟨h1, h2⟩ := filterNodes_spec requested [] rs
  exact ⟨fun r hr => by obtain ⟨a, b, c, d, e, f, _⟩ := h1 r hr; exact ⟨a, b, c, d, e, f⟩, h2⟩

/-! ### responder side: `collectTableNodes` -/

structure TNode where
  id : Nat
  live : Bool
  relayOk : Bool         -- towards this asker
deriving DecidableEq, Repr

/-- candidates for one requested distance: self for 0, else the liveness-checked entries of the covering bucket -/
def cand (bucket : Nat → List TNode) (self : TNode) (d : Nat) : List TNode :=
  if d = 0 then [self] else (bucket d).filter (·.live)

/-- `collectTableNodes` (buckets already mapped through `bucketAtDistance`) -/
def collect (bucket : Nat → List TNode) (self : TNode) (limit : Nat) : List Nat → List Nat → List TNode → List TNode
  | [], _, acc => acc
  | d :: ds, done, acc =>
    if d ∈ done ∨ d > 256 then collect bucket self limit ds done acc
    else if (acc ++ (cand bucket self d).filter (·.relayOk)).length ≥ limit
      then (acc ++ (cand bucket self d).filter (·.relayOk)).take limit
      else collect bucket self limit ds (d :: done) (acc ++ (cand bucket self d).filter (·.relayOk))

theorem collect_spec (bucket : Nat → List TNode) (self : TNode) (limit : Nat) (ds done : List Nat) (acc : List TNode)
    (hacc : ∀ n ∈ acc, n.relayOk = true ∧ (n = self ∨ n.live = true)) (hlen : acc.length ≤ limit) :
    (∀ n ∈ collect bucket self limit ds done acc, n.relayOk = true ∧ (n = self ∨ n.live = true)) ∧
    (collect bucket self limit ds done acc).length ≤ limit := by
  induction ds generalizing done acc with
  | nil => exact ⟨hacc, hlen⟩
  | cons d ds ih =>
    simp only [collect]
    split
    · exact ih done acc hacc hlen
    · have hnew : ∀ n ∈ acc ++ (cand bucket self d).filter (·.relayOk),
          n.relayOk = true ∧ (n = self ∨ n.live = true) := by
        intro n hn
        simp only [List.mem_append, List.mem_filter] at hn
        rcases hn with hn | ⟨hn, hr⟩
        · exact hacc n hn
        · unfold cand at hn
          split at hn
          · simp at hn; exact ⟨hr, Or.inl hn⟩
          · simp only [List.mem_filter] at hn; exact ⟨hr, Or.inr hn.2⟩
      split
      · constructor
        · intro n hn; exact hnew n (List.mem_of_mem_take hn)
        · simp only [List.length_take]; omega
      · rename_i hlt
        exact ih (d :: done) _ hnew (by omega)

/-- C11 (responder): only self (distance 0) or liveness-checked entries, every one relay-safe for the
    asker (self included), and never more than the limit -/
theorem nodes_rule (bucket : Nat → List TNode) (self : TNode) (ds : List Nat) :
    (∀ n ∈ collect bucket self 32 ds [] [], n.relayOk = true ∧ (n = self ∨ n.live = true)) ∧
    (collect bucket self 32 ds [] []).length ≤ 32 :=
  collect_spec bucket self 32 ds [] [] (by simp) (by simp)

#print axioms accept_only_if
#print axioms nodes_rule
end Fnn
