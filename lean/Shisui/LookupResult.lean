/-! C10 prototype: `nodesByDistance.push` keeps the k closest of everything pushed, sorted. -/
namespace Nd

variable (d : Nat → Nat)   -- distance to the target (injective on ids for XOR; not needed below)

/-- insert before the first entry that is strictly farther (what `sort.Search` + `copy` do) -/
def insertSorted (n : Nat) : List Nat → List Nat
  | [] => [n]
  | x :: xs => if d x > d n then n :: x :: xs else x :: insertSorted n xs

/-- `push(n, k)` -/
def push (k : Nat) (res : List Nat) (n : Nat) : List Nat := (insertSorted d n res).take k

def Sorted (l : List Nat) : Prop := l.Pairwise (fun a b => d a ≤ d b)

theorem mem_insertSorted (n m : Nat) (l : List Nat) : m ∈ insertSorted d n l ↔ m = n ∨ m ∈ l := by
  induction l with
  | nil => simp [insertSorted]
  | cons x xs ih =>
    simp only [insertSorted]
    split
    · simp
    · simp only [List.mem_cons, ih]
      constructor
      · rintro (h | h | h)
        · exact Or.inr (Or.inl h)
        · exact Or.inl h
        · exact Or.inr (Or.inr h)
      · rintro (h | h | h)
        · exact Or.inr (Or.inl h)
        · exact Or.inl h
        · exact Or.inr (Or.inr h)

theorem insertSorted_sorted (n : Nat) (l : List Nat) (h : Sorted d l) : Sorted d (insertSorted d n l) := by
  induction l with
  | nil => simp [insertSorted, Sorted]
  | cons x xs ih =>
    have hx := List.pairwise_cons.mp h
    simp only [insertSorted]
    split
    · rename_i hgt
      apply List.pairwise_cons.mpr
      refine ⟨?_, h⟩
      intro b hb
      simp only [List.mem_cons] at hb
      rcases hb with rfl | hb
      · omega
      · have := hx.1 b hb; omega
    · rename_i hle
      apply List.pairwise_cons.mpr
      refine ⟨?_, ih hx.2⟩
      intro b hb
      rcases (mem_insertSorted d n b xs).mp hb with rfl | hb
      · omega
      · exact hx.1 b hb

/-- truncating before or after the insertion gives the same first k -/
theorem take_insert_take (n : Nat) (l : List Nat) (k : Nat) :
    (insertSorted d n (l.take k)).take k = (insertSorted d n l).take k := by
  induction l generalizing k with
  | nil => simp
  | cons x xs ih =>
    cases k with
    | zero => simp
    | succ k =>
      simp only [List.take_succ_cons, insertSorted]
      split
      · simp only [List.take_succ_cons]
        congr 1
        cases k with
        | zero => simp
        | succ k => simp only [List.take_succ_cons, List.take_take, Nat.min_eq_left (Nat.le_succ k)]
      · simp only [List.take_succ_cons, ih]

/-- everything pushed so far, fully sorted (no truncation) -/
def allSorted (seen : List Nat) : List Nat := seen.foldl (fun acc n => insertSorted d n acc) []

/-- the result after pushing `seen` one by one with capacity `k` -/
def result (k : Nat) (seen : List Nat) : List Nat := seen.foldl (push d k) []

theorem result_eq_take_aux (k : Nat) (seen : List Nat) (acc full : List Nat) (h : acc = full.take k) :
    seen.foldl (push d k) acc = (seen.foldl (fun a n => insertSorted d n a) full).take k := by
  induction seen generalizing acc full with
  | nil => simpa using h
  | cons x xs ih =>
    simp only [List.foldl_cons]
    apply ih
    rw [push, h, take_insert_take]

/-- C10: the bounded result is exactly the first k of the fully sorted list of everything seen -/
theorem result_eq_take (k : Nat) (seen : List Nat) : result d k seen = (allSorted d seen).take k :=
  result_eq_take_aux d k seen [] [] (by simp)

theorem allSorted_sorted_aux (seen acc : List Nat) (h : Sorted d acc) :
    Sorted d (seen.foldl (fun a n => insertSorted d n a) acc) := by
  induction seen generalizing acc with
  | nil => exact h
  | cons x xs ih => exact ih _ (insertSorted_sorted d x acc h)

theorem allSorted_sorted (seen : List Nat) : Sorted d (allSorted d seen) :=
  allSorted_sorted_aux d seen [] (by simp [Sorted])

theorem mem_allSorted_aux (seen acc : List Nat) (m : Nat) :
    m ∈ seen.foldl (fun a n => insertSorted d n a) acc ↔ m ∈ seen ∨ m ∈ acc := by
  induction seen generalizing acc with
  | nil => simp
  | cons x xs ih =>
    simp only [List.foldl_cons, ih, mem_insertSorted, List.mem_cons]
    constructor
    · rintro (h | h | h)
      · exact Or.inl (Or.inr h)
      · exact Or.inl (Or.inl h)
      · exact Or.inr h
    · rintro ((h | h) | h)
      · exact Or.inr (Or.inl h)
      · exact Or.inl h
      · exact Or.inr (Or.inr h)

theorem mem_allSorted (seen : List Nat) (m : Nat) : m ∈ allSorted d seen ↔ m ∈ seen := by
  simp [allSorted, mem_allSorted_aux]

/-- C10: at most k nodes, sorted by distance, and no seen node closer than a returned one is omitted -/
theorem result_closest (k : Nat) (seen : List Nat) :
    (result d k seen).length ≤ k ∧ Sorted d (result d k seen) ∧
    (∀ r ∈ result d k seen, r ∈ seen) ∧
    (∀ r ∈ result d k seen, ∀ m ∈ (allSorted d seen).drop k, d r ≤ d m) := by
  rw [result_eq_take]
  refine ⟨by simp [List.length_take]; omega, ?_, ?_, ?_⟩
  · exact List.Pairwise.sublist (List.take_sublist _ _) (allSorted_sorted d seen)
  · intro r hr
    exact (mem_allSorted d seen r).mp (List.mem_of_mem_take hr)
  · intro r hr m hm
    have hs := allSorted_sorted d seen
    rw [← List.take_append_drop k (allSorted d seen)] at hs
    exact (List.pairwise_append.mp hs).2.2 r hr m hm

#print axioms result_closest
end Nd
