namespace Kk
def RC : Array UInt64 := #[
  0x0000000000000001, 0x0000000000008082, 0x800000000000808A, 0x8000000080008000,
  0x000000000000808B, 0x0000000080000001, 0x8000000080008081, 0x8000000000008009,
  0x000000000000008A, 0x0000000000000088, 0x0000000080008009, 0x000000008000000A,
  0x000000008000808B, 0x800000000000008B, 0x8000000000008089, 0x8000000000008003,
  0x8000000000008002, 0x8000000000000080, 0x000000000000800A, 0x800000008000000A,
  0x8000000080008081, 0x8000000000008080, 0x0000000080000001, 0x8000000080008008]
-- rotation offsets r[x + 5*y]
def ROT : Array UInt64 := #[0, 1, 62, 28, 27, 36, 44, 6, 55, 20, 3, 10, 43, 25, 39, 41, 45, 15, 21, 8, 18, 2, 61, 56, 14]
@[inline] def rotl (x : UInt64) (n : UInt64) : UInt64 := if n == 0 then x else (x <<< n) ||| (x >>> (64 - n))

def round (a : Array UInt64) (rc : UInt64) : Array UInt64 := Id.run do
  -- theta
  let mut c : Array UInt64 := Array.replicate 5 0
  for x in [0:5] do
    c := c.set! x (a[x]! ^^^ a[x+5]! ^^^ a[x+10]! ^^^ a[x+15]! ^^^ a[x+20]!)
  let mut a := a
  for x in [0:5] do
    let d := c[(x+4)%5]! ^^^ rotl c[(x+1)%5]! 1
    for y in [0:5] do
      a := a.set! (x+5*y) (a[x+5*y]! ^^^ d)
  -- rho + pi : B[y, 2x+3y] = rot(A[x,y])
  let mut b : Array UInt64 := Array.replicate 25 0
  for x in [0:5] do
    for y in [0:5] do
      b := b.set! (y + 5*((2*x+3*y)%5)) (rotl a[x+5*y]! ROT[x+5*y]!)
  -- chi
  for x in [0:5] do
    for y in [0:5] do
      a := a.set! (x+5*y) (b[x+5*y]! ^^^ ((~~~ b[(x+1)%5+5*y]!) &&& b[(x+2)%5+5*y]!))
  -- iota
  a := a.set! 0 (a[0]! ^^^ rc)
  return a

def keccakF (a : Array UInt64) : Array UInt64 := Id.run do
  let mut a := a
  for i in [0:24] do
    a := round a RC[i]!
  return a

def keccak256 (msg : ByteArray) : ByteArray := Id.run do
  let rate := 136
  -- pad10*1 with Keccak domain byte 0x01
  let mut m := msg.push 0x01
  while m.size % rate != 0 do m := m.push 0
  m := m.set! (m.size - 1) (m[m.size - 1]! ||| 0x80)
  let mut st : Array UInt64 := Array.replicate 25 0
  for blk in [0:m.size / rate] do
    for i in [0:rate/8] do
      let mut w : UInt64 := 0
      for j in [0:8] do
        w := w ||| ((m[blk*rate + 8*i + j]!).toUInt64 <<< (8 * j.toUInt64))
      st := st.set! i (st[i]! ^^^ w)
    st := keccakF st
  let mut out := ByteArray.empty
  for i in [0:4] do
    for j in [0:8] do
      out := out.push (st[i]! >>> (8 * j.toUInt64)).toUInt8
  return out

def hex (b : ByteArray) : String := b.foldl (fun s x => s ++ (String.singleton (Nat.digitChar (x.toNat / 16))) ++ (String.singleton (Nat.digitChar (x.toNat % 16)))) ""
end Kk
