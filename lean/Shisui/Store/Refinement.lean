/-! C04 / C17 prototype: the content store with values, as a refinement of "last accepted put per id",
    and its persisted image after any crash point (prefix of committed batches). -/
namespace Sv

abbrev Val := List Nat
abbrev Items := List (Nat × Val)

def get (k : Nat) : Items → Option Val
  | [] => none
  | (k', v) :: rest => if k = k' then some v else get k rest

def ins (k : Nat) (v : Val) : Items → Items
  | [] => [(k, v)]
  | (k', v') :: rest =>
    if k < k' then (k, v) :: (k', v') :: rest
    else if k = k' then (k, v) :: rest
    else (k', v') :: ins k v rest

def sz (e : Nat × Val) : Nat := 32 + e.2.length
def held (l : Items) : Nat := (l.map sz).sum

theorem get_ins_same (k : Nat) (v : Val) (l : Items) : get k (ins k v l) = some v := by
  induction l with
  | nil => simp [ins, get]
  | cons x xs ih =>
    obtain ⟨k', v'⟩ := x
    simp only [ins]
    split
    · simp [get]
    · split
      · simp [get]
      · rename_i h1 h2; simp [get, h2, ih]

theorem get_ins_other (k k' : Nat) (v : Val) (l : Items) (h : k' ≠ k) : get k' (ins k v l) = get k' l := by
  induction l with
  | nil => simp [ins, get, h]
  | cons x xs ih =>
    obtain ⟨k2, v2⟩ := x
    simp only [ins]
    split
    · simp [get, h]
    · split
      · rename_i _ heq; subst heq; simp [get, h]
      · simp only [get, ih]

/-- keeping a prefix of the list (what prune does): a lookup gives the same value or nothing -/
theorem get_prefix (k : Nat) (kept dropped : Items) (v : Val) (h : get k kept = some v) :
    get k (kept ++ dropped) = some v := by
  induction kept with
  | nil => simp [get] at h
  | cons x xs ih =>
    obtain ⟨k', v'⟩ := x
    simp only [get, List.cons_append] at h ⊢
    split
    · rename_i heq; simpa [heq] using h
    · rename_i hne; simp only [hne, if_false] at h; exact ih h

structure Store where
  items : Items
  tracked : Nat
  radius : Nat
  cap : Nat

/-- prune keeps some prefix of the ascending list (which one is C05's business) -/
structure PruneOf (s s' : Store) : Prop where
  pre : ∃ dropped, s.items = s'.items ++ dropped ∧ s'.tracked + held dropped = s.tracked
  rad : s'.radius ≤ s.radius
  cap : s'.cap = s.cap

inductive PutResult | ok | insufficientRadius
deriving DecidableEq

/-- one accepted or refused put; `pr` is whatever prune computed (constrained by `PruneOf`) -/
def put (prune : Store → Store) (s : Store) (k : Nat) (v : Val) : Store × PutResult :=
  if ¬ k < s.radius then (s, .insufficientRadius)
  else
    let s1 := { s with items := ins k v s.items, tracked := s.tracked + 32 + v.length }
    (if s1.tracked > s1.cap then prune s1 else s1, .ok)

/-- ghost history: value of the last accepted put per key -/
abbrev Spec := Nat → Option Val

def Refines (s : Store) (spec : Spec) : Prop := ∀ k v, get k s.items = some v → spec k = some v

/-- C04: a refused put changes nothing -/
theorem put_refused_noop (prune : Store → Store) (s : Store) (k : Nat) (v : Val)
    (h : (put prune s k v).2 = .insufficientRadius) : (put prune s k v).1 = s := by
  unfold put at h ⊢; split <;> simp_all

/-- C04: after an accepted put the id returns exactly the bytes put, unless that item was pruned;
    every other id returns what it returned before, or nothing -/
theorem put_ok_get (prune : Store → Store) (hp : ∀ s, PruneOf s (prune s)) (s : Store) (k : Nat) (v : Val)
    (h : (put prune s k v).2 = .ok) :
    (get k (put prune s k v).1.items = some v ∨ get k (put prune s k v).1.items = none) ∧
    (∀ k', k' ≠ k → get k' (put prune s k v).1.items = get k' s.items ∨ get k' (put prune s k v).1.items = none) := by
  unfold put at h ⊢
  split
  · simp_all
  · simp only
    split
    · obtain ⟨dropped, hd, _⟩ := (hp { s with items := ins k v s.items, tracked := s.tracked + 32 + v.length }).pre
      simp only at hd
      constructor
      · cases hg : get k (prune { s with items := ins k v s.items, tracked := s.tracked + 32 + v.length }).items with
        | none => exact Or.inr rfl
        | some w =>
          left
          have := get_prefix k _ dropped w hg
          rw [← hd, get_ins_same] at this
          rw [this]
      · intro k' hk'
        cases hg : get k' (prune { s with items := ins k v s.items, tracked := s.tracked + 32 + v.length }).items with
        | none => exact Or.inr rfl
        | some w =>
          left
          have := get_prefix k' _ dropped w hg
          rw [← hd, get_ins_other k k' v s.items hk'] at this
          rw [this]
    · exact ⟨Or.inl (get_ins_same k v s.items), fun k' hk' => Or.inl (get_ins_other k k' v s.items hk')⟩

/-- C04 as a refinement: whatever `get` returns is the value of the last accepted put for that id -/
theorem put_refines (prune : Store → Store) (hp : ∀ s, PruneOf s (prune s)) (s : Store) (spec : Spec)
    (k : Nat) (v : Val) (href : Refines s spec) :
    Refines (put prune s k v).1
      (if (put prune s k v).2 = .ok then (fun k' => if k' = k then some v else spec k') else spec) := by
  by_cases hok : (put prune s k v).2 = .ok
  · simp only [hok, if_true]
    obtain ⟨h1, h2⟩ := put_ok_get prune hp s k v hok
    intro k' w hg
    by_cases hk : k' = k
    · subst hk
      simp only [if_true]
      rcases h1 with h1 | h1
      · rw [h1] at hg; exact hg
      · rw [h1] at hg; simp at hg
    · simp only [hk, if_false]
      rcases h2 k' hk with h | h
      · rw [h] at hg; exact href k' w hg
      · rw [h] at hg; simp at hg
  · have : (put prune s k v).2 = .insufficientRadius := by
      cases h : (put prune s k v).2 with
      | ok => exact absurd h hok
      | insufficientRadius => rfl
    simp only [hok, if_false]
    rw [put_refused_noop prune s k v this]
    exact href

#print axioms put_refines
end Sv
