import Shisui.Store.Crash
import Shisui.Store.Reach
/-! C17: reopening (`NewStorage`) on a consistent disk image — ideal (big-endian) model. -/
namespace St

def maxRadius : Nat := 2 ^ 256 - 1

/-- `NewStorage` on an image: reload the counter, prune if over capacity, re-derive the radius from the farthest key
    when the reloaded counter exceeds 95 % of the capacity -/
def reopen (d : Disk) (cap : Nat) : Store :=
  let s0 : Store := { items := d.items, tracked := d.counter, radius := maxRadius, cap := cap }
  let s1 := if d.counter > cap then prune s0 else s0
  if d.counter > cap * 19 / 20 then
    match s1.items.getLast? with
    | some e => { s1 with radius := e.1 }
    | none => s1
  else s1

/-- "the radius … is the maximum otherwise" -/
theorem reopen_radius_max (d : Disk) (cap : Nat) (h : d.counter ≤ cap * 19 / 20) :
    (reopen d cap).radius = maxRadius ∧ (reopen d cap).items = d.items := by
  have h1 : ¬ d.counter > cap * 19 / 20 := by omega
  have h2 : ¬ d.counter > cap := by omega
  simp [reopen, h1, h2]

/-- "the radius is re-derived from the farthest retained item when the store is more than 95 % full" -/
theorem reopen_radius_farthest (d : Disk) (cap : Nat) (h : d.counter > cap * 19 / 20) (e : Nat × Nat)
    (he : (reopen d cap).items.getLast? = some e) : (reopen d cap).radius = e.1 := by
  unfold reopen at he ⊢
  simp only [h, if_true] at he ⊢
  generalize (if d.counter > cap then prune { items := d.items, tracked := d.counter, radius := maxRadius, cap := cap }
              else { items := d.items, tracked := d.counter, radius := maxRadius, cap := cap }) = s1 at he ⊢
  cases hl : s1.items.getLast? with
  | none => simp only [hl] at he; cases he
  | some e' =>
    simp only [hl] at he ⊢
    cases he
    rfl

/-- the image's invariant is what `Inv` needs (keys are 32-byte values: below 2^256) -/
theorem inv_of_image (d : Disk) (cap : Nat) (h : DiskOk d) (hkeys : ∀ e ∈ d.items, e.1 ≤ maxRadius) :
    Inv { items := d.items, tracked := d.counter, radius := maxRadius, cap := cap } :=
  ⟨h.1, fun e he => ⟨h.2.2 e he, hkeys e he⟩, h.2.1⟩

theorem le_last (l : List (Nat × Nat)) (h : AllLt l) (e : Nat × Nat) (he : l.getLast? = some e) :
    ∀ x ∈ l, x.1 ≤ e.1 := by
  obtain ⟨ys, hys⟩ := List.getLast?_eq_some_iff.mp he
  intro x hx
  rw [hys] at hx h
  unfold AllLt at h
  rw [List.pairwise_append] at h
  simp only [List.mem_append, List.mem_singleton] at hx
  rcases hx with hx | rfl
  · exact Nat.le_of_lt (h.2.2 x hx e (by simp))
  · exact Nat.le_refl _

/-- "reopening the store succeeds … and the persisted usage figure is not below the bytes actually present": the
    reopened store satisfies the full invariant (so every theorem about puts applies to what follows) -/
theorem reopen_inv (d : Disk) (cap : Nat) (h : DiskOk d) (hkeys : ∀ e ∈ d.items, e.1 ≤ maxRadius) :
    Inv (reopen d cap) := by
  have h0 := inv_of_image d cap h hkeys
  have h1 : Inv (if d.counter > cap then prune { items := d.items, tracked := d.counter, radius := maxRadius, cap := cap }
                 else { items := d.items, tracked := d.counter, radius := maxRadius, cap := cap }) := by
    split
    · exact (prune_inv _ h0).1
    · exact h0
  unfold reopen
  simp only
  generalize (if d.counter > cap then prune { items := d.items, tracked := d.counter, radius := maxRadius, cap := cap }
              else { items := d.items, tracked := d.counter, radius := maxRadius, cap := cap }) = s1 at h1 ⊢
  split
  · split
    · rename_i e hl
      exact ⟨h1.asc, fun x hx => ⟨(h1.within x hx).1, le_last s1.items h1.asc e hl x hx⟩, h1.acct⟩
    · exact h1
  · exact h1

/-- "An over-capacity store is pruned on open": at least 5 % of the capacity is freed, or everything -/
theorem reopen_prunes_overcap (d : Disk) (cap : Nat) (h : DiskOk d) (hkeys : ∀ e ∈ d.items, e.1 ≤ maxRadius)
    (hover : d.counter > cap) :
    (reopen d cap).items = [] ∨ cap / 20 ≤ d.counter - (reopen d cap).tracked := by
  have h0 := inv_of_image d cap h hkeys
  have hp := prune_frees _ h0
  unfold reopen
  simp only [hover, if_true]
  have h95 : d.counter > cap * 19 / 20 := by omega
  simp only [h95, if_true]
  split
  · simp only; exact hp
  · exact hp

#print axioms reopen_inv
end St
