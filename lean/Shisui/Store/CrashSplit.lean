import Shisui.Store.Crash
import Shisui.Store.Reach

namespace St
/-! ### Why the two writes of each step share ONE batch: the same steps with the records split (seeded changes C17a / C17g: the
    item outside the batch of its size record; C17d: the size record of a pruning pass written on its own before the deletes) -/

/-- the item committed first, its size record in a later record -/
def batchesOfPutItemFirst (s : Store) (k v : Nat) : List Disk :=
  if ¬ k < s.radius then []
  else [{ items := ins k v s.items, counter := s.tracked }, { items := ins k v s.items, counter := s.tracked + 32 + v }]

/-- the reduced size record of a pruning pass written on its own before the batch of deletes -/
def batchesOfPutSizeBeforeDeletes (s : Store) (k v : Nat) : List Disk :=
  if ¬ k < s.radius then []
  else
    let s1 : Store := { s with items := ins k v s.items, tracked := s.tracked + 32 + v }
    if s1.tracked > s1.cap then [image s1, { items := s1.items, counter := (prune s1).tracked }, image (prune s1)] else [image s1]

def underReports (d : Disk) : Bool := decide (d.counter < held d.items)

/-- NEGATIVE: with the item outside the batch of its size record a crash image under-reports -/
theorem split_put_underreports :
    (batchesOfPutItemFirst (init 1000) 5 400).any underReports = true := by decide

/-- NEGATIVE: with the size record ahead of the deletes a crash image under-reports -/
theorem size_before_deletes_underreports :
    (batchesOfPutSizeBeforeDeletes (run (init 1000) [(5, 400), (9, 400), (7, 100)]) 3 50).any underReports = true := by decide

/-- the layout of the code: no image of the same steps under-reports -/
example : (batchesOfPut (run (init 1000) [(5, 400), (9, 400), (7, 100)]) 3 50).any underReports = false := by decide
example : (batchesOfPut (init 1000) 5 400).any underReports = false := by decide
end St
