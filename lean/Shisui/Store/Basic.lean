/-! Prototype of the pebble content store model (C04/C05/C06), core only, ideal (big-endian) metric.
    Keys are the big-endian value of xor(contentId,nodeId); key 0 is the reserved counter key. -/
namespace St

structure Store where
  items : List (Nat × Nat)     -- (key, value length), strictly ascending by key
  tracked : Nat
  radius : Nat
  cap : Nat
deriving Repr

def sz (e : Nat × Nat) : Nat := 32 + e.2
def held (l : List (Nat × Nat)) : Nat := (l.map sz).sum

/-- insert or overwrite, keeping ascending order -/
def ins (k v : Nat) : List (Nat × Nat) → List (Nat × Nat)
  | [] => [(k, v)]
  | (k', v') :: rest =>
    if k < k' then (k, v) :: (k', v') :: rest
    else if k = k' then (k, v) :: rest
    else (k', v') :: ins k v rest

/-- the loop of `prune()` over the keys in descending order -/
def pruneLoop (expect : Nat) : List (Nat × Nat) → Nat → List (Nat × Nat) × Nat × Option Nat
  | [], freed => ([], freed, none)
  | e :: rest, freed =>
    if freed < expect then pruneLoop expect rest (freed + sz e) else (e :: rest, freed, some e.1)

def prune (s : Store) : Store :=
  let (keptRev, freed, nr) := pruneLoop (s.cap / 20) s.items.reverse 0
  { s with items := keptRev.reverse, tracked := s.tracked - freed, radius := nr.getD s.radius }

inductive PutResult | ok | insufficientRadius
deriving Repr, DecidableEq

def put (s : Store) (k v : Nat) : Store × PutResult :=
  if ¬ k < s.radius then (s, .insufficientRadius)
  else
    let s1 := { s with items := ins k v s.items, tracked := s.tracked + 32 + v }
    (if s1.tracked > s1.cap then prune s1 else s1, .ok)

def Asc : List (Nat × Nat) → Prop
  | [] => True
  | [_] => True
  | a :: b :: rest => a.1 < b.1 ∧ Asc (b :: rest)

def Desc : List (Nat × Nat) → Prop
  | [] => True
  | [_] => True
  | a :: b :: rest => b.1 < a.1 ∧ Desc (b :: rest)

/-! ### the prune loop -/

theorem pruneLoop_spec (expect : Nat) (l : List (Nat × Nat)) (freed : Nat) :
    ∃ dropped, l = dropped ++ (pruneLoop expect l freed).1 ∧
      (pruneLoop expect l freed).2.1 = freed + held dropped ∧
      (((pruneLoop expect l freed).1 = [] ∧ (pruneLoop expect l freed).2.2 = none) ∨
       (expect ≤ (pruneLoop expect l freed).2.1 ∧
        ∃ e rest, (pruneLoop expect l freed).1 = e :: rest ∧ (pruneLoop expect l freed).2.2 = some e.1)) := by
  induction l generalizing freed with
  | nil => exact ⟨[], by simp [pruneLoop, held]⟩
  | cons e rest ih =>
    simp only [pruneLoop]
    split
    · obtain ⟨d, h1, h2, h3⟩ := ih (freed + sz e)
      refine ⟨e :: d, by simp [← h1], ?_, h3⟩
      rw [h2]; simp [held]; omega
    · rename_i hge
      exact ⟨[], by simp, by simp [held], Or.inr ⟨by simpa using hge, e, rest, rfl, rfl⟩⟩

/-! ### list facts -/

theorem held_append (a b : List (Nat × Nat)) : held (a ++ b) = held a + held b := by
  simp [held, List.sum_append]

theorem held_reverse (a : List (Nat × Nat)) : held a.reverse = held a := by
  induction a with
  | nil => rfl
  | cons x xs ih => simp only [List.reverse_cons, held_append, ih]; simp [held]; omega

/-- ascending list: all pairs ordered -/
def AllLt (l : List (Nat × Nat)) : Prop := l.Pairwise (fun a b => a.1 < b.1)

theorem ins_mem (k v : Nat) (l : List (Nat × Nat)) (e : Nat × Nat) (h : e ∈ ins k v l) : e = (k, v) ∨ e ∈ l := by
  induction l with
  | nil => simp [ins] at h; exact Or.inl h
  | cons x xs ih =>
    obtain ⟨k', v'⟩ := x
    simp only [ins] at h
    split at h
    · simp only [List.mem_cons] at h ⊢
      rcases h with h | h | h
      · exact Or.inl h
      · exact Or.inr (Or.inl h)
      · exact Or.inr (Or.inr h)
    · split at h
      · simp only [List.mem_cons] at h ⊢
        rcases h with h | h
        · exact Or.inl h
        · exact Or.inr (Or.inr h)
      · simp only [List.mem_cons] at h ⊢
        rcases h with h | h
        · exact Or.inr (Or.inl h)
        · rcases ih h with h | h
          · exact Or.inl h
          · exact Or.inr (Or.inr h)

theorem ins_allLt (k v : Nat) (l : List (Nat × Nat)) (h : AllLt l) : AllLt (ins k v l) := by
  induction l with
  | nil => simp [ins, AllLt]
  | cons x xs ih =>
    obtain ⟨k', v'⟩ := x
    have hx := List.pairwise_cons.mp h
    simp only [ins]
    split
    · rename_i hlt
      apply List.pairwise_cons.mpr
      refine ⟨?_, h⟩
      intro b hb
      simp only [List.mem_cons] at hb
      rcases hb with rfl | hb
      · exact hlt
      · exact Nat.lt_trans hlt (hx.1 b hb)
    · split
      · rename_i _ heq
        subst heq
        exact List.pairwise_cons.mpr ⟨hx.1, hx.2⟩
      · rename_i hnlt hne
        apply List.pairwise_cons.mpr
        refine ⟨?_, ih hx.2⟩
        intro b hb
        rcases ins_mem k v xs b hb with rfl | hb
        · show k' < k
          omega
        · exact hx.1 b hb

theorem ins_held (k v : Nat) (l : List (Nat × Nat)) : held (ins k v l) ≤ held l + 32 + v := by
  induction l with
  | nil => simp [ins, held, sz]
  | cons x xs ih =>
    obtain ⟨k', v'⟩ := x
    simp only [ins]
    split
    · simp [held, sz]; omega
    · split
      · simp [held, sz]; omega
      · simp only [held, List.map_cons, List.sum_cons] at ih ⊢; omega

/-! ### invariant -/

structure Inv (s : Store) : Prop where
  asc : AllLt s.items
  within : ∀ e ∈ s.items, 0 < e.1 ∧ e.1 ≤ s.radius
  acct : held s.items ≤ s.tracked

/-- what `prune` does, in terms of the ascending list: it keeps a prefix -/
theorem prune_spec (s : Store) :
    ∃ dropped, s.items = (prune s).items ++ dropped ∧
      (prune s).tracked = s.tracked - held dropped ∧ (prune s).cap = s.cap ∧
      (((prune s).items = [] ∧ (prune s).radius = s.radius) ∨
       (s.cap / 20 ≤ held dropped ∧ ∃ e, (prune s).items.getLast? = some e ∧ (prune s).radius = e.1)) := by
  obtain ⟨d, h1, h2, h3⟩ := pruneLoop_spec (s.cap / 20) s.items.reverse 0
  refine ⟨d.reverse, ?_, ?_, rfl, ?_⟩
  · have := congrArg List.reverse h1
    simpa [prune] using this
  · simp [prune, h2, held_reverse]
  · rcases h3 with ⟨h3a, h3b⟩ | ⟨h3a, e, rest, h3b, h3c⟩
    · left; simp [prune, h3a, h3b]
    · right
      refine ⟨by rw [held_reverse]; simpa [h2] using h3a, e, ?_, ?_⟩
      · simp [prune, h3b]
      · simp [prune, h3c]

/-- C05: a pruning pass frees at least 5 % of the capacity, or everything it holds -/
theorem prune_frees (s : Store) (h : Inv s) :
    (prune s).items = [] ∨ s.cap / 20 ≤ s.tracked - (prune s).tracked := by
  obtain ⟨d, h1, h2, _, h4⟩ := prune_spec s
  rcases h4 with ⟨h4, _⟩ | ⟨h4, _⟩
  · exact Or.inl h4
  · right
    have : held d ≤ s.tracked := by
      have := h.acct; rw [h1, held_append] at this; omega
    omega

/-- C05: every dropped item is farther than every kept item (farthest-first prefix) -/
theorem prune_farthest_first (s : Store) (h : Inv s) :
    ∃ dropped, s.items = (prune s).items ++ dropped ∧
      ∀ k ∈ (prune s).items, ∀ d ∈ dropped, k.1 < d.1 := by
  obtain ⟨d, h1, _⟩ := prune_spec s
  refine ⟨d, h1, ?_⟩
  have := h.asc
  rw [h1, AllLt, List.pairwise_append] at this
  exact this.2.2

/-- C05/C06: pruning keeps the invariant; the radius does not grow -/
theorem prune_inv (s : Store) (h : Inv s) : Inv (prune s) ∧ (prune s).radius ≤ s.radius := by
  obtain ⟨d, h1, h2, _, h4⟩ := prune_spec s
  have hasc := h.asc
  rw [h1, AllLt, List.pairwise_append] at hasc
  have hacct : held (prune s).items ≤ (prune s).tracked := by
    have := h.acct; rw [h1, held_append] at this; omega
  rcases h4 with ⟨h4, h5⟩ | ⟨_, e, h5, h6⟩
  · exact ⟨⟨hasc.1, by simp [h4], hacct⟩, by omega⟩
  · have he : e ∈ (prune s).items := List.mem_of_getLast? h5
    have he' : e ∈ s.items := by rw [h1]; exact List.mem_append_left _ he
    refine ⟨⟨hasc.1, ?_, hacct⟩, by rw [h6]; exact (h.within e he').2⟩
    intro x hx
    have hx' : x ∈ s.items := by rw [h1]; exact List.mem_append_left _ hx
    refine ⟨(h.within x hx').1, ?_⟩
    rw [h6]
    -- x is in a pairwise-ascending list whose last element is e
    obtain ⟨pre, hpre⟩ : ∃ pre, (prune s).items = pre ++ [e] := by
      have := List.getLast?_eq_some_iff.mp h5
      obtain ⟨ys, hys⟩ := this
      exact ⟨ys, hys⟩
    rw [hpre] at hx
    have hp := hasc.1
    rw [hpre, List.pairwise_append] at hp
    simp only [List.mem_append, List.mem_singleton] at hx
    rcases hx with hx | rfl
    · exact Nat.le_of_lt (hp.2.2 x hx e (by simp))
    · exact Nat.le_refl _

/-- C06: admission is exactly `key < radius` -/
theorem put_refusal (s : Store) (k v : Nat) : (put s k v).2 = .insufficientRadius ↔ ¬ k < s.radius := by
  unfold put; split <;> simp_all

/-- C05/C06: every put keeps the invariant and never grows the radius -/
theorem put_inv (s : Store) (k v : Nat) (hk : 0 < k) (h : Inv s) :
    Inv (put s k v).1 ∧ (put s k v).1.radius ≤ s.radius := by
  unfold put
  split
  · exact ⟨h, Nat.le_refl _⟩
  · rename_i hlt
    have hlt' : k < s.radius := by simpa using hlt
    have h1 : Inv { s with items := ins k v s.items, tracked := s.tracked + 32 + v } := by
      refine ⟨ins_allLt k v s.items h.asc, ?_, ?_⟩
      · intro e he
        rcases ins_mem k v s.items e he with rfl | he
        · exact ⟨hk, Nat.le_of_lt hlt'⟩
        · exact h.within e he
      · have := ins_held k v s.items
        have := h.acct
        show held (ins k v s.items) ≤ s.tracked + 32 + v
        omega
    simp only
    split
    · exact prune_inv _ h1
    · exact ⟨h1, Nat.le_refl _⟩

#print axioms put_inv
#print axioms prune_farthest_first
#print axioms prune_frees

/-- C05: with items no larger than 5 % of the capacity, the bytes held never exceed the capacity once
    a put has returned (sequential histories) -/
theorem put_bounded (s : Store) (k v : Nat) (hk : 0 < k) (h : Inv s)
    (hcap : held s.items ≤ s.cap) (hitem : 32 + v ≤ s.cap / 20) :
    held (put s k v).1.items ≤ (put s k v).1.cap ∧ (put s k v).1.cap = s.cap := by
  unfold put
  split
  · exact ⟨hcap, rfl⟩
  · rename_i hlt
    have hlt' : k < s.radius := by simpa using hlt
    have hi := ins_held k v s.items
    have h1 : Inv { s with items := ins k v s.items, tracked := s.tracked + 32 + v } := by
      refine ⟨ins_allLt k v s.items h.asc, ?_, ?_⟩
      · intro e he
        rcases ins_mem k v s.items e he with rfl | he
        · exact ⟨hk, Nat.le_of_lt hlt'⟩
        · exact h.within e he
      · have := h.acct
        show held (ins k v s.items) ≤ s.tracked + 32 + v
        omega
    simp only
    split
    · -- over capacity: prune
      obtain ⟨d, hd1, hd2, hd3, hd4⟩ := prune_spec { s with items := ins k v s.items, tracked := s.tracked + 32 + v }
      simp only at hd1 hd3
      refine ⟨?_, hd3⟩
      rw [hd3]
      have hsplit : held (ins k v s.items) = held (prune { s with items := ins k v s.items, tracked := s.tracked + 32 + v }).items + held d := by
        have := congrArg held hd1
        rw [held_append] at this
        exact this
      rcases hd4 with ⟨he, _⟩ | ⟨hfree, _⟩
      · rw [he]; simp [held]
      · simp only at hfree
        omega
    · rename_i hnot
      simp only at hnot ⊢
      have := h1.acct
      simp only at this
      exact ⟨by omega, trivial⟩

#print axioms put_bounded

end St
