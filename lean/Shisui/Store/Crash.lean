import Shisui.Store.Basic
namespace St

/-! C17 prototype: what is on disk after each committed batch. A put commits {item, counter} in one
    batch; if that crosses the capacity, prune commits {deletes, counter} in a second, synced batch.
    A crash leaves the image after some prefix of the batches (pebble: atomic batches, WAL prefix). -/

structure Disk where
  items : List (Nat × Nat)
  counter : Nat
deriving Repr

def image (s : Store) : Disk := { items := s.items, counter := s.tracked }

/-- disk images produced, in order, by one put -/
def batchesOfPut (s : Store) (k v : Nat) : List Disk :=
  if ¬ k < s.radius then []
  else
    let s1 : Store := { s with items := ins k v s.items, tracked := s.tracked + 32 + v }
    if s1.tracked > s1.cap then [image s1, image (prune s1)] else [image s1]

def DiskOk (d : Disk) : Prop := AllLt d.items ∧ held d.items ≤ d.counter ∧ ∀ e ∈ d.items, 0 < e.1

theorem image_ok (s : Store) (h : Inv s) : DiskOk (image s) :=
  ⟨h.asc, h.acct, fun e he => (h.within e he).1⟩

/-- every batch a put commits leaves a consistent image: the usage record never under-reports -/
theorem batches_ok (s : Store) (k v : Nat) (hk : 0 < k) (h : Inv s) :
    ∀ d ∈ batchesOfPut s k v, DiskOk d := by
  unfold batchesOfPut
  split
  · simp
  · rename_i hlt
    have hlt' : k < s.radius := by simpa using hlt
    have h1 : Inv { s with items := ins k v s.items, tracked := s.tracked + 32 + v } := by
      refine ⟨ins_allLt k v s.items h.asc, ?_, ?_⟩
      · intro e he
        rcases ins_mem k v s.items e he with rfl | he
        · exact ⟨hk, Nat.le_of_lt hlt'⟩
        · exact h.within e he
      · have := ins_held k v s.items
        have := h.acct
        show held (ins k v s.items) ≤ s.tracked + 32 + v
        omega
    simp only
    split
    · intro d hd
      simp only [List.mem_cons, List.mem_singleton, List.not_mem_nil, or_false] at hd
      rcases hd with rfl | rfl
      · exact image_ok _ h1
      · exact image_ok _ (prune_inv _ h1).1
    · intro d hd
      simp only [List.mem_singleton] at hd
      subst hd
      exact image_ok _ h1

/-- the last image is the store's state after the put -/
theorem last_image (s : Store) (k v : Nat) (d : Disk) (h : (batchesOfPut s k v).getLast? = some d) :
    d.items = (put s k v).1.items ∧ d.counter = (put s k v).1.tracked := by
  unfold batchesOfPut at h
  unfold put
  by_cases hr : ¬ k < s.radius
  · simp only [hr, not_false_eq_true, if_true] at h; simp at h
  · simp only [hr, if_false] at h ⊢
    by_cases hover : s.tracked + 32 + v > s.cap
    · simp only [hover, if_true] at h ⊢
      simp at h; subst h; exact ⟨rfl, rfl⟩
    · simp only [hover, if_false] at h ⊢
      simp at h; subst h; exact ⟨rfl, rfl⟩

/-- all images along a history of puts -/
def images : Store → List (Nat × Nat) → List Disk
  | _, [] => []
  | s, (k, v) :: rest => batchesOfPut s k v ++ images (put s k v).1 rest

/-- C17: whatever prefix of the batches survives a crash, the image found on reopen is consistent:
    ascending keys, no reserved key, and a usage record that is not below the bytes present -/
theorem crash_images_ok (s : Store) (ops : List (Nat × Nat)) (h : Inv s) (hk : ∀ op ∈ ops, 0 < op.1) :
    ∀ d ∈ images s ops, DiskOk d := by
  induction ops generalizing s with
  | nil => simp [images]
  | cons op rest ih =>
    obtain ⟨k, v⟩ := op
    intro d hd
    simp only [images, List.mem_append] at hd
    have hk0 : 0 < k := hk (k, v) (List.mem_cons_self ..)
    rcases hd with hd | hd
    · exact batches_ok s k v hk0 h d hd
    · exact ih (put s k v).1 (put_inv s k v hk0 h).1 (fun op hop => hk op (List.mem_cons_of_mem _ hop)) d hd

#print axioms crash_images_ok
end St
