import Shisui.Store.Exec
/-! The executable store model with the byte-order switch off (`le = false`) *is* the model the theorems of
    `Shisui/Store/Basic.lean` are about: forgetting the value digests and the little-endian readings commutes
    with `put`, `prune` and `get`. -/
namespace StX

def pr (e : Item) : Nat × Nat := (e.be, e.len)
def proj (s : Store) : St.Store := { items := s.items.map pr, tracked := s.tracked, radius := s.radius, cap := s.cap }

theorem proj_ins (x : Item) (l : List Item) : (ins x l).map pr = St.ins x.be x.len (l.map pr) := by
  induction l with
  | nil => rfl
  | cons y rest ih =>
    simp only [ins, List.map_cons, St.ins, pr]
    split
    · rfl
    · split
      · rfl
      · simp only [List.map_cons, pr]
        rw [← ih]

theorem proj_pruneLoop (expect : Nat) (l : List Item) (freed : Nat) :
    ((pruneLoop false expect l freed).1.map pr, (pruneLoop false expect l freed).2.1, (pruneLoop false expect l freed).2.2)
      = St.pruneLoop expect (l.map pr) freed := by
  induction l generalizing freed with
  | nil => rfl
  | cons e rest ih =>
    simp only [pruneLoop, List.map_cons, St.pruneLoop]
    split
    · have : sz e = St.sz (pr e) := rfl
      rw [this]; exact ih _
    · simp [dist, pr]

theorem proj_prune (s : Store) : proj (prune false s) = St.prune (proj s) := by
  have h := proj_pruneLoop (s.cap / 20) s.items.reverse 0
  simp only [proj, prune, St.prune, List.map_reverse] at *
  rw [← h]

theorem dist_false (x : Item) : dist false x = x.be := rfl

/-- the ideal executable model refines `St.put` step by step -/
theorem exec_ideal_put (s : Store) (x : Item) :
    proj (put false s x).1 = (St.put (proj s) x.be x.len).1 ∧
    ((put false s x).2 = .insufficientRadius ↔ (St.put (proj s) x.be x.len).2 = .insufficientRadius) := by
  unfold put St.put
  rw [dist_false]
  have hr : (proj s).radius = s.radius := rfl
  rw [hr]
  by_cases hlt : x.be < s.radius
  · simp only [hlt, not_true_eq_false, if_false]
    refine ⟨?_, by simp⟩
    have ht : (proj s).tracked = s.tracked := rfl
    have hc : (proj s).cap = s.cap := rfl
    simp only [ht, hc]
    have hp : proj { s with items := ins x s.items, tracked := s.tracked + 32 + x.len }
        = { proj s with items := St.ins x.be x.len (proj s).items, tracked := s.tracked + 32 + x.len } := by
      simp only [proj, proj_ins]
    split
    · rw [proj_prune, hp]; rfl
    · rw [hp]; rfl
  · simp [hlt]

#print axioms exec_ideal_put
end StX
