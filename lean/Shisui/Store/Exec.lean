import Shisui.Store.Basic
/-! Executable store model used by the driver (C04/C05/C06/C17): `storage/pebble/storage.go` with values,
    with the byte order in which the three distance sites read a key as a switch
    (`le = true`: `uint256.UnmarshalSSZ`, little-endian, as implemented; `le = false`: big-endian = pebble's order,
    the ideal model the theorems of `Shisui/Store/Basic.lean` are about — see `exec_ideal_put`). -/
namespace StX

structure Item where
  be : Nat            -- key bytes read big-endian (pebble's bytewise order on 32-byte keys)
  le : Nat            -- the same bytes read little-endian
  len : Nat           -- value length
  val : UInt64        -- digest of the value (values are immutable in the model)
deriving Repr, BEq

structure Store where
  items : List Item        -- ascending by `be`
  tracked : Nat
  radius : Nat
  cap : Nat
deriving Repr

def maxRadius : Nat := 2 ^ 256 - 1

def ins (x : Item) : List Item → List Item
  | [] => [x]
  | y :: rest => if x.be < y.be then x :: y :: rest else if x.be = y.be then x :: rest else y :: ins x rest

def dist (le : Bool) (x : Item) : Nat := if le then x.le else x.be

def sz (e : Item) : Nat := 32 + e.len
def held (l : List Item) : Nat := (l.map sz).sum

/-- the loop of `prune()` over the keys in descending `be` order -/
def pruneLoop (le : Bool) (expect : Nat) : List Item → Nat → List Item × Nat × Option Nat
  | [], freed => ([], freed, none)
  | e :: rest, freed =>
    if freed < expect then pruneLoop le expect rest (freed + sz e) else (e :: rest, freed, some (dist le e))

def prune (le : Bool) (s : Store) : Store :=
  let r := pruneLoop le (s.cap / 20) s.items.reverse 0
  { s with items := r.1.reverse, tracked := s.tracked - r.2.1, radius := r.2.2.getD s.radius }

inductive PutResult | ok | insufficientRadius
deriving Repr, DecidableEq

def put (le : Bool) (s : Store) (x : Item) : Store × PutResult :=
  if ¬ dist le x < s.radius then (s, .insufficientRadius)
  else
    let s1 := { s with items := ins x s.items, tracked := s.tracked + 32 + x.len }
    (if s1.tracked > s1.cap then prune le s1 else s1, .ok)

def get (s : Store) (be : Nat) : Option Item := s.items.find? (·.be == be)

/-- `NewStorage` on an existing database image: reload the counter, prune if over capacity, re-derive the radius
    from the farthest key when the *reloaded* counter exceeds 95 % of the capacity -/
def reopen (le : Bool) (items : List Item) (counter cap : Nat) : Store :=
  let s0 : Store := { items := items, tracked := counter, radius := maxRadius, cap := cap }
  let s1 := if counter > cap then prune le s0 else s0
  if counter > cap * 19 / 20 then
    match s1.items.getLast? with
    | some e => { s1 with radius := dist le e }
    | none => s1
  else s1

def empty (cap : Nat) : Store := { items := [], tracked := 0, radius := maxRadius, cap := cap }

end StX
