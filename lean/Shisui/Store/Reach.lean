import Shisui.Store.ExecIdeal
/-! Reachable states of the (ideal) store model: every state reached from an empty store by any sequence of puts
    satisfies the invariant; the radius is antitone along the history; bounded when items are small. -/
namespace St

def init (cap : Nat) : Store := { items := [], tracked := 0, radius := 2 ^ 256 - 1, cap := cap }

theorem init_inv (cap : Nat) : Inv (init cap) :=
  ⟨List.Pairwise.nil, by intro e he; simp [init] at he, by simp [init, held]⟩

/-- the store after a history of puts (key, value length) -/
def run (s : Store) : List (Nat × Nat) → Store
  | [] => s
  | op :: ops => run (put s op.1 op.2).1 ops

theorem put_cap (s : Store) (k v : Nat) : (put s k v).1.cap = s.cap := by
  unfold put
  split
  · rfl
  · simp only
    split
    · obtain ⟨_, _, _, h, _⟩ := prune_spec { s with items := ins k v s.items, tracked := s.tracked + 32 + v }
      exact h
    · rfl

theorem run_inv (ops : List (Nat × Nat)) : ∀ (s : Store), (∀ op ∈ ops, 0 < op.1) → Inv s →
    Inv (run s ops) ∧ (run s ops).radius ≤ s.radius ∧ (run s ops).cap = s.cap := by
  induction ops with
  | nil => intro s _ h; exact ⟨h, Nat.le_refl _, rfl⟩
  | cons op ops ih =>
    intro s hk h
    have h1 := put_inv s op.1 op.2 (hk op (List.mem_cons_self ..)) h
    have h2 := ih (put s op.1 op.2).1 (fun o ho => hk o (List.mem_cons_of_mem _ ho)) h1.1
    exact ⟨h2.1, Nat.le_trans h2.2.1 h1.2, by show (run (put s op.1 op.2).1 ops).cap = s.cap; rw [h2.2.2, put_cap]⟩

theorem run_bounded (ops : List (Nat × Nat)) : ∀ (s : Store), (∀ op ∈ ops, 0 < op.1 ∧ 32 + op.2 ≤ s.cap / 20) → Inv s →
    held s.items ≤ s.cap → held (run s ops).items ≤ s.cap := by
  induction ops with
  | nil => intro s _ _ h; exact h
  | cons op ops ih =>
    intro s hk h hc
    have hop := hk op (List.mem_cons_self ..)
    have h1 := put_inv s op.1 op.2 hop.1 h
    have h2 := put_bounded s op.1 op.2 hop.1 h hc hop.2
    have := ih (put s op.1 op.2).1 (fun o ho => by rw [h2.2]; exact hk o (List.mem_cons_of_mem _ ho)) h1.1 h2.1
    rw [h2.2] at this
    exact this

end St
