/-! C05, schedules with a pruning put. The atomic steps the code really has (storage/pebble/storage.go):
    `Put`:   `size.Add` (snapshot `newSize`)  ·  batch commit {item, SizeKey := newSize}
    `prune`: `size.Load`  ·  `size.Store(loaded - freed)`  ·  batch commit {deletes, SizeKey := loaded - freed}
             (the commit applies the batch and only then waits for the fsync of the write-ahead log)
    The model keeps three numbers: the in-memory counter, the bytes held, the persisted counter record. -/
namespace ConcP

structure Sh where
  tracked : Nat
  held : Nat
  persisted : Nat
deriving DecidableEq, Repr

structure Th where
  len : Nat                    -- bytes of the item of this put (id + value)
  freed : Nat                  -- bytes its pruning pass deletes, if it prunes
  snap : Nat := 0              -- newSize taken at the Add
  loaded : Nat := 0            -- what prune read from the counter
deriving DecidableEq, Repr

inductive Ev where
  | add (t : Nat) | commitItem (t : Nat) | pLoad (t : Nat) | pStore (t : Nat) | pCommit (t : Nat)
deriving DecidableEq, Repr

def step (st : Sh × List Th) : Ev → Sh × List Th
  | .add t => match st.2[t]? with
    | some th => let n := st.1.tracked + th.len
                 ({ st.1 with tracked := n }, st.2.set t { th with snap := n })
    | none => st
  | .commitItem t => match st.2[t]? with
    | some th => ({ st.1 with held := st.1.held + th.len, persisted := th.snap }, st.2)
    | none => st
  | .pLoad t => match st.2[t]? with
    | some th => (st.1, st.2.set t { th with loaded := st.1.tracked })
    | none => st
  | .pStore t => match st.2[t]? with
    | some th => ({ st.1 with tracked := th.loaded - th.freed }, st.2)
    | none => st
  | .pCommit t => match st.2[t]? with
    | some th => ({ st.1 with held := st.1.held - th.freed, persisted := th.loaded - th.freed }, st.2)
    | none => st

def run (s : Sh) (ths : List Th) (evs : List Ev) : Sh := (evs.foldl step (s, ths)).1

/-- the order of one pruning put in the code today -/
def today (t : Nat) : List Ev := [.add t, .commitItem t, .pLoad t, .pStore t, .pCommit t]
/-- the order with the `Store` moved behind the commit (seeded change C05d) -/
def storeAfterCommit (t : Nat) : List Ev := [.add t, .commitItem t, .pLoad t, .pCommit t, .pStore t]

/-! ### The atomic-section view: what a lock around Add..commit and Load..commit would give -/
inductive G where
  | put (len : Nat)
  | prune (freed : Nat)
deriving Repr

def gstep (s : Sh) : G → Sh
  | .put len => let n := s.tracked + len; { tracked := n, held := s.held + len, persisted := n }
  | .prune f => if f ≤ s.held then (let n := s.tracked - f; { tracked := n, held := s.held - f, persisted := n }) else s

def Inv (s : Sh) : Prop := s.tracked = s.held ∧ s.persisted = s.held
instance (s : Sh) : Decidable (Inv s) := by unfold Inv; exact inferInstance

theorem gstep_inv (s : Sh) (g : G) (h : Inv s) : Inv (gstep s g) := by
  obtain ⟨h1, h2⟩ := h
  cases g with
  | put len => simp [gstep, Inv, h1]
  | prune f =>
    simp only [gstep]
    split
    · simp [Inv, h1]
    · exact ⟨h1, h2⟩

/-- if the two sections were atomic, counter = persisted = held after EVERY sequence of puts and pruning passes -/
theorem atomic_sections_keep_counter (gs : List G) (s : Sh) (h : Inv s) : Inv (gs.foldl gstep s) := by
  induction gs generalizing s with
  | nil => exact h
  | cons g gs ih => exact ih _ (gstep_inv s g h)

/-- one thread's events run without interruption in today's order are exactly the two sections -/
theorem today_is_sections (s : Sh) (th : Th) (hf : th.freed ≤ s.held + th.len) (hi : Inv s) :
    run s [th] (today 0) = gstep (gstep s (.put th.len)) (.prune th.freed) := by
  obtain ⟨h1, _⟩ := hi
  simp [run, today, step, gstep, hf, h1]

/-! ### Put B while put A waits in the fsync of its pruning batch -/

/-- today: everything of A that touches the shared state is done when it waits, so B (here without a prune of its own)
    finds and leaves counter = persisted = held, for all sizes -/
theorem sync_window_safe_today (s : Sh) (a b : Th) (hi : Inv s) :
    Inv (run s [a, b] (today 0 ++ [.add 1, .commitItem 1])) := by
  obtain ⟨h1, h2⟩ := hi
  simp [run, today, step, Inv, h1]

/-- with the Store moved behind the commit: B adds onto the unreduced counter, prunes as well, A's late Store wipes B's Add
    out, B's pruning pass then persists a counter that is short by exactly B's bytes (numbers of the forced schedule) -/
theorem store_after_commit_breaks_C05 :
    let a : Th := { len := 10032, freed := 50160 }
    let b : Th := { len := 10032, freed := 50160 }
    let s : Sh := { tracked := 993168, held := 993168, persisted := 993168 }
    let r := run s [a, b] [.add 0, .commitItem 0, .pLoad 0, .pCommit 0,     -- A waits in the fsync
                           .add 1, .commitItem 1,                           -- B meanwhile, then held at prune.beforeSubtract
                           .pStore 0,                                       -- A returns
                           .pLoad 1, .pStore 1, .pCommit 1]
    r.persisted + 10032 = r.held ∧ r.tracked + 10032 = r.held := by
  decide

/-- the same schedule with today's order (B does not even need to prune): nothing is lost -/
example :
    let a : Th := { len := 10032, freed := 50160 }
    let b : Th := { len := 10032, freed := 0 }
    let s : Sh := { tracked := 993168, held := 993168, persisted := 993168 }
    Inv (run s [a, b] (today 0 ++ [.add 1, .commitItem 1])) := by
  decide

end ConcP
