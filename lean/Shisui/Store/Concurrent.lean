/-! C05, schedules: two puts as the atomic steps the code really has (`size.Add`, then the batch commit
    carrying the snapshot taken at the Add). The sequential invariant `persisted ≥ held` does not
    survive every interleaving — shown by an explicit schedule, which is the replay for the real store. -/
namespace Conc

structure Shared where
  tracked : Nat                       -- the atomic counter
  items : List (Nat × Nat)            -- committed (key, value length)
  persisted : Nat                     -- the counter record on disk
deriving DecidableEq, Repr

structure Thread where
  key : Nat
  len : Nat
  snap : Option Nat                   -- newSize computed at the Add, written at the commit
deriving DecidableEq, Repr

inductive Ev where
  | add (t : Nat)
  | commit (t : Nat)
deriving DecidableEq, Repr

def held (l : List (Nat × Nat)) : Nat := (l.map (fun e => 32 + e.2)).sum

def step (st : Shared × List Thread) : Ev → Shared × List Thread
  | .add t =>
    match st.2[t]? with
    | some th =>
      let n := st.1.tracked + 32 + th.len
      ({ st.1 with tracked := n }, st.2.set t { th with snap := some n })
    | none => st
  | .commit t =>
    match st.2[t]? with
    | some th =>
      match th.snap with
      | some n => ({ st.1 with items := (th.key, th.len) :: st.1.items, persisted := n }, st.2)
      | none => st
    | none => st

def run (evs : List Ev) (ths : List Thread) : Shared := (evs.foldl step ({ tracked := 0, items := [], persisted := 0 }, ths)).1

def twoPuts : List Thread := [{ key := 1, len := 1000, snap := none }, { key := 2, len := 5000, snap := none }]

/-- issued one after another the figure is right … -/
example : (run [.add 0, .commit 0, .add 1, .commit 1] twoPuts).persisted = held (run [.add 0, .commit 0, .add 1, .commit 1] twoPuts).items := by
  decide

/-- … but if the first put is overtaken between its Add and its commit, the persisted figure
    under-reports: 1032 recorded, 6064 bytes held (exactly what the real store showed) -/
theorem quirk_nonatomic_put_breaks_C05 :
    let r := run [.add 0, .add 1, .commit 1, .commit 0] twoPuts
    r.persisted = 1032 ∧ held r.items = 6064 ∧ r.persisted < held r.items := by
  decide

end Conc
