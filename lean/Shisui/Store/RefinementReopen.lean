import Shisui.Store.Refinement
/-! C04 across close and reopen: the value store under histories that mix puts with close/reopen (possibly with another
    capacity), still a refinement of "value of the last accepted put per id". -/
namespace Sv

/-- `Close` followed by `NewStorage` with capacity `cap`: items and counter come back from disk, the radius starts at the
    maximum, an over-capacity store is pruned, and above 95 % the radius is re-derived from the farthest key -/
def reopen (prune : Store → Store) (maxR : Nat) (s : Store) (cap : Nat) : Store :=
  let s0 : Store := { items := s.items, tracked := s.tracked, radius := maxR, cap := cap }
  let s1 := if s0.tracked > cap then prune s0 else s0
  if s.tracked > cap * 19 / 20 then
    match s1.items.getLast? with
    | some e => { s1 with radius := e.1 }
    | none => s1
  else s1

theorem reopen_items (prune : Store → Store) (maxR : Nat) (s : Store) (cap : Nat) :
    (reopen prune maxR s cap).items =
      (if s.tracked > cap then prune { items := s.items, tracked := s.tracked, radius := maxR, cap := cap }
       else { items := s.items, tracked := s.tracked, radius := maxR, cap := cap }).items := by
  unfold reopen
  simp only
  split
  · split <;> rfl
  · rfl

/-- "across close and reopen": every id returns after the reopen what it returned before, or nothing (pruned on open) -/
theorem reopen_get (prune : Store → Store) (hp : ∀ s, PruneOf s (prune s)) (maxR : Nat) (s : Store) (cap k : Nat) :
    get k (reopen prune maxR s cap).items = get k s.items ∨ get k (reopen prune maxR s cap).items = none := by
  rw [reopen_items]
  split
  · obtain ⟨dropped, hd, _⟩ := (hp { items := s.items, tracked := s.tracked, radius := maxR, cap := cap }).pre
    simp only at hd
    cases hg : get k (prune { items := s.items, tracked := s.tracked, radius := maxR, cap := cap }).items with
    | none => exact Or.inr rfl
    | some w =>
      left
      have := get_prefix k _ dropped w hg
      rw [← hd] at this
      exact this.symm
  · exact Or.inl rfl

/-- a store that fits its capacity comes back with exactly the same items -/
theorem reopen_same (prune : Store → Store) (maxR : Nat) (s : Store) (cap : Nat) (h : s.tracked ≤ cap) :
    (reopen prune maxR s cap).items = s.items := by
  rw [reopen_items]
  have : ¬ s.tracked > cap := by omega
  simp [this]

theorem reopen_refines (prune : Store → Store) (hp : ∀ s, PruneOf s (prune s)) (maxR : Nat) (s : Store) (cap : Nat)
    (spec : Spec) (href : Refines s spec) : Refines (reopen prune maxR s cap) spec := by
  intro k v hg
  rcases reopen_get prune hp maxR s cap k with h | h
  · rw [h] at hg; exact href k v hg
  · rw [h] at hg; simp at hg

/-- operations of a store's life -/
inductive Op where
  | put (k : Nat) (v : Val)
  | reopen (cap : Nat)

def stepOp (prune : Store → Store) (maxR : Nat) (s : Store) : Op → Store × PutResult
  | .put k v => put prune s k v
  | .reopen cap => (reopen prune maxR s cap, .ok)

/-- the ghost map: an accepted put records its value, nothing else changes it -/
def specOp (prune : Store → Store) (s : Store) (sp : Spec) : Op → Spec
  | .put k v => if (put prune s k v).2 = .ok then (fun k' => if k' = k then some v else sp k') else sp
  | .reopen _ => sp

def runOps (prune : Store → Store) (maxR : Nat) : Store → Spec → List Op → Store × Spec
  | s, sp, [] => (s, sp)
  | s, sp, op :: ops => runOps prune maxR (stepOp prune maxR s op).1 (specOp prune s sp op) ops

/-- every history of puts, overwrites and reopenings (with any capacities): whatever `get` returns is the value of the
    latest accepted put for that id -/
theorem runOps_refines (prune : Store → Store) (hp : ∀ s, PruneOf s (prune s)) (maxR : Nat) (ops : List Op) :
    ∀ (s : Store) (sp : Spec), Refines s sp → Refines (runOps prune maxR s sp ops).1 (runOps prune maxR s sp ops).2 := by
  induction ops with
  | nil => intro s sp h; exact h
  | cons op ops ih =>
    intro s sp h
    cases op with
    | put k v => exact ih _ _ (put_refines prune hp s sp k v h)
    | reopen cap => exact ih _ _ (reopen_refines prune hp maxR s cap sp h)

#print axioms runOps_refines
#print axioms reopen_get
end Sv
