import Shisui.MerkleExt
/-! Model of `validation.HeaderValidator.ValidateHeaderAndProof` (validation/header_validator.go) and of the
    summaries provider (validation/historical_summaries_provider.go), over an arbitrary two-to-one hash `H`
    (the driver instantiates it with the Lean SHA-256).

    * hashes/chunks are `Mk.Hash = Nat` (a 32-byte chunk read big-endian);
    * Go's failure modes are explicit outcomes: `errExec`, `errMerkle`, `errOther`, `panic`;
    * the two unchecked table accesses are Boolean quirk switches (`Quirks`): `ideal` is the model the property
      theorems are about, the driver compares the code with the switch position the code exhibits;
    * raw proof bytes are `List Nat`; `chunksOf` / `decodePM` are the length checks and slicing of
      `TurnToPreMergeProof` and of the three fixed-size SSZ containers (840 / 808 / 840 bytes).
    Core Lean only. -/
namespace Hp
open Mk

/-! ## constants (compared with the Go constants on every run by the `consts` line) -/
def epochSize : Nat := 8192
def mergeBlock : Nat := 15537394
def shanghaiBlock : Nat := 17034870
def cancunBlock : Nat := 19426587
def capellaForkEpoch : Nat := 194048
def slotsPerEpoch : Nat := 32
def capellaStart : Nat := capellaForkEpoch * slotsPerEpoch
def gindexBellatrix : Nat := 3228
def gindexDeneb : Nat := 6444

inductive Out where
  | ok | errExec | errMerkle | errOther | panic
deriving DecidableEq, Repr

def Out.isErr : Out → Bool
  | .errExec | .errMerkle | .errOther => true
  | _ => false

/-- deviations of the code from the property, as switches -/
structure Quirks where
  epochsUnchecked : Bool   -- `HistoricalEpochs[epochIndex]` is indexed without a bounds check
  rootsUnchecked : Bool    -- `HistoricalRoots[slot / 8192]` is indexed without a bounds check

def ideal : Quirks := ⟨false, false⟩
def asIs : Quirks := ⟨true, true⟩

/-- behaviour of the beacon oracle the summaries provider may ask -/
inductive Oracle where
  | absent                       -- nil oracle
  | failing                      -- returns an error
  | answers (l : List Hash)      -- returns this list of block-summary roots

structure Tables where
  epochs : List Hash        -- pre-merge accumulator: epoch roots
  roots : List Hash         -- historical_roots (merge … Capella)
  summaries : List Hash     -- block_summary_root of the provider's cached historical summaries
  oracle : Oracle

/-- a decoded post-merge proof container -/
structure PM where
  bproof : List Hash
  broot : Hash
  eproof : List Hash
  slot : Nat

def mkPM (bp : List Hash) (br : Hash) (ep : List Hash) (slot : Nat) : PM := ⟨bp, br, ep, slot⟩

def oorOut (unchecked : Bool) : Out := if unchecked then .panic else .errOther

/-! ## pre-merge: fastssz `VerifyProof` at index `4·8192 + 2·record` against `HistoricalEpochs[epoch]` -/
def preIndex (number : Nat) : Nat := epochSize * 2 * 2 + (number % epochSize) * 2

def checkPre (H : Hash → Hash → Hash) (root : Hash) (number : Nat) (hash : Hash) (sib : List Hash) : Out :=
  if sib.length = Nat.log2 (preIndex number) then
    (if fold H hash sib (preIndex number) = root then .ok else .errMerkle)
  else .errOther

/-- `sib = none`: the proof bytes are not a multiple of 32 (error of `TurnToPreMergeProof`, after the table access) -/
def validatePre (H : Hash → Hash → Hash) (q : Quirks) (t : Tables) (number : Nat) (hash : Hash)
    (sib : Option (List Hash)) : Out :=
  match t.epochs[number / epochSize]? with
  | none => oorOut q.epochsUnchecked
  | some root =>
    match sib with
    | none => .errOther
    | some s => checkPre H root number hash s

/-! ## merge … Capella: execution branch (gindex 3228), then beacon branch of depth 14 against `HistoricalRoots[slot/8192]` -/
def bellIndex (slot : Nat) : Nat := 2 * epochSize + slot % epochSize
def summIndex (slot : Nat) : Nat := epochSize + slot % epochSize

def validateBell (H : Hash → Hash → Hash) (q : Quirks) (t : Tables) (hash : Hash) (p : PM) : Out :=
  if fold H hash p.eproof gindexBellatrix = p.broot then
    match t.roots[p.slot / epochSize]? with
    | none => oorOut q.rootsUnchecked
    | some r => if fold H p.broot (p.bproof.take 14) (bellIndex p.slot) = r then .ok else .errMerkle
  else .errExec

/-! ## Capella and later: summaries provider (wrapping uint64 subtraction, bounds check, oracle), depth 13 -/
def summaryIndex (slot : Nat) : Nat := ((slot + 2 ^ 64 - capellaStart) % 2 ^ 64) / epochSize

def lookupSummary (t : Tables) (slot : Nat) : Option Hash :=
  match t.summaries[summaryIndex slot]? with
  | some s => some s
  | none =>
    match t.oracle with
    | .answers l => l[summaryIndex slot]?
    | _ => none

/-- the provider replaces its cache by the oracle's answer when that answer contains the wanted index -/
def cacheAfterLookup (t : Tables) (slot : Nat) : List Hash :=
  match t.summaries[summaryIndex slot]? with
  | some _ => t.summaries
  | none =>
    match t.oracle with
    | .answers l => if summaryIndex slot < l.length then l else t.summaries
    | _ => t.summaries

def validateSumm (H : Hash → Hash → Hash) (g : Nat) (t : Tables) (hash : Hash) (p : PM) : Out :=
  if fold H hash p.eproof g = p.broot then
    match lookupSummary t p.slot with
    | none => .errOther
    | some r => if fold H p.broot (p.bproof.take 13) (summIndex p.slot) = r then .ok else .errMerkle
  else .errExec

def cacheAfterSumm (H : Hash → Hash → Hash) (g : Nat) (t : Tables) (hash : Hash) (p : PM) : List Hash :=
  if fold H hash p.eproof g = p.broot then cacheAfterLookup t p.slot else t.summaries

/-! ## proof bytes -/
def beNat (l : List Nat) : Nat := l.foldl (fun a b => a * 256 + b) 0

def leNat : List Nat → Nat
  | [] => 0
  | b :: rest => b + 256 * leNat rest

def chunk (b : List Nat) (i : Nat) : Hash := beNat ((b.drop (32 * i)).take 32)
def chunks (b : List Nat) (first n : Nat) : List Hash := (List.range n).map (fun i => chunk b (first + i))

/-- `TurnToPreMergeProof` -/
def chunksOf (b : List Nat) : Option (List Hash) :=
  if b.length % 32 = 0 then some (chunks b 0 (b.length / 32)) else none

/-- `UnmarshalSSZ` of the fixed-size containers: `nb` beacon siblings, root, `ne` execution siblings, slot (LE) -/
def decodePM (nb ne : Nat) (b : List Nat) : Option PM :=
  if b.length = 32 * (nb + 1 + ne) + 8 then
    some (mkPM (chunks b 0 nb) (chunk b nb) (chunks b (nb + 1) ne) (leNat ((b.drop (32 * (nb + 1 + ne))).take 8)))
  else none

/-! ## era dispatch -/
inductive Era where
  | preMerge | bellatrix | capella | deneb
deriving DecidableEq, Repr

def eraOf (number : Nat) : Era :=
  if number < mergeBlock then .preMerge
  else if number < shanghaiBlock then .bellatrix
  else if number < cancunBlock then .capella
  else .deneb

/-- `ValidateHeaderAndProof` for a header with this number and hash -/
def validate (H : Hash → Hash → Hash) (q : Quirks) (t : Tables) (number : Nat) (hash : Hash) (proof : List Nat) : Out :=
  match eraOf number with
  | .preMerge => validatePre H q t number hash (chunksOf proof)
  | .bellatrix =>
    match decodePM 14 11 proof with
    | none => .errOther
    | some p => validateBell H q t hash p
  | .capella =>
    match decodePM 13 11 proof with
    | none => .errOther
    | some p => validateSumm H gindexBellatrix t hash p
  | .deneb =>
    match decodePM 13 12 proof with
    | none => .errOther
    | some p => validateSumm H gindexDeneb t hash p

/-- the provider's cache after the call -/
def cacheAfter (H : Hash → Hash → Hash) (t : Tables) (number : Nat) (hash : Hash) (proof : List Nat) : List Hash :=
  match eraOf number with
  | .preMerge => t.summaries
  | .bellatrix => t.summaries
  | .capella =>
    match decodePM 13 11 proof with
    | none => t.summaries
    | some p => cacheAfterSumm H gindexBellatrix t hash p
  | .deneb =>
    match decodePM 13 12 proof with
    | none => t.summaries
    | some p => cacheAfterSumm H gindexDeneb t hash p

/-! ## the committed structures (specification side) -/

/-- 8192 as the 32-byte little-endian length chunk mixed into the epoch root, read big-endian -/
def lenChunk : Hash := 0x20 * 256 ^ 30

/-- record `i` of an epoch: (block hash, total difficulty chunk); positions past the chain are zero records -/
def recAt (recs : List (Hash × Hash)) (i : Nat) : Hash × Hash :=
  match recs[i]? with
  | some r => r
  | none => (0, 0)

/-- chunk `j` of the 16384 chunks of an epoch accumulator: hash and total difficulty alternate -/
def epochChunk (recs : List (Hash × Hash)) (j : Nat) : Hash :=
  if j % 2 = 0 then (recAt recs (j / 2)).1 else (recAt recs (j / 2)).2

/-- SSZ tree of `EpochAccumulator` with `MixInLength(·, 8192)` on top: depth 15 -/
def epochTree (recs : List (Hash × Hash)) : Tree :=
  .node (build 14 (fun j => .leaf (epochChunk recs j))) (.leaf lenChunk)

def epochRoot (H : Hash → Hash → Hash) (recs : List (Hash × Hash)) : Hash := root H (epochTree recs)

/-- the model of `history.BuildProof`: 14 siblings inside the accumulator and the length chunk -/
def proveEpoch (H : Hash → Hash → Hash) (recs : List (Hash × Hash)) (number : Nat) : Option (List Hash) :=
  (prove H (epochTree recs) 15 (preIndex number)).map (fun p => p.1)

/-! ## lemmas -/

theorem preIndex_bounds (n : Nat) : 2 ^ 15 ≤ preIndex n ∧ preIndex n < 2 ^ 16 := by
  unfold preIndex epochSize
  have : n % 8192 < 8192 := Nat.mod_lt _ (by decide)
  constructor <;> omega

theorem preIndex_log2 (n : Nat) : Nat.log2 (preIndex n) = 15 := by
  have h := preIndex_bounds n
  have hne : preIndex n ≠ 0 := by omega
  exact (Nat.log2_eq_iff hne).2 h

theorem checkPre_ok_iff (H : Hash → Hash → Hash) (root : Hash) (n : Nat) (hash : Hash) (sib : List Hash) :
    checkPre H root n hash sib = .ok ↔ sib.length = 15 ∧ fold H hash sib (preIndex n) = root := by
  unfold checkPre
  rw [preIndex_log2]
  by_cases h1 : sib.length = 15
  · by_cases h2 : fold H hash sib (preIndex n) = root
    · simp [h1, h2]
    · simp [h1, h2]
  · simp [h1]

theorem validatePre_ok_iff (H : Hash → Hash → Hash) (q : Quirks) (t : Tables) (n : Nat) (hash : Hash)
    (sib : Option (List Hash)) :
    validatePre H q t n hash sib = .ok ↔
      ∃ root s, t.epochs[n / epochSize]? = some root ∧ sib = some s ∧ s.length = 15 ∧
        fold H hash s (preIndex n) = root := by
  unfold validatePre
  cases he : t.epochs[n / epochSize]? with
  | none =>
    simp only [oorOut]
    constructor
    · intro h; cases hq : q.epochsUnchecked <;> simp [hq] at h
    · rintro ⟨root, s, h, _⟩; cases h
  | some root =>
    cases sib with
    | none =>
      simp
    | some s =>
      simp only [checkPre_ok_iff]
      constructor
      · rintro ⟨h1, h2⟩; exact ⟨root, s, rfl, rfl, h1, h2⟩
      · rintro ⟨root', s', h1, h2, h3, h4⟩
        cases h1; cases h2; exact ⟨h3, h4⟩

theorem validateBell_ok_iff (H : Hash → Hash → Hash) (q : Quirks) (t : Tables) (hash : Hash) (p : PM) :
    validateBell H q t hash p = .ok ↔
      fold H hash p.eproof gindexBellatrix = p.broot ∧
      ∃ r, t.roots[p.slot / epochSize]? = some r ∧ fold H p.broot (p.bproof.take 14) (bellIndex p.slot) = r := by
  unfold validateBell
  by_cases h1 : fold H hash p.eproof gindexBellatrix = p.broot
  · simp only [h1, if_true, true_and]
    cases hr : t.roots[p.slot / epochSize]? with
    | none =>
      simp only [oorOut]
      constructor
      · intro h; cases hq : q.rootsUnchecked <;> simp [hq] at h
      · rintro ⟨r, h, _⟩; cases h
    | some r =>
      by_cases h2 : fold H p.broot (p.bproof.take 14) (bellIndex p.slot) = r
      · simp [h2]
      · simp only [h2, if_false]
        constructor
        · intro h; cases h
        · rintro ⟨r', h3, h4⟩; cases h3; exact absurd h4 h2
  · simp [h1]

theorem validateSumm_ok_iff (H : Hash → Hash → Hash) (g : Nat) (t : Tables) (hash : Hash) (p : PM) :
    validateSumm H g t hash p = .ok ↔
      fold H hash p.eproof g = p.broot ∧
      ∃ r, lookupSummary t p.slot = some r ∧ fold H p.broot (p.bproof.take 13) (summIndex p.slot) = r := by
  unfold validateSumm
  by_cases h1 : fold H hash p.eproof g = p.broot
  · simp only [h1, if_true, true_and]
    cases hr : lookupSummary t p.slot with
    | none => simp
    | some r =>
      by_cases h2 : fold H p.broot (p.bproof.take 13) (summIndex p.slot) = r
      · simp [h2]
      · simp only [h2, if_false]
        constructor
        · intro h; cases h
        · rintro ⟨r', h3, h4⟩; cases h3; exact absurd h4 h2
  · simp [h1]

/-- the summary index is the batch number counted from the first Capella slot -/
theorem summaryIndex_capella (slot : Nat) (h1 : capellaStart ≤ slot) (h2 : slot < 2 ^ 64) :
    summaryIndex slot = (slot - capellaStart) / epochSize := by
  unfold summaryIndex
  have : slot + 2 ^ 64 - capellaStart = (slot - capellaStart) + 2 ^ 64 := by omega
  rw [this, Nat.add_mod_right, Nat.mod_eq_of_lt (by omega)]

/-- a pre-Capella slot wraps around to an index no realistic table contains -/
theorem summaryIndex_wrap (slot : Nat) (h1 : slot < capellaStart) :
    2 ^ 50 ≤ summaryIndex slot := by
  unfold summaryIndex
  have hc : capellaStart = 6209536 := by decide
  rw [hc] at h1 ⊢
  have h3 : slot + 2 ^ 64 - 6209536 < 2 ^ 64 := by omega
  rw [Nat.mod_eq_of_lt h3]
  unfold epochSize
  have : 2 ^ 50 * 8192 ≤ slot + 2 ^ 64 - 6209536 := by omega
  exact (Nat.le_div_iff_mul_le (by decide)).2 this

theorem lookupSummary_none_of_short (t : Tables) (slot : Nat)
    (hc : t.summaries.length ≤ summaryIndex slot)
    (ho : match t.oracle with | .answers l => l.length ≤ summaryIndex slot | _ => True) :
    lookupSummary t slot = none := by
  unfold lookupSummary
  rw [List.getElem?_eq_none hc]
  cases hor : t.oracle with
  | absent => rfl
  | failing => rfl
  | answers l =>
    rw [hor] at ho
    exact List.getElem?_eq_none ho

/-! ### decoding facts (what the fixed-size SSZ containers guarantee) -/
theorem chunks_length (b : List Nat) (first n : Nat) : (chunks b first n).length = n := by
  simp [chunks]

theorem decodePM_lengths (nb ne : Nat) (b : List Nat) (p : PM) (h : decodePM nb ne b = some p) :
    p.bproof.length = nb ∧ p.eproof.length = ne ∧ b.length = 32 * (nb + 1 + ne) + 8 := by
  unfold decodePM at h
  by_cases hl : b.length = 32 * (nb + 1 + ne) + 8
  · simp only [hl, if_true, Option.some.injEq] at h
    subst h
    exact ⟨chunks_length _ _ _, chunks_length _ _ _, hl⟩
  · simp [hl] at h

theorem chunksOf_length (b : List Nat) (s : List Hash) (h : chunksOf b = some s) : b.length = 32 * s.length := by
  unfold chunksOf at h
  by_cases hl : b.length % 32 = 0
  · simp only [hl, if_true, Option.some.injEq] at h
    subst h
    rw [chunks_length]
    omega
  · simp [hl] at h

/-! ### the epoch tree commits record `r`'s block hash at the validator's index -/
theorem epochTree_nodeAt (recs : List (Hash × Hash)) (n : Nat) :
    nodeAt (epochTree recs) 15 (preIndex n) = some (.leaf (recAt recs (n % epochSize)).1) := by
  have hr : n % epochSize < 8192 := Nat.mod_lt _ (by decide)
  have hidx : preIndex n = 2 ^ 15 + 2 * (n % epochSize) := by
    unfold preIndex epochSize; omega
  unfold epochTree
  simp only [nodeAt]
  have hbit : preIndex n / 2 ^ 14 % 2 = 0 := by
    rw [hidx]; omega
  simp only [hbit]
  rw [nodeAt_mod 14 _ (preIndex n)]
  have hmod : preIndex n % 2 ^ 14 = 2 * (n % epochSize) := by
    rw [hidx]; omega
  rw [hmod, nodeAt_build 14 _ _ (by omega)]
  simp only [epochChunk]
  have h1 : 2 * (n % epochSize) % 2 = 0 := by omega
  have h2 : 2 * (n % epochSize) / 2 = n % epochSize := by omega
  simp [h1, h2]

end Hp
