/-! Bytewise (pebble / bytes.Compare) order on equal-length keys = order of the big-endian values. -/
namespace Be

def beVal : List Nat → Nat
  | [] => 0
  | x :: xs => x * 256 ^ xs.length + beVal xs

def Bytes (l : List Nat) : Prop := ∀ x ∈ l, x < 256

/-- `bytes.Compare(a,b) < 0` for equal lengths -/
def lexLt : List Nat → List Nat → Bool
  | x :: xs, y :: ys => x < y || (x == y && lexLt xs ys)
  | _, _ => false

theorem beVal_lt (l : List Nat) (h : Bytes l) : beVal l < 256 ^ l.length := by
  induction l with
  | nil => simp [beVal]
  | cons x xs ih =>
    have hx : x < 256 := h x (List.mem_cons_self ..)
    have := ih (fun y hy => h y (List.mem_cons_of_mem _ hy))
    simp only [beVal, List.length_cons, Nat.pow_succ]
    have : x * 256 ^ xs.length + 256 ^ xs.length ≤ 256 ^ xs.length * 256 := by
      have : (x + 1) * 256 ^ xs.length ≤ 256 * 256 ^ xs.length := Nat.mul_le_mul_right _ (by omega)
      rw [Nat.add_mul, Nat.one_mul] at this
      rw [Nat.mul_comm (256 ^ xs.length) 256]
      exact this
    omega

theorem lexLt_iff (a b : List Nat) (hl : a.length = b.length) (ha : Bytes a) (hb : Bytes b) :
    lexLt a b = true ↔ beVal a < beVal b := by
  induction a generalizing b with
  | nil =>
    cases b with
    | nil => simp [lexLt, beVal]
    | cons y ys => simp at hl
  | cons x xs ih =>
    cases b with
    | nil => simp at hl
    | cons y ys =>
      have hl' : xs.length = ys.length := by simpa using hl
      have hxs : Bytes xs := fun z hz => ha z (List.mem_cons_of_mem _ hz)
      have hys : Bytes ys := fun z hz => hb z (List.mem_cons_of_mem _ hz)
      have bx := beVal_lt xs hxs
      have by' := beVal_lt ys hys
      have ih' := ih ys hl' hxs hys
      simp only [lexLt, beVal, Bool.or_eq_true, decide_eq_true_eq, Bool.and_eq_true, beq_iff_eq]
      rw [hl'] at bx ⊢
      generalize 256 ^ ys.length = P at *
      constructor
      · rintro (hlt | ⟨rfl, hrec⟩)
        · have : (x + 1) * P ≤ y * P := Nat.mul_le_mul_right _ hlt
          rw [Nat.add_mul, Nat.one_mul] at this
          omega
        · have := ih'.mp hrec; omega
      · intro h
        rcases Nat.lt_trichotomy x y with hlt | heq | hgt
        · exact Or.inl hlt
        · subst heq
          right; exact ⟨rfl, ih'.mpr (by omega)⟩
        · exfalso
          have : (y + 1) * P ≤ x * P := Nat.mul_le_mul_right _ hgt
          rw [Nat.add_mul, Nat.one_mul] at this
          omega

#print axioms lexLt_iff
end Be
