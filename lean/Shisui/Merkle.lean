namespace Mk
abbrev Hash := Nat

inductive Tree where
  | leaf (v : Hash)
  | node (l r : Tree)

variable (H : Hash → Hash → Hash)

def root : Tree → Hash
  | .leaf v => v
  | .node l r => H (root l) (root r)

/-- zrnt `VerifyMerkleBranch` loop: bottom-up fold, bit i of `idx` selects the side at level i. -/
def fold (v : Hash) : List Hash → Nat → Hash
  | [], _ => v
  | s :: rest, idx => fold (if idx % 2 = 1 then H s v else H v s) rest (idx / 2)

def verify (leaf : Hash) (branch : List Hash) (idx : Nat) (r : Hash) : Bool :=
  fold H leaf branch idx == r

/-- subtree reached by walking `d` levels down from the root, most significant of the low `d` bits first -/
def nodeAt : Tree → Nat → Nat → Option Tree
  | t, 0, _ => some t
  | .leaf _, _+1, _ => none
  | .node l r, d+1, idx => if (idx / 2 ^ d) % 2 = 1 then nodeAt r d idx else nodeAt l d idx

def Collision : Prop := ∃ a b c d, (a, b) ≠ (c, d) ∧ H a b = H c d
/-- some leaf chunk of the opening is itself a hash of two chunks -/
inductive LeafPre : Tree → Prop
  | here (v a b) : H a b = v → LeafPre (.leaf v)
  | left (l r) : LeafPre l → LeafPre (.node l r)
  | right (l r) : LeafPre r → LeafPre (.node l r)

theorem fold_append (v : Hash) (bs : List Hash) (s : Hash) (idx : Nat) :
    fold H v (bs ++ [s]) idx =
      (if (idx / 2 ^ bs.length) % 2 = 1 then H s (fold H v bs idx) else H (fold H v bs idx) s) := by
  induction bs generalizing v idx with
  | nil => simp [fold]
  | cons b bs ih =>
    simp only [List.cons_append, fold, List.length_cons]
    rw [ih]
    have : idx / 2 / 2 ^ bs.length = idx / 2 ^ (bs.length + 1) := by
      rw [Nat.div_div_eq_div_mul, Nat.pow_succ, Nat.mul_comm]
    rw [this]

/-- fold only looks at the low `length` bits: the walk below level d ignores higher bits -/
theorem sound : ∀ (n : Nat) (T : Tree) (leaf : Hash) (branch : List Hash) (idx : Nat),
    branch.length = n →
    fold H leaf branch idx = root H T →
    (∃ t, nodeAt T branch.length idx = some t ∧ root H t = leaf) ∨ Collision H ∨ LeafPre H T := by
  intro n
  induction n with
  | zero =>
    intro T leaf branch idx hl h
    have : branch = [] := List.eq_nil_of_length_eq_zero hl
    subst this
    left
    exact ⟨T, by simp [nodeAt], by simpa [fold] using h.symm⟩
  | succ n ih =>
    intro T leaf branch idx hl h
    rcases List.eq_nil_or_concat branch with hnil | ⟨bs, s, hbs⟩
    · subst hnil; simp at hl
    · rw [List.concat_eq_append] at hbs
      subst hbs
      have hlen : bs.length = n := by simpa using hl
      rw [fold_append] at h
      cases T with
      | leaf v =>
        right; right
        simp only [root] at h
        split at h
        · exact .here v _ _ h
        · exact .here v _ _ h
      | node l r =>
        simp only [root] at h
        simp only [List.length_append, List.length_singleton, nodeAt]
        by_cases hb : (idx / 2 ^ bs.length) % 2 = 1
        · simp only [hb, if_true] at h ⊢
          by_cases heq : (s, fold H leaf bs idx) = (root H l, root H r)
          · have h2 : fold H leaf bs idx = root H r := by
              have := congrArg Prod.snd heq; simpa using this
            rcases ih r leaf bs idx hlen h2 with h3 | h3 | h3
            · left; exact h3
            · right; left; exact h3
            · right; right; exact .right l r h3
          · right; left
            exact ⟨s, fold H leaf bs idx, root H l, root H r, heq, h⟩
        · simp only [hb, if_false] at h ⊢
          by_cases heq : (fold H leaf bs idx, s) = (root H l, root H r)
          · have h2 : fold H leaf bs idx = root H l := by
              have := congrArg Prod.fst heq; simpa using this
            rcases ih l leaf bs idx hlen h2 with h3 | h3 | h3
            · left; exact h3
            · right; left; exact h3
            · right; right; exact .left l r h3
          · right; left
            exact ⟨fold H leaf bs idx, s, root H l, root H r, heq, h⟩


/-- honest prover: siblings bottom-up and the hash found at the position -/
def prove : Tree → Nat → Nat → Option (List Hash × Hash)
  | t, 0, _ => some ([], root H t)
  | .leaf _, _+1, _ => none
  | .node l r, d+1, idx =>
    if (idx / 2 ^ d) % 2 = 1 then (prove r d idx).map (fun p => (p.1 ++ [root H l], p.2))
    else (prove l d idx).map (fun p => (p.1 ++ [root H r], p.2))

/-- C03 completeness: an honestly generated proof always verifies, for every tree, depth and position -/
theorem complete (T : Tree) (d idx : Nat) (branch : List Hash) (leaf : Hash)
    (h : prove H T d idx = some (branch, leaf)) :
    branch.length = d ∧ fold H leaf branch idx = root H T ∧
    ∃ t, nodeAt T d idx = some t ∧ root H t = leaf := by
  induction d generalizing T branch leaf with
  | zero =>
    simp only [prove, Option.some.injEq, Prod.mk.injEq] at h
    obtain ⟨rfl, rfl⟩ := h
    exact ⟨rfl, rfl, T, by simp [nodeAt], rfl⟩
  | succ d ih =>
    cases T with
    | leaf v => simp [prove] at h
    | node l r =>
      simp only [prove] at h
      split at h
      · rename_i hb
        cases hp : prove H r d idx with
        | none => simp [hp] at h
        | some p =>
          simp only [hp, Option.map_some, Option.some.injEq, Prod.mk.injEq] at h
          obtain ⟨rfl, rfl⟩ := h
          obtain ⟨hl, hf, t, ht, hr⟩ := ih r p.1 p.2 (by rw [hp])
          refine ⟨by simp [hl], ?_, t, by simp [nodeAt, hb, ht], hr⟩
          rw [fold_append, hl]
          simp [hb, hf, root]
      · rename_i hb
        cases hp : prove H l d idx with
        | none => simp [hp] at h
        | some p =>
          simp only [hp, Option.map_some, Option.some.injEq, Prod.mk.injEq] at h
          obtain ⟨rfl, rfl⟩ := h
          obtain ⟨hl, hf, t, ht, hr⟩ := ih l p.1 p.2 (by rw [hp])
          refine ⟨by simp [hl], ?_, t, by simp [nodeAt, hb, ht], hr⟩
          rw [fold_append, hl]
          simp [hb, hf, root]

/-- the verifier only looks at the low `length` bits of the index: passing the generalized index
    itself (3228, 6444, 32768 + 2r, 2·8192 + i …) is the same as passing the position -/
theorem fold_mod (v : Hash) (branch : List Hash) (idx : Nat) :
    fold H v branch idx = fold H v branch (idx % 2 ^ branch.length) := by
  induction branch generalizing v idx with
  | nil => rfl
  | cons s rest ih =>
    simp only [fold, List.length_cons]
    have h1 : idx % 2 ^ (rest.length + 1) % 2 = idx % 2 := by
      rw [Nat.pow_succ, Nat.mul_comm]
      exact Nat.mod_mul_right_mod idx 2 (2 ^ rest.length)
    have h2 : idx % 2 ^ (rest.length + 1) / 2 = (idx / 2) % 2 ^ rest.length := by
      rw [Nat.pow_succ, Nat.mul_comm, Nat.mod_mul_right_div_self]
    simp only [h1, h2]
    rw [ih _ (idx / 2), ih _ (idx / 2 % 2 ^ rest.length)]

/-- generalized indices used by the header validator, as arithmetic facts -/
theorem gindex_bellatrix : 3228 = ((1 * 8 + 4) * 16 + 9) * 16 + 12 ∧ 3228 / 2 ^ 11 = 1 ∧ 3228 % 2 ^ 11 = 1180 := by decide
theorem gindex_deneb : 6444 = ((1 * 8 + 4) * 16 + 9) * 32 + 12 ∧ 6444 / 2 ^ 12 = 1 ∧ 6444 % 2 ^ 12 = 2348 := by decide
/-- record `r`'s block hash in an epoch accumulator: root → (data, length) → 8192 records → (hash, td) -/
theorem gindex_premerge (r : Nat) (h : r < 8192) :
    8192 * 2 * 2 + r * 2 = ((1 * 2 + 0) * 8192 + r) * 2 + 0 ∧ (8192 * 2 * 2 + r * 2) / 2 ^ 15 = 1 := by
  constructor
  · omega
  · omega

#print axioms complete
#print axioms fold_mod
end Mk
