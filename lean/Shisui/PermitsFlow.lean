import Shisui.Permits
/-! C16, second layer: the exit table of one offer, read off `offer` / `processOffer` / the sending goroutine (outbound) and
    off the receiving goroutine of `handleOffer` (inbound), as the list of `Release()` calls each path makes; and the theorem
    that connects it to the slot pool: whatever the interleaving, once every offer that took a slot has run one of these paths
    the full number of slots is free again, and no path frees a slot twice. -/
namespace Pm

/-- how an outbound offer that holds a slot can end -/
inductive Out where
  | marshalErr | talkErr                               -- `offer`: before `processOffer` is entered
  | emptyResp | notAccept | parseErr | lenMismatch | declined   -- `processOffer`: before the transfer starts
  | shutdown | dialFail | writeFail | success          -- the sending goroutine
deriving DecidableEq, Repr

/-- how an inbound transfer that holds a slot can end -/
inductive In where
  | shutdown | acceptFail                              -- nothing was read
  | readDone (handledOk : Bool)                        -- the stream was read (or the read failed): explicit release, then the loop leaves
deriving DecidableEq, Repr

inductive Call where
  | explicit | deferred
deriving DecidableEq, Repr

/-- the `Release()` calls on each outbound path, in order -/
def outCalls : Out → List Call
  | .marshalErr | .talkErr => [.explicit]
  | .emptyResp | .notAccept | .parseErr | .lenMismatch | .declined => [.deferred]   -- `notStartedUtp` still true
  | .shutdown | .dialFail | .writeFail | .success => [.deferred]                     -- the goroutine's own defer

/-- the `Release()` calls on each inbound path, in order -/
def inCalls : In → List Call
  | .shutdown | .acceptFail => [.deferred]
  | .readDone _ => [.explicit, .deferred]

/-- the pool steps of offer `i` going through a path that makes `calls` -/
def stepsOfCalls (i : Nat) : List Call → List Step
  | [] => [.exit i false]
  | _ :: rest => .exit i true :: rest.map (fun _ => .again i)

theorem outCalls_ne_nil (o : Out) : outCalls o ≠ [] := by cases o <;> simp [outCalls]
theorem inCalls_ne_nil (o : In) : inCalls o ≠ [] := by cases o <;> simp [inCalls]

def run (limit : Nat) (steps : List Step) : Sys := steps.foldl step { avail := limit, offers := [] }

def isReleased (s : Sys) (i : Nat) : Bool := match s.offers[i]? with | some o => o.released | none => false

/-- a step that calls Release on offer `i` -/
def callsRelease (i : Nat) : Step → Bool
  | .exit j true => j == i
  | .again j => j == i
  | _ => false

theorem releaseAt_length (l : List Offer) (i : Nat) : (releaseAt l i).1.length = l.length := by
  unfold releaseAt; split
  · split <;> simp
  · rfl

theorem markDone_length (l : List Offer) (i : Nat) : (markDone l i).length = l.length := by
  unfold markDone; split <;> simp

theorem step_length_ge (s : Sys) (st : Step) : s.offers.length ≤ (step s st).offers.length := by
  cases st with
  | acquire => simp only [step]; split <;> simp
  | exit i rel => simp only [step]; split <;> simp [markDone_length, releaseAt_length]
  | again i => simp [step, releaseAt_length]

theorem releaseAt_released (l : List Offer) (i j : Nat) (o : Offer) (h : l[j]? = some o) (hr : o.released = true) :
    ∃ o', (releaseAt l i).1[j]? = some o' ∧ o'.released = true := by
  unfold releaseAt; split
  · rename_i oi hoi
    split
    · exact ⟨o, h, hr⟩
    · by_cases hij : i = j
      · subst hij; rw [hoi] at h; cases h; simp_all
      · refine ⟨o, ?_, hr⟩
        simp [hij, h]
  · exact ⟨o, h, hr⟩

theorem markDone_released (l : List Offer) (i j : Nat) (o : Offer) (h : l[j]? = some o) (hr : o.released = true) :
    ∃ o', (markDone l i)[j]? = some o' ∧ o'.released = true := by
  unfold markDone; split
  · rename_i oi hoi
    by_cases hij : i = j
    · subst hij; rw [hoi] at h; cases h
      refine ⟨{ o with done := true }, ?_, hr⟩
      have : i < l.length := by
        rcases Nat.lt_or_ge i l.length with hlt | hge
        · exact hlt
        · simp [List.getElem?_eq_none hge] at hoi
      simp [this]
    · exact ⟨o, by simp [hij, h], hr⟩
  · exact ⟨o, h, hr⟩

theorem isReleased_iff (s : Sys) (j : Nat) :
    isReleased s j = true ↔ ∃ o, s.offers[j]? = some o ∧ o.released = true := by
  unfold isReleased
  cases h : s.offers[j]? with
  | none => simp
  | some o => simp

theorem step_offers_released (s : Sys) (st : Step) (j : Nat) (o : Offer) (ho : s.offers[j]? = some o)
    (h : o.released = true) : ∃ o', (step s st).offers[j]? = some o' ∧ o'.released = true := by
  cases st with
  | acquire =>
    simp only [step]
    by_cases hav : s.avail > 0
    · have : j < s.offers.length := by
        rcases Nat.lt_or_ge j s.offers.length with hlt | hge
        · exact hlt
        · simp [List.getElem?_eq_none hge] at ho
      exact ⟨o, by simp [hav, List.getElem?_append_left this, ho], h⟩
    · exact ⟨o, by simp [hav, ho], h⟩
  | exit i rel =>
    simp only [step]
    cases rel with
    | true =>
      obtain ⟨o1, h1, hr1⟩ := releaseAt_released s.offers i j o ho h
      obtain ⟨o2, h2, hr2⟩ := markDone_released _ i j o1 h1 hr1
      exact ⟨o2, by simpa using h2, hr2⟩
    | false =>
      obtain ⟨o2, h2, hr2⟩ := markDone_released s.offers i j o ho h
      exact ⟨o2, by simpa using h2, hr2⟩
  | again i =>
    simp only [step]
    exact releaseAt_released s.offers i j o ho h

/-- a released slot stays released: nothing un-releases a permit -/
theorem released_mono (s : Sys) (st : Step) (j : Nat) (h : isReleased s j = true) : isReleased (step s st) j = true := by
  rw [isReleased_iff] at h ⊢
  obtain ⟨o, ho, hr⟩ := h
  exact step_offers_released s st j o ho hr

theorem releaseAt_marks (l : List Offer) (i : Nat) (hi : i < l.length) :
    ∃ o', (releaseAt l i).1[i]? = some o' ∧ o'.released = true := by
  unfold releaseAt
  have : l[i]? = some l[i] := List.getElem?_eq_getElem hi
  rw [this]; simp only
  split
  · rename_i hr; exact ⟨l[i], this, hr⟩
  · exact ⟨{ l[i] with released := true }, by simp [List.getElem?_set, hi], rfl⟩

/-- a Release call on an offer that exists leaves it released -/
theorem call_marks (s : Sys) (st : Step) (i : Nat) (hi : i < s.offers.length) (hc : callsRelease i st = true) :
    isReleased (step s st) i = true := by
  rw [isReleased_iff]
  cases st with
  | acquire => simp [callsRelease] at hc
  | exit j rel =>
    cases rel with
    | false => simp [callsRelease] at hc
    | true =>
      simp [callsRelease] at hc; subst hc
      simp only [step, if_true]
      obtain ⟨o1, h1, hr1⟩ := releaseAt_marks s.offers j hi
      exact markDone_released _ j j o1 h1 hr1
  | again j =>
    simp [callsRelease] at hc; subst hc
    simp only [step]
    exact releaseAt_marks s.offers j hi

theorem released_mono_run (s : Sys) (steps : List Step) (j : Nat) (h : isReleased s j = true) :
    isReleased (steps.foldl step s) j = true := by
  induction steps generalizing s with
  | nil => exact h
  | cons st rest ih => exact ih _ (released_mono s st j h)

/-- "every slot taken is returned, whatever the outcome; once activity has ceased the full number of slots is available":
    in any interleaving in which every offer that took a slot has, some time after taking it, made at least one `Release()`
    call (which `outCalls_ne_nil` / `inCalls_ne_nil` say every path of the exit table does), all slots are free at the end -/
theorem all_paths_release_full (limit : Nat) (steps : List Step)
    (h : ∀ i, i < (run limit steps).offers.length →
      ∃ pre c post, steps = pre ++ c :: post ∧ i < (run limit pre).offers.length ∧ callsRelease i c = true) :
    (run limit steps).avail = limit := by
  apply quiescent_full limit steps
  intro o ho
  obtain ⟨i, hi, hio⟩ := List.getElem_of_mem ho
  obtain ⟨pre, c, post, hsteps, hpre, hc⟩ := h i hi
  have hm := call_marks (run limit pre) c i hpre hc
  have := released_mono_run (step (run limit pre) c) post i hm
  have hrun : run limit steps = post.foldl step (step (run limit pre) c) := by
    simp [run, hsteps, List.foldl_append]
  rw [← hrun, isReleased_iff] at this
  obtain ⟨o', ho', hr'⟩ := this
  have hget : (run limit steps).offers[i]? = some o := by
    show (List.foldl step { avail := limit, offers := [] } steps).offers[i]? = some o
    rw [List.getElem?_eq_getElem hi]; simp [hio]
  rw [hget] at ho'; cases ho'; exact hr'

/-- the effective number of slot returns of one path is exactly one: the first call returns the slot, every further call on
    the same permit changes nothing -/
theorem path_returns_once (s : Sys) (i : Nat) (calls : List Call) (hne : calls ≠ []) (hi : i < s.offers.length)
    (hheld : isReleased s i = false) :
    ((stepsOfCalls i calls).foldl step s).avail = s.avail + 1 := by
  cases calls with
  | nil => exact absurd rfl hne
  | cons c rest =>
    simp only [stepsOfCalls, List.foldl_cons]
    have hget : s.offers[i]? = some s.offers[i] := List.getElem?_eq_getElem hi
    have hrel : s.offers[i].released = false := by
      unfold isReleased at hheld; rw [hget] at hheld; simpa using hheld
    have h1 : (step s (.exit i true)).avail = s.avail + 1 := by
      simp [step, releaseAt, hget, hrel]
    have hm : isReleased (step s (.exit i true)) i = true := call_marks s _ i hi (by simp [callsRelease])
    -- every further `again i` leaves avail unchanged
    suffices hs : ∀ (n : List Call) (t : Sys), isReleased t i = true →
        ((n.map (fun _ => Step.again i)).foldl step t).avail = t.avail by
      rw [hs rest _ hm, h1]
    intro n
    induction n with
    | nil => intro t _; rfl
    | cons _ n ih =>
      intro t ht
      simp only [List.map_cons, List.foldl_cons]
      have hav : (step t (.again i)).avail = t.avail := by
        unfold isReleased at ht
        split at ht
        · rename_i o ho; simp [step, releaseAt, ho, ht]
        · simp at ht
      rw [ih _ (released_mono t _ i ht), hav]

example : (run 2 ([Step.acquire, .acquire] ++ stepsOfCalls 1 (inCalls (.readDone false)) ++ stepsOfCalls 0 (outCalls .declined))).avail = 2 := by decide

#print axioms all_paths_release_full
#print axioms path_returns_once
end Pm
