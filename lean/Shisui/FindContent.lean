/-! C08 / C06 / C01 prototypes: FINDCONTENT reply, the in-range test, and the talk dispatch boundary. -/
namespace Fc

/-! ### C08: what `handleFindContent` may answer when the content is not held -/

structure N where
  id : Nat
  logd : Nat          -- log-distance to the content id
  enrLen : Nat        -- encoded record length
deriving DecidableEq, Repr

def SortedLog (l : List N) : Prop := l.Pairwise (fun a b => a.logd ≤ b.logd)

/-- `truncateNodes`: longest prefix whose records (+4 bytes offset each) fit -/
def truncate (maxSize : Nat) : List N → Nat → List N
  | [], _ => []
  | n :: rest, used => if used + n.enrLen + 4 > maxSize then [] else n :: truncate maxSize rest (used + n.enrLen + 4)

def size (l : List N) : Nat := (l.map (fun n => n.enrLen + 4)).sum

theorem truncate_prefix (maxSize : Nat) (l : List N) (used : Nat) :
    ∃ rest, l = truncate maxSize l used ++ rest ∧ used + size (truncate maxSize l used) ≤ max used maxSize := by
  induction l generalizing used with
  | nil => exact ⟨[], by simp [truncate, size]; omega⟩
  | cons n r ih =>
    simp only [truncate]
    split
    · exact ⟨n :: r, by simp [size]; omega⟩
    · rename_i hfit
      obtain ⟨rest, h1, h2⟩ := ih (used + n.enrLen + 4)
      refine ⟨rest, by simp [← h1], ?_⟩
      simp only [size, List.map_cons, List.sum_cons] at h2 ⊢
      omega

/-- remove the first node with the asker's id (`append(closest[:i], closest[i+1:]...)`; break) -/
def removeFirst (asker : Nat) : List N → List N
  | [] => []
  | n :: rest => if n.id = asker then rest else n :: removeFirst asker rest

theorem removeFirst_sublist (asker : Nat) (l : List N) : (removeFirst asker l).Sublist l := by
  induction l with
  | nil => simp [removeFirst]
  | cons n r ih =>
    simp only [removeFirst]
    split
    · exact List.sublist_cons_self n r
    · exact ih.cons₂ n

theorem removeFirst_no_asker (asker : Nat) (l : List N) (hnd : (l.map (·.id)).Nodup) :
    ∀ n ∈ removeFirst asker l, n.id ≠ asker := by
  induction l with
  | nil => simp [removeFirst]
  | cons x r ih =>
    simp only [List.map_cons, List.nodup_cons] at hnd
    simp only [removeFirst]
    split
    · rename_i hx
      intro n hn hid
      exact hnd.1 (List.mem_map.mpr ⟨n, hn, by rw [hid, hx]⟩)
    · rename_i hx
      intro n hn
      simp only [List.mem_cons] at hn
      rcases hn with rfl | hn
      · exact hx
      · exact ih hnd.2 n hn

/-- the reply list for any log-distance-sorted ordering `sorted` of the table (the sort is unstable,
    so the order among ties is the implementation's choice) -/
def enrsReply (sorted : List N) (asker : Nat) (maxSize : Nat) : List N :=
  truncate maxSize (removeFirst asker (sorted.take 32)) 0

/-- C08: only table records, in non-decreasing log-distance, never the asker, and the list fits -/
theorem enrs_rule (sorted : List N) (asker maxSize : Nat) (hs : SortedLog sorted) (hnd : (sorted.map (·.id)).Nodup) :
    (enrsReply sorted asker maxSize).Sublist sorted ∧ SortedLog (enrsReply sorted asker maxSize) ∧
    (∀ n ∈ enrsReply sorted asker maxSize, n.id ≠ asker) ∧ size (enrsReply sorted asker maxSize) ≤ maxSize := by
  unfold enrsReply
  obtain ⟨rest, h1, h2⟩ := truncate_prefix maxSize (removeFirst asker (sorted.take 32)) 0
  have hsub1 : (truncate maxSize (removeFirst asker (sorted.take 32)) 0).Sublist (removeFirst asker (sorted.take 32)) := by
    conv => rhs; rw [h1]
    exact List.sublist_append_left _ _
  have hsub2 := removeFirst_sublist asker (sorted.take 32)
  have hsub3 : (sorted.take 32).Sublist sorted := List.take_sublist _ _
  have hsub := (hsub1.trans hsub2).trans hsub3
  refine ⟨hsub, List.Pairwise.sublist hsub hs, ?_, by simp at h2; omega⟩
  intro n hn
  have hnd' : ((sorted.take 32).map (·.id)).Nodup := List.Nodup.sublist (hsub3.map _) hnd
  exact removeFirst_no_asker asker _ hnd' n (hsub1.subset hn)

/-! ### C06: the in-range test -/

def logdist (a b : Nat) : Nat := if a ^^^ b = 0 then 0 else Nat.log2 (a ^^^ b) + 1

/-- `quirk` = compare the radius with the log2 distance (the code today) -/
def inRange (quirk : Bool) (node radius content : Nat) : Bool :=
  if quirk then decide (radius > logdist node content) else decide ((node ^^^ content) < radius)

theorem inRange_iff (node radius content : Nat) : inRange false node radius content = true ↔ (node ^^^ content) < radius := by
  simp [inRange]

/-- distance 7, radius 4: out of range under the XOR metric, in range for the code -/
theorem quirk_inrange_logdist_breaks_C06 : inRange false 0 4 7 = false ∧ inRange true 0 4 7 = true := by
  decide

/-! ### C01: the dispatch boundary -/

inductive Out where
  | reply (b : List Nat) | empty | err | panic (site : String)
deriving DecidableEq, Repr

/-- `handleTalkRequest` with the handlers abstracted; `quirk` = `msg[0]` without a length check -/
def handleTalk (quirk : Bool) (ping findNodes findContent offer : List Nat → Out) : List Nat → Out
  | [] => if quirk then .panic "portalwire/portal_protocol.go:1048 msg[0]" else .empty
  | 0 :: body => ping body
  | 2 :: body => findNodes body
  | 4 :: body => findContent body
  | 6 :: body => offer body
  | _ :: _ => .empty

theorem talk_no_panic (ping findNodes findContent offer : List Nat → Out)
    (h : ∀ b, (∀ s, ping b ≠ .panic s) ∧ (∀ s, findNodes b ≠ .panic s) ∧ (∀ s, findContent b ≠ .panic s) ∧ (∀ s, offer b ≠ .panic s))
    (msg : List Nat) (s : String) : handleTalk false ping findNodes findContent offer msg ≠ .panic s := by
  unfold handleTalk
  split
  · simp
  · exact (h _).1 s
  · exact (h _).2.1 s
  · exact (h _).2.2.1 s
  · exact (h _).2.2.2 s
  · simp

theorem quirk_empty_talkreq_breaks_C01 (p f c o : List Nat → Out) :
    handleTalk true p f c o [] = .panic "portalwire/portal_protocol.go:1048 msg[0]" := rfl

#print axioms enrs_rule
end Fc
