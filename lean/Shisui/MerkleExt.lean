import Shisui.Merkle
/-! Further facts about the Merkle model `Mk` needed by the header-proof property C03:
    * `fold_inj`     — two accepted openings of the same root at the same position coincide, or an explicit
                       collision of `H` is exhibited (no injectivity axiom);
    * `build`        — the complete tree of depth `d` over a leaf function (SSZ vectors / padded lists);
    * `nodeAt_build` — the subtree at position `i` of `build d f` is `f i`;
    * `prove_of_nodeAt` — the honest prover succeeds wherever the tree is deep enough;
    * `nodeAt_mod`   — positions are read modulo `2^depth` (a generalized index may be passed as it is).
    Core Lean only. -/
namespace Mk

variable (H : Hash → Hash → Hash)

/-- one level of the verifier -/
def stepH (idx : Nat) (v s : Hash) : Hash := if idx % 2 = 1 then H s v else H v s

theorem fold_cons (v s : Hash) (rest : List Hash) (idx : Nat) :
    fold H v (s :: rest) idx = fold H (stepH H idx v s) rest (idx / 2) := rfl

theorem stepH_inj (idx : Nat) (v s v' s' : Hash) (h : stepH H idx v s = stepH H idx v' s') :
    (v = v' ∧ s = s') ∨ Collision H := by
  unfold stepH at h
  by_cases hb : idx % 2 = 1
  · simp only [hb, if_true] at h
    by_cases heq : (s, v) = (s', v')
    · left
      have h1 := congrArg Prod.fst heq
      have h2 := congrArg Prod.snd heq
      exact ⟨h2, h1⟩
    · right; exact ⟨s, v, s', v', heq, h⟩
  · simp only [hb, if_false] at h
    by_cases heq : (v, s) = (v', s')
    · left
      have h1 := congrArg Prod.fst heq
      have h2 := congrArg Prod.snd heq
      exact ⟨h1, h2⟩
    · right; exact ⟨v, s, v', s', heq, h⟩

/-- Binding of the verifier alone: if two (leaf, branch) pairs of the same length fold to the same value at the
    same index, they are the same pair, or the proof exhibits two distinct inputs of `H` with equal output. -/
theorem fold_inj : ∀ (br br' : List Hash) (v v' : Hash) (idx : Nat),
    br.length = br'.length → fold H v br idx = fold H v' br' idx →
    (v = v' ∧ br = br') ∨ Collision H := by
  intro br
  induction br with
  | nil =>
    intro br' v v' idx hl h
    have : br' = [] := List.eq_nil_of_length_eq_zero hl.symm
    subst this
    left; exact ⟨by simpa [fold] using h, rfl⟩
  | cons s rest ih =>
    intro br' v v' idx hl h
    cases br' with
    | nil => simp at hl
    | cons s' rest' =>
      have hl' : rest.length = rest'.length := by simpa using hl
      rw [fold_cons, fold_cons] at h
      rcases ih rest' _ _ (idx / 2) hl' h with ⟨h1, h2⟩ | hc
      · rcases stepH_inj H idx v s v' s' h1 with ⟨h3, h4⟩ | hc
        · left; exact ⟨h3, by rw [h4, h2]⟩
        · right; exact hc
      · right; exact hc

/-- complete tree of depth `d`: leaf `i` (0 ≤ i < 2^d, most significant bit decides first) is `f i` -/
def build : Nat → (Nat → Tree) → Tree
  | 0, f => f 0
  | d+1, f => .node (build d f) (build d (fun i => f (2 ^ d + i)))

theorem nodeAt_mod : ∀ (d : Nat) (T : Tree) (idx : Nat), nodeAt T d idx = nodeAt T d (idx % 2 ^ d) := by
  intro d
  induction d with
  | zero => intro T idx; simp [nodeAt]
  | succ d ih =>
    intro T idx
    cases T with
    | leaf v => simp [nodeAt]
    | node l r =>
      simp only [nodeAt]
      have hbit : idx % 2 ^ (d + 1) / 2 ^ d % 2 = idx / 2 ^ d % 2 := by
        rw [Nat.mod_pow_succ]
        have hp : 0 < 2 ^ d := Nat.two_pow_pos d
        rw [Nat.add_comm, Nat.mul_add_div hp]
        have : idx % 2 ^ d / 2 ^ d = 0 := Nat.div_eq_of_lt (Nat.mod_lt _ hp)
        rw [this, Nat.add_zero, Nat.mod_mod]
      have hlow : idx % 2 ^ (d + 1) % 2 ^ d = idx % 2 ^ d := by
        rw [Nat.pow_succ]
        exact Nat.mod_mul_right_mod idx (2 ^ d) 2
      rw [hbit]
      rw [ih r idx, ih l idx, ih r (idx % 2 ^ (d + 1)), ih l (idx % 2 ^ (d + 1)), hlow]

theorem nodeAt_build : ∀ (d : Nat) (f : Nat → Tree) (i : Nat), i < 2 ^ d →
    nodeAt (build d f) d i = some (f i) := by
  intro d
  induction d with
  | zero =>
    intro f i hi
    have : i = 0 := by simpa using hi
    subst this
    simp [build, nodeAt]
  | succ d ih =>
    intro f i hi
    simp only [build, nodeAt]
    have hp : 0 < 2 ^ d := Nat.two_pow_pos d
    by_cases hlt : i < 2 ^ d
    · have : i / 2 ^ d = 0 := Nat.div_eq_of_lt hlt
      simp only [this]
      simpa using ih f i hlt
    · have hge : 2 ^ d ≤ i := Nat.le_of_not_lt hlt
      have hi' : i < 2 ^ d * 2 := by rw [Nat.pow_succ] at hi; exact hi
      have hi2 : i - 2 ^ d < 2 ^ d := by omega
      have hdiv : i / 2 ^ d = 1 := Nat.div_eq_of_lt_le (by omega) (by omega)
      have hmod : i % 2 ^ d = i - 2 ^ d := by
        rw [Nat.mod_eq_sub_mod hge, Nat.mod_eq_of_lt hi2]
      have hback : 2 ^ d + (i - 2 ^ d) = i := by omega
      simp only [hdiv]
      rw [nodeAt_mod d _ i, hmod, ih (fun j => f (2 ^ d + j)) (i - 2 ^ d) hi2]
      simp [hback]

/-- wherever the tree has a node at depth `d` along `idx`, the honest prover returns a branch and that node's hash -/
theorem prove_of_nodeAt : ∀ (d : Nat) (T t : Tree) (idx : Nat), nodeAt T d idx = some t →
    ∃ br, prove H T d idx = some (br, root H t) := by
  intro d
  induction d with
  | zero =>
    intro T t idx h
    simp only [nodeAt, Option.some.injEq] at h
    subst h
    exact ⟨[], by cases T <;> simp [prove]⟩
  | succ d ih =>
    intro T t idx h
    cases T with
    | leaf v => simp [nodeAt] at h
    | node l r =>
      simp only [nodeAt] at h
      simp only [prove]
      by_cases hb : idx / 2 ^ d % 2 = 1
      · simp only [hb, if_true] at h ⊢
        obtain ⟨br, hbr⟩ := ih r t idx h
        exact ⟨br ++ [root H l], by rw [hbr]; rfl⟩
      · simp only [hb, if_false] at h ⊢
        obtain ⟨br, hbr⟩ := ih l t idx h
        exact ⟨br ++ [root H r], by rw [hbr]; rfl⟩

/-- honest proofs exist and verify wherever the tree is deep enough (`complete` + `prove_of_nodeAt`) -/
theorem honest_verifies (d : Nat) (T t : Tree) (idx : Nat) (h : nodeAt T d idx = some t) :
    ∃ br, prove H T d idx = some (br, root H t) ∧ br.length = d ∧ fold H (root H t) br idx = root H T := by
  obtain ⟨br, hbr⟩ := prove_of_nodeAt H d T t idx h
  obtain ⟨h1, h2, _⟩ := complete H T d idx br (root H t) hbr
  exact ⟨br, hbr, h1, h2⟩

#print axioms fold_inj
#print axioms nodeAt_build
#print axioms honest_verifies
end Mk
