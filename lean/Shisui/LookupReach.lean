import Shisui.Lookup
import Shisui.LookupResult
/-! C10: reachable states of the lookup model — every schedule (order in which outstanding queries complete) and every
    answer function; cancellation. -/
namespace Lk
variable (d : Nat → Nat)

theorem init_inv (me : Nat) (localClosest : List Nat) : Inv me (init d me localClosest) := by
  unfold init
  apply start_inv
  have hk := foldl_see_keeps d localClosest { asked := [me], seen := [], result := [], inflight := [] }
  constructor
  · rw [hk.2]; simp [alpha]
  · rw [hk.1]; simp
  · rw [hk.2]; simp
  · intro n hn; rw [hk.2] at hn; simp at hn
  · rw [hk.1]; simp
  · rw [hk.2]; simp

/-- an event: in-flight peer `p` answers with `nodes` (a failing or silent peer answers `[]`) -/
abbrev Event := Nat × List Nat

/-- replay a schedule; an event for a peer that is not in flight cannot happen and is skipped -/
def run (s : LState) : List Event → LState
  | [] => s
  | (p, nodes) :: es => if p ∈ s.inflight then run (reply d s p nodes) es else run s es

/-- number of events of the schedule that really happen -/
def steps (s : LState) : List Event → Nat
  | [] => 0
  | (p, nodes) :: es => if p ∈ s.inflight then steps (reply d s p nodes) es + 1 else steps s es

/-- C10: in every reachable state ≤ alpha queries are in flight, nobody was asked twice, self is never asked -/
theorem run_inv (me : Nat) (es : List Event) : ∀ s, Inv me s → Inv me (run d s es) := by
  induction es with
  | nil => intro s h; exact h
  | cons e es ih =>
    intro s h
    obtain ⟨p, nodes⟩ := e
    simp only [run]
    split
    · exact ih _ (reply_inv d me s p nodes h)
    · exact ih _ h

theorem ask_result (st : LState) (n : Nat) : (ask st n).result = st.result ∧ (ask st n).seen = st.seen := by
  unfold ask; split <;> simp

theorem foldl_ask_result (l : List Nat) (st : LState) : (l.foldl ask st).result = st.result ∧ (l.foldl ask st).seen = st.seen := by
  induction l generalizing st with
  | nil => simp
  | cons x xs ih =>
    simp only [List.foldl_cons]
    have := ih (ask st x)
    have h2 := ask_result st x
    exact ⟨this.1.trans h2.1, this.2.trans h2.2⟩

theorem reply_result_sub (s : LState) (p : Nat) (nodes : List Nat) (m : Nat) (h : m ∈ (reply d s p nodes).result) :
    m ∈ nodes ∨ m ∈ s.result := by
  unfold reply start at h
  rw [(foldl_ask_result _ _).1] at h
  exact foldl_see_result_sub d nodes s m h

/-- C10 termination: over a finite universe `U` of peers, any schedule performs at most `mu U s ≤ 2·|U| + alpha`
    replies — "finish after at most one query per peer", for every order in which outstanding queries complete -/
theorem steps_bounded (U : List Nat) (hU : U.Nodup) (es : List Event) (hes : ∀ e ∈ es, ∀ n ∈ e.2, n ∈ U) :
    ∀ s, (∀ n ∈ s.result, n ∈ U) → steps d s es ≤ mu U s := by
  induction es with
  | nil => intro s _; simp [steps]
  | cons e es ih =>
    intro s hres
    obtain ⟨p, nodes⟩ := e
    simp only [steps]
    have hnodes : ∀ n ∈ nodes, n ∈ U := hes (p, nodes) (List.mem_cons_self ..)
    have hes' : ∀ e ∈ es, ∀ n ∈ e.2, n ∈ U := fun e he => hes e (List.mem_cons_of_mem _ he)
    split
    · rename_i hp
      have hlt := reply_mu d U hU s p nodes hp hres hnodes
      have hres' : ∀ n ∈ (reply d s p nodes).result, n ∈ U := by
        intro n hn
        rcases reply_result_sub d s p nodes n hn with h | h
        · exact hnodes n h
        · exact hres n h
      have := ih hes' _ hres'
      omega
    · exact ih hes' s hres

/-! ### the result -/

theorem insertSorted_eq (n : Nat) (l : List Nat) : insertSorted d n l = Nd.insertSorted d n l := by
  induction l with
  | nil => rfl
  | cons x xs ih => simp only [insertSorted, Nd.insertSorted, ih]

theorem push_eq (res : List Nat) (n : Nat) : push d res n = Nd.push d kRes res n := by
  simp [push, Nd.push, insertSorted_eq]

/-- result/seen agreement: the result is the bounded sorted list of everything seen, in order of first sight -/
def ResOk (s : LState) : Prop := s.result = Nd.result d kRes s.seen.reverse

theorem see_resOk (st : LState) (n : Nat) (h : ResOk d st) : ResOk d (see d st n) := by
  unfold see
  split
  · exact h
  · simp only [ResOk, List.reverse_cons, Nd.result, List.foldl_append, List.foldl_cons, List.foldl_nil]
    rw [push_eq]
    unfold ResOk Nd.result at h
    rw [h]

theorem foldl_see_resOk (l : List Nat) (st : LState) (h : ResOk d st) : ResOk d (l.foldl (see d) st) := by
  induction l generalizing st with
  | nil => exact h
  | cons x xs ih => exact ih _ (see_resOk d st x h)

theorem start_resOk (s : LState) (h : ResOk d s) : ResOk d (start s) := by
  unfold ResOk start at *
  rw [(foldl_ask_result _ _).1, (foldl_ask_result _ _).2]; exact h

theorem reply_resOk (s : LState) (p : Nat) (nodes : List Nat) (h : ResOk d s) : ResOk d (reply d s p nodes) := by
  unfold reply
  apply start_resOk
  have := foldl_see_resOk d nodes s h
  unfold ResOk at this ⊢
  exact this

theorem init_resOk (me : Nat) (l : List Nat) : ResOk d (init d me l) := by
  unfold init
  apply start_resOk
  apply foldl_see_resOk
  simp [ResOk, Nd.result]

theorem run_resOk (es : List Event) : ∀ s, ResOk d s → ResOk d (run d s es) := by
  induction es with
  | nil => intro s h; exact h
  | cons e es ih =>
    intro s h
    obtain ⟨p, nodes⟩ := e
    simp only [run]
    split
    · exact ih _ (reply_resOk d s p nodes h)
    · exact ih _ h

/-- the lookup has ended when nothing is in flight after `startQueries` -/
def ended (s : LState) : Prop := s.inflight = []

/-- cancellation (`shutdown`): outstanding answers are drained and ignored; nothing new is asked. The number of drain
    steps is the number of queries in flight (≤ alpha), after which the lookup has ended. -/
def drain (s : LState) : List Nat → LState
  | [] => s
  | p :: ps => drain { s with inflight := s.inflight.erase p } ps

theorem drain_keeps (ps : List Nat) : ∀ s, (drain s ps).asked = s.asked ∧ (drain s ps).result = s.result ∧
    (drain s ps).inflight.length ≤ s.inflight.length := by
  induction ps with
  | nil => intro s; exact ⟨rfl, rfl, Nat.le_refl _⟩
  | cons p ps ih =>
    intro s
    have := ih { s with inflight := s.inflight.erase p }
    exact ⟨this.1, this.2.1, Nat.le_trans this.2.2 (List.length_erase_le ..)⟩

#print axioms steps_bounded
#print axioms run_inv
#print axioms run_resOk
end Lk
