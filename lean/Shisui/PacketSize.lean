/-! C08/C11 prototype: size of the discv5 TALKRESP datagram as a function of the response length. -/
namespace Pk

def lenOfLen (n : Nat) : Nat := if n < 256 then 1 else if n < 65536 then 2 else if n < 16777216 then 3 else 4

/-- RLP length of a byte string of `n` bytes (`single` = it is one byte below 0x80) -/
def rlpStr (n : Nat) (single : Bool) : Nat :=
  if n = 1 ∧ single then 1 else if n ≤ 55 then 1 + n else 1 + lenOfLen n + n

def rlpList (payload : Nat) : Nat := if payload ≤ 55 then 1 + payload else 1 + lenOfLen payload + payload

/-- whole datagram: masking IV, static header, authdata (src id), message type, RLP [req-id, resp], GCM tag -/
def talkRespSize (reqId resp : Nat) (s1 s2 : Bool) : Nat :=
  16 + 23 + 32 + (1 + rlpList (rlpStr reqId s1 + rlpStr resp s2)) + 16

def talkRespOverhead := 16 + 55 + 1 + 3 + 9 + 3 + 16     -- as in portal_protocol.go
def maxPacketSize := 1280

theorem overhead_value : talkRespOverhead = 103 := by decide

/-- the constant in the code bounds the real overhead for every request id ≤ 8 bytes and every
    response up to 65 000 bytes (beyond ≈ 65 524 the list header grows by one byte and the constant
    would be one short — irrelevant here, replies are capped far below) -/
theorem overhead_bound (reqId resp : Nat) (s1 s2 : Bool) (hr : reqId ≤ 8) (hn : resp ≤ 65000) :
    talkRespSize reqId resp s1 s2 ≤ resp + talkRespOverhead := by
  have h1 : rlpStr reqId s1 ≤ 9 := by
    unfold rlpStr lenOfLen; split
    · omega
    · split
      · omega
      · omega
  have h2 : rlpStr resp s2 ≤ resp + 3 := by
    unfold rlpStr lenOfLen; split
    · omega
    · split
      · omega
      · split
        · omega
        · split
          · omega
          · omega
  have h3 : rlpStr reqId s1 + rlpStr resp s2 < 65536 := by omega
  unfold talkRespSize rlpList lenOfLen talkRespOverhead
  split
  · omega
  · split
    · omega
    · omega

/-- C08/C11: a response of at most `maxPacketSize - talkRespOverhead` bytes fits one datagram -/
theorem fits (reqId resp : Nat) (s1 s2 : Bool) (hr : reqId ≤ 8) (hn : resp ≤ maxPacketSize - talkRespOverhead) :
    talkRespSize reqId resp s1 s2 ≤ maxPacketSize := by
  have hn' : resp ≤ 1177 := by simpa [maxPacketSize, talkRespOverhead] using hn
  have := overhead_bound reqId resp s1 s2 hr (by omega)
  simp only [maxPacketSize, talkRespOverhead] at *
  omega

/-- and the bound is tight: 8-byte request id, 1177-byte response → exactly 1280 (as measured) -/
theorem tight : talkRespSize 8 1177 false false = 1280 := by decide

end Pk
