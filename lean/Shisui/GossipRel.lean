import Shisui.Gossip
/-! C20: the Boolean relation the driver evaluates on real gossip results implies `Gs.Allowed` (and hence `Gs.gossip_rule`). -/
namespace Gs

def allowedB (c : Ctx) (result : List Nat) : Bool :=
  let cov := covered c
  if cov.length ≤ 4 then result == cov
  else result.take 4 == cov.take 4 &&
       (result.drop 4).all (fun n => (cov.drop 4).contains n) && (result.drop 4).length == min 4 (cov.drop 4).length
       && (result.drop 4).eraseDups.length == (result.drop 4).length

theorem allowedB_sound (c : Ctx) (result : List Nat) (h : allowedB c result = true) : Allowed c result := by
  unfold allowedB at h
  unfold Allowed
  simp only at h ⊢
  split
  · rename_i hle
    simp only [hle, if_true, beq_iff_eq] at h
    exact h
  · rename_i hgt
    simp only [hgt, if_false, Bool.and_eq_true, beq_iff_eq, List.all_eq_true, List.contains_iff_mem] at h
    obtain ⟨⟨⟨h1, h2⟩, h3⟩, _⟩ := h
    exact ⟨h1, fun n hn => by simpa using h2 n hn, h3⟩

/-- every real result accepted by the driver's relation obeys the property's clauses -/
theorem allowedB_rule (c : Ctx) (result : List Nat) (h : allowedB c result = true) :
    result.length ≤ 8 ∧
    (∀ n ∈ result, n ∈ c.closest ∧ (∃ r, c.radius n = some r ∧ c.covers n r = true) ∧ c.src ≠ some n) ∧
    (∀ n ∈ (covered c).take 4, n ∈ result) := gossip_rule c result (allowedB_sound c result h)

#print axioms allowedB_rule
end Gs
