import Shisui.Offer
/-! C09, "not already being received", over histories: the in-flight mark of a key is set by the offer that accepted it and
    is cleared when THAT offer's transfer ends (portal_protocol.go handleOffer: `cacheTransferringKeys(contentKeys)` before the
    reply, `defer deleteTransferringContentKeys(contentKeys)` in the receive goroutine, where `contentKeys` are the accepted
    keys of this offer only). Events: an offer of some keys (version 1, a slot is available, everything in range and not
    stored - the other conditions are covered per offer by `Of.accepted_only_if`), or the end of the i-th offer's transfer
    for whatever reason (delivered and discarded, read failure, connect timeout, shutdown). -/
namespace Ofl
open Of

inductive Ev where
  | offer (keys : List Nat)
  | finish (i : Nat)
deriving Repr

/-- per offer so far: the keys its receive goroutine is still waiting for ([] once it has ended or accepted nothing) -/
structure St where
  waiting : List (List Nat) := []

def inflight (s : St) (k : Nat) : Bool := s.waiting.any (fun w => w.contains k)

def env (s : St) : Env :=
  { inRange := fun _ => true, stored := fun _ => false, inflight := inflight s, queueFull := false }

def step (s : St) : Ev → St × List Verdict
  | .offer keys =>
    let r := handleOffer false 1 (env s) true 7 keys
    ({ waiting := s.waiting ++ [r.waitingFor] }, r.verdicts)
  | .finish i => ({ waiting := s.waiting.set i [] }, [])

def run (s : St) : List Ev → St × List (List Verdict)
  | [] => (s, [])
  | e :: es => let r := step s e; let rest := run r.1 es; (rest.1, r.2 :: rest.2)

/-- no key is being received by two transfers at once -/
def Inv (s : St) : Prop :=
  ∀ i j : Nat, i < j → ∀ wi wj : List Nat, s.waiting[i]? = some wi → s.waiting[j]? = some wj → ∀ k, k ∈ wi → k ∉ wj

theorem acceptedKeys_map (f : Nat → Verdict) (keys : List Nat) :
    acceptedKeys keys (keys.map f) = keys.filter (fun k => f k = .accepted) := by
  unfold acceptedKeys
  induction keys with
  | nil => rfl
  | cons k ks ih =>
    simp only [List.map_cons, List.zip_cons_cons, List.filterMap_cons, List.filter_cons]
    by_cases h : f k = .accepted
    · simp [h, ih]
    · simp [h, ih]

theorem mem_waitingFor (s : St) (keys : List Nat) (k : Nat)
    (h : k ∈ (handleOffer false 1 (env s) true 7 keys).waitingFor) : k ∈ keys ∧ inflight s k = false := by
  unfold handleOffer at h
  simp only [verdicts] at h
  have hv : (if (1 : Nat) = 0 then verdictV0 (env s) else verdictV1 (env s)) = verdictV1 (env s) := by simp
  rw [hv, acceptedKeys_map] at h
  split at h
  · simp at h
  · simp only [↓reduceIte, List.mem_filter, decide_eq_true_eq] at h
    refine ⟨h.1, ?_⟩
    have := h.2
    unfold verdictV1 env at this
    simp only [Bool.not_true, Bool.false_eq_true, ↓reduceIte] at this
    by_cases hi : inflight s k = true
    · simp [hi] at this
    · simpa using hi

theorem inflight_of_mem (s : St) (i : Nat) (w : List Nat) (k : Nat) (hw : s.waiting[i]? = some w) (hk : k ∈ w) :
    inflight s k = true := by
  unfold inflight
  rw [List.any_eq_true]
  exact ⟨w, List.mem_of_getElem? hw, by simpa using hk⟩

theorem Inv_init : Inv {} := by
  intro i j _ wi wj hi; simp at hi

theorem step_inv (s : St) (e : Ev) (h : Inv s) : Inv (step s e).1 := by
  cases e with
  | offer keys =>
    intro i j hij wi wj hi hj k hk
    simp only [step] at hi hj
    by_cases hjl : j < s.waiting.length
    · have hil : i < s.waiting.length := Nat.lt_trans hij hjl
      rw [List.getElem?_append_left hil] at hi
      rw [List.getElem?_append_left hjl] at hj
      exact h i j hij wi wj hi hj k hk
    · have hjl' : s.waiting.length ≤ j := Nat.le_of_not_lt hjl
      rw [List.getElem?_append_right hjl'] at hj
      by_cases hj0 : j - s.waiting.length = 0
      · rw [hj0] at hj
        simp only [List.getElem?_cons_zero, Option.some.injEq] at hj
        subst hj
        have hil : i < s.waiting.length := by omega
        rw [List.getElem?_append_left hil] at hi
        intro hk2
        have := (mem_waitingFor s keys k hk2).2
        rw [inflight_of_mem s i wi k hi hk] at this
        cases this
      · have : ∃ n, j - s.waiting.length = n + 1 := ⟨j - s.waiting.length - 1, by omega⟩
        obtain ⟨n, hn⟩ := this
        rw [hn] at hj; simp at hj
  | finish n =>
    intro i j hij wi wj hi hj k hk
    simp only [step] at hi hj
    rw [List.getElem?_set] at hi hj
    split at hi
    · split at hi
      · simp only [Option.some.injEq] at hi; subst hi; simp at hk
      · cases hi
    · split at hj
      · split at hj
        · simp only [Option.some.injEq] at hj; subst hj; simp
        · cases hj
      · exact h i j hij wi wj hi hj k hk

theorem run_inv (s : St) (es : List Ev) (h : Inv s) : Inv (run s es).1 := by
  induction es generalizing s with
  | nil => exact h
  | cons e es ih => exact ih _ (step_inv s e h)

/-- a key some unfinished transfer is waiting for is declined as "in progress" by every further offer -/
theorem pending_key_declined (s : St) (i : Nat) (w : List Nat) (k : Nat) (hw : s.waiting[i]? = some w) (hk : k ∈ w) :
    verdictV1 (env s) k = .inProgress := by
  unfold verdictV1 env
  simp [inflight_of_mem s i w k hw hk]

/-- the end of one transfer clears nothing another transfer is waiting for -/
theorem finish_keeps_others (s : St) (n j : Nat) (hne : j ≠ n) : (step s (.finish n)).1.waiting[j]? = s.waiting[j]? := by
  simp only [step]
  rw [List.getElem?_set]
  split
  · rename_i h; exact absurd h.symm hne
  · rfl

/-- an accepted key was not being received, and is from now on (until the accepting offer's transfer ends) -/
theorem accepted_becomes_inflight (s : St) (keys : List Nat) (k : Nat)
    (h : k ∈ (handleOffer false 1 (env s) true 7 keys).waitingFor) :
    inflight s k = false ∧ inflight (step s (.offer keys)).1 k = true := by
  refine ⟨(mem_waitingFor s keys k h).2, ?_⟩
  apply inflight_of_mem _ s.waiting.length _ k _ h
  simp [step]

/-! ### histories that mix protocol versions
    A version-0 offer does not consult the marks (the statement says "in version 1") but its accepted keys ARE being received
    and are marked all the same, so that a version-1 offer arriving meanwhile declines them. `mem_waitingFor`,
    `pending_key_declined` and `accepted_becomes_inflight` are about an arbitrary state `s`, hence hold in mixed histories;
    only `Inv` (no key in two transfers) is specific to version-1-only histories. -/
inductive EvM where
  | offer (v : Nat) (keys : List Nat)
  | finish (i : Nat)
deriving Repr

def stepM (s : St) : EvM → St × List Verdict
  | .offer v keys =>
    let r := handleOffer false v (env s) true 7 keys
    ({ waiting := s.waiting ++ [r.waitingFor] }, r.verdicts)
  | .finish i => ({ waiting := s.waiting.set i [] }, [])

/-- a version-0 offer marks what it accepts: afterwards every accepted key is in flight -/
theorem v0_accepted_is_marked (s : St) (keys : List Nat) (k : Nat)
    (h : k ∈ (handleOffer false 0 (env s) true 7 keys).waitingFor) :
    inflight (stepM s (.offer 0 keys)).1 k = true := by
  apply inflight_of_mem _ s.waiting.length _ k _ h
  simp [stepM]

theorem stepM_v1 (s : St) (keys : List Nat) : stepM s (.offer 1 keys) = step s (.offer keys) := rfl

end Ofl
