import Shisui.Gen.Consts
namespace Inst.C20
theorem ping_ext_codes :
    Gen.pingext_ClientInfo = 0 ∧ Gen.pingext_BasicRadius = 1 ∧ Gen.pingext_HistoryRadius = 2 ∧ Gen.pingext_Error = 65535 ∧
    Gen.PING = 0 ∧ Gen.PONG = 1 := by decide
#print axioms ping_ext_codes
end Inst.C20
