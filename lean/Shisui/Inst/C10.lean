import Shisui.Gen.Consts
import Shisui.Lookup
namespace Inst.C10
theorem lookup_constants : Gen.alpha = Lk.alpha ∧ Gen.bucketSize = Lk.kRes ∧ Gen.lookupRequestLimit = 3 := by decide
#print axioms lookup_constants
end Inst.C10
