import Shisui.Gen.Consts
namespace Inst.C04
/-- the reserved counter key is the all-zero 32-byte key (= xor distance 0 = the node id itself) -/
theorem size_key : Gen.sizeKeyIsZero = 1 ∧ Gen.sizeKeyLen = 32 := by decide
#print axioms size_key
end Inst.C04
