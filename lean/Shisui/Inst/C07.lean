import Shisui.Gen.Consts
import Shisui.Table.Model
/-! Instantiation obligations (T1): the constants the table model uses are the constants the Go compiler sees. -/
namespace Inst.C07
theorem table_constants :
    Gen.bucketSize = Tb.bucketSize ∧ Gen.maxReplacements = Tb.maxReps ∧ Gen.bucketIPLimit = Tb.bLimit ∧
    Gen.tableIPLimit = Tb.tLimit ∧ Gen.nBuckets = Tb.nBuckets ∧ Gen.bucketMinDistance = 239 ∧ Gen.hashBits = 256 ∧
    Gen.bucketSubnet = 24 ∧ Gen.tableSubnet = 24 ∧ Gen.maxFindnodeFailures = 5 ∧ Gen.bucketSize / 4 = 4 := by decide
#print axioms table_constants
end Inst.C07
