import Shisui.Gen.Consts
import Shisui.PacketSize
namespace Inst.C08
theorem packet_constants :
    Gen.talkRespOverhead = Pk.talkRespOverhead ∧ Gen.maxPacketSize = Pk.maxPacketSize ∧ Gen.portalFindnodesResultLimit = 32 ∧
    Gen.maxPacketSize - Gen.talkRespOverhead - 2 = 1175 ∧ Gen.maxPacketSize - Gen.talkRespOverhead - 6 = 1171 ∧
    Gen.CONTENT = 5 ∧ Gen.NODES = 3 ∧ Gen.ContentConnIdSelector = 0 ∧ Gen.ContentRawSelector = 1 ∧ Gen.ContentEnrsSelector = 2 := by decide
#print axioms packet_constants
end Inst.C08
