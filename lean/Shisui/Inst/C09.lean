import Shisui.Gen.Consts
namespace Inst.C09
theorem accept_codes :
    Gen.Accepted = 0 ∧ Gen.GenericDeclined = 1 ∧ Gen.AlreadyStored = 2 ∧ Gen.NotWithinRadius = 3 ∧ Gen.RateLimited = 4 ∧
    Gen.InboundTransferInProgress = 5 ∧ Gen.ContentKeysLimit = 64 ∧ Gen.OFFER = 6 ∧ Gen.ACCEPT = 7 := by decide
#print axioms accept_codes
end Inst.C09
