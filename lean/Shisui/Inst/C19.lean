import Shisui.Gen.Consts
namespace Inst.C19
theorem versions : Gen.versionsLen = 2 ∧ Gen.version0 = 0 := by decide
#print axioms versions
end Inst.C19
