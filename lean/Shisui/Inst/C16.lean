import Shisui.Gen.Consts
namespace Inst.C16
theorem slots : Gen.DefaultUtpConnSize = 50 ∧ Gen.concurrentOffers = 50 ∧ Gen.offerQueueSize = 1000 := by decide
#print axioms slots
end Inst.C16
