import Shisui.Ssz.Dyn
import Shisui.Framing
import Shisui.FindContent
/-! # C01 model, part 1: outcome classes of the entry points a peer can reach

Go slices are `List Nat`; every index / slice / dereference that shisui's own code performs on peer-controlled data
without a dominating guard is an explicit `Out.panic site` outcome, switched by one Boolean *quirk* per site
(`Quirks`; all `false` = the ideal model the property theorems are about; `Quirks.asIs` = the tree as found).
Decoders of dependencies that shisui merely calls (rlp, ztyp/zrnt containers, ping-extension payloads) are not
modelled byte for byte: where they decide between `ok` and `err` the model answers `handled` ("a returned value or
a returned error") and the comparison is by class.

Sites are named `<package>.<function>:<kind>` exactly as the harness derives them from the Go stack trace. -/
namespace Dp

/-- outcome class of one handling call -/
inductive Out where
  | reply (code : Nat) (sel : Option Nat)   -- non-empty TALKRESP: message code, content selector
  | empty                                   -- empty TALKRESP
  | ok                                      -- a value was returned, no error
  | found (len : Nat)                       -- ContentStorage.Get: content of that length
  | notFound                                -- ContentStorage.Get: storage.ErrContentNotFound
  | nilNil                                  -- ContentStorage.Get: (nil, nil)
  | err                                     -- a returned error
  | handled                                 -- `ok` or `err`, decided by a dependency's decoder
  | panic (site : String)
deriving DecidableEq, Repr

def Out.isPanic : Out → Bool
  | .panic _ => true
  | _ => false

/-- one switch per unguarded access found in the tree (DESIGN §6 rows 1–8) -/
structure Quirks where
  talkEmpty : Bool := false       -- portalwire handleTalkRequest: msg[0]
  contentSel : Bool := false      -- portalwire processContent: resp[1]
  histKey : Bool := false         -- history/storage.go isEphemeralOfferType: contentKey[0] (Get and Put)
  histVal : Bool := false         -- history ValidateContent: contentKey[0]
  stateKey : Bool := false        -- state Storage.Put: contentKey[0]
  stateVal : Bool := false        -- state ValidateContent: contentKey[0]
  beaconGetKey : Bool := false    -- beacon Storage.Get: contentKey[0]
  beaconPutKey : Bool := false    -- beacon Storage.Put: contentKey[0]
  beaconVal : Bool := false       -- beacon ValidateContent: contentKey[0]
  beaconSumGet : Bool := false    -- beacon Storage.Get: reverseCompare(data[:8], contentKey[1:])
  beaconSumPut : Bool := false    -- beacon Storage.Put: data[:8]; reverseCompare(contentKey[1:], epochBytes)
  stateProof : Bool := false      -- state putAccountTrieNode / putContractStorageTrieNode: Proof[length-1]
  rootsIndex : Bool := false      -- validation validateMergeToCapellaHeader: HistoricalRoots[slot/8192]
  withdrawalsNil : Bool := false  -- history validateBlockBody: header.WithdrawalsHash.Bytes()
  trieEmptyKey : Bool := false    -- state/trie TraverseTrieNode: v.Key[length-1]
  triePath : Bool := false        -- state/trie TraverseTrieNode: path[index]
deriving DecidableEq, Repr

/-- the tree as found -/
def Quirks.asIs : Quirks :=
  { talkEmpty := true, contentSel := true, histKey := true, histVal := true, stateKey := true, stateVal := true,
    beaconGetKey := true, beaconPutKey := true, beaconVal := true, beaconSumGet := true, beaconSumPut := true,
    stateProof := true, rootsIndex := true, withdrawalsNil := true, trieEmptyKey := true, triePath := true }

def guard1 (quirk : Bool) (site : String) (fixed : Out) : Out := if quirk then .panic site else fixed

theorem guard1_ideal (site : String) (fixed : Out) (h : fixed.isPanic = false) : (guard1 false site fixed).isPanic = false := by
  simp [guard1, h]

/-! ## SSZ request / response containers (portalwire/types_encoding.go, fastssz helpers) -/

/-- containers whose only variable field is last: a fixed part of `fixed` bytes ending in the 4-byte offset, which
    must equal `fixed` (`size < fixed → ErrSize`, `o > size → ErrOffset`, `o != fixed → ErrInvalidVariableOffset`) -/
def tailAfterOffset (fixed : Nat) (buf : List Nat) : Option (List Nat) :=
  if buf.length < fixed then none else
  match Sz.rd32 (buf.drop (fixed - 4)) with
  | none => none
  | some (o, _) => if o = fixed then some (buf.drop fixed) else none

def le16 (b : List Nat) : Nat := b.getD 0 0 + 256 * b.getD 1 0

/-- little-endian value of the first 8 bytes -/
def le64 (b : List Nat) : Nat := (b.take 8).foldr (fun x acc => x + 256 * acc) 0

/-- `Ping.UnmarshalSSZ` / `Pong.UnmarshalSSZ`: (payload type, payload) -/
def decodePing (buf : List Nat) : Option (Nat × List Nat) :=
  match tailAfterOffset 14 buf with
  | none => none
  | some payload => if payload.length > 1100 then none else some (le16 (buf.drop 8), payload)

/-- `FindNodes.UnmarshalSSZ`: number of distances (`DivideInt2(len, 2, 256)`) -/
def decodeFindNodes (buf : List Nat) : Option Nat :=
  match tailAfterOffset 4 buf with
  | none => none
  | some t => if t.length % 2 ≠ 0 then none else if t.length / 2 > 256 then none else some (t.length / 2)

/-- `FindContent.UnmarshalSSZ`: the content key -/
def decodeFindContent (buf : List Nat) : Option (List Nat) :=
  match tailAfterOffset 4 buf with
  | none => none
  | some key => if key.length > 2048 then none else some key

/-- list of byte strings: `DecodeDynamicLength(buf, maxN)` + `UnmarshalDynamic` with the per-item limit -/
def decodeByteLists (maxN maxLen : Nat) (buf : List Nat) : Option (List (List Nat)) :=
  match Sz.decodeDyn maxN buf with
  | none => none
  | some items => if items.all (fun x => x.length ≤ maxLen) then some items else none

/-- `Offer.UnmarshalSSZ`: the content keys -/
def decodeOffer (buf : List Nat) : Option (List (List Nat)) :=
  match tailAfterOffset 4 buf with
  | none => none
  | some t => decodeByteLists 64 2048 t

/-- `Nodes.UnmarshalSSZ`: total (1 byte), offset 5, records -/
def decodeNodes (buf : List Nat) : Option (List (List Nat)) :=
  match tailAfterOffset 5 buf with
  | none => none
  | some t => decodeByteLists 32 2048 t

/-- `Enrs.UnmarshalSSZ` (hand-written: a bare list) -/
def decodeEnrs (buf : List Nat) : Option (List (List Nat)) := decodeByteLists 32 2048 buf

/-- `bits.Len8` -/
def bitLen (b : Nat) : Nat := if b = 0 then 0 else Nat.log2 b + 1

/-- `ssz.ValidateBitlist(buf, limit)`; result: number of bits (`Bitlist.Len`) -/
def validateBitlist (limit : Nat) (buf : List Nat) : Option Nat :=
  match buf.getLast? with
  | none => none
  | some last =>
    if buf.length > limit / 8 + 1 then none
    else if last = 0 then none
    else if 8 * (buf.length - 1) + bitLen last - 1 > limit then none
    else some (8 * (buf.length - 1) + bitLen last - 1)

/-- some bit below the length bit is set (`len(BitIndices()) > 0`) -/
def bitlistAny (buf : List Nat) : Bool :=
  match buf.getLast? with
  | none => false
  | some last => buf.dropLast.any (· ≠ 0) || decide (last ≠ 2 ^ (bitLen last - 1))

/-- ACCEPT as parsed by `parseOfferResp`: (number of verdicts, some key accepted) -/
def decodeAccept (version : Nat) (buf : List Nat) : Option (Nat × Bool) :=
  match tailAfterOffset 6 buf with
  | none => none
  | some t =>
    if version = 0 then
      match validateBitlist 64 t with
      | none => none
      | some n => some (n, bitlistAny t)
    else if t.length > 64 then none else some (t.length, t.any (· = 0))

/-! ## What a node holds, as far as the adapters' `Get` can tell -/

structure Env where
  held : List (List Nat × Nat) := []      -- (content key, length) of items stored under the key's content id
  periods : List (Nat × Nat) := []        -- beacon: (period, serialized length) of stored light-client updates
  fin : Option (Nat × Nat) := none        -- beacon: (finalized slot, length) of the cached finality update
  opt : Option (Nat × Nat) := none        -- beacon: (signature slot, length) of the cached optimistic update
  sum : Option (List Nat × Nat) := none   -- beacon: (first ≤ 8 bytes, length) of the stored summaries value
deriving Repr

/-- every stored summaries value carries its 8-byte epoch (what the ideal `Put` guarantees, see `sumPut_wf`) -/
def SumWf (e : Env) : Prop := ∀ pre n, e.sum = some (pre, n) → 8 ≤ n ∧ pre.length = 8

inductive Net where
  | history | beacon | state
deriving DecidableEq, Repr

def lookup (e : Env) (key : List Nat) : Out :=
  match e.held.find? (fun p => p.1 == key) with
  | some p => .found p.2
  | none => .notFound

theorem lookup_noPanic (e : Env) (key : List Nat) : (lookup e key).isPanic = false := by
  unfold lookup; split <;> rfl

/-- history/storage.go `Get`: `isEphemeralOfferType(contentKey)` routes type 0x05 to the ephemeral store, whose `Get`
    fails on a malformed key and on an unknown block hash alike (nothing a validated offer stores can be found there) -/
def historyGet (q : Quirks) (e : Env) (key : List Nat) : Out :=
  match key with
  | [] => guard1 q.histKey "history.isEphemeralOfferType:idx" (lookup e [])
  | 5 :: _ => .err
  | _ :: _ => lookup e key

/-- history/storage.go `Put` -/
def historyPut (q : Quirks) (key : List Nat) : Out :=
  match key with
  | [] => guard1 q.histKey "history.isEphemeralOfferType:idx" .ok
  | _ :: _ => .ok

/-- state/storage.go `Get`: a plain look-up by content id -/
def stateGet (e : Env) (key : List Nat) : Out := lookup e key

/-! ### beacon/storage.go -/

inductive Cmp where
  | gt | lt | eq | oob
deriving DecidableEq, Repr

/-- `reverseCompare(a, b)`: `for i := len(a)-1; i >= 0; i-- { if a[i] > b[i] … }` — `b[i]` is not guarded -/
def reverseCompareAux (a b : List Nat) : Nat → Cmp
  | 0 => .eq
  | i + 1 =>
    match b[i]? with
    | none => .oob
    | some bi =>
      if a.getD i 0 > bi then .gt else if a.getD i 0 < bi then .lt else reverseCompareAux a b i

def reverseCompare (a b : List Nat) : Cmp := reverseCompareAux a b a.length

theorem reverseCompareAux_inb (a b : List Nat) (i : Nat) (h : i ≤ b.length) : reverseCompareAux a b i ≠ .oob := by
  induction i with
  | zero => simp [reverseCompareAux]
  | succ k ih =>
    have hk : k < b.length := by omega
    simp only [reverseCompareAux, List.getElem?_eq_getElem hk]
    split
    · simp
    · split
      · simp
      · exact ih (by omega)

theorem reverseCompare_inb (a b : List Nat) (h : a.length ≤ b.length) : reverseCompare a b ≠ .oob :=
  reverseCompareAux_inb a b a.length h

/-- the update-range loop of `Get`: `for start < StartPeriod+Count { data := db.Get(start) … start++ }`; `acc` is the
    serialized size so far (4-byte offset + update) -/
def updatesWalk (periods : List (Nat × Nat)) (endp : Nat) (p acc : Nat) : Out :=
  if p < endp then
    match periods.find? (fun x => x.1 == p) with
    | none => .notFound
    | some x => updatesWalk periods endp (p + 1) (acc + 4 + x.2)
  else if acc = 0 then .nilNil else .found acc      -- no iteration: `buf.Bytes()` of an empty buffer is nil
termination_by endp - p
decreasing_by omega

theorem updatesWalk_noPanic (periods : List (Nat × Nat)) (endp p acc : Nat) :
    (updatesWalk periods endp p acc).isPanic = false := by
  fun_induction updatesWalk periods endp p acc with
  | case1 p acc hlt hnone => rfl
  | case2 p acc hlt x hsome ih => exact ih
  | case3 p hge => rfl
  | case4 p acc hge h0 => rfl

/-- number of iterations of that loop -/
def updatesSteps (periods : List (Nat × Nat)) (endp : Nat) (p : Nat) : Nat :=
  if p < endp then
    match periods.find? (fun x => x.1 == p) with
    | none => 1
    | some _ => 1 + updatesSteps periods endp (p + 1)
  else 0
termination_by endp - p
decreasing_by omega

def beaconGet (q : Quirks) (e : Env) (key : List Nat) : Out :=
  match key with
  | [] => guard1 q.beaconGetKey "beacon.Storage.Get:idx" .notFound
  | 0x10 :: _ => lookup e key
  | 0x11 :: body =>
    if body.length ≠ 16 then .err
    else updatesWalk e.periods ((le64 body + le64 (body.drop 8)) % 2 ^ 64) (le64 body) 0
  | 0x12 :: body =>
    if body.length ≠ 8 then .err else
    match e.fin with
    | some (slot, n) => if slot ≥ le64 body then .found n else .notFound
    | none => .notFound
  | 0x13 :: body =>
    if body.length ≠ 8 then .err else
    match e.opt with
    | some (slot, n) => if slot ≥ le64 body then .found n else .notFound
    | none => .notFound
  | 0x14 :: body =>
    match e.sum with
    | none => .notFound
    | some (pre, n) =>
      if !q.beaconSumGet && body.length < 8 then .notFound          -- the guard the fix adds
      else if n < 8 then .panic "beacon.Storage.Get:slice"          -- data[:8]
      else match reverseCompare pre body with
        | .oob => .panic "beacon.reverseCompare:idx"
        | .lt => .notFound
        | _ => .found (n - 8)
  | _ :: _ => .nilNil

/-- the summaries branch of `Put`: outcome and the value stored afterwards -/
def sumPut (q : Quirks) (e : Env) (body content : List Nat) : Out × Option (List Nat × Nat) :=
  if !q.beaconSumPut && body.length ≠ 8 then (.err, e.sum)            -- the guard the fix adds
  else
    match e.sum with
    | none => (.ok, some ((body ++ content).take 8, body.length + content.length))
    | some (pre, n) =>
      if n < 8 then (.panic "beacon.Storage.Put:slice", e.sum)        -- data[:8]
      else match reverseCompare body pre with
        | .oob => (.panic "beacon.reverseCompare:idx", e.sum)
        | .gt => (.ok, some ((body ++ content).take 8, body.length + content.length))
        | _ => (.ok, e.sum)

/-- beacon/storage.go `Put` for keys whose content needs no dependency decoder; `none` = decided by zrnt's decoders -/
def beaconPut (q : Quirks) (e : Env) (key content : List Nat) : Out :=
  match key with
  | [] => guard1 q.beaconPutKey "beacon.Storage.Put:idx" .err
  | 0x10 :: _ => .ok
  | 0x11 :: body => if body.length ≠ 16 then .err else .handled
  | 0x12 :: _ => .handled
  | 0x13 :: _ => .handled
  | 0x14 :: body => (sumPut q e body content).1
  | _ :: _ => .ok

def getOut (q : Quirks) (net : Net) (e : Env) (key : List Nat) : Out :=
  match net with
  | .history => historyGet q e key
  | .beacon => beaconGet q e key
  | .state => stateGet e key

/-! ## `handleTalkRequest` -/

/-- maxPacketSize − talkRespOverhead − (message code + selector) -/
def inlineMax : Nat := 1280 - 103 - 2

/-- `handleFindContent`: an adapter error becomes an empty reply; not found → ENRs; found → inline or connection id -/
def findContentOut (q : Quirks) (net : Net) (e : Env) (key : List Nat) : Out :=
  match getOut q net e key with
  | .panic s => .panic s
  | .notFound => .reply 5 (some 2)
  | .found n => if n ≤ inlineMax then .reply 5 (some 1) else .reply 5 (some 0)
  | .nilNil => .reply 5 (some 1)
  | _ => .empty

/-- first panic among the adapter look-ups `filterContentKeys` performs, in key order (errors only mean "not stored") -/
def firstPanic : List Out → Option String
  | [] => none
  | .panic s :: _ => some s
  | _ :: rest => firstPanic rest

/-- `handleOffer`; `ver = none`: no common protocol version with the sender (the error is returned) -/
def offerOut (q : Quirks) (net : Net) (e : Env) (ver : Option Nat) (keys : List (List Nat)) : Out :=
  match ver with
  | none => .empty
  | some _ =>
    match firstPanic (keys.map (getOut q net e)) with
    | some s => .panic s
    | none => .reply 7 none

def pingOut (body : List Nat) : Out :=
  match decodePing body with
  | none => .empty
  | some _ => .reply 1 none

def findNodesOut (body : List Nat) : Out :=
  match decodeFindNodes body with
  | none => .empty
  | some _ => .reply 3 none

def findContentMsg (q : Quirks) (net : Net) (e : Env) (body : List Nat) : Out :=
  match decodeFindContent body with
  | none => .empty
  | some key => findContentOut q net e key

def offerMsg (q : Quirks) (net : Net) (e : Env) (ver : Option Nat) (body : List Nat) : Out :=
  match decodeOffer body with
  | none => .empty
  | some keys => offerOut q net e ver keys

def handleTalk (q : Quirks) (net : Net) (e : Env) (ver : Option Nat) : List Nat → Out
  | [] => guard1 q.talkEmpty "portalwire.PortalProtocol.handleTalkRequest:idx" .empty
  | 0 :: body => pingOut body
  | 2 :: body => findNodesOut body
  | 4 :: body => findContentMsg q net e body
  | 6 :: body => offerMsg q net e ver body
  | _ :: _ => .empty

/-! ## The four response processors -/

def processPong (resp : List Nat) : Out :=
  match resp with
  | [] => .err
  | code :: body =>
    if code ≠ 1 then .err else
    match decodePing body with
    | none => .err
    | some _ => .handled       -- ping-extension payload decoders decide

def processNodes (resp : List Nat) : Out :=
  match resp with
  | [] => .err
  | code :: body =>
    if code ≠ 3 then .err else
    match decodeNodes body with
    | none => .err
    | some _ => .ok            -- undecodable / unverifiable records are skipped, never an error

/-- `dial = false`: nobody accepts the announced uTP connection (the harness never serves one) -/
def processContent (q : Quirks) (resp : List Nat) : Out :=
  match resp with
  | [] => .err
  | [code] => if code ≠ 5 then .err else guard1 q.contentSel "portalwire.PortalProtocol.processContent:idx" .err
  | code :: sel :: body =>
    if code ≠ 5 then .err
    else if sel = 1 then (if body.length > 2048 then .err else .ok)
    else if sel = 0 then .err                      -- size ≠ 2: ErrSize; size 2: the dial fails
    else if sel = 2 then (match decodeEnrs body with | none => .err | some _ => .ok)
    else .err

/-- `processOffer` for a request of `nkeys` content keys, `version` as negotiated with the target -/
def processOffer (version nkeys : Nat) (resp : List Nat) : Out :=
  match resp with
  | [] => .err
  | code :: body =>
    if code ≠ 7 then .err else
    match decodeAccept version body with
    | none => .err
    | some (n, _) => if n ≠ nkeys then .err else .ok

/-- `handleOfferedContents`: the stream must split into exactly as many items as keys were accepted -/
def offeredContents (nkeys : Nat) (payload : List Nat) : Out :=
  match Fr.decContents payload with
  | none => .err
  | some items => if items.length ≠ nkeys then .err else .ok

/-- the uTP TALKREQ handler: an enqueue on the socket's bounded channel; `none` = the send blocks -/
def utpTalk (queued cap : Nat) : Option Out := if queued < cap then some .empty else none

end Dp
