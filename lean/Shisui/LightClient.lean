/-! C12 prototype: light-client verify / apply (beacon/light_client.go:291-443) over abstract updates. -/
namespace Lc

structure Store where
  finSlot : Nat
  optSlot : Nat
  cur : Nat                 -- committee identity
  next : Option Nat
  prevMax : Nat
  curMax : Nat
deriving DecidableEq, Repr

structure Update where
  attSlot : Nat
  sigSlot : Nat
  fin : Option Nat          -- FinalizedHeader (slot) if present
  finBranch : Bool          -- FinalityBranch present
  nextComm : Option Nat     -- NextSyncCommittee if present
  nextBranch : Bool         -- NextSyncCommitteeBranch present
  bits : Nat                -- number of participation bits set
  finProofOk : Bool         -- IsFinalityProofValid
  nextProofOk : Bool        -- IsNextCommitteeProofValid
  sigOk : Nat → Bool        -- aggregate signature valid for the participating keys of that committee

inductive Err where
  | insufficientParticipation | invalidTimestamp | invalidPeriod | notRelevant
  | invalidFinalityProof | invalidNextSyncCommitteeProof | invalidSignature
deriving DecidableEq, Repr

def period (slot : Nat) : Nat := slot / 32 / 256

def finSlotOf (u : Update) : Nat := u.fin.getD 0

/-- `VerifyGenericUpdate` -/
def verify (st : Store) (u : Update) (now : Nat) : Except Err Unit :=
  if u.bits = 0 then .error .insufficientParticipation
  else if ¬ (now ≥ u.sigSlot ∧ u.sigSlot > u.attSlot ∧ u.attSlot ≥ finSlotOf u) then .error .invalidTimestamp
  else
    let storePeriod := period st.finSlot
    let sigPeriod := period u.sigSlot
    let validPeriod := if st.next.isSome then (sigPeriod = storePeriod ∨ sigPeriod = storePeriod + 1)
                       else sigPeriod = storePeriod
    if ¬ validPeriod then .error .invalidPeriod
    else
      let hasNext := st.next.isNone ∧ u.nextComm.isSome ∧ period u.attSlot = storePeriod
      if u.attSlot ≤ st.finSlot ∧ ¬ hasNext then .error .notRelevant
      else if u.fin.isSome ∧ u.finBranch = true ∧ u.finProofOk = false then .error .invalidFinalityProof
      else if u.nextComm.isSome ∧ u.nextBranch = true ∧ u.nextProofOk = false then .error .invalidNextSyncCommitteeProof
      else
        let committee := if sigPeriod = storePeriod then some st.cur else st.next
        match committee with
        | none => .error .invalidSignature      -- unreachable: next is some when sigPeriod = storePeriod+1
        | some c => if u.sigOk c then .ok () else .error .invalidSignature

def safetyThreshold (st : Store) : Nat := (max st.curMax st.prevMax) / 2

/-! `ApplyGenericUpdate`, in the four stages of the Go code -/

def stageMax (st : Store) (u : Update) : Store :=
  if st.curMax < u.bits then { st with curMax := u.bits } else st

def stageOpt (st : Store) (u : Update) : Store :=
  if u.bits > safetyThreshold st ∧ u.attSlot > st.optSlot then { st with optSlot := u.attSlot } else st

def hasFinalizedNext (st : Store) (u : Update) : Prop :=
  st.next.isNone ∧ (u.nextComm.isSome ∧ u.nextBranch = true) ∧ (u.fin.isSome ∧ u.finBranch = true) ∧
    period (finSlotOf u) = period u.attSlot

instance (st : Store) (u : Update) : Decidable (hasFinalizedNext st u) := by unfold hasFinalizedNext; infer_instance

def shouldApply (st : Store) (u : Update) : Prop :=
  u.bits * 3 ≥ 512 * 2 ∧ (finSlotOf u > st.finSlot ∨ hasFinalizedNext st u)

instance (st : Store) (u : Update) : Decidable (shouldApply st u) := by unfold shouldApply; infer_instance

def stageCommittee (st : Store) (u : Update) : Store :=
  if st.next.isNone then { st with next := u.nextComm }
  else if period (finSlotOf u) = period st.finSlot + 1 then
    { st with cur := st.next.getD st.cur, next := u.nextComm, prevMax := st.curMax, curMax := 0 }
  else st

def stageFin (st : Store) (u : Update) : Store :=
  if finSlotOf u > st.finSlot then
    let st4 := { st with finSlot := finSlotOf u }
    if st4.finSlot > st4.optSlot then { st4 with optSlot := st4.finSlot } else st4
  else st

def apply (st : Store) (u : Update) : Store :=
  let s2 := stageOpt (stageMax st u) u
  if shouldApply s2 u then stageFin (stageCommittee s2 u) u else s2

def committeeFor (st : Store) (u : Update) : Option Nat :=
  if period u.sigSlot = period st.finSlot then some st.cur else st.next

theorem verify_sound (st : Store) (u : Update) (now : Nat) (h : verify st u now = .ok ()) :
    1 ≤ u.bits ∧ now ≥ u.sigSlot ∧ u.sigSlot > u.attSlot ∧ u.attSlot ≥ finSlotOf u ∧
    (period u.sigSlot = period st.finSlot ∨ (st.next.isSome ∧ period u.sigSlot = period st.finSlot + 1)) ∧
    (u.attSlot > st.finSlot ∨ (st.next.isNone ∧ u.nextComm.isSome ∧ period u.attSlot = period st.finSlot)) ∧
    (u.fin.isSome → u.finBranch = true → u.finProofOk = true) ∧
    (u.nextComm.isSome → u.nextBranch = true → u.nextProofOk = true) ∧
    (∃ c, committeeFor st u = some c ∧ u.sigOk c = true) := by
  unfold verify at h
  have h1 : ¬ u.bits = 0 := by
    intro hc; simp [hc] at h
  simp only [h1, if_false] at h
  have h2 : now ≥ u.sigSlot ∧ u.sigSlot > u.attSlot ∧ u.attSlot ≥ finSlotOf u := by
    by_cases hc : now ≥ u.sigSlot ∧ u.sigSlot > u.attSlot ∧ u.attSlot ≥ finSlotOf u
    · exact hc
    · simp [hc] at h
  simp only [h2, and_self, not_true_eq_false, if_false] at h
  have h3 : (if st.next.isSome then (period u.sigSlot = period st.finSlot ∨ period u.sigSlot = period st.finSlot + 1)
                       else period u.sigSlot = period st.finSlot) := by
    by_cases hc : (if st.next.isSome then (period u.sigSlot = period st.finSlot ∨ period u.sigSlot = period st.finSlot + 1)
                       else period u.sigSlot = period st.finSlot)
    · exact hc
    · simp only [hc, not_false_eq_true, if_true] at h; simp at h
  simp only [h3, not_true_eq_false, if_false] at h
  have h4 : ¬ (u.attSlot ≤ st.finSlot ∧ ¬ (st.next.isNone ∧ u.nextComm.isSome ∧ period u.attSlot = period st.finSlot)) := by
    intro hc; simp only [hc, and_self, if_true] at h; simp at h
  simp only [h4, if_false] at h
  have h5 : ¬ (u.fin.isSome ∧ u.finBranch = true ∧ u.finProofOk = false) := by
    intro hc; simp only [hc, and_self, if_true] at h; simp at h
  simp only [h5, if_false] at h
  have h6 : ¬ (u.nextComm.isSome ∧ u.nextBranch = true ∧ u.nextProofOk = false) := by
    intro hc; simp only [hc, and_self, if_true] at h; simp at h
  simp only [h6, if_false] at h
  refine ⟨by omega, h2.1, h2.2.1, h2.2.2, ?_, ?_, ?_, ?_, ?_⟩
  · split at h3
    · rename_i hsome
      rcases h3 with h3 | h3
      · exact Or.inl h3
      · exact Or.inr ⟨hsome, h3⟩
    · exact Or.inl h3
  · by_cases hgt : u.attSlot > st.finSlot
    · exact Or.inl hgt
    · right
      have hle : u.attSlot ≤ st.finSlot := by omega
      simp only [hle, true_and, Decidable.not_not] at h4
      exact h4
  · intro a b
    cases hfp : u.finProofOk with
    | true => rfl
    | false => exact absurd ⟨a, b, hfp⟩ h5
  · intro a b
    cases hnp : u.nextProofOk with
    | true => rfl
    | false => exact absurd ⟨a, b, hnp⟩ h6
  · split at h
    · simp at h
    · rename_i c hc
      split at h
      · rename_i hs
        exact ⟨c, by simpa [committeeFor] using hc, hs⟩
      · simp at h

/-! field-level effects of each stage -/

theorem stageMax_eff (st : Store) (u : Update) :
    (stageMax st u).finSlot = st.finSlot ∧ (stageMax st u).optSlot = st.optSlot ∧
    (stageMax st u).cur = st.cur ∧ (stageMax st u).next = st.next := by
  unfold stageMax; split <;> simp

theorem stageOpt_eff (st : Store) (u : Update) :
    (stageOpt st u).finSlot = st.finSlot ∧ st.optSlot ≤ (stageOpt st u).optSlot ∧
    (stageOpt st u).cur = st.cur ∧ (stageOpt st u).next = st.next := by
  unfold stageOpt; split
  · rename_i h; simp; omega
  · simp

theorem stageCommittee_eff (st : Store) (u : Update) :
    (stageCommittee st u).finSlot = st.finSlot ∧ (stageCommittee st u).optSlot = st.optSlot ∧
    ((stageCommittee st u).cur ≠ st.cur → st.next = some (stageCommittee st u).cur) := by
  unfold stageCommittee
  split
  · simp
  · rename_i hn
    split
    · refine ⟨rfl, rfl, ?_⟩
      intro _
      cases hx : st.next with
      | none => simp [hx] at hn
      | some c => simp
    · simp

theorem stageFin_eff (st : Store) (u : Update) (hinv : st.finSlot ≤ st.optSlot) :
    st.finSlot ≤ (stageFin st u).finSlot ∧ st.optSlot ≤ (stageFin st u).optSlot ∧
    (stageFin st u).finSlot ≤ (stageFin st u).optSlot ∧
    (stageFin st u).cur = st.cur ∧ (stageFin st u).next = st.next := by
  unfold stageFin
  split
  · simp only
    split <;> simp <;> omega
  · simp; exact hinv

/-- C12: applying any update never moves either header backwards and keeps optimistic ≥ finalized -/
theorem apply_monotone (st : Store) (u : Update) (hinv : st.finSlot ≤ st.optSlot) :
    st.finSlot ≤ (apply st u).finSlot ∧ st.optSlot ≤ (apply st u).optSlot ∧
    (apply st u).finSlot ≤ (apply st u).optSlot := by
  have m := stageMax_eff st u
  have o := stageOpt_eff (stageMax st u) u
  unfold apply
  simp only
  split
  · have c := stageCommittee_eff (stageOpt (stageMax st u) u) u
    have f := stageFin_eff (stageCommittee (stageOpt (stageMax st u) u) u) u (by omega)
    omega
  · omega

/-- C12: the finalized header and the committees change only with two-thirds participation -/
theorem change_needs_two_thirds (st : Store) (u : Update)
    (h : (apply st u).finSlot ≠ st.finSlot ∨ (apply st u).cur ≠ st.cur ∨ (apply st u).next ≠ st.next) :
    u.bits * 3 ≥ 512 * 2 := by
  have m := stageMax_eff st u
  have o := stageOpt_eff (stageMax st u) u
  unfold apply at h
  simp only at h
  split at h
  · rename_i hs; exact hs.1
  · exfalso
    rcases h with h | h | h
    · exact h (by omega)
    · exact h (by rw [o.2.2.1, m.2.2.1])
    · exact h (by rw [o.2.2.2, m.2.2.2])

/-- C12: the current committee is only ever replaced by the previously stored next committee -/
theorem rotate_only_to_next (st : Store) (u : Update) (h : (apply st u).cur ≠ st.cur) :
    st.next = some (apply st u).cur := by
  have m := stageMax_eff st u
  have o := stageOpt_eff (stageMax st u) u
  unfold apply at h ⊢
  simp only at h ⊢
  split
  · rename_i hs
    simp only [hs, if_true] at h
    have c := stageCommittee_eff (stageOpt (stageMax st u) u) u
    have hinv' : (stageCommittee (stageOpt (stageMax st u) u) u).finSlot ≤
        (stageCommittee (stageOpt (stageMax st u) u) u).finSlot := Nat.le_refl _
    -- stageFin does not touch committees
    have f : (stageFin (stageCommittee (stageOpt (stageMax st u) u) u) u).cur =
        (stageCommittee (stageOpt (stageMax st u) u) u).cur := by
      unfold stageFin; split
      · simp only; split <;> simp
      · rfl
    rw [f] at h ⊢
    have := c.2.2 (by rw [o.2.2.1, m.2.2.1]; exact h)
    rw [o.2.2.2, m.2.2.2] at this
    exact this
  · rename_i hs
    simp only [hs, if_false] at h
    exact absurd (by rw [o.2.2.1, m.2.2.1]) h

#print axioms verify_sound
#print axioms apply_monotone
#print axioms change_needs_two_thirds
#print axioms rotate_only_to_next
end Lc

namespace Lc
/-- a rotation uses the stored next committee up: afterwards the store holds as "next" exactly what this update supplied
    (nothing, for a finality update) - never the committee it has just made current (seeded change C12e) -/
theorem stageCommittee_rotation_next (st : Store) (u : Update) (h : (stageCommittee st u).cur ≠ st.cur) :
    (stageCommittee st u).next = u.nextComm := by
  unfold stageCommittee at h ⊢
  split
  · rename_i hn; simp [hn] at h
  · split
    · rfl
    · rename_i hn hp; simp [hn, hp] at h

theorem stageFin_committees (st : Store) (u : Update) :
    (stageFin st u).cur = st.cur ∧ (stageFin st u).next = st.next := by
  unfold stageFin; split
  · simp only; split <;> simp
  · exact ⟨rfl, rfl⟩

theorem rotation_consumes_next (st : Store) (u : Update) (h : (apply st u).cur ≠ st.cur) :
    (apply st u).next = u.nextComm := by
  have m := stageMax_eff st u
  have o := stageOpt_eff (stageMax st u) u
  unfold apply at h ⊢
  simp only at h ⊢
  split
  · rename_i hs
    simp only [hs, if_true] at h
    have f := stageFin_committees (stageCommittee (stageOpt (stageMax st u) u) u) u
    rw [f.1] at h
    rw [f.2]
    apply stageCommittee_rotation_next
    rw [o.2.2.1, m.2.2.1]; exact h
  · rename_i hs
    simp only [hs, if_false] at h
    exact absurd (by rw [o.2.2.1, m.2.2.1]) h
end Lc
