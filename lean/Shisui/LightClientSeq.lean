import Shisui.LightClient
import Shisui.Merkle
/-! C12 model extensions (the base model `Lc.verify` / `Lc.apply` is in `Shisui/LightClient.lean`):

  * `violated`: the seven conditions of `VerifyGenericUpdate` each on its own; `verify` returns the first of them
    (`verify_eq_first_violated`), so the driver can accept any member of the set as the implementation's error
    (DESIGN §2.7: re-ordering two independent checks is a harmless rewrite);
  * `bootstrap` (`beacon/light_client.go:230-273`) with the Boolean quirk `containerRoot`: the code as it is today
    compares the checkpoint with the root of the whole `LightClientHeader` container, not with the beacon block root;
  * `process` / `run`: update sequences as `Sync`/`Advance` drive them (apply only what verified), `Reach` for arbitrary
    apply sequences, and the sequence-level invariants;
  * `next_committee_period`;
  * the Merkle branch checks with the literal depth/index constants of the code and their soundness through `Mk.sound`;
  * domain / signing-root arithmetic used by the driver. -/
namespace Lc

/-! ## the conditions of `VerifyGenericUpdate`, separately -/

def timeOk (u : Update) (now : Nat) : Prop := now ≥ u.sigSlot ∧ u.sigSlot > u.attSlot ∧ u.attSlot ≥ finSlotOf u
instance (u : Update) (now : Nat) : Decidable (timeOk u now) := by unfold timeOk; infer_instance

def periodOk (st : Store) (u : Update) : Prop :=
  if st.next.isSome then (period u.sigSlot = period st.finSlot ∨ period u.sigSlot = period st.finSlot + 1)
  else period u.sigSlot = period st.finSlot
instance (st : Store) (u : Update) : Decidable (periodOk st u) := by unfold periodOk; infer_instance

def relevantOk (st : Store) (u : Update) : Prop :=
  ¬ (u.attSlot ≤ st.finSlot ∧ ¬ (st.next.isNone ∧ u.nextComm.isSome ∧ period u.attSlot = period st.finSlot))
instance (st : Store) (u : Update) : Decidable (relevantOk st u) := by unfold relevantOk; infer_instance

def finProofBad (u : Update) : Prop := u.fin.isSome ∧ u.finBranch = true ∧ u.finProofOk = false
instance (u : Update) : Decidable (finProofBad u) := by unfold finProofBad; infer_instance

def nextProofBad (u : Update) : Prop := u.nextComm.isSome ∧ u.nextBranch = true ∧ u.nextProofOk = false
instance (u : Update) : Decidable (nextProofBad u) := by unfold nextProofBad; infer_instance

def sigGood (st : Store) (u : Update) : Bool :=
  match committeeFor st u with
  | none => false
  | some c => u.sigOk c

/-- every condition of `VerifyGenericUpdate` that the update violates, in the order the code tests them -/
def violated (st : Store) (u : Update) (now : Nat) : List Err :=
  (if u.bits = 0 then [Err.insufficientParticipation] else []) ++
  (if ¬ timeOk u now then [Err.invalidTimestamp] else []) ++
  (if ¬ periodOk st u then [Err.invalidPeriod] else []) ++
  (if ¬ relevantOk st u then [Err.notRelevant] else []) ++
  (if finProofBad u then [Err.invalidFinalityProof] else []) ++
  (if nextProofBad u then [Err.invalidNextSyncCommitteeProof] else []) ++
  (if sigGood st u = false then [Err.invalidSignature] else [])

/-- `verify` is "first violated condition, else ok" -/
theorem verify_eq_first_violated (st : Store) (u : Update) (now : Nat) :
    verify st u now = (match violated st u now with | [] => .ok () | e :: _ => .error e) := by
  unfold verify violated
  by_cases h1 : u.bits = 0
  · simp [h1]
  · simp only [h1, if_false, List.nil_append]
    by_cases h2 : timeOk u now
    · have h2' : now ≥ u.sigSlot ∧ u.sigSlot > u.attSlot ∧ u.attSlot ≥ finSlotOf u := h2
      simp only [h2', h2, and_self, not_true_eq_false, if_false, List.nil_append]
      by_cases h3 : periodOk st u
      · have h3' : (if st.next.isSome then (period u.sigSlot = period st.finSlot ∨ period u.sigSlot = period st.finSlot + 1)
                       else period u.sigSlot = period st.finSlot) := h3
        simp only [h3', h3, not_true_eq_false, if_false, List.nil_append]
        by_cases h4 : relevantOk st u
        · have h4' : ¬ (u.attSlot ≤ st.finSlot ∧ ¬ (st.next.isNone ∧ u.nextComm.isSome ∧ period u.attSlot = period st.finSlot)) := h4
          simp only [h4', h4, not_true_eq_false, if_false, List.nil_append]
          by_cases h5 : finProofBad u
          · have h5' : u.fin.isSome ∧ u.finBranch = true ∧ u.finProofOk = false := h5
            simp [h5', h5]
          · have h5' : ¬ (u.fin.isSome ∧ u.finBranch = true ∧ u.finProofOk = false) := h5
            simp only [h5', h5, if_false, List.nil_append]
            by_cases h6 : nextProofBad u
            · have h6' : u.nextComm.isSome ∧ u.nextBranch = true ∧ u.nextProofOk = false := h6
              simp [h6', h6]
            · have h6' : ¬ (u.nextComm.isSome ∧ u.nextBranch = true ∧ u.nextProofOk = false) := h6
              simp only [h6', h6, if_false, List.nil_append]
              unfold sigGood committeeFor
              by_cases h7 : period u.sigSlot = period st.finSlot
              · simp only [h7, if_true]
                cases hs : u.sigOk st.cur <;> simp
              · simp only [h7, if_false]
                cases hn : st.next with
                | none => simp
                | some c => cases hs : u.sigOk c <;> simp [hs]
        · have h4' : (u.attSlot ≤ st.finSlot ∧ ¬ (st.next.isNone ∧ u.nextComm.isSome ∧ period u.attSlot = period st.finSlot)) := by
            unfold relevantOk at h4; exact Decidable.not_not.mp h4
          rw [if_pos h4']
          simp [h4]
      · have h3' : ¬ (if st.next.isSome then (period u.sigSlot = period st.finSlot ∨ period u.sigSlot = period st.finSlot + 1)
                       else period u.sigSlot = period st.finSlot) := h3
        simp [h3', h3]
    · have h2' : ¬ (now ≥ u.sigSlot ∧ u.sigSlot > u.attSlot ∧ u.attSlot ≥ finSlotOf u) := h2
      simp [h2', h2]

theorem verify_ok_iff (st : Store) (u : Update) (now : Nat) : verify st u now = .ok () ↔ violated st u now = [] := by
  rw [verify_eq_first_violated]
  cases violated st u now <;> simp

theorem verify_error_mem (st : Store) (u : Update) (now : Nat) (e : Err) (h : verify st u now = .error e) :
    e ∈ violated st u now := by
  rw [verify_eq_first_violated] at h
  cases hv : violated st u now with
  | nil => simp [hv] at h
  | cons a l => simp [hv] at h; simp [h]

/-! ## bootstrap -/

structure Bootstrap where
  slot : Nat
  beaconRoot : Nat          -- hash_tree_root(header.beacon): what the trusted checkpoint is a root of
  containerRoot : Nat       -- hash_tree_root(header): the LightClientHeader container (beacon, execution, branch)
  committee : Nat
  committeeProofOk : Bool   -- isCurrentCommitteeProofValid
  isElectra : Bool          -- the API returned an *electra.LightClientBootstrap
deriving DecidableEq, Repr

inductive BootErr where
  | invalidBootstrap | headerMismatch | committeeProof
deriving DecidableEq, Repr

/-- `bootstrap()`; `quirk = true` is the code as it is: the checkpoint is compared with the container root -/
def bootstrap (quirk : Bool) (checkpoint : Nat) (b : Bootstrap) : Except BootErr Store :=
  if b.isElectra = false then .error .invalidBootstrap
  else if (if quirk then b.containerRoot else b.beaconRoot) ≠ checkpoint then .error .headerMismatch
  else if b.committeeProofOk = false then .error .committeeProof
  else .ok { finSlot := b.slot, optSlot := b.slot, cur := b.committee, next := none, prevMax := 0, curMax := 0 }

theorem bootstrap_ok (q : Bool) (cp : Nat) (b : Bootstrap) (st : Store) (h : bootstrap q cp b = .ok st) :
    (if q then b.containerRoot else b.beaconRoot) = cp ∧ b.committeeProofOk = true ∧
    st = { finSlot := b.slot, optSlot := b.slot, cur := b.committee, next := none, prevMax := 0, curMax := 0 } := by
  unfold bootstrap at h
  by_cases h1 : b.isElectra = false
  · simp [h1] at h
  · simp only [h1] at h
    by_cases h2 : (if q then b.containerRoot else b.beaconRoot) ≠ cp
    · simp [h2] at h
    · simp only [h2, if_false] at h
      by_cases h3 : b.committeeProofOk = false
      · simp [h3] at h
      · simp only [h3] at h
        refine ⟨Decidable.not_not.mp h2, by cases hb : b.committeeProofOk <;> simp_all, ?_⟩
        injection h with h
        exact h.symm

/-- ideal bootstrap: the stored finalized header is the block the trusted checkpoint names -/
theorem bootstrap_sound (cp : Nat) (b : Bootstrap) (st : Store) (h : bootstrap false cp b = .ok st) :
    b.beaconRoot = cp ∧ b.committeeProofOk = true ∧ st.finSlot = b.slot ∧ st.optSlot = b.slot ∧
    st.cur = b.committee ∧ st.next = none ∧ st.finSlot ≤ st.optSlot := by
  obtain ⟨h1, h2, h3⟩ := bootstrap_ok false cp b st h
  subst h3
  exact ⟨by simpa using h1, h2, rfl, rfl, rfl, rfl, Nat.le_refl _⟩

/-- NEGATIVE result for the code as it is: a bootstrap is accepted whose beacon block root is not the checkpoint -/
theorem quirk_container_root_breaks_binding :
    ∃ cp b st, bootstrap true cp b = .ok st ∧ b.beaconRoot ≠ cp :=
  ⟨7, { slot := 64, beaconRoot := 5, containerRoot := 7, committee := 1, committeeProofOk := true, isElectra := true }, _, rfl, by decide⟩

/-- and the honest bootstrap for a block-root checkpoint is refused by it -/
theorem quirk_container_root_refuses_honest :
    bootstrap true 5 { slot := 64, beaconRoot := 5, containerRoot := 7, committee := 1, committeeProofOk := true, isElectra := true }
      = .error .headerMismatch := rfl

/-! ## sequences -/

/-- one round of `Sync`/`Advance`: an update is applied only after it verified -/
def process (st : Store) (u : Update) (now : Nat) : Store :=
  match verify st u now with
  | .ok _ => apply st u
  | .error _ => st

def run (st : Store) : List (Update × Nat) → Store
  | [] => st
  | p :: rest => run (process st p.1 p.2) rest

/-- everything reachable by applying updates, verified or not -/
inductive Reach (s0 : Store) : Store → Prop where
  | base : Reach s0 s0
  | app (s : Store) (u : Update) : Reach s0 s → Reach s0 (apply s u)

theorem reach_trans {a b c : Store} (h1 : Reach a b) (h2 : Reach b c) : Reach a c := by
  induction h2 with
  | base => exact h1
  | app s u _ ih => exact .app s u ih

theorem process_reach (st : Store) (u : Update) (now : Nat) : Reach st (process st u now) := by
  unfold process
  split
  · exact .app st u .base
  · exact .base

theorem run_reach (st : Store) (us : List (Update × Nat)) : Reach st (run st us) := by
  induction us generalizing st with
  | nil => exact .base
  | cons p rest ih => exact reach_trans (process_reach st p.1 p.2) (ih _)

/-- C12, sequence form: neither header ever moves backwards and optimistic stays ≥ finalized, for EVERY sequence of
    applied updates from a state with optimistic ≥ finalized -/
theorem reach_inv (s0 s : Store) (h0 : s0.finSlot ≤ s0.optSlot) (h : Reach s0 s) :
    s0.finSlot ≤ s.finSlot ∧ s0.optSlot ≤ s.optSlot ∧ s.finSlot ≤ s.optSlot := by
  induction h with
  | base => exact ⟨Nat.le_refl _, Nat.le_refl _, h0⟩
  | app s u _ ih =>
    have m := apply_monotone s u ih.2.2
    exact ⟨Nat.le_trans ih.1 m.1, Nat.le_trans ih.2.1 m.2.1, m.2.2⟩

theorem run_inv (st : Store) (us : List (Update × Nat)) (h0 : st.finSlot ≤ st.optSlot) :
    st.finSlot ≤ (run st us).finSlot ∧ st.optSlot ≤ (run st us).optSlot ∧ (run st us).finSlot ≤ (run st us).optSlot :=
  reach_inv st _ h0 (run_reach st us)

theorem opt_ge_fin_from_bootstrap (q : Bool) (cp : Nat) (b : Bootstrap) (st : Store) (hb : bootstrap q cp b = .ok st)
    (s : Store) (h : Reach st s) : b.slot ≤ s.finSlot ∧ s.finSlot ≤ s.optSlot := by
  obtain ⟨_, _, h3⟩ := bootstrap_ok q cp b st hb
  subst h3
  have := reach_inv _ s (Nat.le_refl _) h
  exact ⟨this.1, this.2.2⟩

theorem process_change_needs_two_thirds (st : Store) (u : Update) (now : Nat)
    (h : (process st u now).finSlot ≠ st.finSlot ∨ (process st u now).cur ≠ st.cur ∨ (process st u now).next ≠ st.next) :
    u.bits * 3 ≥ 512 * 2 := by
  unfold process at h
  split at h
  · exact change_needs_two_thirds st u h
  · rcases h with h | h | h <;> exact absurd rfl h

/-- C12, sequence form: if the finalized header or a committee differs after a run, some update of the run had 2/3 -/
theorem run_change_needs_two_thirds (st : Store) (us : List (Update × Nat))
    (h : (run st us).finSlot ≠ st.finSlot ∨ (run st us).cur ≠ st.cur ∨ (run st us).next ≠ st.next) :
    ∃ p ∈ us, p.1.bits * 3 ≥ 512 * 2 := by
  induction us generalizing st with
  | nil => rcases h with h | h | h <;> exact absurd rfl h
  | cons p rest ih =>
    simp only [run] at h
    by_cases hc : (run (process st p.1 p.2) rest).finSlot ≠ (process st p.1 p.2).finSlot ∨
        (run (process st p.1 p.2) rest).cur ≠ (process st p.1 p.2).cur ∨
        (run (process st p.1 p.2) rest).next ≠ (process st p.1 p.2).next
    · obtain ⟨q, hq, hb⟩ := ih _ hc
      exact ⟨q, List.mem_cons_of_mem _ hq, hb⟩
    · have e1 : (run (process st p.1 p.2) rest).finSlot = (process st p.1 p.2).finSlot := by
        apply Decidable.byContradiction; intro hn; exact hc (Or.inl hn)
      have e2 : (run (process st p.1 p.2) rest).cur = (process st p.1 p.2).cur := by
        apply Decidable.byContradiction; intro hn; exact hc (Or.inr (Or.inl hn))
      have e3 : (run (process st p.1 p.2) rest).next = (process st p.1 p.2).next := by
        apply Decidable.byContradiction; intro hn; exact hc (Or.inr (Or.inr hn))
      rw [e1, e2, e3] at h
      exact ⟨p, List.mem_cons_self, process_change_needs_two_thirds st p.1 p.2 h⟩

/-! ## the next committee a verified update installs belongs to the period after the (new) store period -/

theorem period_mono {a b : Nat} (h : a ≤ b) : period a ≤ period b := by
  unfold period
  exact Nat.div_le_div_right (Nat.div_le_div_right h)

theorem stageFin_fin (st : Store) (u : Update) :
    (stageFin st u).finSlot = (if finSlotOf u > st.finSlot then finSlotOf u else st.finSlot) ∧
    (stageFin st u).cur = st.cur ∧ (stageFin st u).next = st.next := by
  unfold stageFin
  split
  · simp only; split <;> simp
  · simp

theorem stageCommittee_next (s : Store) (u : Update) :
    (stageCommittee s u).finSlot = s.finSlot ∧
    ((stageCommittee s u).next = s.next ∨
     ((stageCommittee s u).next = u.nextComm ∧ (s.next = none ∨ period (finSlotOf u) = period s.finSlot + 1))) := by
  unfold stageCommittee
  cases hx : s.next with
  | none => simp
  | some c =>
    by_cases hr : period (finSlotOf u) = period s.finSlot + 1
    · simp [hr]
    · simp [hr, hx]

/-- When applying a VERIFIED update changes the stored next committee, the new value is the update's next committee
    and, if there is one, its attested header lies in the period of the store's finalized header after the update
    (so the committee is the one for the following period). -/
theorem next_committee_period (st : Store) (u : Update) (now : Nat) (hv : verify st u now = .ok ())
    (hch : (apply st u).next ≠ st.next) :
    (apply st u).next = u.nextComm ∧ (u.nextComm.isSome → period u.attSlot = period (apply st u).finSlot) := by
  obtain ⟨_, _, hsa, haf, hper, hrel, _, _, _⟩ := verify_sound st u now hv
  have m := stageMax_eff st u
  have o := stageOpt_eff (stageMax st u) u
  have hfin2 : (stageOpt (stageMax st u) u).finSlot = st.finSlot := by rw [o.1, m.1]
  have hnext2 : (stageOpt (stageMax st u) u).next = st.next := by rw [o.2.2.2, m.2.2.2]
  have hpa : period u.attSlot ≤ period u.sigSlot := period_mono (Nat.le_of_lt hsa)
  have hpf : period (finSlotOf u) ≤ period u.attSlot := period_mono haf
  unfold apply at hch ⊢
  simp only at hch ⊢
  generalize stageOpt (stageMax st u) u = s2 at *
  by_cases hs : shouldApply s2 u
  · rw [if_pos hs] at hch ⊢
    have f := stageFin_fin (stageCommittee s2 u) u
    have c := stageCommittee_next s2 u
    rw [f.2.2] at hch ⊢
    rw [f.1, c.1, hfin2]
    rcases c.2 with hsame | ⟨hnew, hwhy⟩
    · exact absurd (hsame.trans hnext2) hch
    · refine ⟨hnew, ?_⟩
      intro _
      rcases hwhy with hnone | hrot
      · -- the store had no next committee: it takes the update's
        have hstn : st.next = none := by rw [← hnext2]; exact hnone
        have hsig : period u.sigSlot = period st.finSlot := by
          rcases hper with h | ⟨h, _⟩
          · exact h
          · simp [hstn] at h
        have hatt : period u.attSlot = period st.finSlot := by
          rcases hrel with h | ⟨_, _, h⟩
          · have := period_mono (Nat.le_of_lt h); omega
          · exact h
        split
        · rename_i hgt
          have h1 : period st.finSlot ≤ period (finSlotOf u) := period_mono (Nat.le_of_lt hgt)
          omega
        · exact hatt
      · -- rotation: the finalized header moves into the next period and so does the store
        rw [hfin2] at hrot
        have hsig : period u.sigSlot ≤ period st.finSlot + 1 := by
          rcases hper with h | ⟨_, h⟩ <;> omega
        have hgt : finSlotOf u > st.finSlot := by
          apply Decidable.byContradiction
          intro hle
          have := period_mono (Nat.le_of_not_gt hle)
          omega
        rw [if_pos hgt]
        omega
  · rw [if_neg hs] at hch
    exact absurd hnext2 hch

/-! ## Merkle branch checks with the code's literal depth / index constants -/

section Branch
variable (H : Nat → Nat → Nat)

/-- zrnt `merkle.VerifyMerkleBranch(leaf, branch, depth, index, root)`: folds the first `depth` nodes -/
def branchOk (depth index : Nat) (leaf : Nat) (branch : List Nat) (root : Nat) : Bool :=
  Mk.verify H leaf (branch.take depth) index root

/-- `IsFinalityProofValid`: depth 6, index 41 -/
def finalityBranchOk (finalizedHeaderRoot : Nat) (branch : List Nat) (attestedStateRoot : Nat) : Bool :=
  branchOk H 6 41 finalizedHeaderRoot branch attestedStateRoot
/-- `IsNextCommitteeProofValid`: depth 5, index 23 -/
def nextCommitteeBranchOk (committeeRoot : Nat) (branch : List Nat) (attestedStateRoot : Nat) : Bool :=
  branchOk H 5 23 committeeRoot branch attestedStateRoot
/-- `isCurrentCommitteeProofValid`: depth 5, index 22 -/
def currentCommitteeBranchOk (committeeRoot : Nat) (branch : List Nat) (stateRoot : Nat) : Bool :=
  branchOk H 5 22 committeeRoot branch stateRoot

/-- A branch check that passes pins the leaf at the position in EVERY tree that opens the state root —
    or exhibits a hash collision / a leaf chunk that is itself a hash of two chunks. No injectivity axiom. -/
theorem branch_sound (depth index leaf : Nat) (branch : List Nat) (root : Nat) (hl : depth ≤ branch.length)
    (h : branchOk H depth index leaf branch root = true) (T : Mk.Tree) (hT : Mk.root H T = root) :
    (∃ t, Mk.nodeAt T depth index = some t ∧ Mk.root H t = leaf) ∨ Mk.Collision H ∨ Mk.LeafPre H T := by
  unfold branchOk Mk.verify at h
  have hlen : (branch.take depth).length = depth := by simp [List.length_take, Nat.min_eq_left hl]
  have hf : Mk.fold H leaf (branch.take depth) index = Mk.root H T := by
    rw [hT]; exact eq_of_beq h
  have := Mk.sound H depth T leaf (branch.take depth) index hlen hf
  rw [hlen] at this
  exact this

/-- generalized indices behind the literals: finalized_checkpoint (field 20 of 32) . root (field 1 of 2);
    next / current sync committee = fields 23 / 22 of the 32-leaf state container (Altair … Deneb) -/
theorem gindex_facts :
    2 ^ 6 + 41 = (2 ^ 5 + 20) * 2 + 1 ∧ 2 ^ 6 + 41 = 105 ∧ 2 ^ 5 + 23 = 55 ∧ 2 ^ 5 + 22 = 54 := by decide

end Branch

/-! ## domain and signing root (`ComputeCommitteeSignRoot`, `ComputeSigningRoot`) over 32-byte values as big-endian Nats -/

section Signing
variable (H : Nat → Nat → Nat)

/-- SSZ chunk of a little-endian uint64, read as a big-endian 256-bit number -/
def u64Chunk (v : Nat) : Nat :=
  (List.range 8).foldl (fun acc i => acc + ((v / 256 ^ i) % 256) * 256 ^ (31 - i)) 0

/-- chunk of a 4-byte fork version (given as big-endian number of its 4 bytes) -/
def versionChunk (fv : Nat) : Nat := fv * 256 ^ 28

/-- DOMAIN_SYNC_COMMITTEE (07000000) ++ first 28 bytes of the fork data root -/
def domain (forkVersion genesisRoot : Nat) : Nat :=
  7 * 256 ^ 31 + (H (versionChunk forkVersion) genesisRoot) / 256 ^ 4

/-- hash_tree_root(BeaconBlockHeader) -/
def headerRoot (slot proposer parent state body : Nat) : Nat :=
  H (H (H (u64Chunk slot) (u64Chunk proposer)) (H parent state)) (H (H body 0) (H 0 0))

def signingRoot (hdrRoot forkVersion genesisRoot : Nat) : Nat := H hdrRoot (domain H forkVersion genesisRoot)

/-- hash_tree_root(LightClientHeader{beacon, execution, execution_branch}) -/
def containerRootOf (beaconRoot execRoot execBranchRoot : Nat) : Nat := H (H beaconRoot execRoot) (H execBranchRoot 0)

end Signing

example : u64Chunk 1 = 256 ^ 31 := by decide
example : u64Chunk 258 = 2 * 256 ^ 31 + 256 ^ 30 := by decide

#print axioms verify_eq_first_violated
#print axioms run_inv
#print axioms run_change_needs_two_thirds
#print axioms next_committee_period
#print axioms branch_sound
end Lc
