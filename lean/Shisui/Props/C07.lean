import Shisui.Table.Policy2
/-! # C07 — Routing table structural invariants hold after every operation

Model: `Tb` (`portalwire/table.go`, `table_reval.go`). Operations `Tb.Op2`: add (found / inbound / forced live), delete,
revalidation answer (dead / alive / alive with new record), lookup feedback (failure count, found nodes); the random picks
(`rand.Intn` in `deleteInBucket`) are operation parameters, so the theorems hold for every pick. The bucket map `bo` is any
function into `[0,17)`; the driver instantiates it with `bucketAtDistance ∘ LogDist` and checks the real table agrees.
Revalidation *list* bookkeeping (fast/slow slices, activeReq, and the panics guarding them) is not part of the proved
invariant: it is modelled executably in the driver and checked on every snapshot (see DESIGN §5 C07). -/
namespace Props.C07
open Tb

/-- "Whatever sequence of discoveries, inbound contacts, liveness results, record updates, lookup feedback and deletions
    occurs": the invariant holds in every reachable table -/
theorem inv_reachable (bo : Nat → Nat) (hbo : ∀ id, bo id < nBuckets) (me : Nat) (ops : List Op2)
    (hw : ∀ op ∈ ops, op.wf) : Inv bo (ops.foldl (step2 bo) (emptyTable me)) := Tb.inv_reachable2 bo hbo me ops hw

/-- what the invariant says, in the words of the property: "no bucket holds more than 16 entries or 10 replacements; a
    node id appears at most once in the whole table and the local node never; every node sits in the bucket for its
    log-distance; among non-LAN addresses no bucket holds more than 2 and the table no more than 10 nodes from one /24" -/
theorem inv_meaning (bo : Nat → Nat) (t : Table) (h : Inv bo t) (i : Nat) :
    (t.bkt i).entries.length ≤ 16 ∧ (t.bkt i).reps.length ≤ 10 ∧
    (∀ n ∈ (t.bkt i).entries ++ (t.bkt i).reps, bo n.r.id = i ∧ n.r.id ≠ t.self) ∧
    (((t.bkt i).entries ++ (t.bkt i).reps).map (·.r.id)).Nodup ∧
    (∀ s, real ((t.bkt i).entries ++ (t.bkt i).reps) s ≤ 2) ∧ (∀ s, sumReal t s ≤ 10) := Tb.inv_meaning bo t h i

/-- table-wide uniqueness: a node id found in two buckets is in the same bucket (placement) and there only once -/
theorem id_unique_table (bo : Nat → Nat) (t : Table) (h : Inv bo t) (i j : Nat) (a b : TNode)
    (ha : a ∈ (t.bkt i).entries ++ (t.bkt i).reps) (hb : b ∈ (t.bkt j).entries ++ (t.bkt j).reps)
    (hid : a.r.id = b.r.id) : i = j := by
  have h1 := ((h.b i).place a ha).1
  have h2 := ((h.b j).place b hb).1
  rw [← h1, ← h2, hid]

/-- one step from any table satisfying the invariant (the form used for tables not built from scratch) -/
theorem inv_step (bo : Nat → Nat) (hbo : ∀ id, bo id < nBuckets) (t : Table) (op : Op2) (hw : op.wf) (h : Inv bo t) :
    Inv bo (step2 bo t op) := Tb.step2_inv bo hbo t op hw h

-- non-vacuity: a reachable table with one entry
example : ((step2 (fun _ => 3) (emptyTable 0)
    (.add { id := 7, addr := { subnet := 5, host := 1, lan := false, valid := true }, port := 1, seq := 1 } false true)).bkt 3).entries.length = 1 := by
  decide

#print axioms inv_reachable
#print axioms inv_meaning
#print axioms id_unique_table
#print axioms inv_step
end Props.C07
